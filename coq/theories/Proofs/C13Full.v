(* C13 (scheduling), history level.
   (1) strict priority holds on every read of every run of the sender model that starts from
       [init_st] with strictly ascending queue keys and in which no object is added under the TOI
       of an object the sender still holds ([ops_fresh]);
   (2) the start/stop events logged by the model during one read pass the event predicate
       [P_C13_events] (FIFO admission inside a queue, multiplex bound), provided in addition no
       object is added under TOI 0 ([ops_nz]).
   The proof goes through an ownership invariant of the object ids ([OWN], [INV], [Inv]) that
   [init_st] establishes and every operation preserves, an inversion of one run of a file session
   ([file_run]), and a description of a read as a path of session visits ([vstep], [qpath]).
   Parts: A frames and inversion - B ownership on plain lists - C the invariant and its
   preservation by sessions - D reads as paths, [Inv] - E/F strict priority - G operations and
   the trace theorem - H/I events - J the event log is irrelevant - K final statements. *)
From FluteV Require Import Model.SenderCtl Spec.SenderSpec Proofs.SenderProofs.
From Coq Require Import Lia Permutation Sorted.
Open Scope N_scope.

Arguments N.add : simpl never. Arguments N.mul : simpl never. Arguments N.sub : simpl never.
Arguments N.eqb : simpl never. Arguments N.ltb : simpl never. Arguments N.leb : simpl never.
Arguments Z.add : simpl never. Arguments Z.sub : simpl never. Arguments Z.mul : simpl never.
Arguments Z.ltb : simpl never. Arguments Z.leb : simpl never. Arguments Z.max : simpl never.

(* ============================== part A ============================== *)
(* C13, history level: part A - frames, inversion of one session run *)


(* ---------- lists ---------- *)
Lemma upd_nth_oob {A} (F : A -> A) : forall l i, (length l <= i)%nat -> upd_nth i F l = l.
Proof.
  induction l as [|x l IH]; intros [|i] H; cbn in *; try reflexivity; try lia.
  f_equal. apply IH. lia.
Qed.

Lemma nth_upd_nth_eq {A} (F : A -> A) d : forall l i, (i < length l)%nat ->
  nth i (upd_nth i F l) d = F (nth i l d).
Proof.
  induction l as [|x l IH]; intros [|i] H; cbn in *; try reflexivity; try lia.
  apply IH. lia.
Qed.

Lemma nth_upd_nth_neq {A} (F : A -> A) d : forall l i j, i <> j ->
  nth j (upd_nth i F l) d = nth j l d.
Proof.
  induction l as [|x l IH]; intros [|i] [|j] H; cbn in *; try reflexivity; try lia.
  apply IH. lia.
Qed.

Lemma upd_nth_app_mid {A} (F : A -> A) : forall (a : list A) x b,
  upd_nth (length a) F (a ++ x :: b) = a ++ F x :: b.
Proof. induction a as [|y a IH]; intros x b; cbn; [reflexivity|]. f_equal. apply IH. Qed.

Lemma nth_error_split_at {A} : forall (l : list A) i x, nth_error l i = Some x ->
  exists a b, l = a ++ x :: b /\ length a = i.
Proof.
  induction l as [|y l IH]; intros [|i] x H; cbn in H; try discriminate.
  - inversion H; subst. exists [], l. split; reflexivity.
  - destruct (IH _ _ H) as (a & b & -> & <-). exists (y :: a), b. split; reflexivity.
Qed.

Section A.
  Variable fdt_npk : N -> nat.
  Variable fdt_ok : N -> bool.
  Variable divf : Z -> N -> option Z.

  Notation srun := (session_run fdt_npk fdt_ok divf).
  Notation gnft := (get_next_file_transfer fdt_npk fdt_ok divf).
  Notation publ := (publish fdt_npk fdt_ok).

  Lemma find_remove_none p l : find_remove p l = None -> forall x, In x l -> p x = false.
  Proof.
    induction l as [|y l IH]; intros H x Hx; [destruct Hx|]. cbn in H.
    destruct (p y) eqn:E; [discriminate|].
    destruct (find_remove p l) as [[z r]|]; [discriminate|].
    destruct Hx as [<-|Hx]; [assumption|apply IH; [reflexivity|assumption]].
  Qed.

  (* ---------- obj after updates ---------- *)
  Lemma obj_upd_t_o t id g j : f_o (obj (upd_t t id g) j) = f_o (obj t j).
  Proof.
    unfold obj, upd_t. cbn [objs set_objs].
    destruct (Nat.eq_dec id j) as [->|Hn]; [|rewrite nth_upd_nth_neq by assumption; reflexivity].
    destruct (Nat.lt_ge_cases j (length (objs t))) as [Hl|Hl].
    - rewrite nth_upd_nth_eq by assumption. reflexivity.
    - rewrite upd_nth_oob by assumption. reflexivity.
  Qed.

  Lemma obj_upd_t_pub t id g j : f_pub (obj (upd_t t id g) j) = f_pub (obj t j).
  Proof.
    unfold obj, upd_t. cbn [objs set_objs].
    destruct (Nat.eq_dec id j) as [->|Hn]; [|rewrite nth_upd_nth_neq by assumption; reflexivity].
    destruct (Nat.lt_ge_cases j (length (objs t))) as [Hl|Hl].
    - rewrite nth_upd_nth_eq by assumption. reflexivity.
    - rewrite upd_nth_oob by assumption. reflexivity.
  Qed.

  Lemma obj_upd_t_other t id g j : id <> j -> obj (upd_t t id g) j = obj t j.
  Proof. intros H. unfold obj, upd_t. cbn [objs set_objs]. apply nth_upd_nth_neq. assumption. Qed.

  Lemma obj_upd_t_same t id g : (id < length (objs t))%nat ->
    f_t (obj (upd_t t id g) id) = g (f_t (obj t id)).
  Proof. intros H. unfold obj, upd_t. cbn [objs set_objs]. rewrite nth_upd_nth_eq by assumption. reflexivity. Qed.

  Lemma upd_t_oob t id g : (length (objs t) <= id)%nat -> upd_t t id g = t.
  Proof. intros H. unfold upd_t. rewrite upd_nth_oob by assumption. destruct t; reflexivity. Qed.

  Lemma len_upd_t t id g : length (objs (upd_t t id g)) = length (objs t).
  Proof. unfold upd_t. cbn [objs set_objs]. apply upd_nth_length. Qed.

  Lemma toi_of_upd_t t id g j : toi_of (upd_t t id g) j = toi_of t j.
  Proof. unfold toi_of. rewrite obj_upd_t_o. reflexivity. Qed.

  (* f_t of any object after upd_t, through a predicate preserved by g *)
  Lemma obj_upd_t_t_cases t id g j :
    f_t (obj (upd_t t id g) j) = f_t (obj t j)
    \/ (j = id /\ (id < length (objs t))%nat /\ f_t (obj (upd_t t id g) j) = g (f_t (obj t id))).
  Proof.
    destruct (Nat.eq_dec id j) as [<-|Hn].
    - destruct (Nat.lt_ge_cases id (length (objs t))) as [Hl|Hl].
      + right. repeat split; [assumption|]. apply obj_upd_t_same. assumption.
      + left. rewrite upd_t_oob by assumption. reflexivity.
    - left. rewrite obj_upd_t_other by assumption. reflexivity.
  Qed.

  (* ---------- publish ---------- *)
  Lemma fold_set_pub_len : forall fl ob, length (fold_left (fun ob fid => upd_nth fid set_pub ob) fl ob) = length ob.
  Proof. induction fl as [|x fl IH]; intros ob; cbn [fold_left]; [reflexivity|]. rewrite IH. apply upd_nth_length. Qed.

  Lemma nth_set_pub ob fid j :
    f_o (nth j (upd_nth fid set_pub ob) dummy_f) = f_o (nth j ob dummy_f)
    /\ f_t (nth j (upd_nth fid set_pub ob) dummy_f) = f_t (nth j ob dummy_f)
    /\ (f_pub (nth j ob dummy_f) = true -> f_pub (nth j (upd_nth fid set_pub ob) dummy_f) = true).
  Proof.
    destruct (Nat.eq_dec fid j) as [->|Hn]; [|rewrite nth_upd_nth_neq by assumption; auto].
    destruct (Nat.lt_ge_cases j (length ob)) as [Hl|Hl].
    - rewrite nth_upd_nth_eq by assumption. cbn. auto.
    - rewrite upd_nth_oob by assumption. auto.
  Qed.

  Lemma fold_set_pub_nth : forall fl ob j,
    let ob' := fold_left (fun ob fid => upd_nth fid set_pub ob) fl ob in
    f_o (nth j ob' dummy_f) = f_o (nth j ob dummy_f)
    /\ f_t (nth j ob' dummy_f) = f_t (nth j ob dummy_f)
    /\ (f_pub (nth j ob dummy_f) = true -> f_pub (nth j ob' dummy_f) = true).
  Proof.
    induction fl as [|x fl IH]; intros ob j; cbn [fold_left]; [auto|].
    destruct (IH (upd_nth x set_pub ob) j) as (A & B & C).
    destruct (nth_set_pub ob x j) as (A' & B' & C').
    cbv zeta. rewrite A, B. repeat split; auto.
  Qed.

  (* effect of publish on the state: [objs] grows by one FDT object, file objects keep f_o/f_t *)
  Definition fdt_obj (t : st) : odesc :=
    mk_odesc 0 0 (fdt_npk (fdtid t)) 0 1 (fdt_car t) TNone false (Some (fdtid t))
             (map (toi_of t) (if full_fdt t then files t
                              else filter (fun id => t_transferring (f_t (obj t id))) (files t))).

  Definition pub_st (now : Z) (t : st) : st :=
    mk_st (fold_left (fun ob fid => upd_nth fid set_pub ob) (files t) (objs t ++ [mk_fdesc (fdt_obj t) true dummy_t]))
          (files t) (queue t) (fdtq t ++ [length (objs t)]) (cur_fdt t) (complete t)
          ((fdtid t + 1) mod 1048576) (Some now) (full_fdt t) (fdt_duration t) (fdt_car t)
          (fdt_session t) (squeues t) (evlog t).

  Lemma publish_ok_eq now t : fdt_ok (fdtid t) = true -> publ now t = (true, pub_st now t).
  Proof. intros H. unfold publish. rewrite H. reflexivity. Qed.

  Lemma pub_st_objs now t :
    length (objs (pub_st now t)) = S (length (objs t))
    /\ (forall j, (j < length (objs t))%nat ->
          f_o (obj (pub_st now t) j) = f_o (obj t j) /\ f_t (obj (pub_st now t) j) = f_t (obj t j)
          /\ (f_pub (obj t j) = true -> f_pub (obj (pub_st now t) j) = true))
    /\ f_o (obj (pub_st now t) (length (objs t))) = fdt_obj t
    /\ f_t (obj (pub_st now t) (length (objs t))) = dummy_t.
  Proof.
    unfold pub_st, obj. cbn [objs].
    set (ob := objs t ++ [mk_fdesc (fdt_obj t) true dummy_t]).
    split; [rewrite fold_set_pub_len; unfold ob; rewrite app_length; cbn; lia|].
    split; [|split].
    - intros j Hj. destruct (fold_set_pub_nth (files t) ob j) as (A & B & C). cbv zeta in A, B, C.
      rewrite A, B. unfold ob. rewrite app_nth1 by assumption. repeat split.
      intros H. apply C. unfold ob. rewrite app_nth1 by assumption. exact H.
    - destruct (fold_set_pub_nth (files t) ob (length (objs t))) as (A & B & C). cbv zeta in A.
      rewrite A. unfold ob. rewrite app_nth2 by lia. rewrite Nat.sub_diag. reflexivity.
    - destruct (fold_set_pub_nth (files t) ob (length (objs t))) as (A & B & C). cbv zeta in B.
      rewrite B. unfold ob. rewrite app_nth2 by lia. rewrite Nat.sub_diag. reflexivity.
  Qed.

  Lemma publish_fail now t : fdt_ok (fdtid t) = false -> publ now t = (false, t).
  Proof. intros H. unfold publish. rewrite H. reflexivity. Qed.

  (* ---------- should_transfer_now depends on f_o, f_t and (full mode) f_pub ---------- *)
  Lemma stn_congr f g prio full now :
    f_o f = f_o g -> f_t f = f_t g -> (full = true -> f_pub f = f_pub g) ->
    should_transfer_now f prio full now = should_transfer_now g prio full now.
  Proof.
    intros Ho Ht Hp. unfold should_transfer_now. rewrite Ho, Ht.
    destruct full; [rewrite Hp by reflexivity|]; reflexivity.
  Qed.

  Lemma stn_mono f g prio full now :
    f_o f = f_o g -> f_t f = f_t g -> (f_pub f = true -> f_pub g = true) ->
    should_transfer_now f prio full now = true -> should_transfer_now g prio full now = true.
  Proof.
    intros Ho Ht Hp. unfold should_transfer_now. rewrite Ho, Ht.
    destruct (negb (o_prio (f_o g) =? prio)); [auto|].
    destruct full; cbn [andb]; [|auto].
    destruct (f_pub f); cbn [negb]; [rewrite Hp by reflexivity; auto|discriminate].
  Qed.

  Lemma stn_prio f prio full now : should_transfer_now f prio full now = true -> o_prio (f_o f) = prio.
  Proof.
    unfold should_transfer_now. destruct (N.eqb_spec (o_prio (f_o f)) prio); [auto|discriminate].
  Qed.

  Lemma stn_not_transferring f prio full now :
    should_transfer_now f prio full now = true -> t_transferring (f_t f) = false.
  Proof.
    unfold should_transfer_now.
    destruct (negb (o_prio (f_o f) =? prio)); [discriminate|].
    destruct (full && negb (f_pub f)); [discriminate|].
    destruct (match t_start_time (f_t f) with Some stt => (now <? stt)%Z | None => false end); [discriminate|].
    destruct (t_transferring (f_t f)); [discriminate|reflexivity].
  Qed.

  (* ---------- the encoder ---------- *)
  Lemma enc_has_packet_read e force : enc_has_packet e = true -> exists c e', enc_read force e = (Some c, e').
  Proof.
    unfold enc_has_packet, enc_read. intros H. apply andb_true_iff in H. destruct H as [H1 H2].
    destruct (e_stopped e); [discriminate|].
    destruct (e_left e) as [|l]; [|eauto].
    cbn in H2. destruct (e_sent e =? 0); [eauto|discriminate].
  Qed.

  Lemma enc_no_packet_read e force : enc_has_packet e = false -> exists e', enc_read force e = (None, e').
  Proof.
    unfold enc_has_packet, enc_read. intros H.
    destruct (e_stopped e); [eauto|]. cbn [negb andb] in H.
    destruct (e_left e) as [|l]; [|discriminate].
    cbn in H. destruct (e_sent e =? 0); [discriminate|eauto].
  Qed.

  Lemma enc_read_some_has e force c e' : enc_read force e = (Some c, e') -> enc_has_packet e = true.
  Proof.
    intros H. destruct (enc_has_packet e) eqn:E; [reflexivity|].
    destruct (enc_no_packet_read e force E) as [e'' H']. congruence.
  Qed.

  Definition fresh_enc (t : st) (id : nat) : enc :=
    mk_enc (o_npk (f_o (obj t id))) 0 false (is_last_transfer (obj t id)).

  Lemma fresh_enc_has t id : enc_has_packet (fresh_enc t id) = true.
  Proof. unfold enc_has_packet, fresh_enc. cbn. apply orb_true_r. Qed.

  (* ---------- get_next_file_transfer ---------- *)
  Definition maybe_publish (now : Z) (t : st) : st := if full_fdt t then t else snd (publ now t).

  Lemma gnft_some prio now t id t' :
    gnft prio now t = ROk _ (Some id, t') ->
    exists ahead rest ti,
      queue t = ahead ++ id :: rest
      /\ should_transfer_now (obj t id) prio (full_fdt t) now = true
      /\ (forall y, In y ahead -> should_transfer_now (obj t y) prio (full_fdt t) now = false)
      /\ t_init divf (f_o (obj t id)) now (f_t (obj t id)) = Some ti
      /\ t' = maybe_publish now (upd_t (log_ev (set_queue t (ahead ++ rest)) (EvStart (toi_of t id))) id (fun _ => ti)).
  Proof.
    unfold get_next_file_transfer. intros H.
    destruct (find_remove _ (queue t)) as [[x q']|] eqn:E; [|inversion H].
    apply find_remove_first in E. destruct E as (a & b & Ea & Eb & Px & Pa).
    unfold transfer_started in H.
    change (obj (log_ev (set_queue t q') (EvStart (toi_of t x))) x) with (obj t x) in H.
    destruct (t_init divf (f_o (obj t x)) now (f_t (obj t x))) as [ti|] eqn:T; [|discriminate].
    inversion H; subst id t' q'. exists a, b, ti. repeat split; assumption.
  Qed.

  Lemma gnft_none prio now t t' :
    gnft prio now t = ROk _ (None, t') ->
    t' = t /\ forall y, In y (queue t) -> should_transfer_now (obj t y) prio (full_fdt t) now = false.
  Proof.
    unfold get_next_file_transfer. intros H.
    destruct (find_remove _ (queue t)) as [[x q']|] eqn:E.
    - destruct (transfer_started _ _ _ _); discriminate.
    - inversion H; subst. split; [reflexivity|]. apply (find_remove_none _ _ E).
  Qed.

  Lemma gnft_ready_not_none prio now t y :
    In y (queue t) -> should_transfer_now (obj t y) prio (full_fdt t) now = true ->
    forall t', gnft prio now t <> ROk _ (None, t').
  Proof.
    intros Hy Hs t' H. apply gnft_none in H. destruct H as [_ H]. rewrite (H y Hy) in Hs. discriminate.
  Qed.

  (* ---------- one run of a file session ---------- *)
  Definition empty_of (ss : session) : session := mk_session (ss_prio ss) (ss_fdt_only ss) None None.
  Definition loaded (ss : session) (id : nat) (e : enc) : session :=
    mk_session (ss_prio ss) (ss_fdt_only ss) (Some id) (Some e).
  Definition paced (now : Z) (t : st) (id : nat) : bool :=
    match t_next_ts (f_t (obj t id)) with Some ts => (now <? ts)%Z | None => false end.
  Definition must_stop_of (ss : session) (t : st) (id : nat) : bool :=
    negb (ss_fdt_only ss) && can_be_stopped (obj t id) && negb (is_added t (o_toi (f_o (obj t id)))).
  Definition out_of (t : st) (id : nat) (close : bool) : rout :=
    match o_fdtid (f_o (obj t id)) with
    | Some fid => RFdt fid close
    | None => RObj (o_toi (f_o (obj t id))) close
    end.

  Inductive fresh_run (now : Z) (ss0 : session) (t0 : st) : rout -> session -> st -> Prop :=
  | FrPanic : gnft (ss_prio ss0) now t0 = RPanicked _ -> fresh_run now ss0 t0 RPanic ss0 t0
  | FrIdle : gnft (ss_prio ss0) now t0 = ROk _ (None, t0) -> fresh_run now ss0 t0 RNothing (empty_of ss0) t0
  | FrStartWait id t1 :
      gnft (ss_prio ss0) now t0 = ROk _ (Some id, t1) ->
      fdtq t1 <> [] \/ paced now t1 id = true ->
      fresh_run now ss0 t0 RNothing (loaded ss0 id (fresh_enc t1 id)) t1
  | FrStartEmit id t1 c e' :
      gnft (ss_prio ss0) now t0 = ROk _ (Some id, t1) ->
      fdtq t1 = [] -> paced now t1 id = false ->
      enc_read (must_stop_of ss0 t1 id) (fresh_enc t1 id) = (Some c, e') ->
      fresh_run now ss0 t0 (out_of t1 id c) (loaded ss0 id e') (upd_t t1 id t_tickf).

  Inductive file_run (now : Z) (ss : session) (t : st) : rout -> session -> st -> Prop :=
  | FRWait id e : ss_file ss = Some id -> ss_enc ss = Some e ->
      fdtq t <> [] \/ paced now t id = true -> file_run now ss t RNothing ss t
  | FROdd e : ss_enc ss = Some e -> ss_file ss = None -> file_run now ss t RNothing ss t
  | FREmit id e c e' : ss_file ss = Some id -> ss_enc ss = Some e ->
      fdtq t = [] -> paced now t id = false ->
      enc_read (must_stop_of ss t id) e = (Some c, e') ->
      file_run now ss t (out_of t id c) (loaded ss id e') (upd_t t id t_tickf)
  | FRFresh o ss' t' : ss_enc ss = None -> fresh_run now ss t o ss' t' -> file_run now ss t o ss' t'
  | FRRelease id e e' o ss' t' : ss_file ss = Some id -> ss_enc ss = Some e ->
      fdtq t = [] -> paced now t id = false ->
      enc_read (must_stop_of ss t id) e = (None, e') ->
      fresh_run now (empty_of ss) (transfer_done id now t) o ss' t' ->
      file_run now ss t o ss' t'.

  Lemma fdtq_nil_dec (t : st) : {fdtq t = []} + {fdtq t <> []}.
  Proof. destruct (fdtq t); [left; reflexivity|right; discriminate]. Qed.

  Lemma length_eqb_nil (t : st) : Nat.eqb (length (fdtq t)) 0 = true <-> fdtq t = [].
  Proof. destruct (fdtq t); cbn; split; intros; try reflexivity; discriminate. Qed.

  Lemma loaded_lit ss id e : ss_fdt_only ss = false ->
    mk_session (ss_prio ss) false (Some id) (Some e) = loaded ss id e.
  Proof. intros H. unfold loaded. rewrite H. reflexivity. Qed.
  Lemma empty_lit ss : ss_fdt_only ss = false -> mk_session (ss_prio ss) false None None = empty_of ss.
  Proof. intros H. unfold empty_of. rewrite H. reflexivity. Qed.

  Lemma fresh_run_inv now f ss0 t0 o ss' t' :
    ss_fdt_only ss0 = false -> ss_enc ss0 = None ->
    srun (S f) ss0 now t0 = (o, ss', t') -> fresh_run now ss0 t0 o ss' t'.
  Proof.
    intros Hfo He H. cbn [session_run] in H. rewrite He in H. unfold get_next in H. rewrite Hfo in H.
    destruct (gnft (ss_prio ss0) now t0) as [[[id|] t1]|] eqn:G.
    - (* started *)
      cbn [ss_fdt_only ss_enc ss_file negb andb] in H.
      rewrite (loaded_lit ss0 _ _ Hfo) in H.
      destruct (fdtq_nil_dec t1) as [Hq|Hq].
      + assert (Hl : Nat.eqb (length (fdtq t1)) 0 = true) by (apply length_eqb_nil; assumption).
        rewrite Hl in H. cbn [negb] in H.
        fold (paced now t1 id) in H. destruct (paced now t1 id) eqn:Hp.
        * inversion H; subst. eapply FrStartWait; eauto.
        * fold (fresh_enc t1 id) in H.
          destruct (enc_has_packet_read (fresh_enc t1 id)
                      (can_be_stopped (obj t1 id) && negb (is_added t1 (o_toi (f_o (obj t1 id)))))
                      (fresh_enc_has t1 id)) as (c & e' & Er).
          rewrite Er in H. rewrite (loaded_lit ss0 _ _ Hfo) in H. inversion H; subst.
          eapply FrStartEmit; eauto. unfold must_stop_of. rewrite Hfo. exact Er.
      + assert (Hl : Nat.eqb (length (fdtq t1)) 0 = false).
        { destruct (Nat.eqb (length (fdtq t1)) 0) eqn:E; [|reflexivity]. apply length_eqb_nil in E. contradiction. }
        rewrite Hl in H. cbn [negb] in H. inversion H; subst.
        eapply FrStartWait; eauto.
    - (* nothing to start *)
      assert (t1 = t0) by (apply gnft_none in G; tauto). subst t1.
      cbn [ss_fdt_only ss_enc ss_file negb andb] in H. rewrite (empty_lit ss0 Hfo) in H.
      destruct (negb (Nat.eqb (length (fdtq t0)) 0)); inversion H; subst; apply FrIdle; assumption.
    - inversion H; subst. apply FrPanic. assumption.
  Qed.

  Lemma file_run_inv now f ss t o ss' t' :
    ss_fdt_only ss = false ->
    srun (S (S f)) ss now t = (o, ss', t') -> file_run now ss t o ss' t'.
  Proof.
    intros Hfo H. destruct (ss_enc ss) as [e|] eqn:He.
    2:{ apply FRFresh; [assumption|]. eapply fresh_run_inv; eauto. }
    remember (S f) as f1 eqn:Ef1. cbn [session_run] in H. rewrite He in H. rewrite Hfo, He in H. cbn [negb andb] in H.
    destruct (fdtq_nil_dec t) as [Hq|Hq].
    - assert (Hl : Nat.eqb (length (fdtq t)) 0 = true) by (apply length_eqb_nil; assumption).
      rewrite Hl in H. cbn [negb] in H.
      destruct (ss_file ss) as [id|] eqn:Hf; [|inversion H; subst; eapply FROdd; eauto].
      fold (paced now t id) in H. destruct (paced now t id) eqn:Hp.
      + inversion H; subst. eapply FRWait; eauto.
      + destruct (enc_read (can_be_stopped (obj t id) && negb (is_added t (o_toi (f_o (obj t id))))) e)
          as [[c|] e'] eqn:Er.
        * rewrite (loaded_lit ss _ _ Hfo) in H. inversion H; subst.
          eapply FREmit; eauto. unfold must_stop_of. rewrite Hfo. exact Er.
        * eapply FRRelease; eauto.
          { unfold must_stop_of. rewrite Hfo. exact Er. }
          subst f1. rewrite (empty_lit ss Hfo) in H.
          eapply (fresh_run_inv now f); [exact Hfo|reflexivity|exact H].
    - assert (Hl : Nat.eqb (length (fdtq t)) 0 = false).
      { destruct (Nat.eqb (length (fdtq t)) 0) eqn:E; [|reflexivity]. apply length_eqb_nil in E. contradiction. }
      rewrite Hl in H. cbn [negb] in H. inversion H; subst.
      destruct (ss_file ss') as [id|] eqn:Hf; [eapply FRWait; eauto|eapply FROdd; eauto].
  Qed.
End A.

(* ============================== part B ============================== *)
(* C13, history level: part B - the ownership invariant, on plain lists *)

Definition opt_list {A} (o : option A) : list A := match o with Some x => [x] | None => [] end.

Lemma NoDup_map_drop {A B} (f : A -> B) a x b : NoDup (map f (a ++ x :: b)) -> NoDup (map f (a ++ b)).
Proof. rewrite !map_app. cbn [map]. apply NoDup_remove_1. Qed.

Lemma NoDup_map_app_filter {A B} (f : A -> B) p : forall q a,
  NoDup (map f (a ++ q)) -> NoDup (map f (a ++ filter p q)).
Proof.
  induction q as [|x q IH]; intros a H; cbn [filter]; [assumption|].
  replace (a ++ x :: q) with ((a ++ [x]) ++ q) in H by (rewrite <- app_assoc; reflexivity).
  apply IH in H. destruct (p x).
  - rewrite <- app_assoc in H. exact H.
  - rewrite <- app_assoc in H. cbn [app] in H. eapply NoDup_map_drop. exact H.
Qed.

Lemma NoDup_map_perm {A B} (f : A -> B) l l' : Permutation l l' -> NoDup (map f l) -> NoDup (map f l').
Proof. intros P H. eapply Permutation_NoDup; [apply Permutation_map; exact P|exact H]. Qed.

Lemma NoDup_map_inj_in {A B} (f : A -> B) : forall l x y,
  NoDup (map f l) -> In x l -> In y l -> f x = f y -> x = y.
Proof.
  induction l as [|z l IH]; intros x y H Hx Hy E; [destruct Hx|].
  cbn [map] in H. apply NoDup_cons_iff in H. destruct H as [Hn H].
  destruct Hx as [<-|Hx], Hy as [<-|Hy]; try reflexivity.
  - exfalso. apply Hn. rewrite E. apply in_map. assumption.
  - exfalso. apply Hn. rewrite <- E. apply in_map. assumption.
  - eapply IH; eauto.
Qed.

Lemma NoDup_map_NoDup {A B} (f : A -> B) : forall l, NoDup (map f l) -> NoDup l.
Proof.
  induction l as [|z l IH]; intros H; [constructor|].
  cbn [map] in H. apply NoDup_cons_iff in H. destruct H as [Hn H].
  constructor; [|auto]. intros Hz. apply Hn. apply in_map. assumption.
Qed.

(* ---------- ownership of the object ids ----------
   S: the transmission slots that hold an object (id, priority key of the session);
   Q: the waiting list; F: Fdt.files; D: queued and current FDT instances;
   fsf: the object of the FDT session; n: number of objects ever created;
   fo j / tr j: description / transferring flag of object j. *)
Lemma ids_mid (S1 S2 : list (nat * N)) id p : map fst (S1 ++ (id, p) :: S2) = map fst S1 ++ id :: map fst S2.
Proof. rewrite map_app. reflexivity. Qed.
Lemma ids_app (S1 S2 : list (nat * N)) : map fst (S1 ++ S2) = map fst S1 ++ map fst S2.
Proof. apply map_app. Qed.

Section Own.
  Definition fdtlike (o : odesc) : Prop := o_fdtid o <> None /\ o_toi o = 0.

  Record OWN (S : list (nat * N)) (Q F D : list nat) (fsf : option nat) (n : nat)
             (fo : nat -> odesc) (tr : nat -> bool) : Prop := mk_OWN {
    own_toi : NoDup (map (fun j => o_toi (fo j)) (map fst S ++ Q));
    own_bound : forall j, In j (map fst S ++ Q) -> (j < n)%nat;
    own_files : forall j, In j F -> (j < n)%nat;
    own_fdt : forall j, In j (D ++ opt_list fsf) ->
                (j < n)%nat /\ fdtlike (fo j) /\ ~ In j (map fst S ++ Q);
    own_slot_tr : forall j, In j (map fst S) -> tr j = true;
    own_tr : forall j, (j < n)%nat -> tr j = true -> In j (map fst S) \/ fsf = Some j;
    own_prio : forall j p, In (j, p) S -> o_prio (fo j) = p
  }.

  Lemma own_nodup S Q F D fsf n fo tr : OWN S Q F D fsf n fo tr -> NoDup (map fst S ++ Q).
  Proof. intros H. eapply NoDup_map_NoDup. apply (own_toi _ _ _ _ _ _ _ _ H). Qed.

  Lemma own_ext S Q F D fsf n fo tr fo' tr' :
    OWN S Q F D fsf n fo tr ->
    (forall j, (j < n)%nat -> fo' j = fo j) -> (forall j, (j < n)%nat -> tr' j = tr j) ->
    OWN S Q F D fsf n fo' tr'.
  Proof.
    intros [H1 H2 H3 H4 H5 H6 H7] Ho Ht. constructor.
    - erewrite map_ext_in; [exact H1|]. intros j Hj. cbv beta. rewrite Ho; auto.
    - assumption.
    - assumption.
    - intros j Hj. destruct (H4 j Hj) as (A & B & C). rewrite Ho by assumption. auto.
    - intros j Hj. rewrite Ht; auto. apply H2. apply in_or_app. left. assumption.
    - intros j Hj Hjt. rewrite Ht in Hjt by assumption. auto.
    - intros j p Hj. rewrite Ho; [auto|]. apply H2. apply in_or_app. left.
      change j with (fst (j, p)). apply in_map. assumption.
  Qed.

  Lemma own_shrink_fdt S Q F D fsf n fo tr F' D' :
    OWN S Q F D fsf n fo tr -> incl F' F -> incl D' D -> OWN S Q F' D' fsf n fo tr.
  Proof.
    intros [H1 H2 H3 H4 H5 H6 H7] HF HD. constructor; auto.
    intros j Hj. apply H4. apply in_app_or in Hj. apply in_or_app. destruct Hj; auto.
  Qed.

  (* a slot releases its object, which leaves the system *)
  Lemma own_release_drop S1 id p S2 Q F D fsf n fo tr :
    OWN (S1 ++ (id, p) :: S2) Q F D fsf n fo tr ->
    OWN (S1 ++ S2) Q F D fsf n fo (fun j => if Nat.eqb j id then false else tr j).
  Proof.
    intros H. pose proof (own_nodup _ _ _ _ _ _ _ _ H) as Hnd.
    destruct H as [H1 H2 H3 H4 H5 H6 H7].
    rewrite ?ids_mid, ?ids_app in *. rewrite <- ?app_assoc in *. cbn [app] in *.
    assert (Hsub : forall j, In j (map fst S1 ++ map fst S2 ++ Q) -> In j (map fst S1 ++ id :: map fst S2 ++ Q) /\ j <> id).
    { intros j Hj. split.
      - apply in_app_or in Hj. apply in_or_app. destruct Hj; [left|right; right]; assumption.
      - intros ->. apply NoDup_remove_2 in Hnd. contradiction. }
    constructor; rewrite ?ids_mid, ?ids_app, <- ?app_assoc; cbn [app].
    - eapply NoDup_map_drop. exact H1.
    - intros j Hj. apply H2. apply Hsub. assumption.
    - assumption.
    - intros j Hj. destruct (H4 j Hj) as (A & B & C). split; [assumption|split; [assumption|]].
      intros Hc. apply C. apply Hsub. assumption.
    - intros j Hj.
      assert (Hj' : In j (map fst S1 ++ map fst S2 ++ Q)).
      { rewrite app_assoc. apply in_or_app. left. assumption. }
      destruct (Hsub j Hj') as [Hin Hne]. apply Nat.eqb_neq in Hne. rewrite Hne. apply H5.
      apply in_app_or in Hj. apply in_or_app. destruct Hj; [left|right; right]; assumption.
    - intros j Hj Ht. destruct (Nat.eqb_spec j id) as [->|Hne]; [discriminate|].
      destruct (H6 j Hj Ht) as [Hin|Hf]; [left|right; assumption].
      apply in_app_or in Hin. apply in_or_app. destruct Hin as [Hin|[Hin|Hin]]; auto. congruence.
    - intros j q Hj. apply H7. apply in_app_or in Hj. apply in_or_app. destruct Hj; [left|right; right]; assumption.
  Qed.

  (* a slot releases its object, which goes to the back of the waiting list *)
  Lemma own_release_requeue S1 id p S2 Q F D fsf n fo tr :
    OWN (S1 ++ (id, p) :: S2) Q F D fsf n fo tr ->
    OWN (S1 ++ S2) (Q ++ [id]) F D fsf n fo (fun j => if Nat.eqb j id then false else tr j).
  Proof.
    intros H. pose proof (own_nodup _ _ _ _ _ _ _ _ H) as Hnd.
    destruct H as [H1 H2 H3 H4 H5 H6 H7].
    rewrite ?ids_mid, ?ids_app in *. rewrite <- ?app_assoc in *. cbn [app] in *.
    assert (P : Permutation (map fst S1 ++ id :: map fst S2 ++ Q) (map fst S1 ++ map fst S2 ++ Q ++ [id])).
    { apply Permutation_app_head. rewrite app_assoc.
      change (id :: map fst S2 ++ Q) with ([id] ++ (map fst S2 ++ Q)). apply Permutation_app_comm. }
    assert (Hiff : forall j, In j (map fst S1 ++ map fst S2 ++ Q ++ [id]) <-> In j (map fst S1 ++ id :: map fst S2 ++ Q)).
    { intros j. split; intros Hj; [eapply Permutation_in; [symmetry; exact P|exact Hj]|eapply Permutation_in; [exact P|exact Hj]]. }
    assert (Hslot : forall j, In j (map fst S1 ++ map fst S2) -> j <> id).
    { intros j Hj ->. apply NoDup_remove_2 in Hnd. apply Hnd.
      apply in_app_or in Hj. apply in_or_app. destruct Hj; [left; assumption|right].
      apply in_or_app. left. assumption. }
    constructor; rewrite ?ids_mid, ?ids_app, <- ?app_assoc; cbn [app].
    - eapply NoDup_map_perm; [exact P|exact H1].
    - intros j Hj. apply H2. apply Hiff. assumption.
    - assumption.
    - intros j Hj. destruct (H4 j Hj) as (A & B & C). split; [assumption|split; [assumption|]].
      intros Hc. apply C. apply Hiff. assumption.
    - intros j Hj. pose proof (Hslot j Hj) as Hne. apply Nat.eqb_neq in Hne. rewrite Hne. apply H5.
      apply in_app_or in Hj. apply in_or_app. destruct Hj; [left|right; right]; assumption.
    - intros j Hj Ht. destruct (Nat.eqb_spec j id) as [->|Hne]; [discriminate|].
      destruct (H6 j Hj Ht) as [Hin|Hf]; [left|right; assumption].
      apply in_app_or in Hin. apply in_or_app. destruct Hin as [Hin|[Hin|Hin]]; auto. congruence.
    - intros j q Hj. apply H7. apply in_app_or in Hj. apply in_or_app. destruct Hj; [left|right; right]; assumption.
  Qed.

  (* an empty slot takes an object of the waiting list *)
  Lemma own_start S1 S2 a id r p F D fsf n fo tr :
    OWN (S1 ++ S2) (a ++ id :: r) F D fsf n fo tr -> o_prio (fo id) = p ->
    OWN (S1 ++ (id, p) :: S2) (a ++ r) F D fsf n fo (fun j => if Nat.eqb j id then true else tr j).
  Proof.
    intros H Hp. destruct H as [H1 H2 H3 H4 H5 H6 H7].
    rewrite ?ids_mid, ?ids_app in *. rewrite <- ?app_assoc in *. cbn [app] in *.
    assert (P : Permutation (map fst S1 ++ map fst S2 ++ a ++ id :: r) (map fst S1 ++ id :: map fst S2 ++ a ++ r)).
    { apply Permutation_app_head. rewrite !app_assoc. symmetry. apply Permutation_middle. }
    assert (Hiff : forall j, In j (map fst S1 ++ id :: map fst S2 ++ a ++ r) <-> In j (map fst S1 ++ map fst S2 ++ a ++ id :: r)).
    { intros j. split; intros Hj; [eapply Permutation_in; [symmetry; exact P|exact Hj]|eapply Permutation_in; [exact P|exact Hj]]. }
    constructor; rewrite ?ids_mid, ?ids_app, <- ?app_assoc; cbn [app].
    - eapply NoDup_map_perm; [exact P|exact H1].
    - intros j Hj. apply H2. apply Hiff. assumption.
    - assumption.
    - intros j Hj. destruct (H4 j Hj) as (A & B & C). split; [assumption|split; [assumption|]].
      intros Hc. apply C. apply Hiff. assumption.
    - intros j Hj. destruct (Nat.eqb_spec j id) as [->|Hne]; [reflexivity|]. apply H5.
      apply in_app_or in Hj. apply in_or_app. destruct Hj as [Hj|[Hj|Hj]]; auto. congruence.
    - intros j Hj Ht. destruct (Nat.eqb_spec j id) as [->|Hne].
      + left. apply in_or_app. right. left. reflexivity.
      + destruct (H6 j Hj Ht) as [Hin|Hf]; [left|right; assumption].
        apply in_app_or in Hin. apply in_or_app. destruct Hin; [left|right; right]; assumption.
    - intros j q Hj. apply in_app_or in Hj. destruct Hj as [Hj|[Hj|Hj]].
      + apply H7. apply in_or_app. left. assumption.
      + inversion Hj; subst. reflexivity.
      + apply H7. apply in_or_app. right. assumption.
  Qed.

  (* a new object is created (publish: an FDT instance) *)
  Lemma own_new_fdt S Q F D fsf n fo tr fo' tr' D' :
    OWN S Q F D fsf n fo tr ->
    (forall j, (j < n)%nat -> fo' j = fo j) -> (forall j, (j < n)%nat -> tr' j = tr j) ->
    tr' n = false -> fdtlike (fo' n) -> incl D' (n :: D) ->
    OWN S Q F D' fsf (Datatypes.S n) fo' tr'.
  Proof.
    intros H Ho Ht Hn Hl HD. apply (own_ext _ _ _ _ _ _ _ _ fo' tr') in H; [|assumption|assumption].
    destruct H as [H1 H2 H3 H4 H5 H6 H7]. constructor; auto.
    - intros j Hj. apply H2 in Hj. lia.
    - intros j Hj. apply H3 in Hj. lia.
    - intros j Hj. apply in_app_or in Hj.
      assert (Hc : j = n \/ In j (D ++ opt_list fsf)).
      { destruct Hj as [Hj|Hj]; [apply HD in Hj; destruct Hj as [<-|Hj]; [left; reflexivity|right; apply in_or_app; left; assumption]
                               |right; apply in_or_app; right; assumption]. }
      destruct Hc as [->|Hc].
      + split; [lia|split; [exact Hl|]]. intros Hc. apply H2 in Hc. lia.
      + destruct (H4 j Hc) as (A & B & C). split; [lia|split; [exact B|exact C]].
    - intros j Hj Hjt. assert (j = n \/ (j < n)%nat) as [->|Hlt] by lia; [congruence|auto].
  Qed.

  (* a new object is created and appended to the waiting list (add_object) *)
  Lemma own_add S Q F D fsf n fo tr fo' tr' :
    OWN S Q F D fsf n fo tr ->
    (forall j, (j < n)%nat -> fo' j = fo j) -> (forall j, (j < n)%nat -> tr' j = tr j) ->
    tr' n = false -> ~ In (o_toi (fo' n)) (map (fun j => o_toi (fo j)) (map fst S ++ Q)) ->
    OWN S (Q ++ [n]) (F ++ [n]) D fsf (Datatypes.S n) fo' tr'.
  Proof.
    intros H Ho Ht Hn Hfresh.
    assert (Hfresh' : ~ In (o_toi (fo' n)) (map (fun j => o_toi (fo' j)) (map fst S ++ Q))).
    { erewrite map_ext_in; [exact Hfresh|]. intros j Hj. cbv beta. rewrite Ho; [reflexivity|].
      apply (own_bound _ _ _ _ _ _ _ _ H). assumption. }
    apply (own_ext _ _ _ _ _ _ _ _ fo' tr') in H; [|assumption|assumption].
    destruct H as [H1 H2 H3 H4 H5 H6 H7]. constructor; auto.
    - rewrite app_assoc, map_app. cbn [map].
      eapply Permutation_NoDup; [apply Permutation_cons_append|]. constructor; assumption.
    - intros j Hj. rewrite app_assoc in Hj. apply in_app_or in Hj. destruct Hj as [Hj|[<-|[]]]; [apply H2 in Hj|]; lia.
    - intros j Hj. apply in_app_or in Hj. destruct Hj as [Hj|[<-|[]]]; [apply H3 in Hj|]; lia.
    - intros j Hj. destruct (H4 j Hj) as (A & B & C). split; [lia|split; [exact B|]].
      intros Hc. rewrite app_assoc in Hc. apply in_app_or in Hc. destruct Hc as [Hc|[<-|[]]]; [auto|lia].
    - intros j Hj Hjt. assert (j = n \/ (j < n)%nat) as [->|Hlt] by lia; [congruence|auto].
  Qed.

  (* objects leave the waiting list and Fdt.files (remove_object) *)
  Lemma own_remove S Q F D fsf n fo tr pq pf :
    OWN S Q F D fsf n fo tr -> OWN S (filter pq Q) (filter pf F) D fsf n fo tr.
  Proof.
    intros [H1 H2 H3 H4 H5 H6 H7].
    assert (Hsub : forall j, In j (map fst S ++ filter pq Q) -> In j (map fst S ++ Q)).
    { intros j Hj. apply in_app_or in Hj. apply in_or_app. destruct Hj as [Hj|Hj]; [left; assumption|right].
      apply filter_In in Hj. tauto. }
    constructor; auto.
    - apply NoDup_map_app_filter. assumption.
    - intros j Hj. apply filter_In in Hj. apply H3. tauto.
    - intros j Hj. destruct (H4 j Hj) as (A & B & C). split; [assumption|split; [assumption|]]. intros Hc. apply C. auto.
  Qed.

  (* the FDT session takes an FDT instance *)
  Lemma own_fdt_start S Q F D n fo tr c :
    OWN S Q F D None n fo tr -> In c D ->
    OWN S Q F D (Some c) n fo (fun j => if Nat.eqb j c then true else tr j).
  Proof.
    intros [H1 H2 H3 H4 H5 H6 H7] Hc.
    assert (Hcl : ~ In c (map fst S ++ Q)).
    { apply (H4 c). apply in_or_app. left. assumption. }
    constructor; auto.
    - intros j Hj. apply in_app_or in Hj. destruct Hj as [Hj|[<-|[]]].
      + apply H4. apply in_or_app. left. assumption.
      + apply H4. apply in_or_app. left. assumption.
    - intros j Hj. destruct (Nat.eqb_spec j c); [reflexivity|auto].
    - intros j Hj Hjt. destruct (Nat.eqb_spec j c) as [->|Hne]; [right; reflexivity|].
      destruct (H6 j Hj Hjt) as [Hin|Hf]; [left; assumption|discriminate].
  Qed.

  (* the FDT session releases its instance *)
  Lemma own_fdt_done S Q F D n fo tr c D' :
    OWN S Q F D (Some c) n fo tr -> incl D' D ->
    OWN S Q F D' None n fo (fun j => if Nat.eqb j c then false else tr j).
  Proof.
    intros [H1 H2 H3 H4 H5 H6 H7] HD.
    assert (Hcl : ~ In c (map fst S ++ Q)).
    { apply (H4 c). apply in_or_app. right. left. reflexivity. }
    constructor; auto.
    - intros j Hj. cbn [opt_list] in Hj. rewrite app_nil_r in Hj. apply H4. apply in_or_app. left. auto.
    - intros j Hj. destruct (Nat.eqb_spec j c) as [->|Hne]; [|auto].
      exfalso. apply Hcl. apply in_or_app. left. assumption.
    - intros j Hj Hjt. destruct (Nat.eqb_spec j c) as [->|Hne]; [discriminate|].
      destruct (H6 j Hj Hjt) as [Hin|Hf]; [left; assumption|congruence].
  Qed.
End Own.

(* ============================== part C ============================== *)
(* C13, history level: part C - the invariant of the sender state and its preservation *)


Definition slot_pairs (L : list session) : list (nat * N) :=
  flat_map (fun ss => match ss_file ss with Some i => [(i, ss_prio ss)] | None => [] end) L.
Definition slot_ids (L : list session) : list nat := map fst (slot_pairs L).
Definition live (L : list session) (t : st) : list nat := slot_ids L ++ queue t.
Definition Dq (t : st) : list nat := fdtq t ++ opt_list (cur_fdt t).
Definition fo_of (t : st) (j : nat) : odesc := f_o (obj t j).
Definition tr_of (t : st) (j : nat) : bool := t_transferring (f_t (obj t j)).

(* an object without a target duration is never paced *)
Definition untimed' (o : odesc) (x : tinfo) : Prop :=
  match o_target o with
  | TNone | TFast => t_next_ts x = None /\ t_tick x = None
  | _ => True
  end.
Definition untimed (f : fdesc) : Prop := untimed' (f_o f) (f_t f).

Definition Lwf (L : list session) : Prop :=
  forall ss, In ss L -> ss_fdt_only ss = false /\ (ss_enc ss = None -> ss_file ss = None)
                        /\ (ss_file ss = None -> ss_enc ss = None).
Definition FSwf (fs : session) : Prop := ss_fdt_only fs = true /\ (ss_enc fs = None -> ss_file fs = None).

Record INV (L : list session) (fs : session) (t : st) : Prop := mk_INV {
  inv_L : Lwf L;
  inv_fs : FSwf fs;
  inv_obj : forall j, untimed (obj t j);
  inv_own : OWN (slot_pairs L) (queue t) (files t) (Dq t) (ss_file fs) (length (objs t)) (fo_of t) (tr_of t)
}.

Lemma slot_pairs_app L1 L2 : slot_pairs (L1 ++ L2) = slot_pairs L1 ++ slot_pairs L2.
Proof. unfold slot_pairs. apply flat_map_app. Qed.

Lemma slot_pairs_mid L1 ss L2 :
  slot_pairs (L1 ++ ss :: L2)
  = slot_pairs L1 ++ match ss_file ss with Some i => [(i, ss_prio ss)] | None => [] end ++ slot_pairs L2.
Proof. rewrite slot_pairs_app. reflexivity. Qed.

Lemma slot_pairs_mid_some L1 ss L2 id : ss_file ss = Some id ->
  slot_pairs (L1 ++ ss :: L2) = slot_pairs L1 ++ (id, ss_prio ss) :: slot_pairs L2.
Proof. intros H. rewrite slot_pairs_mid, H. reflexivity. Qed.

Lemma slot_pairs_mid_none L1 ss L2 : ss_file ss = None ->
  slot_pairs (L1 ++ ss :: L2) = slot_pairs L1 ++ slot_pairs L2.
Proof. intros H. rewrite slot_pairs_mid, H. reflexivity. Qed.

Lemma Lwf_replace L1 ss L2 ss' : Lwf (L1 ++ ss :: L2) ->
  (ss_fdt_only ss' = false /\ (ss_enc ss' = None -> ss_file ss' = None) /\ (ss_file ss' = None -> ss_enc ss' = None)) ->
  Lwf (L1 ++ ss' :: L2).
Proof.
  intros H Hs x Hx. apply in_app_or in Hx. destruct Hx as [Hx|[<-|Hx]]; [|assumption|].
  - apply H. apply in_or_app. left. assumption.
  - apply H. apply in_or_app. right. right. assumption.
Qed.

Lemma Lwf_mid L1 ss L2 : Lwf (L1 ++ ss :: L2) ->
  ss_fdt_only ss = false /\ (ss_enc ss = None -> ss_file ss = None) /\ (ss_file ss = None -> ss_enc ss = None).
Proof. intros H. apply H. apply in_or_app. right. left. reflexivity. Qed.

Section C.
  Variable fdt_npk : N -> nat.
  Variable fdt_ok : N -> bool.
  Variable divf : Z -> N -> option Z.

  Notation srun := (session_run fdt_npk fdt_ok divf).
  Notation gnft := (get_next_file_transfer fdt_npk fdt_ok divf).
  Notation gnfdt := (get_next_fdt_transfer fdt_npk fdt_ok divf).
  Notation publ := (publish fdt_npk fdt_ok).
  Notation file_run := (file_run fdt_npk fdt_ok divf).
  Notation fresh_run := (fresh_run fdt_npk fdt_ok divf).
  Notation pub_st := (pub_st fdt_npk).
  Notation mpub := (maybe_publish fdt_npk fdt_ok).

  (* ---------- untimed ---------- *)
  Lemma untimed_upd_t t id g :
    (forall o x, untimed' o x -> untimed' o (g x)) ->
    (forall j, untimed (obj t j)) -> forall j, untimed (obj (upd_t t id g) j).
  Proof.
    intros Hg H j. unfold untimed. rewrite obj_upd_t_o.
    destruct (obj_upd_t_t_cases t id g j) as [E|(-> & _ & E)]; rewrite E; [apply H|apply Hg; apply H].
  Qed.

  Lemma untimed_tickf o x : untimed' o x -> untimed' o (t_tickf x).
  Proof.
    unfold untimed', t_tickf. destruct (o_target o); auto; intros [A B]; rewrite B; auto.
  Qed.
  Lemma untimed_done now o x : untimed' o x -> untimed' o (t_done now x).
  Proof. unfold untimed', t_done. destruct (o_target o); auto. Qed.
  Lemma untimed_reset ts o x : untimed' o x -> untimed' o (t_reset ts x).
  Proof. unfold untimed', t_reset. destruct (o_target o); auto. Qed.
  Lemma untimed_init o now x ti : t_init divf o now x = Some ti -> untimed' o x -> untimed' o ti.
  Proof.
    unfold untimed', t_init. destruct (o_target o) as [| |d|tm]; intros H U.
    - inversion H; subst. cbn. tauto.
    - inversion H; subst. cbn. tauto.
    - exact I.
    - exact I.
  Qed.

  (* next_ts after a start: now (paced object) or none *)
  Lemma init_not_paced o now x ti : t_init divf o now x = Some ti -> untimed' o x ->
    t_transferring ti = true /\ (t_next_ts ti = Some now \/ t_next_ts ti = None).
  Proof.
    unfold untimed', t_init. destruct (o_target o) as [| |d|tm]; intros H U.
    - inversion H; subst. cbn. split; [reflexivity|right; tauto].
    - inversion H; subst. cbn. split; [reflexivity|right; tauto].
    - destruct (divf d _); inversion H; subst. cbn. auto.
    - destruct (divf _ _); inversion H; subst. cbn. auto.
  Qed.

  (* ---------- neutral changes ---------- *)
  Lemma inv_upd_neutral L fs t id g :
    (forall o x, untimed' o x -> untimed' o (g x)) -> (forall x, t_transferring (g x) = t_transferring x) ->
    INV L fs t -> INV L fs (upd_t t id g).
  Proof.
    intros Hg Ht [A B C D]. constructor; [assumption|assumption|apply untimed_upd_t; assumption|].
    change (queue (upd_t t id g)) with (queue t). change (files (upd_t t id g)) with (files t).
    change (Dq (upd_t t id g)) with (Dq t). rewrite len_upd_t.
    eapply own_ext; [exact D| |].
    - intros j _. unfold fo_of. apply obj_upd_t_o.
    - intros j _. unfold tr_of.
      destruct (obj_upd_t_t_cases t id g j) as [E|(-> & _ & E)]; rewrite E; [reflexivity|apply Ht].
  Qed.

  Lemma inv_same_slots L L' fs t : INV L fs t -> Lwf L' -> slot_pairs L' = slot_pairs L -> INV L' fs t.
  Proof. intros [A B C D] H E. constructor; auto. rewrite E. assumption. Qed.

  (* INV only looks at objs, files, queue, fdtq, cur_fdt *)
  Lemma inv_fields L fs t t' :
    objs t' = objs t -> files t' = files t -> queue t' = queue t -> fdtq t' = fdtq t -> cur_fdt t' = cur_fdt t ->
    INV L fs t -> INV L fs t'.
  Proof.
    intros E1 E2 E3 E4 E5 [A B C D]. constructor; auto.
    - intros j. unfold obj. rewrite E1. apply C.
    - unfold Dq, fo_of, tr_of, obj. rewrite E1, E2, E3, E4, E5. exact D.
  Qed.

  (* ---------- transfer_done ---------- *)
  Lemma transfer_done_cases id now t :
    let s1 := upd_t t id (t_done now) in
    let toi := toi_of t id in
    (toi = 0 /\ (transfer_done id now t = set_cur_fdt s1 None \/ transfer_done id now t = s1))
    \/ (toi <> 0 /\
        let s2 := log_ev s1 (EvStop toi) in
        (is_added s2 toi = false /\ transfer_done id now t = s2)
        \/ (is_added s2 toi = true /\ is_expired (obj s1 id) = false
            /\ transfer_done id now t = set_queue s2 (queue t ++ [id]))
        \/ (is_added s2 toi = true /\ is_expired (obj s1 id) = true
            /\ transfer_done id now t = set_files s2 (remove_toi s2 toi (files t)))).
  Proof.
    cbv zeta. unfold transfer_done.
    assert (Et : o_toi (f_o (obj (upd_t t id (t_done now)) id)) = toi_of t id)
      by (unfold toi_of; rewrite obj_upd_t_o; reflexivity).
    rewrite Et. destruct (N.eqb_spec (toi_of t id) 0) as [E0|E0].
    - left. split; [assumption|]. destruct (is_expired _); auto.
    - right. split; [assumption|].
      destruct (is_added _ (toi_of t id)) eqn:Ea; cbn [negb]; [|left; auto].
      destruct (is_expired _) eqn:Ee; cbn [negb]; right; [right|left]; auto.
  Qed.

  Lemma tr_of_done t id now j : (id < length (objs t))%nat ->
    tr_of (upd_t t id (t_done now)) j = if Nat.eqb j id then false else tr_of t j.
  Proof.
    intros Hl. unfold tr_of. destruct (Nat.eqb_spec j id) as [->|Hne].
    - rewrite obj_upd_t_same by assumption. reflexivity.
    - rewrite obj_upd_t_other by congruence. reflexivity.
  Qed.

  Lemma filter_incl {A} (p : A -> bool) l : incl (filter p l) l.
  Proof. intros x Hx. apply filter_In in Hx. tauto. Qed.

  Lemma inv_transfer_done L1 ss L2 fs t id now :
    INV (L1 ++ ss :: L2) fs t -> ss_file ss = Some id ->
    INV (L1 ++ empty_of ss :: L2) fs (transfer_done id now t).
  Proof.
    intros [A B C D] Hf.
    assert (Hl : (id < length (objs t))%nat).
    { apply (own_bound _ _ _ _ _ _ _ _ D). apply in_or_app. left.
      rewrite (slot_pairs_mid_some _ _ _ _ Hf), ids_mid. apply in_or_app. right. left. reflexivity. }
    assert (A' : Lwf (L1 ++ empty_of ss :: L2)).
    { eapply Lwf_replace; [exact A|]. destruct (Lwf_mid _ _ _ A) as (A1 & _). cbn. auto. }
    assert (C' : forall j, untimed (obj (upd_t t id (t_done now)) j))
      by (apply untimed_upd_t; [apply untimed_done|assumption]).
    rewrite (slot_pairs_mid_some _ _ _ _ Hf) in D.
    assert (Sp : slot_pairs (L1 ++ empty_of ss :: L2) = slot_pairs L1 ++ slot_pairs L2)
      by (apply slot_pairs_mid_none; reflexivity).
    pose proof (own_release_drop _ _ _ _ _ _ _ _ _ _ _ D) as Ddrop.
    pose proof (own_release_requeue _ _ _ _ _ _ _ _ _ _ _ D) as Dreq.
    set (s1 := upd_t t id (t_done now)) in *.
    assert (Efo : forall j, (j < length (objs t))%nat -> fo_of s1 j = fo_of t j)
      by (intros j _; unfold fo_of, s1; apply obj_upd_t_o).
    assert (Etr : forall j, (j < length (objs t))%nat -> tr_of s1 j = if Nat.eqb j id then false else tr_of t j)
      by (intros j _; apply tr_of_done; assumption).
    assert (Elen : length (objs s1) = length (objs t)) by apply len_upd_t.
    destruct (transfer_done_cases id now t) as [(E0 & [E|E])|(E0 & [(Ea & E)|[(Ea & Ee & E)|(Ea & Ee & E)]])];
      cbv zeta in E; fold s1 in E; rewrite E; (constructor; [exact A'|exact B|exact C'|]); rewrite Sp.
    - change (OWN (slot_pairs L1 ++ slot_pairs L2) (queue t) (files t) (fdtq t ++ []) (ss_file fs)
                  (length (objs s1)) (fo_of s1) (tr_of s1)).
      rewrite Elen. eapply own_ext; [|exact Efo|exact Etr].
      eapply own_shrink_fdt; [exact Ddrop|apply incl_refl|].
      unfold Dq. apply incl_app; [apply incl_appl; apply incl_refl|intros x []].
    - change (OWN (slot_pairs L1 ++ slot_pairs L2) (queue t) (files t) (Dq t) (ss_file fs)
                  (length (objs s1)) (fo_of s1) (tr_of s1)).
      rewrite Elen. eapply own_ext; [exact Ddrop|exact Efo|exact Etr].
    - change (OWN (slot_pairs L1 ++ slot_pairs L2) (queue t) (files t) (Dq t) (ss_file fs)
                  (length (objs s1)) (fo_of s1) (tr_of s1)).
      rewrite Elen. eapply own_ext; [exact Ddrop|exact Efo|exact Etr].
    - change (OWN (slot_pairs L1 ++ slot_pairs L2) (queue t ++ [id]) (files t) (Dq t) (ss_file fs)
                  (length (objs s1)) (fo_of s1) (tr_of s1)).
      rewrite Elen. eapply own_ext; [exact Dreq|exact Efo|exact Etr].
    - change (OWN (slot_pairs L1 ++ slot_pairs L2) (queue t)
                  (remove_toi (log_ev s1 (EvStop (toi_of t id))) (toi_of t id) (files t)) (Dq t) (ss_file fs)
                  (length (objs s1)) (fo_of s1) (tr_of s1)).
      rewrite Elen. eapply own_ext; [|exact Efo|exact Etr].
      eapply own_shrink_fdt; [exact Ddrop|apply filter_incl|apply incl_refl].
  Qed.

  (* ---------- publish ---------- *)
  Lemma inv_pub_st L fs t now : INV L fs t -> INV L fs (pub_st now t).
  Proof.
    intros [A B C D]. destruct (pub_st_objs fdt_npk now t) as (P1 & P2 & P3 & P4).
    constructor; [assumption|assumption| |].
    - intros j. destruct (Nat.lt_ge_cases j (length (objs t))) as [Hl|Hl].
      + destruct (P2 j Hl) as (E1 & E2 & _). unfold untimed. rewrite E1, E2. apply C.
      + destruct (Nat.eq_dec j (length (objs t))) as [->|Hne].
        * unfold untimed. rewrite P3, P4. cbn. auto.
        * unfold untimed, obj. rewrite nth_overflow by lia. cbn. auto.
    - change (queue (pub_st now t)) with (queue t). change (files (pub_st now t)) with (files t).
      rewrite P1.
      eapply own_new_fdt; [exact D| | | | |].
      + intros j Hj. unfold fo_of. apply (P2 j Hj).
      + intros j Hj. unfold tr_of. destruct (P2 j Hj) as (_ & E & _). rewrite E. reflexivity.
      + unfold tr_of. rewrite P4. reflexivity.
      + unfold fo_of. rewrite P3. split; [discriminate|reflexivity].
      + unfold Dq. cbn [fdtq cur_fdt pub_st]. intros x Hx.
        apply in_app_or in Hx. destruct Hx as [Hx|Hx].
        * apply in_app_or in Hx. destruct Hx as [Hx|[<-|[]]]; [right; apply in_or_app; left; assumption|left; reflexivity].
        * right. apply in_or_app. right. assumption.
  Qed.

  Lemma inv_publish L fs t now : INV L fs t -> INV L fs (snd (publ now t)).
  Proof.
    intros H. destruct (fdt_ok (fdtid t)) eqn:E.
    - rewrite publish_ok_eq by assumption. apply inv_pub_st. assumption.
    - rewrite publish_fail by assumption. assumption.
  Qed.

  (* ---------- a file session starts a transfer ---------- *)
  Lemma inv_start L1 ss0 L2 fs t now a id r ti e :
    INV (L1 ++ ss0 :: L2) fs t -> ss_enc ss0 = None ->
    queue t = a ++ id :: r -> o_prio (f_o (obj t id)) = ss_prio ss0 ->
    t_init divf (f_o (obj t id)) now (f_t (obj t id)) = Some ti ->
    INV (L1 ++ loaded ss0 id e :: L2) fs
        (upd_t (log_ev (set_queue t (a ++ r)) (EvStart (toi_of t id))) id (fun _ => ti)).
  Proof.
    intros [A B C D] He Hq Hp Hi.
    destruct (Lwf_mid _ _ _ A) as (A1 & A2 & A3).
    assert (A' : Lwf (L1 ++ loaded ss0 id e :: L2)).
    { eapply Lwf_replace; [exact A|]. cbn. repeat split; [assumption|discriminate|discriminate]. }
    rewrite (slot_pairs_mid_none _ _ _ (A2 He)), Hq in D.
    assert (Hl : (id < length (objs t))%nat).
    { apply (own_bound _ _ _ _ _ _ _ _ D). apply in_or_app. right. apply in_or_app. right. left. reflexivity. }
    set (t1 := log_ev (set_queue t (a ++ r)) (EvStart (toi_of t id))).
    destruct (init_not_paced _ _ _ _ Hi (C id)) as [Htr _].
    constructor; [exact A'|exact B| |].
    - intros j. unfold untimed. rewrite obj_upd_t_o.
      destruct (obj_upd_t_t_cases t1 id (fun _ => ti) j) as [E|(-> & _ & E)]; rewrite E; [apply C|].
      eapply untimed_init; [exact Hi|apply C].
    - rewrite (slot_pairs_mid_some _ (loaded ss0 id e) _ id eq_refl).
      change (queue (upd_t t1 id (fun _ => ti))) with (a ++ r).
      change (files (upd_t t1 id (fun _ => ti))) with (files t).
      change (Dq (upd_t t1 id (fun _ => ti))) with (Dq t).
      rewrite len_upd_t. change (length (objs t1)) with (length (objs t)).
      eapply own_ext; [eapply own_start; [exact D|exact Hp]| |].
      + intros j _. unfold fo_of. rewrite obj_upd_t_o. reflexivity.
      + intros j _. unfold tr_of. destruct (Nat.eqb_spec j id) as [->|Hne].
        * rewrite obj_upd_t_same by assumption. assumption.
        * rewrite obj_upd_t_other by congruence. reflexivity.
  Qed.

  Lemma inv_gnft_some L1 ss0 L2 fs t now id t1 e :
    INV (L1 ++ ss0 :: L2) fs t -> ss_enc ss0 = None ->
    gnft (ss_prio ss0) now t = ROk _ (Some id, t1) ->
    INV (L1 ++ loaded ss0 id e :: L2) fs t1.
  Proof.
    intros H He G. apply gnft_some in G. destruct G as (a & r & ti & Hq & Hs & _ & Hi & ->).
    unfold maybe_publish. set (tm := upd_t _ id _).
    assert (Hm : INV (L1 ++ loaded ss0 id e :: L2) fs tm).
    { eapply inv_start; eauto. eapply stn_prio; eauto. }
    destruct (full_fdt tm); [assumption|apply inv_publish; assumption].
  Qed.

  Lemma inv_enc_change L1 ss L2 fs t id e' :
    INV (L1 ++ ss :: L2) fs t -> ss_file ss = Some id -> INV (L1 ++ loaded ss id e' :: L2) fs t.
  Proof.
    intros H Hf. eapply inv_same_slots; [exact H| |].
    - eapply Lwf_replace; [exact (inv_L _ _ _ H)|]. destruct (Lwf_mid _ _ _ (inv_L _ _ _ H)) as (A1 & _).
      cbn. repeat split; [assumption|discriminate|discriminate].
    - rewrite (slot_pairs_mid_some _ ss _ id Hf). rewrite (slot_pairs_mid_some _ (loaded ss id e') _ id eq_refl). reflexivity.
  Qed.

  Lemma inv_tick L fs t id : INV L fs t -> INV L fs (upd_t t id t_tickf).
  Proof.
    apply inv_upd_neutral; [apply untimed_tickf|].
    intros x. unfold t_tickf. destruct (t_tick x), (t_next_ts x); reflexivity.
  Qed.

  Lemma inv_fresh_run L1 ss0 L2 fs t now o ss' t' :
    INV (L1 ++ ss0 :: L2) fs t -> ss_enc ss0 = None -> fresh_run now ss0 t o ss' t' ->
    INV (L1 ++ ss' :: L2) fs t'.
  Proof.
    intros H He R. destruct R as [G|G|id t1 G Hw|id t1 c e' G Hq Hp Er].
    - assumption.
    - destruct (Lwf_mid _ _ _ (inv_L _ _ _ H)) as (A1 & A2 & A3).
      eapply inv_same_slots; [exact H| |].
      + eapply Lwf_replace; [exact (inv_L _ _ _ H)|]. cbn. auto.
      + rewrite (slot_pairs_mid_none _ ss0 _ (A2 He)). rewrite (slot_pairs_mid_none _ (empty_of ss0) _ eq_refl). reflexivity.
    - eapply inv_gnft_some; eauto.
    - apply inv_tick. eapply inv_gnft_some; eauto.
  Qed.

  Lemma inv_file_run L1 ss L2 fs t now o ss' t' :
    INV (L1 ++ ss :: L2) fs t -> file_run now ss t o ss' t' -> INV (L1 ++ ss' :: L2) fs t'.
  Proof.
    intros H R. destruct R as [id e Hf He Hw|e He Hf|id e c e' Hf He Hq Hp Er|o ss' t' He R|id e e' o ss' t' Hf He Hq Hp Er R].
    - assumption.
    - assumption.
    - apply inv_tick. eapply inv_enc_change; eauto.
    - eapply inv_fresh_run; eauto.
    - eapply (inv_fresh_run L1 (empty_of ss) L2); [|reflexivity|exact R]. apply inv_transfer_done; assumption.
  Qed.

  (* ---------- the FDT session ---------- *)
  (* what a run of the FDT session leaves untouched, relative to a reference state s *)
  Record Frame (L : list session) (s t : st) : Prop := mk_Frame {
    fr_queue : queue t = queue s;
    fr_files : files t = files s;
    fr_full : full_fdt t = full_fdt s;
    fr_squeues : squeues t = squeues s;
    fr_evlog : evlog t = evlog s;
    fr_len : (length (objs s) <= length (objs t))%nat;
    fr_obj : forall j, (j < length (objs s))%nat ->
               f_o (obj t j) = f_o (obj s j)
               /\ (f_pub (obj s j) = true -> f_pub (obj t j) = true)
               /\ (In j (live L s) -> f_t (obj t j) = f_t (obj s j))
  }.

  Lemma frame_refl L s : Frame L s s.
  Proof. constructor; auto. Qed.

  Lemma frame_upd_t L fs s t c g :
    Frame L s t -> INV L fs t -> In c (Dq t ++ opt_list (ss_file fs)) -> Frame L s (upd_t t c g).
  Proof.
    intros [F1 F2 F3 F4 F5 F6 F7] I Hc. constructor; auto.
    - rewrite len_upd_t. assumption.
    - intros j Hj. destruct (F7 j Hj) as (E1 & E2 & E3). rewrite obj_upd_t_o, obj_upd_t_pub.
      repeat split; auto. intros Hin. rewrite <- E3 by assumption.
      destruct (Nat.eq_dec c j) as [->|Hne]; [|rewrite obj_upd_t_other by assumption; reflexivity].
      exfalso. destruct (own_fdt _ _ _ _ _ _ _ _ (inv_own _ _ _ I) j Hc) as (_ & _ & Hn). apply Hn.
      unfold live in Hin. rewrite <- F1 in Hin. exact Hin.
  Qed.

  Lemma frame_fields L s t t' :
    Frame L s t -> objs t' = objs t -> queue t' = queue t -> files t' = files t -> full_fdt t' = full_fdt t ->
    squeues t' = squeues t -> evlog t' = evlog t -> Frame L s t'.
  Proof.
    intros [F1 F2 F3 F4 F5 F6 F7] E1 E2 E3 E4 E5 E6.
    constructor; [congruence|congruence|congruence|congruence|congruence|rewrite E1; assumption|].
    unfold obj. rewrite E1. exact F7.
  Qed.

  Lemma frame_publish L s t now : Frame L s t -> Frame L s (snd (publ now t)).
  Proof.
    intros F. destruct (fdt_ok (fdtid t)) eqn:E; [|rewrite publish_fail by assumption; assumption].
    rewrite publish_ok_eq by assumption. cbn [snd].
    destruct F as [F1 F2 F3 F4 F5 F6 F7]. destruct (pub_st_objs fdt_npk now t) as (P1 & P2 & P3 & P4).
    constructor; auto.
    - rewrite P1. lia.
    - intros j Hj. destruct (F7 j Hj) as (E1 & E2 & E3). destruct (P2 j ltac:(lia)) as (Q1 & Q2 & Q3).
      rewrite Q1, Q2. repeat split; auto.
  Qed.

  Lemma gnfdt_inv L s fs t now x t1 :
    ss_enc fs = None -> INV L fs t -> Frame L s t -> gnfdt now t = ROk _ (x, t1) ->
    Frame L s t1 /\
    match x with
    | None => INV L (empty_of fs) t1
    | Some c => forall e, INV L (loaded fs c e) t1
    end.
  Proof.
    intros He I F G. unfold get_next_fdt_transfer in G.
    assert (Ie : INV L (empty_of fs) t).
    { destruct I as [A B C D]. constructor; auto.
      - destruct B as [B1 B2]. split; [exact B1|reflexivity].
      - destruct B as [B1 B2]. rewrite (B2 He) in D. exact D. }
    destruct (match cur_fdt t with Some c => t_transferring (f_t (obj t c)) | None => false end).
    { inversion G; subst. split; assumption. }
    set (t1' := if current_fdt_will_expire now t then snd (publ now t) else t) in G.
    assert (I1 : INV L (empty_of fs) t1') by (unfold t1'; destruct (current_fdt_will_expire now t); [apply inv_publish|]; assumption).
    assert (F1 : Frame L s t1') by (unfold t1'; destruct (current_fdt_will_expire now t); [apply frame_publish|]; assumption).
    clearbody t1'. clear Ie I F.
    set (t2 := match fdtq t1' with [] => t1' | x :: r => set_cur_fdt (set_fdtq t1' r) (Some x) end) in G.
    assert (I2 : INV L (empty_of fs) t2).
    { unfold t2. destruct (fdtq t1') as [|y r] eqn:Eq; [assumption|].
      destruct I1 as [A B C D]. constructor; auto.
      change (OWN (slot_pairs L) (queue t1') (files t1') (r ++ [y]) None (length (objs t1')) (fo_of t1') (tr_of t1')).
      eapply own_shrink_fdt; [exact D|apply incl_refl|].
      unfold Dq. rewrite Eq. intros z Hz. apply in_app_or in Hz. apply in_or_app. left.
      destruct Hz as [Hz|[<-|[]]]; [right; assumption|left; reflexivity]. }
    assert (F2 : Frame L s t2).
    { unfold t2. destruct (fdtq t1') as [|y r]; [assumption|]. eapply frame_fields; [exact F1|reflexivity..]. }
    clearbody t2. clear I1 F1.
    destruct (cur_fdt t2) as [c|] eqn:Ec; [|inversion G; subst; split; assumption].
    destruct (should_transfer_now (obj t2 c) 0 (full_fdt t2) now); [|inversion G; subst; split; assumption].
    unfold transfer_started in G.
    destruct (t_init divf (f_o (obj t2 c)) now (f_t (obj t2 c))) as [ti|] eqn:Hi; [|discriminate].
    inversion G; subst x t1.
    assert (Hc : In c (Dq t2)) by (unfold Dq; rewrite Ec; apply in_or_app; right; left; reflexivity).
    split.
    - eapply frame_upd_t; [exact F2|exact I2|]. apply in_or_app. left. assumption.
    - intros e. destruct I2 as [A B C D].
      assert (Hl : (c < length (objs t2))%nat).
      { apply (own_fdt _ _ _ _ _ _ _ _ D c). apply in_or_app. left. assumption. }
      destruct (init_not_paced _ _ _ _ Hi (C c)) as [Htr _].
      constructor; [assumption| | |].
      + destruct B as [B1 B2]. split; [exact B1|discriminate].
      + intros j. unfold untimed. rewrite obj_upd_t_o.
        destruct (obj_upd_t_t_cases t2 c (fun _ => ti) j) as [E|(-> & _ & E)]; rewrite E; [apply C|].
        eapply untimed_init; [exact Hi|apply C].
      + change (OWN (slot_pairs L) (queue t2) (files t2) (Dq t2) (Some c)
                    (length (objs (upd_t t2 c (fun _ => ti)))) (fo_of (upd_t t2 c (fun _ => ti))) (tr_of (upd_t t2 c (fun _ => ti)))).
        rewrite len_upd_t. eapply own_ext; [eapply own_fdt_start; [exact D|exact Hc]| |].
        * intros j _. unfold fo_of. apply obj_upd_t_o.
        * intros j _. unfold tr_of. destruct (Nat.eqb_spec j c) as [->|Hne].
          -- rewrite obj_upd_t_same by assumption. assumption.
          -- rewrite obj_upd_t_other by congruence. reflexivity.
  Qed.

  Lemma fdt_done_inv L s fs t c now :
    INV L fs t -> Frame L s t -> ss_file fs = Some c ->
    INV L (empty_of fs) (transfer_done c now t) /\ Frame L s (transfer_done c now t).
  Proof.
    intros I F Hf.
    assert (Hc : In c (Dq t ++ opt_list (ss_file fs))) by (rewrite Hf; apply in_or_app; right; left; reflexivity).
    destruct (own_fdt _ _ _ _ _ _ _ _ (inv_own _ _ _ I) c Hc) as (Hl & [_ Ht0] & _).
    assert (F' : Frame L s (upd_t t c (t_done now))) by (eapply frame_upd_t; eauto).
    destruct I as [A B C D]. rewrite Hf in D.
    assert (Hbase : forall D', incl D' (Dq t) ->
              OWN (slot_pairs L) (queue t) (files t) D' None (length (objs (upd_t t c (t_done now))))
                  (fo_of (upd_t t c (t_done now))) (tr_of (upd_t t c (t_done now)))).
    { intros D' HD. rewrite len_upd_t. eapply own_ext; [eapply own_fdt_done; [exact D|exact HD]| |].
      - intros j _. unfold fo_of. apply obj_upd_t_o.
      - intros j _. apply tr_of_done. assumption. }
    assert (C' : forall j, untimed (obj (upd_t t c (t_done now)) j))
      by (apply untimed_upd_t; [apply untimed_done|assumption]).
    assert (B' : FSwf (empty_of fs)) by (destruct B as [B1 B2]; split; [exact B1|reflexivity]).
    destruct (transfer_done_cases c now t) as [(E0 & [E|E])|(E0 & _)]; [| |exfalso; apply E0; exact Ht0];
      cbv zeta in E; rewrite E.
    - split.
      + constructor; [assumption|assumption|exact C'|].
        apply (Hbase (fdtq t ++ [])). unfold Dq. apply incl_app; [apply incl_appl; apply incl_refl|intros x []].
      + eapply frame_fields; [exact F'|reflexivity..].
    - split; [|assumption]. constructor; [assumption|assumption|exact C'|]. apply Hbase. apply incl_refl.
  Qed.

  Lemma fdt_run_inv L s now : forall fuel fs t o fs' t',
    INV L fs t -> Frame L s t -> srun fuel fs now t = (o, fs', t') ->
    INV L fs' t' /\ Frame L s t' /\ (forall toi c, o <> RObj toi c).
  Proof.
    induction fuel as [|f IH]; intros fs t o fs' t' I F H; cbn [session_run] in H.
    { inversion H; subst. (split; [assumption|split; [assumption|intros; discriminate]]). }
    destruct (inv_fs _ _ _ I) as [Bfo Bwf].
    (* state after the optional get_next *)
    assert (Hr : match (match ss_enc fs with None => get_next fdt_npk fdt_ok divf fs now t | Some _ => ROk _ (fs, t) end) with
                 | RPanicked _ => True
                 | ROk _ (ss1, s1) => INV L ss1 s1 /\ Frame L s s1 /\ ss_fdt_only ss1 = true
                 end).
    { destruct (ss_enc fs) eqn:He; [auto|].
      unfold get_next. rewrite Bfo.
      destruct (gnfdt now t) as [[[c|] t1]|] eqn:G; [| |exact Logic.I].
      - destruct (gnfdt_inv L s fs t now _ _ He I F G) as [F1 I1]. split; [|split; [assumption|reflexivity]].
        rewrite <- Bfo. apply I1.
      - destruct (gnfdt_inv L s fs t now _ _ He I F G) as [F1 I1]. split; [|split; [assumption|reflexivity]].
        rewrite <- Bfo. exact I1. }
    destruct (match ss_enc fs with None => get_next fdt_npk fdt_ok divf fs now t | Some _ => ROk _ (fs, t) end)
      as [[ss1 s1]|]; [|inversion H; subst; (split; [assumption|split; [assumption|intros; discriminate]])].
    destruct Hr as (I1 & F1 & Hfo1). rewrite Hfo1 in H. cbn [negb andb] in H.
    destruct (ss_enc ss1) as [e|] eqn:He1; [|inversion H; subst; (split; [assumption|split; [assumption|intros; discriminate]])].
    destruct (ss_file ss1) as [c|] eqn:Hf1; [|inversion H; subst; (split; [assumption|split; [assumption|intros; discriminate]])].
    destruct (match t_next_ts (f_t (obj s1 c)) with Some ts => (now <? ts)%Z | None => false end);
      [inversion H; subst; (split; [assumption|split; [assumption|intros; discriminate]])|].
    destruct (enc_read false e) as [[cl|] e'].
    - inversion H; subst.
      assert (Hc : In c (Dq s1 ++ opt_list (ss_file ss1))) by (rewrite Hf1; apply in_or_app; right; left; reflexivity).
      split; [|split].
      + apply inv_tick. destruct I1 as [A B C D]. constructor; auto.
        * destruct B as [B1 B2]. split; [reflexivity|discriminate].
        * cbn [ss_file]. rewrite <- Hf1. exact D.
      + eapply frame_upd_t; eauto.
      + destruct (own_fdt _ _ _ _ _ _ _ _ (inv_own _ _ _ I1) c Hc) as (_ & [Hfid _] & _).
        intros toi cl'. unfold fo_of in Hfid. destruct (o_fdtid (f_o (obj s1 c))); [discriminate|congruence].
    - destruct (fdt_done_inv L s ss1 s1 c now I1 F1 Hf1) as [I2 F2].
      eapply IH; [| |exact H]; [|assumption].
      unfold empty_of in I2. rewrite Hfo1 in I2. exact I2.
  Qed.
End C.

(* ============================== part D ============================== *)
(* C13, history level: part D - the read as a path of session visits; the state invariant and [step] *)


Definition all_sessions (qs : list squeue) : list session := flat_map q_sessions qs.

Definition wfq (q : squeue) : Prop :=
  (q_index q < length (q_sessions q))%nat /\ forall ss, In ss (q_sessions q) -> ss_prio ss = q_prio q.

Definition keys_sorted (qs : list squeue) : Prop := StronglySorted (fun a b => q_prio a < q_prio b) qs.

Lemma all_sessions_app a b : all_sessions (a ++ b) = all_sessions a ++ all_sessions b.
Proof. apply flat_map_app. Qed.

Lemma all_sessions_mid a q b : all_sessions (a ++ q :: b) = all_sessions a ++ q_sessions q ++ all_sessions b.
Proof. rewrite all_sessions_app. reflexivity. Qed.

Section D.
  Variable fdt_npk : N -> nat.
  Variable fdt_ok : N -> bool.
  Variable divf : Z -> N -> option Z.

  Notation srun := (session_run fdt_npk fdt_ok divf).
  Notation rrl := (rr_loop fdt_npk fdt_ok divf).
  Notation rpq := (read_priority_queue fdt_npk fdt_ok divf).
  Notation rqs := (read_queues fdt_npk fdt_ok divf).
  Notation sread := (sender_read fdt_npk fdt_ok divf).
  Notation runfdt := (run_fdt_session fdt_npk fdt_ok divf).
  Notation publ := (publish fdt_npk fdt_ok).
  Notation mstep := (step fdt_npk fdt_ok divf).
  Notation file_run := (file_run fdt_npk fdt_ok divf).

  Lemma srun_prio now : forall fuel ss t o ss' t',
    srun fuel ss now t = (o, ss', t') -> ss_prio ss' = ss_prio ss /\ ss_fdt_only ss' = ss_fdt_only ss.
  Proof.
    induction fuel as [|f IH]; intros ss t o ss' t' H; cbn [session_run] in H.
    { inversion H; subst. auto. }
    assert (Hr : match (match ss_enc ss with None => get_next fdt_npk fdt_ok divf ss now t | Some _ => ROk _ (ss, t) end) with
                 | RPanicked _ => True
                 | ROk _ (ss1, s1) => ss_prio ss1 = ss_prio ss /\ ss_fdt_only ss1 = ss_fdt_only ss
                 end).
    { destruct (ss_enc ss); [auto|]. unfold get_next.
      destruct (if ss_fdt_only ss then _ else _) as [[[c|] t1]|]; cbn; auto. }
    destruct (match ss_enc ss with None => get_next fdt_npk fdt_ok divf ss now t | Some _ => ROk _ (ss, t) end)
      as [[ss1 s1]|]; [|inversion H; subst; auto].
    destruct Hr as [P1 P2].
    destruct (negb (ss_fdt_only ss1) && negb (Nat.eqb (length (fdtq s1)) 0)); [inversion H; subst; auto|].
    destruct (ss_enc ss1) as [e|]; [|inversion H; subst; auto].
    destruct (ss_file ss1) as [id|]; [|inversion H; subst; auto].
    destruct (match t_next_ts (f_t (obj s1 id)) with Some ts => (now <? ts)%Z | None => false end);
      [inversion H; subst; auto|].
    destruct (enc_read _ e) as [[cl|] e'].
    - inversion H; subst. cbn. auto.
    - apply IH in H. cbn in H. destruct H. split; congruence.
  Qed.

  (* ---------- fields no session run writes ---------- *)
  Definition static (t : st) := (full_fdt t, fdt_duration t, fdt_car t, fdt_session t, squeues t).

  Lemma static_publish now t : static (snd (publ now t)) = static t.
  Proof. unfold publish. destruct (fdt_ok (fdtid t)); reflexivity. Qed.

  Lemma static_transfer_done id now t : static (transfer_done id now t) = static t.
  Proof.
    destruct (transfer_done_cases id now t) as [(E0 & [E|E])|(E0 & [(Ea & E)|[(Ea & Ee & E)|(Ea & Ee & E)]])];
      cbv zeta in E; rewrite E; reflexivity.
  Qed.

  Lemma static_gnft prio now t x t1 :
    get_next_file_transfer fdt_npk fdt_ok divf prio now t = ROk _ (x, t1) -> static t1 = static t.
  Proof.
    destruct x as [id|]; intros G.
    - apply gnft_some in G. destruct G as (a & r & ti & _ & _ & _ & _ & ->).
      unfold maybe_publish. destruct (full_fdt _); [reflexivity|]. rewrite static_publish. reflexivity.
    - apply gnft_none in G. destruct G as [-> _]. reflexivity.
  Qed.

  Lemma static_gnfdt now t x t1 :
    get_next_fdt_transfer fdt_npk fdt_ok divf now t = ROk _ (x, t1) -> static t1 = static t.
  Proof.
    unfold get_next_fdt_transfer. intros G.
    destruct (match cur_fdt t with Some c => t_transferring (f_t (obj t c)) | None => false end);
      [inversion G; subst; reflexivity|].
    set (t1' := if current_fdt_will_expire now t then snd (publ now t) else t) in G.
    assert (S1 : static t1' = static t)
      by (unfold t1'; destruct (current_fdt_will_expire now t); [apply static_publish|reflexivity]).
    clearbody t1'.
    set (t2 := match fdtq t1' with [] => t1' | y :: r => set_cur_fdt (set_fdtq t1' r) (Some y) end) in G.
    assert (S2 : static t2 = static t) by (unfold t2; destruct (fdtq t1'); [assumption|rewrite <- S1; reflexivity]).
    clearbody t2.
    destruct (cur_fdt t2) as [c|]; [|inversion G; subst; assumption].
    destruct (should_transfer_now _ _ _ _); [|inversion G; subst; assumption].
    unfold transfer_started in G. destruct (t_init _ _ _ _); [|discriminate].
    inversion G; subst. rewrite <- S2. reflexivity.
  Qed.

  Lemma srun_static now : forall fuel ss t o ss' t',
    srun fuel ss now t = (o, ss', t') -> static t' = static t.
  Proof.
    induction fuel as [|f IH]; intros ss t o ss' t' H; cbn [session_run] in H.
    { inversion H; subst. reflexivity. }
    assert (Hr : match (match ss_enc ss with None => get_next fdt_npk fdt_ok divf ss now t | Some _ => ROk _ (ss, t) end) with
                 | RPanicked _ => True
                 | ROk _ (ss1, s1) => static s1 = static t
                 end).
    { destruct (ss_enc ss); [reflexivity|]. unfold get_next.
      destruct (ss_fdt_only ss).
      - destruct (get_next_fdt_transfer _ _ _ _ _) as [[[c|] t1]|] eqn:G; try exact Logic.I;
          eapply static_gnfdt; eauto.
      - destruct (get_next_file_transfer _ _ _ _ _ _) as [[[c|] t1]|] eqn:G; try exact Logic.I;
          eapply static_gnft; eauto. }
    destruct (match ss_enc ss with None => get_next fdt_npk fdt_ok divf ss now t | Some _ => ROk _ (ss, t) end)
      as [[ss1 s1]|]; [|inversion H; subst; reflexivity].
    destruct (negb (ss_fdt_only ss1) && negb (Nat.eqb (length (fdtq s1)) 0)); [inversion H; subst; assumption|].
    destruct (ss_enc ss1) as [e|]; [|inversion H; subst; assumption].
    destruct (ss_file ss1) as [id|]; [|inversion H; subst; assumption].
    destruct (match t_next_ts (f_t (obj s1 id)) with Some ts => (now <? ts)%Z | None => false end);
      [inversion H; subst; assumption|].
    destruct (enc_read _ e) as [[cl|] e'].
    - inversion H; subst. rewrite <- Hr. reflexivity.
    - apply IH in H. rewrite H, static_transfer_done. assumption.
  Qed.

  (* ---------- visits ---------- *)
  Inductive vstep (now : Z) : list session -> st -> session -> rout -> list session -> st -> Prop :=
  | VS L1 ss L2 t o ss' t' : srun 4 ss now t = (o, ss', t') ->
      vstep now (L1 ++ ss :: L2) t ss o (L1 ++ ss' :: L2) t'.

  Inductive qpath (now : Z) : list session -> st -> list session -> st -> Prop :=
  | QP0 L t : qpath now L t L t
  | QPS L t ss L1 t1 L2 t2 : vstep now L t ss RNothing L1 t1 -> qpath now L1 t1 L2 t2 -> qpath now L t L2 t2.

  Lemma qpath_trans now L t L1 t1 L2 t2 :
    qpath now L t L1 t1 -> qpath now L1 t1 L2 t2 -> qpath now L t L2 t2.
  Proof. induction 1; intros P; [assumption|]. eapply QPS; eauto. Qed.

  Lemma vstep_ctx now L t ss o L' t' A B :
    vstep now L t ss o L' t' -> vstep now (A ++ L ++ B) t ss o (A ++ L' ++ B) t'.
  Proof.
    intros V. destruct V as [L1 ss L2 t o ss' t' H].
    replace (A ++ (L1 ++ ss :: L2) ++ B) with ((A ++ L1) ++ ss :: (L2 ++ B))
      by (rewrite <- !app_assoc; reflexivity).
    replace (A ++ (L1 ++ ss' :: L2) ++ B) with ((A ++ L1) ++ ss' :: (L2 ++ B))
      by (rewrite <- !app_assoc; reflexivity).
    constructor. assumption.
  Qed.

  Definition rr_result (now : Z) (Lpre Lpost : list session) (q : squeue) (t : st)
             (o : rout) (q' : squeue) (t' : st) : Prop :=
    exists Lm tm, qpath now (Lpre ++ q_sessions q ++ Lpost) t Lm tm /\
      ((o = RNothing /\ Lm = Lpre ++ q_sessions q' ++ Lpost /\ tm = t')
       \/ (o <> RNothing /\ exists ss, ss_prio ss = q_prio q
                                       /\ vstep now Lm tm ss o (Lpre ++ q_sessions q' ++ Lpost) t')).

  Lemma rr_loop_path now Lpre Lpost : forall n q orig t o q' t',
    wfq q -> rrl n q orig now t = (o, q', t') ->
    wfq q' /\ q_prio q' = q_prio q /\ length (q_sessions q') = length (q_sessions q)
    /\ rr_result now Lpre Lpost q t o q' t'.
  Proof.
    induction n as [|n IH]; intros q orig t o q' t' W H; cbn [rr_loop] in H.
    { inversion H; subst. repeat split; try apply W. exists (Lpre ++ q_sessions q' ++ Lpost), t'.
      split; [constructor|left; auto]. }
    destruct W as [Wi Wp].
    destruct (nth_error (q_sessions q) (q_index q)) as [ss|] eqn:En.
    2:{ apply nth_error_None in En. lia. }
    destruct (nth_error_split_at _ _ _ En) as (a & b & Eq & Ea).
    destruct (srun 4 ss now t) as [[o1 ss1] t1] eqn:Er.
    set (idx2 := if Nat.eqb (S (q_index q)) (length (q_sessions q)) then 0%nat else S (q_index q)) in H.
    set (q1 := mk_squeue (q_prio q) idx2 (upd_nth (q_index q) (fun _ => ss1) (q_sessions q))) in H.
    assert (Es1 : q_sessions q1 = a ++ ss1 :: b).
    { unfold q1. cbn [q_sessions]. rewrite Eq, <- Ea. apply upd_nth_app_mid. }
    destruct (srun_prio now _ _ _ _ _ _ Er) as [Pp _].
    assert (Hss : ss_prio ss = q_prio q).
    { apply Wp. rewrite Eq. apply in_or_app. right. left. reflexivity. }
    assert (W1 : wfq q1).
    { split.
      - assert (Hlen : length (q_sessions q) = (length a + S (length b))%nat) by (rewrite Eq, app_length; reflexivity).
        rewrite Es1. unfold q1. cbn [q_index]. rewrite app_length. cbn [length]. unfold idx2. rewrite Hlen.
        rewrite Hlen in Wi. destruct (Nat.eqb_spec (S (q_index q)) (length a + S (length b))); lia.
      - intros x Hx. rewrite Es1 in Hx. unfold q1. cbn [q_prio].
        apply in_app_or in Hx. destruct Hx as [Hx|[<-|Hx]].
        + apply Wp. rewrite Eq. apply in_or_app. left. assumption.
        + congruence.
        + apply Wp. rewrite Eq. apply in_or_app. right. right. assumption. }
    assert (L1 : length (q_sessions q1) = length (q_sessions q)).
    { rewrite Es1, Eq, !app_length. reflexivity. }
    assert (V : vstep now (Lpre ++ q_sessions q ++ Lpost) t ss o1 (Lpre ++ q_sessions q1 ++ Lpost) t1).
    { apply vstep_ctx. rewrite Eq, Es1. constructor. assumption. }
    assert (Hstop : forall o2, o2 = o1 -> o1 <> RNothing -> (o, q', t') = (o2, q1, t1) ->
              wfq q' /\ q_prio q' = q_prio q /\ length (q_sessions q') = length (q_sessions q)
              /\ rr_result now Lpre Lpost q t o q' t').
    { intros o2 -> Hn E. inversion E; subst o q' t'. repeat split; try apply W1; try assumption.
      exists (Lpre ++ q_sessions q ++ Lpost), t. split; [constructor|right]. split; [assumption|].
      exists ss. split; assumption. }
    destruct o1; try (apply (Hstop _ eq_refl); [discriminate|symmetry; exact H]).
    destruct (Nat.eqb idx2 orig).
    - inversion H; subst o q' t'. repeat split; try apply W1; try assumption.
      exists (Lpre ++ q_sessions q1 ++ Lpost), t1. split; [|left; auto].
      eapply QPS; [exact V|constructor].
    - destruct (IH q1 orig t1 o q' t' W1 H) as (W' & P' & L' & (Lm & tm & Pm & Rm)).
      split; [assumption|]. split; [rewrite P'; reflexivity|]. split; [congruence|].
      exists Lm, tm. split; [eapply QPS; [exact V|exact Pm]|].
      destruct Rm as [Rm|(Hn & x & Hx & Vx)]; [left; assumption|right].
      split; [assumption|]. exists x. split; [|assumption]. rewrite Hx. reflexivity.
  Qed.

  Definition rq_result (now : Z) (L0 : list session) (keys : list N) (t : st)
             (o : rout) (qs' : list squeue) (t' : st) : Prop :=
    exists Lm tm, qpath now L0 t Lm tm /\
      ((o = RNothing /\ Lm = all_sessions qs' /\ tm = t')
       \/ (o <> RNothing /\ exists ss, In (ss_prio ss) keys /\ vstep now Lm tm ss o (all_sessions qs') t')).

  Lemma read_queues_path now : forall todo done t o qs' t',
    Forall wfq done -> Forall wfq todo -> rqs done todo now t = (o, qs', t') ->
    Forall wfq qs' /\ map q_prio qs' = map q_prio (done ++ todo)
    /\ rq_result now (all_sessions (done ++ todo)) (map q_prio todo) t o qs' t'.
  Proof.
    induction todo as [|q r IH]; intros done t o qs' t' Wd Wt H; cbn [read_queues] in H.
    { inversion H; subst. rewrite app_nil_r. repeat split; auto.
      exists (all_sessions qs'), t'. split; [constructor|left; auto]. }
    destruct (rpq q now t) as [[o1 q1] t1] eqn:Eq. unfold read_priority_queue in Eq.
    inversion Wt as [|? ? Wq Wr]; subst.
    destruct (rr_loop_path now (all_sessions done) (all_sessions r) _ _ _ _ _ _ _ Wq Eq)
      as (W1 & P1 & L1 & (Lm & tm & Pm & Rm)).
    rewrite <- !all_sessions_mid in *.
    assert (Hstop : forall o2, o2 = o1 -> o1 <> RNothing -> (o, qs', t') = (o2, done ++ q1 :: r, t1) ->
              Forall wfq qs' /\ map q_prio qs' = map q_prio (done ++ q :: r)
              /\ rq_result now (all_sessions (done ++ q :: r)) (map q_prio (q :: r)) t o qs' t').
    { intros o2 -> Hn E. inversion E; subst o qs' t'. split; [|split].
      - apply Forall_app. split; [assumption|constructor; assumption].
      - rewrite !map_app. cbn [map]. rewrite P1. reflexivity.
      - exists Lm, tm. split; [assumption|right]. split; [assumption|].
        destruct Rm as [(Hc & _)|(_ & x & Hx & Vx)]; [contradiction|].
        exists x. split; [left; symmetry; assumption|assumption]. }
    destruct o1; try (apply (Hstop _ eq_refl); [discriminate|symmetry; exact H]).
    destruct Rm as [(_ & -> & ->)|(Hc & _)]; [|contradiction].
    assert (Wd' : Forall wfq (done ++ [q1])) by (apply Forall_app; split; [assumption|constructor; [assumption|constructor]]).
    destruct (IH (done ++ [q1]) t1 o qs' t' Wd' Wr H) as (W' & P' & (Lm2 & tm2 & Pm2 & Rm2)).
    rewrite <- app_assoc in *. cbn [app] in *.
    split; [assumption|]. split; [rewrite P', !map_app; cbn [map]; rewrite P1; reflexivity|].
    exists Lm2, tm2. split; [eapply qpath_trans; eauto|].
    destruct Rm2 as [Rm2|(Hn & x & Hx & Vx)]; [left; assumption|right].
    split; [assumption|]. exists x. split; [right; assumption|assumption].
  Qed.

  (* ---------- the invariant along visits ---------- *)
  Lemma inv_vstep now L fs t ss o L' t' :
    INV L fs t -> vstep now L t ss o L' t' -> INV L' fs t'.
  Proof.
    intros I V. destruct V as [L1 ss L2 t o ss' t' H].
    destruct (Lwf_mid _ _ _ (inv_L _ _ _ I)) as (A1 & _).
    eapply inv_file_run; [exact I|]. eapply file_run_inv; eauto.
  Qed.

  Lemma inv_qpath now L fs t L' t' : INV L fs t -> qpath now L t L' t' -> INV L' fs t'.
  Proof. intros I P. induction P; [assumption|]. apply IHP. eapply inv_vstep; eauto. Qed.

  Lemma vstep_static now L t ss o L' t' : vstep now L t ss o L' t' -> static t' = static t.
  Proof. intros V. destruct V. eapply srun_static; eauto. Qed.

  Lemma qpath_static now L t L' t' : qpath now L t L' t' -> static t' = static t.
  Proof. intros P. induction P; [reflexivity|]. rewrite IHP. eapply vstep_static; eauto. Qed.

  (* ---------- the invariant of a sender state ---------- *)
  Record Inv (s : st) : Prop := mk_Inv {
    Inv_inv : INV (all_sessions (squeues s)) (fdt_session s) s;
    Inv_wfq : Forall wfq (squeues s);
    Inv_sorted : StronglySorted N.lt (map q_prio (squeues s))
  }.

  Lemma runfdt_spec now s o s1 : runfdt now s = (o, s1) ->
    exists fs' t', srun 4 (fdt_session s) now s = (o, fs', t') /\ s1 = set_fdt_session t' fs'.
  Proof.
    unfold run_fdt_session. destruct (srun 4 (fdt_session s) now s) as [[o' fs'] t']. intros H.
    inversion H; subst. eauto.
  Qed.

  Lemma inv_set_fdt_session L t fs : INV L fs t -> INV L fs (set_fdt_session t fs).
  Proof. apply inv_fields; reflexivity. Qed.

  Lemma Inv_runfdt now s o s1 : Inv s -> runfdt now s = (o, s1) ->
    Inv s1 /\ Frame (all_sessions (squeues s)) s s1 /\ (forall toi c, o <> RObj toi c).
  Proof.
    intros [I W S] H. apply runfdt_spec in H. destruct H as (fs' & t' & H & ->).
    destruct (fdt_run_inv fdt_npk fdt_ok divf _ s now _ _ _ _ _ _ I (frame_refl _ _) H) as (I' & F' & Ho).
    assert (Esq : squeues t' = squeues s) by apply (fr_squeues _ _ _ F').
    split; [|split; [|assumption]].
    - constructor; cbn [squeues fdt_session set_fdt_session]; rewrite ?Esq; try assumption.
      apply inv_set_fdt_session. assumption.
    - eapply frame_fields; [exact F'|reflexivity..].
  Qed.

  Lemma Inv_sread now s o s' : Inv s -> sread now s = (o, s') -> Inv s'.
  Proof.
    intros I H. unfold sender_read in H.
    destruct (runfdt now s) as [o1 s1] eqn:E1.
    destruct (Inv_runfdt now s o1 s1 I E1) as (I1 & _ & _).
    assert (Hstop : forall o2, o2 = o1 -> (o, s') = (o2, s1) -> Inv s') by (intros o2 _ E; inversion E; subst; assumption).
    destruct o1; try (apply (Hstop _ eq_refl); symmetry; exact H).
    destruct (rqs [] (squeues s1) now s1) as [[o2 qs] s2] eqn:E2.
    destruct I1 as [J1 W1 S1].
    destruct (read_queues_path now _ _ _ _ _ _ (Forall_nil _) W1 E2) as (W2 & P2 & (Lm & tm & Pm & Rm)).
    cbn [app] in *.
    assert (J2 : INV (all_sessions qs) (fdt_session s1) s2).
    { pose proof (inv_qpath _ _ _ _ _ _ J1 Pm) as Jm.
      destruct Rm as [(_ & -> & ->)|(_ & x & _ & Vx)]; [assumption|eapply inv_vstep; eauto]. }
    assert (St : static s2 = static s1).
    { pose proof (qpath_static _ _ _ _ _ Pm) as Sm.
      destruct Rm as [(_ & -> & ->)|(_ & x & _ & Vx)]; [assumption|].
      rewrite <- Sm. eapply vstep_static; eauto. }
    assert (Efs : fdt_session s2 = fdt_session s1) by (unfold static in St; congruence).
    assert (I3 : Inv (set_squeues s2 qs)).
    { constructor; cbn [squeues fdt_session set_squeues].
      - rewrite Efs. eapply inv_fields; [..|exact J2]; reflexivity.
      - assumption.
      - rewrite P2. assumption. }
    assert (Hstop2 : forall o3, o3 = o2 -> o2 <> RNothing -> (o, s') = (o3, set_squeues s2 qs) -> Inv s')
      by (intros o3 _ _ E; inversion E; subst; assumption).
    destruct o2; try (apply (Hstop2 _ eq_refl); [discriminate|symmetry; exact H]).
    destruct (Inv_runfdt now _ _ _ I3 H) as (I4 & _ & _). assumption.
  Qed.
End D.

(* ============================== part E ============================== *)
(* C13, history level: part E - strict priority on every read *)


Lemma NoDup_app_disj {A} (a b : list A) x : NoDup (a ++ b) -> In x a -> In x b -> False.
Proof.
  induction a as [|y a IH]; intros H Ha Hb; [destruct Ha|].
  cbn [app] in H. apply NoDup_cons_iff in H. destruct H as [Hn H].
  destruct Ha as [<-|Ha]; [apply Hn; apply in_or_app; right; assumption|auto].
Qed.

Section E.
  Variable fdt_npk : N -> nat.
  Variable fdt_ok : N -> bool.
  Variable divf : Z -> N -> option Z.

  Notation srun := (session_run fdt_npk fdt_ok divf).
  Notation gnft := (get_next_file_transfer fdt_npk fdt_ok divf).
  Notation rrl := (rr_loop fdt_npk fdt_ok divf).
  Notation rpq := (read_priority_queue fdt_npk fdt_ok divf).
  Notation rqs := (read_queues fdt_npk fdt_ok divf).
  Notation sread := (sender_read fdt_npk fdt_ok divf).
  Notation runfdt := (run_fdt_session fdt_npk fdt_ok divf).
  Notation publ := (publish fdt_npk fdt_ok).
  Notation file_run := (file_run fdt_npk fdt_ok divf).
  Notation fresh_run := (fresh_run fdt_npk fdt_ok divf).
  Notation mpub := (maybe_publish fdt_npk fdt_ok).
  Notation vstep := (vstep fdt_npk fdt_ok divf).
  Notation qpath := (qpath fdt_npk fdt_ok divf).

  (* ---------- more facts about the primitive transitions ---------- *)
  Lemma td_objs id now t : objs (transfer_done id now t) = objs (upd_t t id (t_done now)).
  Proof.
    destruct (transfer_done_cases id now t) as [(E0 & [E|E])|(E0 & [(Ea & E)|[(Ea & Ee & E)|(Ea & Ee & E)]])];
      cbv zeta in E; rewrite E; reflexivity.
  Qed.

  Lemma td_queue id now t :
    queue (transfer_done id now t) = queue t \/ queue (transfer_done id now t) = queue t ++ [id].
  Proof.
    destruct (transfer_done_cases id now t) as [(E0 & [E|E])|(E0 & [(Ea & E)|[(Ea & Ee & E)|(Ea & Ee & E)]])];
      cbv zeta in E; rewrite E; auto.
  Qed.

  Lemma td_fdtq id now t : fdtq (transfer_done id now t) = fdtq t.
  Proof.
    destruct (transfer_done_cases id now t) as [(E0 & [E|E])|(E0 & [(Ea & E)|[(Ea & Ee & E)|(Ea & Ee & E)]])];
      cbv zeta in E; rewrite E; reflexivity.
  Qed.

  Lemma td_files id now t : incl (files (transfer_done id now t)) (files t).
  Proof.
    destruct (transfer_done_cases id now t) as [(E0 & [E|E])|(E0 & [(Ea & E)|[(Ea & Ee & E)|(Ea & Ee & E)]])];
      cbv zeta in E; rewrite E; try apply incl_refl. apply filter_incl.
  Qed.

  Lemma td_full id now t : full_fdt (transfer_done id now t) = full_fdt t.
  Proof. pose proof (static_transfer_done id now t) as H. unfold static in H. congruence. Qed.

  Lemma td_obj_other id now t j : j <> id -> obj (transfer_done id now t) j = obj t j.
  Proof. intros H. unfold obj. rewrite td_objs. apply (obj_upd_t_other t id (t_done now) j). congruence. Qed.

  Lemma td_obj_o id now t j : f_o (obj (transfer_done id now t) j) = f_o (obj t j).
  Proof. unfold obj. rewrite td_objs. apply (obj_upd_t_o t id (t_done now) j). Qed.

  Lemma td_next_ts id now t j :
    t_next_ts (f_t (obj (transfer_done id now t) j)) = t_next_ts (f_t (obj t j)).
  Proof.
    unfold obj. rewrite td_objs. fold (obj (upd_t t id (t_done now)) j). fold (obj t j).
    destruct (obj_upd_t_t_cases t id (t_done now) j) as [E|(-> & _ & E)]; rewrite E; reflexivity.
  Qed.

  Lemma td_len id now t : length (objs (transfer_done id now t)) = length (objs t).
  Proof. rewrite td_objs. apply len_upd_t. Qed.

  Lemma mp_facts now tm :
    let t1 := mpub now tm in
    queue t1 = queue tm /\ files t1 = files tm /\ full_fdt t1 = full_fdt tm /\ evlog t1 = evlog tm
    /\ (length (objs tm) <= length (objs t1))%nat
    /\ (forall j, (j < length (objs tm))%nat ->
          f_o (obj t1 j) = f_o (obj tm j) /\ f_t (obj t1 j) = f_t (obj tm j)
          /\ (f_pub (obj tm j) = true -> f_pub (obj t1 j) = true))
    /\ (fdtq t1 = [] -> fdtq tm = [])
    /\ (full_fdt tm = true -> t1 = tm).
  Proof.
    cbv zeta. unfold maybe_publish. destruct (full_fdt tm) eqn:Ef.
    { repeat split; auto. }
    destruct (fdt_ok (fdtid tm)) eqn:Eo.
    - rewrite publish_ok_eq by assumption. cbn [snd].
      destruct (pub_st_objs fdt_npk now tm) as (P1 & P2 & _).
      split; [reflexivity|]. split; [reflexivity|]. split; [assumption|]. split; [reflexivity|].
      split; [rewrite P1; lia|]. split; [exact P2|]. split; [|intros; discriminate].
      cbn [fdtq pub_st]. intros H. destruct (fdtq tm); discriminate.
    - rewrite publish_fail by assumption. cbn [snd]. repeat split; auto.
  Qed.

  (* state right after a start *)
  Lemma start_facts prio now t id t1 :
    gnft prio now t = ROk _ (Some id, t1) ->
    exists a r ti,
      queue t = a ++ id :: r /\ queue t1 = a ++ r /\ files t1 = files t /\ full_fdt t1 = full_fdt t
      /\ should_transfer_now (obj t id) prio (full_fdt t) now = true
      /\ (forall y, In y a -> should_transfer_now (obj t y) prio (full_fdt t) now = false)
      /\ t_init divf (f_o (obj t id)) now (f_t (obj t id)) = Some ti
      /\ (length (objs t) <= length (objs t1))%nat
      /\ (forall j, (j < length (objs t))%nat ->
            f_o (obj t1 j) = f_o (obj t j)
            /\ f_t (obj t1 j) = (if Nat.eqb j id then ti else f_t (obj t j)))
      /\ (fdtq t1 = [] -> fdtq t = [])
      /\ evlog t1 = evlog t ++ [EvStart (toi_of t id)].
  Proof.
    intros G. apply gnft_some in G. destruct G as (a & r & ti & Hq & Hs & Ha & Hi & ->).
    exists a, r, ti. set (tm := upd_t _ id _).
    destruct (mp_facts now tm) as (M1 & M2 & M3 & M4 & M5 & M6 & M7 & _). cbv zeta in *.
    assert (Elen : length (objs tm) = length (objs t)) by (unfold tm; rewrite len_upd_t; reflexivity).
    split; [assumption|]. split; [rewrite M1; reflexivity|]. split; [rewrite M2; reflexivity|].
    split; [rewrite M3; reflexivity|]. split; [assumption|]. split; [assumption|]. split; [assumption|].
    split; [lia|]. split; [|split; [intros H; apply M7 in H; exact H|rewrite M4; reflexivity]].
    intros j Hj. destruct (M6 j ltac:(lia)) as (E1 & E2 & _). rewrite E1, E2. unfold tm. split.
    - rewrite obj_upd_t_o. reflexivity.
    - destruct (Nat.eqb_spec j id) as [->|Hne].
      + rewrite obj_upd_t_same; [reflexivity|]. cbn [objs log_ev set_queue]. assumption.
      + rewrite obj_upd_t_other by congruence. reflexivity.
  Qed.

  Lemma out_of_not_nothing t id c : out_of t id c <> RNothing.
  Proof. unfold out_of. destruct (o_fdtid _); discriminate. Qed.

  Lemma tick_due_paced now t id : tick_due now (obj t id) = negb (paced now t id).
  Proof.
    unfold tick_due, paced. destruct (t_next_ts (f_t (obj t id))) as [ts|]; [|reflexivity].
    apply Z.leb_antisym.
  Qed.

  (* a transfer that has just been started is not held back by pacing *)
  Lemma start_not_paced L fs prio now t id t1 :
    INV L fs t -> gnft prio now t = ROk _ (Some id, t1) -> paced now t1 id = false.
  Proof.
    intros I G. destruct (start_facts _ _ _ _ _ G) as (a & r & ti & Hq & _ & _ & _ & _ & _ & Hi & _ & Ho & _).
    assert (Hl : (id < length (objs t))%nat).
    { apply (own_bound _ _ _ _ _ _ _ _ (inv_own _ _ _ I)). apply in_or_app. right. rewrite Hq.
      apply in_or_app. right. left. reflexivity. }
    destruct (Ho id Hl) as (_ & Et). rewrite Nat.eqb_refl in Et.
    destruct (init_not_paced divf _ _ _ _ Hi (inv_obj _ _ _ I id)) as [_ [Hn|Hn]];
      unfold paced; rewrite Et, Hn; [apply Z.ltb_irrefl|reflexivity].
  Qed.

  (* ---------- what shrinks along a read ---------- *)
  Record Shrink (L : list session) (t : st) (L' : list session) (t' : st) : Prop := mk_Shrink {
    sh_live : incl (live L' t') (live L t);
    sh_files : incl (files t') (files t);
    sh_len : (length (objs t) <= length (objs t'))%nat;
    sh_fo : forall j, (j < length (objs t))%nat -> f_o (obj t' j) = f_o (obj t j);
    sh_fdtq : fdtq t' = [] -> fdtq t = []
  }.

  Lemma shrink_refl L t : Shrink L t L t.
  Proof. constructor; auto using incl_refl. Qed.

  Lemma shrink_trans L t L1 t1 L2 t2 : Shrink L t L1 t1 -> Shrink L1 t1 L2 t2 -> Shrink L t L2 t2.
  Proof.
    intros [A1 A2 A3 A4 A5] [B1 B2 B3 B4 B5]. constructor.
    - eapply incl_tran; eauto.
    - eapply incl_tran; eauto.
    - lia.
    - intros j Hj. rewrite B4 by lia. apply A4. assumption.
    - auto.
  Qed.

  Lemma slot_ids_mid L1 ss L2 :
    slot_ids (L1 ++ ss :: L2) = slot_ids L1 ++ opt_list (ss_file ss) ++ slot_ids L2.
  Proof.
    unfold slot_ids. rewrite slot_pairs_mid, !map_app. destruct (ss_file ss); reflexivity.
  Qed.

  Lemma live_mid L1 ss L2 t j :
    In j (live (L1 ++ ss :: L2) t) <->
    In j (slot_ids L1) \/ ss_file ss = Some j \/ In j (slot_ids L2) \/ In j (queue t).
  Proof.
    unfold live. rewrite slot_ids_mid, !in_app_iff.
    destruct (ss_file ss) as [i|]; cbn [opt_list In]; split; intros H.
    - destruct H as [[H|[[<-|[]]|H]]|H]; auto.
    - destruct H as [H|[H|[H|H]]]; auto. inversion H; subst. left. right. left. left. reflexivity.
    - destruct H as [[H|[[]|H]]|H]; auto.
    - destruct H as [H|[H|[H|H]]]; auto. discriminate.
  Qed.

  Lemma shrink_fresh_run L1 ss0 L2 fs t now o ss' t' :
    INV (L1 ++ ss0 :: L2) fs t -> ss_enc ss0 = None -> fresh_run now ss0 t o ss' t' ->
    Shrink (L1 ++ ss0 :: L2) t (L1 ++ ss' :: L2) t'.
  Proof.
    intros I He R. destruct (Lwf_mid _ _ _ (inv_L _ _ _ I)) as (A1 & A2 & A3).
    assert (Hsame : forall ss'', ss_file ss'' = None -> Shrink (L1 ++ ss0 :: L2) t (L1 ++ ss'' :: L2) t).
    { intros ss'' Hn. constructor; auto using incl_refl.
      intros j Hj. apply live_mid in Hj. apply live_mid. rewrite Hn in Hj.
      destruct Hj as [Hj|[Hj|[Hj|Hj]]]; auto; discriminate. }
    assert (Hstart : forall id t1 e, gnft (ss_prio ss0) now t = ROk _ (Some id, t1) ->
              Shrink (L1 ++ ss0 :: L2) t (L1 ++ loaded ss0 id e :: L2) t1).
    { intros id t1 e G.
      destruct (start_facts _ _ _ _ _ G) as (a & r & ti & Hq & Hq1 & Hf1 & _ & _ & _ & _ & Hlen & Ho & Hfd & _).
      constructor; auto.
      - intros j Hj. apply live_mid in Hj. apply live_mid. cbn [ss_file loaded] in Hj. rewrite Hq1 in Hj. rewrite Hq.
        destruct Hj as [Hj|[Hj|[Hj|Hj]]]; auto.
        + inversion Hj; subst. right. right. right. apply in_or_app. right. left. reflexivity.
        + right. right. right. apply in_app_or in Hj. apply in_or_app. destruct Hj; [left|right; right]; assumption.
      - rewrite Hf1. apply incl_refl.
      - intros j Hj. apply (Ho j Hj). }
    destruct R as [G|G|id t1 G Hw|id t1 c e' G Hq Hp Er].
    - apply Hsame. apply A2. assumption.
    - apply Hsame. reflexivity.
    - apply Hstart. assumption.
    - eapply shrink_trans; [apply (Hstart id t1 e'); assumption|].
      constructor; auto using incl_refl.
      + rewrite len_upd_t. lia.
      + intros j _. apply obj_upd_t_o.
  Qed.

  Lemma shrink_file_run L1 ss L2 fs t now o ss' t' :
    INV (L1 ++ ss :: L2) fs t -> file_run now ss t o ss' t' ->
    Shrink (L1 ++ ss :: L2) t (L1 ++ ss' :: L2) t'.
  Proof.
    intros I R. destruct R as [id e Hf He Hw|e He Hf|id e c e' Hf He Hq Hp Er|o ss' t' He R|id e e' o ss' t' Hf He Hq Hp Er R].
    - apply shrink_refl.
    - apply shrink_refl.
    - constructor; auto using incl_refl.
      + intros j Hj. apply live_mid in Hj. apply live_mid. cbn [ss_file loaded] in Hj. rewrite Hf. exact Hj.
      + rewrite len_upd_t. lia.
      + intros j _. apply obj_upd_t_o.
    - eapply shrink_fresh_run; eauto.
    - eapply shrink_trans; [|eapply (shrink_fresh_run L1 (empty_of ss) L2); [apply inv_transfer_done; eassumption|reflexivity|exact R]].
      constructor.
      + intros j Hj. apply live_mid in Hj. apply live_mid. cbn [ss_file empty_of] in Hj. rewrite Hf.
        destruct Hj as [Hj|[Hj|[Hj|Hj]]]; auto; [discriminate|].
        destruct (td_queue id now t) as [E|E]; rewrite E in Hj; auto.
        apply in_app_or in Hj. destruct Hj as [Hj|[<-|[]]]; auto.
      + apply td_files.
      + rewrite td_len. lia.
      + intros j _. apply td_obj_o.
      + rewrite td_fdtq. auto.
  Qed.

  Lemma shrink_vstep now L fs t ss o L' t' : INV L fs t -> vstep now L t ss o L' t' -> Shrink L t L' t'.
  Proof.
    intros I V. destruct V as [L1 ss L2 t o ss' t' H].
    destruct (Lwf_mid _ _ _ (inv_L _ _ _ I)) as (A1 & _).
    eapply shrink_file_run; [exact I|]. eapply file_run_inv; eauto.
  Qed.

  Lemma shrink_qpath now L fs t L' t' : INV L fs t -> qpath now L t L' t' -> Shrink L t L' t'.
  Proof.
    intros I P. induction P; [apply shrink_refl|].
    eapply shrink_trans; [eapply shrink_vstep; eauto|]. apply IHP. eapply inv_vstep; eauto.
  Qed.

  (* ---------- readiness of one session ---------- *)
  Definition slot_free (t : st) (now : Z) (ss : session) : bool :=
    match ss_enc ss with
    | Some e => match ss_file ss with
                | Some id => negb (enc_has_packet e) && tick_due now (obj t id)
                | None => false
                end
    | None => true
    end.

  Definition Rdy (now : Z) (ss : session) (t : st) (prio : N) : Prop :=
    ready_in_slot t now ss = true
    \/ (slot_free t now ss = true
        /\ exists id, In id (queue t) /\ should_transfer_now (obj t id) prio (full_fdt t) now = true).

  Lemma queue_ready_Rdy s now q : queue_ready s now q = true ->
    exists ss, In ss (q_sessions q) /\ Rdy now ss s (q_prio q).
  Proof.
    unfold queue_ready. intros H. apply orb_true_iff in H. destruct H as [H|H].
    - apply existsb_exists in H. destruct H as (ss & Hin & Hr). exists ss. split; [assumption|left; assumption].
    - unfold ready_waiting in H. apply andb_true_iff in H. destruct H as [H1 H2].
      apply existsb_exists in H1. destruct H1 as (ss & Hin & Hr).
      apply existsb_exists in H2. destruct H2 as (id & Hid & Hs).
      exists ss. split; [assumption|right]. split; [exact Hr|]. exists id. split; assumption.
  Qed.

  Lemma noisy_fresh L1 ss0 L2 fs t now o ss' t' :
    INV (L1 ++ ss0 :: L2) fs t -> ss_enc ss0 = None ->
    (exists id, In id (queue t) /\ should_transfer_now (obj t id) (ss_prio ss0) (full_fdt t) now = true) ->
    fresh_run now ss0 t o ss' t' -> o <> RNothing \/ fdtq t' <> [].
  Proof.
    intros I He (y & Hy & Hs) R. destruct R as [G|G|id t1 G Hw|id t1 c e' G Hq Hp Er].
    - left. discriminate.
    - exfalso. eapply gnft_ready_not_none; eauto.
    - destruct Hw as [Hw|Hw]; [right; assumption|].
      rewrite (start_not_paced _ _ _ _ _ _ _ I G) in Hw. discriminate.
    - left. apply out_of_not_nothing.
  Qed.

  (* N: a ready session does not stay silent (unless an FDT instance has just been queued) *)
  Lemma noisy L1 ss L2 fs t now o ss' t' :
    INV (L1 ++ ss :: L2) fs t -> Rdy now ss t (ss_prio ss) -> fdtq t = [] ->
    file_run now ss t o ss' t' -> o <> RNothing \/ fdtq t' <> [].
  Proof.
    intros I Hr Hq0 R.
    destruct R as [id e Hf He Hw|e He Hf|id e c e' Hf He Hq Hp Er|o ss' t' He R|id e e' o ss' t' Hf He Hq Hp Er R].
    - exfalso. destruct Hw as [Hw|Hw]; [contradiction|].
      destruct Hr as [Hr|(Hr & _)].
      + unfold ready_in_slot in Hr. rewrite Hf, He in Hr. apply andb_true_iff in Hr. destruct Hr as [_ Hr].
        rewrite tick_due_paced, Hw in Hr. discriminate.
      + unfold slot_free in Hr. rewrite Hf, He in Hr. apply andb_true_iff in Hr. destruct Hr as [_ Hr].
        rewrite tick_due_paced, Hw in Hr. discriminate.
    - exfalso. destruct Hr as [Hr|(Hr & _)].
      + unfold ready_in_slot in Hr. rewrite Hf in Hr. discriminate.
      + unfold slot_free in Hr. rewrite Hf, He in Hr. discriminate.
    - left. apply out_of_not_nothing.
    - destruct Hr as [Hr|(_ & Hr)].
      + unfold ready_in_slot in Hr. rewrite He in Hr. destruct (ss_file ss); discriminate.
      + eapply noisy_fresh; eauto.
    - destruct Hr as [Hr|(_ & (y & Hy & Hs))].
      + exfalso. unfold ready_in_slot in Hr. rewrite Hf, He in Hr. apply andb_true_iff in Hr. destruct Hr as [Hr _].
        destruct (enc_has_packet_read e (must_stop_of ss t id) Hr) as (c & e'' & E). congruence.
      + eapply (noisy_fresh L1 (empty_of ss) L2); [apply inv_transfer_done; eassumption|reflexivity| |exact R].
        assert (Hne : y <> id).
        { intros ->. pose proof (own_nodup _ _ _ _ _ _ _ _ (inv_own _ _ _ I)) as Hnd.
          rewrite (slot_pairs_mid_some _ _ _ _ Hf), ids_mid, <- app_assoc in Hnd. cbn [app] in Hnd.
          apply NoDup_remove_2 in Hnd. apply Hnd. apply in_or_app. right. apply in_or_app. right. assumption. }
        exists y. split.
        * destruct (td_queue id now t) as [E|E]; rewrite E; [assumption|apply in_or_app; left; assumption].
        * rewrite td_obj_other by assumption. rewrite td_full. exact Hs.
  Qed.

  (* quiet visits *)
  Lemma quiet_fresh L1 ss0 L2 fs t now ss' t' :
    INV (L1 ++ ss0 :: L2) fs t -> fresh_run now ss0 t RNothing ss' t' -> fdtq t' = [] -> t' = t.
  Proof.
    intros I R Hq. remember RNothing as o eqn:Eo.
    destruct R as [G|G|id t1 G Hw|id t1 c e' G Hq1 Hp Er].
    - discriminate.
    - reflexivity.
    - exfalso. destruct Hw as [Hw|Hw]; [contradiction|].
      rewrite (start_not_paced _ _ _ _ _ _ _ I G) in Hw. discriminate.
    - exfalso. eapply out_of_not_nothing; eauto.
  Qed.

  Lemma quiet_cases L1 y L2 fs t now y' t' :
    INV (L1 ++ y :: L2) fs t -> file_run now y t RNothing y' t' -> fdtq t' = [] ->
    t' = t \/ (exists id, ss_file y = Some id /\ t' = transfer_done id now t).
  Proof.
    intros I R Hq. remember RNothing as o eqn:Eo.
    destruct R as [id e Hf He Hw|e He Hf|id e c e' Hf He Hq1 Hp Er|o ss' t' He R|id e e' o ss' t' Hf He Hq1 Hp Er R].
    - left. reflexivity.
    - left. reflexivity.
    - exfalso. eapply out_of_not_nothing; eauto.
    - subst o. left. eapply quiet_fresh; eauto.
    - subst o. right. exists id. split; [assumption|].
      eapply (quiet_fresh L1 (empty_of y) L2); [apply inv_transfer_done; eassumption|exact R|assumption].
  Qed.

  (* S: readiness of the other sessions survives a quiet visit *)
  Lemma stable_td L fs t now id ss prio :
    INV L fs t -> In id (slot_ids L) ->
    Rdy now ss t prio -> Rdy now ss (transfer_done id now t) prio.
  Proof.
    intros I Hid Hr.
    assert (Htd : forall j, tick_due now (obj (transfer_done id now t) j) = tick_due now (obj t j))
      by (intros j; unfold tick_due; rewrite td_next_ts; reflexivity).
    destruct Hr as [Hr|(Hr & (y & Hy & Hs))].
    - left. unfold ready_in_slot in *. destruct (ss_file ss); [|assumption]. destruct (ss_enc ss); [|assumption].
      rewrite Htd. assumption.
    - right. split.
      + unfold slot_free in *. destruct (ss_enc ss); [|reflexivity]. destruct (ss_file ss); [|assumption].
        rewrite Htd. assumption.
      + assert (Hne : y <> id).
        { intros ->. pose proof (own_nodup _ _ _ _ _ _ _ _ (inv_own _ _ _ I)) as Hnd.
          eapply NoDup_app_disj; [exact Hnd|exact Hid|exact Hy]. }
        exists y. split.
        * destruct (td_queue id now t) as [E|E]; rewrite E; [assumption|apply in_or_app; left; assumption].
        * rewrite td_obj_other by assumption. rewrite td_full. exact Hs.
  Qed.
End E.

(* ============================== part F ============================== *)
(* C13, history level: part F - strict priority: the read theorem *)


Lemma nth_error_mid {A} (a : list A) x b : nth_error (a ++ x :: b) (length a) = Some x.
Proof. rewrite nth_error_app2 by lia. rewrite Nat.sub_diag. reflexivity. Qed.

Lemma nth_error_mid_neq {A} (a : list A) x y b k : k <> length a ->
  nth_error (a ++ x :: b) k = nth_error (a ++ y :: b) k.
Proof.
  intros H. destruct (Nat.lt_ge_cases k (length a)) as [Hl|Hl].
  - rewrite !nth_error_app1 by assumption. reflexivity.
  - rewrite !nth_error_app2 by assumption. destruct (k - length a)%nat eqn:E; [lia|reflexivity].
Qed.

Lemma In_nth_error {A} (l : list A) x : In x l -> exists k, nth_error l k = Some x.
Proof. apply In_nth_error. Qed.

Definition rem (i orig len : nat) : nat := if (i <? orig)%nat then (orig - i)%nat else (len - i + orig)%nat.
Definition in_arc (i orig j : nat) : Prop :=
  if (i <? orig)%nat then (i <= j < orig)%nat else (i <= j \/ j < orig)%nat.

Section F.
  Variable fdt_npk : N -> nat.
  Variable fdt_ok : N -> bool.
  Variable divf : Z -> N -> option Z.

  Notation srun := (session_run fdt_npk fdt_ok divf).
  Notation gnft := (get_next_file_transfer fdt_npk fdt_ok divf).
  Notation rrl := (rr_loop fdt_npk fdt_ok divf).
  Notation rpq := (read_priority_queue fdt_npk fdt_ok divf).
  Notation rqs := (read_queues fdt_npk fdt_ok divf).
  Notation sread := (sender_read fdt_npk fdt_ok divf).
  Notation runfdt := (run_fdt_session fdt_npk fdt_ok divf).
  Notation file_run := (file_run fdt_npk fdt_ok divf).
  Notation fresh_run := (fresh_run fdt_npk fdt_ok divf).
  Notation vstep := (vstep fdt_npk fdt_ok divf).
  Notation qpath := (qpath fdt_npk fdt_ok divf).

  (* ---------- the object behind an object packet ---------- *)
  Lemma out_of_obj t id c0 toi c : out_of t id c0 = RObj toi c -> toi_of t id = toi.
  Proof. unfold out_of, toi_of. destruct (o_fdtid _); intros H; inversion H; reflexivity. Qed.

  Lemma out_fresh L1 ss0 L2 fs t now toi c ss' t' :
    INV (L1 ++ ss0 :: L2) fs t -> fresh_run now ss0 t (RObj toi c) ss' t' ->
    exists id, In id (queue t) /\ toi_of t id = toi /\ o_prio (f_o (obj t id)) = ss_prio ss0 /\ fdtq t = [].
  Proof.
    intros I R. remember (RObj toi c) as o eqn:Eo.
    destruct R as [G|G|id t1 G Hw|id t1 c0 e' G Hq Hp Er]; try discriminate.
    destruct (start_facts _ _ _ _ _ _ _ _ G) as (a & r & ti & Hqt & _ & _ & _ & Hs & _ & _ & _ & Ho & Hfd & _).
    assert (Hin : In id (queue t)) by (rewrite Hqt; apply in_or_app; right; left; reflexivity).
    assert (Hl : (id < length (objs t))%nat).
    { apply (own_bound _ _ _ _ _ _ _ _ (inv_own _ _ _ I)). apply in_or_app. right. assumption. }
    exists id. split; [assumption|]. split; [|split; [eapply stn_prio; eauto|auto]].
    apply out_of_obj in Eo. unfold toi_of in *. rewrite <- Eo. destruct (Ho id Hl) as [E _]. rewrite E. reflexivity.
  Qed.

  Lemma out_obj now L fs t ss toi c L' t' :
    INV L fs t -> vstep now L t ss (RObj toi c) L' t' ->
    exists id, In id (live L t) /\ toi_of t id = toi /\ o_prio (f_o (obj t id)) = ss_prio ss /\ fdtq t = [].
  Proof.
    intros I V. remember (RObj toi c) as o eqn:Eo. destruct V as [L1 ss L2 t o ss' t' H].
    destruct (Lwf_mid _ _ _ (inv_L _ _ _ I)) as (A1 & _).
    apply file_run_inv in H; [|assumption].
    destruct H as [id e Hf He Hw|e He Hf|id e c0 e' Hf He Hq Hp Er|o ss' t' He R|id e e' o ss' t' Hf He Hq Hp Er R];
      try discriminate.
    - exists id. split; [apply live_mid; auto|]. split; [eapply out_of_obj; eauto|]. split; [|assumption].
      apply (own_prio _ _ _ _ _ _ _ _ (inv_own _ _ _ I)). rewrite (slot_pairs_mid_some _ _ _ _ Hf).
      apply in_or_app. right. left. reflexivity.
    - subst o. destruct (out_fresh _ _ _ _ _ _ _ _ _ _ I R) as (id & Hin & Ht & Hp & Hq).
      exists id. split; [apply live_mid; auto|auto].
    - subst o. assert (I0 : INV (L1 ++ empty_of ss :: L2) fs (transfer_done id now t)) by (apply inv_transfer_done; assumption).
      destruct (out_fresh _ _ _ _ _ _ _ _ _ _ I0 R) as (id' & Hin & Ht & Hp' & _).
      exists id'. split; [|split; [|split]].
      + apply live_mid. destruct (td_queue id now t) as [E|E]; rewrite E in Hin; auto.
        apply in_app_or in Hin. destruct Hin as [Hin|[<-|[]]]; auto.
      + unfold toi_of in *. rewrite td_obj_o in Ht. exact Ht.
      + rewrite td_obj_o in Hp'. exact Hp'.
      + assumption.
  Qed.

  (* ---------- readiness by position survives quiet visits ---------- *)
  Definition RdyAt (now : Z) (k : nat) (L : list session) (t : st) : Prop :=
    exists ss, nth_error L k = Some ss /\ Rdy now ss t (ss_prio ss).

  Lemma rdy_quiet L1 y L2 fs t now y' t' ss prio :
    INV (L1 ++ y :: L2) fs t -> file_run now y t RNothing y' t' -> fdtq t' = [] ->
    Rdy now ss t prio -> Rdy now ss t' prio.
  Proof.
    intros I R Hq Hr. destruct (quiet_cases _ _ _ _ _ _ _ _ _ _ _ I R Hq) as [->|(id & Hf & ->)]; [assumption|].
    eapply stable_td; [exact I| |exact Hr]. unfold slot_ids. rewrite (slot_pairs_mid_some _ _ _ _ Hf), ids_mid.
    apply in_or_app. right. left. reflexivity.
  Qed.

  Lemma rdyat_vstep now L fs t y L' t' k :
    INV L fs t -> vstep now L t y RNothing L' t' -> fdtq t' = [] -> RdyAt now k L t -> RdyAt now k L' t'.
  Proof.
    intros I V Hq (ss & Hk & Hr).
    pose proof (sh_fdtq _ _ _ _ (shrink_vstep _ _ _ _ _ _ _ _ _ _ _ I V) Hq) as Hq0.
    remember RNothing as o eqn:Eo. destruct V as [L1 y L2 t o y' t' H]. subst o.
    destruct (Lwf_mid _ _ _ (inv_L _ _ _ I)) as (A1 & _).
    apply file_run_inv in H; [|assumption].
    destruct (Nat.eq_dec k (length L1)) as [->|Hne].
    - rewrite nth_error_mid in Hk. inversion Hk; subst ss.
      destruct (noisy _ _ _ _ _ _ _ _ _ _ _ _ I Hr Hq0 H) as [Hc|Hc]; [congruence|contradiction].
    - exists ss. split; [rewrite <- Hk; apply nth_error_mid_neq; assumption|].
      eapply rdy_quiet; eauto.
  Qed.

  Lemma rdyat_qpath now L fs t L' t' k :
    INV L fs t -> qpath now L t L' t' -> fdtq t' = [] -> RdyAt now k L t -> RdyAt now k L' t'.
  Proof.
    intros I P. revert I. induction P as [|L t ss L1 t1 L2 t2 V P IH]; intros I Hq Hr; [assumption|].
    assert (I1 : INV L1 fs t1) by (eapply inv_vstep; eauto).
    apply IH; [assumption|assumption|].
    apply (rdyat_vstep now L fs t ss L1 t1 k I V); [|exact Hr].
    apply (sh_fdtq _ _ _ _ (shrink_qpath _ _ _ _ _ _ _ _ _ I1 P) Hq).
  Qed.

  (* ---------- one queue ---------- *)
  Lemma rr_step_eq n q orig now t : wfq q ->
    exists a ss b o1 ss1 t1,
      q_sessions q = a ++ ss :: b /\ length a = q_index q /\ ss_prio ss = q_prio q
      /\ srun 4 ss now t = (o1, ss1, t1)
      /\ let idx2 := (if Nat.eqb (S (q_index q)) (length (q_sessions q)) then 0 else S (q_index q))%nat in
         let q1 := mk_squeue (q_prio q) idx2 (a ++ ss1 :: b) in
         wfq q1
         /\ rrl (S n) q orig now t
            = match o1 with
              | RNothing => if Nat.eqb idx2 orig then (RNothing, q1, t1) else rrl n q1 orig now t1
              | _ => (o1, q1, t1)
              end.
  Proof.
    intros [Wi Wp].
    destruct (nth_error (q_sessions q) (q_index q)) as [ss|] eqn:En.
    2:{ apply nth_error_None in En. lia. }
    destruct (nth_error_split_at _ _ _ En) as (a & b & Eq & Ea).
    destruct (srun 4 ss now t) as [[o1 ss1] t1] eqn:Er.
    exists a, ss, b, o1, ss1, t1.
    assert (Hss : ss_prio ss = q_prio q) by (apply Wp; rewrite Eq; apply in_or_app; right; left; reflexivity).
    destruct (srun_prio fdt_npk fdt_ok divf now _ _ _ _ _ _ Er) as [Pp _].
    split; [assumption|]. split; [assumption|]. split; [assumption|]. split; [exact Er|].
    cbv zeta. split.
    - split; cbn [q_index q_sessions q_prio].
      + assert (Hlen : length (q_sessions q) = (length a + S (length b))%nat) by (rewrite Eq, app_length; reflexivity).
        rewrite app_length. cbn [length]. rewrite Hlen. rewrite Hlen in Wi.
        destruct (Nat.eqb_spec (S (q_index q)) (length a + S (length b))); lia.
      + intros x Hx. apply in_app_or in Hx. destruct Hx as [Hx|[<-|Hx]].
        * apply Wp. rewrite Eq. apply in_or_app. left. assumption.
        * congruence.
        * apply Wp. rewrite Eq. apply in_or_app. right. right. assumption.
    - cbn [rr_loop]. rewrite En, Er.
      replace (upd_nth (q_index q) (fun _ => ss1) (q_sessions q)) with (a ++ ss1 :: b)
        by (rewrite Eq, <- Ea; symmetry; apply upd_nth_app_mid).
      reflexivity.
  Qed.

  Lemma rr_fdtq_mono now Lpre Lpost fs n q orig t o q' t' :
    wfq q -> INV (Lpre ++ q_sessions q ++ Lpost) fs t -> rrl n q orig now t = (o, q', t') ->
    fdtq t' = [] -> fdtq t = [].
  Proof.
    intros W I H Hq.
    destruct (rr_loop_path fdt_npk fdt_ok divf now Lpre Lpost _ _ _ _ _ _ _ W H) as (_ & _ & _ & (Lm & tm & Pm & Rm)).
    pose proof (shrink_qpath _ _ _ _ _ _ _ _ _ I Pm) as Sm.
    destruct Rm as [(_ & _ & ->)|(_ & x & _ & Vx)]; [apply (sh_fdtq _ _ _ _ Sm Hq)|].
    apply (sh_fdtq _ _ _ _ Sm). eapply sh_fdtq; [|exact Hq]. eapply shrink_vstep; [|exact Vx]. eapply inv_qpath; eauto.
  Qed.

  Lemma rr_noisy now Lpre Lpost fs : forall n q orig t o q' t' j ssj,
    wfq q -> (orig < length (q_sessions q))%nat ->
    INV (Lpre ++ q_sessions q ++ Lpost) fs t -> fdtq t' = [] ->
    (rem (q_index q) orig (length (q_sessions q)) <= n)%nat -> in_arc (q_index q) orig j ->
    nth_error (q_sessions q) j = Some ssj -> Rdy now ssj t (q_prio q) ->
    rrl n q orig now t = (o, q', t') -> o <> RNothing.
  Proof.
    induction n as [|n IH]; intros q orig t o q' t' j ssj W Ho I Hq' Hrem Harc Hj Hr H.
    { exfalso. destruct W as [Wi _]. unfold rem in Hrem. destruct (Nat.ltb_spec (q_index q) orig); lia. }
    destruct (rr_step_eq n q orig now t W) as (a & ss & b & o1 & ss1 & t1 & Eq & Ea & Hss & Er & Hrest).
    cbv zeta in Hrest. destruct Hrest as [W1 Eloop]. rewrite Eloop in H. clear Eloop.
    set (idx2 := (if Nat.eqb (S (q_index q)) (length (q_sessions q)) then 0 else S (q_index q))%nat) in *.
    set (q1 := mk_squeue (q_prio q) idx2 (a ++ ss1 :: b)) in *.
    assert (Ectx : Lpre ++ q_sessions q ++ Lpost = (Lpre ++ a) ++ ss :: (b ++ Lpost))
      by (rewrite Eq, <- !app_assoc; reflexivity).
    assert (Ectx1 : Lpre ++ q_sessions q1 ++ Lpost = (Lpre ++ a) ++ ss1 :: (b ++ Lpost))
      by (unfold q1; cbn [q_sessions]; rewrite <- !app_assoc; reflexivity).
    rewrite Ectx in I.
    destruct (Lwf_mid _ _ _ (inv_L _ _ _ I)) as (A1 & _).
    pose proof (file_run_inv fdt_npk fdt_ok divf now _ _ _ _ _ _ A1 Er) as R.
    pose proof (inv_file_run _ _ _ _ _ _ _ _ _ _ _ _ I R) as I1. rewrite <- Ectx1 in I1.
    assert (Hlen : length (q_sessions q) = (length a + S (length b))%nat) by (rewrite Eq, app_length; reflexivity).
    destruct W as [Wi Wp].
    destruct o1; try (inversion H; subst; discriminate).
    (* the visit was quiet *)
    assert (Hq1 : fdtq t1 = []).
    { destruct (Nat.eqb idx2 orig); [inversion H; subst; assumption|].
      eapply (rr_fdtq_mono now Lpre Lpost fs n q1); eauto. }
    assert (Hq0 : fdtq t = []).
    { apply (sh_fdtq _ _ _ _ (shrink_file_run _ _ _ _ _ _ _ _ _ _ _ _ I R) Hq1). }
    destruct (Nat.eq_dec j (q_index q)) as [Ej|Ej].
    - exfalso. subst j. rewrite Eq, <- Ea, nth_error_mid in Hj. inversion Hj; subst ssj.
      rewrite <- Hss in Hr.
      destruct (noisy _ _ _ _ _ _ _ _ _ _ _ _ I Hr Hq0 R) as [Hc|Hc]; [congruence|contradiction].
    - assert (Hr1 : Rdy now ssj t1 (q_prio q1)) by (eapply rdy_quiet; eauto).
      assert (Hj1 : nth_error (q_sessions q1) j = Some ssj).
      { unfold q1. cbn [q_sessions]. rewrite <- Hj, Eq. apply nth_error_mid_neq. congruence. }
      assert (Hjl : (j < length (q_sessions q))%nat) by (apply nth_error_Some; congruence).
      unfold in_arc in Harc. unfold rem in Hrem.
      destruct (Nat.eqb_spec idx2 orig) as [Eo|Eo].
      + exfalso. unfold idx2 in Eo.
        destruct (Nat.eqb_spec (S (q_index q)) (length (q_sessions q))); destruct (Nat.ltb_spec (q_index q) orig); lia.
      + eapply (IH q1 orig t1 o q' t' j ssj); eauto.
        * unfold q1. cbn [q_sessions]. rewrite app_length. cbn [length]. lia.
        * unfold q1, rem. cbn [q_sessions q_index]. rewrite app_length. cbn [length]. unfold idx2 in *.
          destruct (Nat.eqb_spec (S (q_index q)) (length (q_sessions q)));
            destruct (Nat.ltb_spec (q_index q) orig); destruct (Nat.ltb_spec 0 orig);
            destruct (Nat.ltb_spec (S (q_index q)) orig); lia.
        * unfold q1, in_arc. cbn [q_index]. unfold idx2 in *.
          destruct (Nat.eqb_spec (S (q_index q)) (length (q_sessions q)));
            destruct (Nat.ltb_spec (q_index q) orig); destruct (Nat.ltb_spec 0 orig);
            destruct (Nat.ltb_spec (S (q_index q)) orig); lia.
  Qed.

  (* ---------- all queues ---------- *)
  Lemma live_shrink_back L t L' t' fs id :
    INV L fs t -> Shrink L t L' t' -> In id (live L' t') ->
    In id (live L t) /\ toi_of t' id = toi_of t id /\ f_o (obj t' id) = f_o (obj t id).
  Proof.
    intros I S Hin. pose proof (sh_live _ _ _ _ S id Hin) as Hin0.
    assert (Hl : (id < length (objs t))%nat) by (apply (own_bound _ _ _ _ _ _ _ _ (inv_own _ _ _ I)); exact Hin0).
    split; [assumption|]. unfold toi_of. rewrite (sh_fo _ _ _ _ S id Hl). auto.
  Qed.

  Lemma rq_priority now fs : forall todo done t toi c qs' t',
    Forall wfq done -> Forall wfq todo -> StronglySorted N.lt (map q_prio todo) ->
    INV (all_sessions (done ++ todo)) fs t ->
    rqs done todo now t = (RObj toi c, qs', t') ->
    exists p id, In id (live (all_sessions (done ++ todo)) t) /\ toi_of t id = toi
                 /\ o_prio (f_o (obj t id)) = p /\ In p (map q_prio todo) /\ fdtq t = []
                 /\ forall q, In q todo -> q_prio q < p ->
                      forall ss, In ss (q_sessions q) -> ~ Rdy now ss t (q_prio q).
  Proof.
    induction todo as [|q r IH]; intros done t toi c qs' t' Wd Wt Hs I H.
    { cbn [read_queues] in H. discriminate. }
    cbn [read_queues] in H.
    destruct (rpq q now t) as [[o1 q1] t1] eqn:Eq. unfold read_priority_queue in Eq.
    inversion Wt as [|? ? Wq Wr]; subst.
    cbn [map] in Hs. apply StronglySorted_inv in Hs. destruct Hs as [Hs Hlt].
    rewrite all_sessions_mid in I.
    destruct (rr_loop_path fdt_npk fdt_ok divf now (all_sessions done) (all_sessions r) _ _ _ _ _ _ _ Wq Eq)
      as (W1 & P1 & L1 & (Lm & tm & Pm & Rm)).
    assert (Im : INV Lm fs tm) by (eapply inv_qpath; eauto).
    pose proof (shrink_qpath _ _ _ _ _ _ _ _ _ I Pm) as Sm.
    destruct o1; try discriminate.
    - (* this queue was quiet *)
      destruct Rm as [(_ & -> & ->)|(Hc & _)]; [|contradiction].
      assert (Wd' : Forall wfq (done ++ [q1])) by (apply Forall_app; split; [assumption|constructor; [assumption|constructor]]).
      assert (I1 : INV (all_sessions ((done ++ [q1]) ++ r)) fs t1)
        by (rewrite <- app_assoc; cbn [app]; rewrite all_sessions_mid; assumption).
      destruct (IH (done ++ [q1]) t1 toi c qs' t' Wd' Wr Hs I1 H) as (p & id & Hin & Ht & Hp & Hk & Hq1 & Hno).
      rewrite <- app_assoc in Hin. cbn [app] in Hin. rewrite all_sessions_mid in Hin.
      destruct (live_shrink_back _ _ _ _ _ _ I Sm Hin) as (Hin0 & Et & Eo).
      assert (Hq0 : fdtq t = []) by (apply (sh_fdtq _ _ _ _ Sm Hq1)).
      exists p, id. rewrite all_sessions_mid.
      split; [assumption|]. split; [congruence|]. split; [congruence|]. split; [right; assumption|].
      split; [assumption|].
      intros q0 [<-|Hq0in] Hlt0 ss Hss Hr.
      + (* the quiet queue itself *)
        destruct (In_nth_error _ _ Hss) as (j & Hj).
        assert (Hjl : (j < length (q_sessions q))%nat) by (apply nth_error_Some; congruence).
        assert (Hrem : (rem (q_index q) (q_index q) (length (q_sessions q)) <= length (q_sessions q))%nat).
        { unfold rem. rewrite Nat.ltb_irrefl. destruct Wq. lia. }
        assert (Harc : in_arc (q_index q) (q_index q) j).
        { unfold in_arc. rewrite Nat.ltb_irrefl. lia. }
        apply (rr_noisy now (all_sessions done) (all_sessions r) fs (length (q_sessions q)) q (q_index q) t
                        RNothing q1 t1 j ss Wq (proj1 Wq) I Hq1 Hrem Harc Hj Hr Eq). reflexivity.
      + (* a later queue: its sessions have not been visited *)
        apply (Hno q0 Hq0in Hlt0 ss Hss).
        destruct (In_nth_error _ _ Hss) as (j & Hj).
        destruct (in_split _ _ Hq0in) as (ra & rb & ->).
        (* position of ss in the flat list *)
        set (k := (length (all_sessions done) + (length (q_sessions q) + (length (all_sessions ra) + j)))%nat).
        assert (Hwq0 : wfq q0) by (rewrite Forall_forall in Wr; apply Wr; assumption).
        assert (Hk0 : forall X, length X = length (q_sessions q) ->
                  nth_error (all_sessions done ++ X ++ all_sessions (ra ++ q0 :: rb)) k = Some ss).
        { intros X HX. unfold k. rewrite nth_error_app2 by lia.
          replace (length (all_sessions done) + (length (q_sessions q) + (length (all_sessions ra) + j)) - length (all_sessions done))%nat
            with (length X + (length (all_sessions ra) + j))%nat by lia.
          rewrite nth_error_app2 by lia.
          replace (length X + (length (all_sessions ra) + j) - length X)%nat with (length (all_sessions ra) + j)%nat by lia.
          rewrite all_sessions_mid. rewrite nth_error_app2 by lia.
          replace (length (all_sessions ra) + j - length (all_sessions ra))%nat with j by lia.
          rewrite nth_error_app1 by (apply nth_error_Some; congruence). assumption. }
        assert (Hat : RdyAt now k (all_sessions done ++ q_sessions q ++ all_sessions (ra ++ q0 :: rb)) t).
        { exists ss. split; [apply Hk0; reflexivity|]. destruct Hwq0 as [_ Hp0]. rewrite (Hp0 ss Hss). assumption. }
        destruct (rdyat_qpath _ _ _ _ _ _ _ I Pm Hq1 Hat) as (ss2 & Hk2 & Hr2).
        rewrite (Hk0 _ L1) in Hk2. inversion Hk2; subst ss2.
        destruct Hwq0 as [_ Hp0]. rewrite (Hp0 ss Hss) in Hr2. exact Hr2.
    - (* this queue emitted the packet *)
      inversion H; subst toi0 close qs' t'. clear H.
      destruct Rm as [(Hc & _)|(_ & x & Hx & Vx)]; [discriminate|].
      destruct (out_obj _ _ _ _ _ _ _ _ _ Im Vx) as (id & Hin & Ht & Hp & Hqm).
      destruct (live_shrink_back _ _ _ _ _ _ I Sm Hin) as (Hin0 & Et & Eo).
      exists (q_prio q), id. rewrite all_sessions_mid.
      split; [assumption|]. split; [congruence|]. split; [congruence|]. split; [left; reflexivity|].
      split; [apply (sh_fdtq _ _ _ _ Sm Hqm)|].
      intros q0 [<-|Hq0in] Hlt0; [exfalso; apply (N.lt_irrefl _ Hlt0)|].
      exfalso. rewrite Forall_forall in Hlt. specialize (Hlt (q_prio q0) (in_map _ _ _ Hq0in)).
      apply (N.lt_irrefl (q_prio q)). eapply N.lt_trans; eauto.
  Qed.

  (* ---------- prio_of_toi on a state that satisfies the invariant ---------- *)
  Lemma in_slot_ids L id : In id (slot_ids L) -> exists ss, In ss L /\ ss_file ss = Some id.
  Proof.
    unfold slot_ids, slot_pairs. intros H. apply in_map_iff in H. destruct H as ((i & p) & E & H). cbn in E. subst i.
    apply in_flat_map in H. destruct H as (ss & Hss & H). exists ss. split; [assumption|].
    destruct (ss_file ss) as [i|]; [|destruct H]. destruct H as [H|[]]. inversion H; subst. reflexivity.
  Qed.

  Lemma slot_ids_in L ss id : In ss L -> ss_file ss = Some id -> In (id, ss_prio ss) (slot_pairs L).
  Proof.
    intros H Hf. unfold slot_pairs. apply in_flat_map. exists ss. split; [assumption|]. rewrite Hf. left. reflexivity.
  Qed.

  Lemma prio_of_toi_live s id :
    Inv s -> In id (live (all_sessions (squeues s)) s) ->
    prio_of_toi s (toi_of s id) = Some (o_prio (f_o (obj s id))).
  Proof.
    intros [I _ _] Hin. set (L := all_sessions (squeues s)) in *.
    pose proof (inv_own _ _ _ I) as O.
    assert (Hinj : forall a b, In a (live L s) -> In b (live L s) -> toi_of s a = toi_of s b -> a = b).
    { intros a b Ha Hb E. eapply (NoDup_map_inj_in (fun j => o_toi (fo_of s j))); [apply (own_toi _ _ _ _ _ _ _ _ O)|exact Ha|exact Hb|exact E]. }
    unfold prio_of_toi. fold (all_sessions (squeues s)). fold L.
    destruct (find _ L) as [ss0|] eqn:Ef.
    - apply find_some in Ef. destruct Ef as [Hss0 Hp]. destruct (ss_file ss0) as [i0|] eqn:Hf0; [|discriminate].
      apply N.eqb_eq in Hp.
      assert (Hi0 : In i0 (live L s)).
      { apply in_or_app. left. unfold slot_ids. change i0 with (fst (i0, ss_prio ss0)). apply in_map. apply slot_ids_in; assumption. }
      assert (i0 = id) by (apply Hinj; assumption). subst i0.
      f_equal. symmetry. apply (own_prio _ _ _ _ _ _ _ _ O). apply slot_ids_in; assumption.
    - apply in_app_or in Hin. destruct Hin as [Hin|Hin].
      + exfalso. apply in_slot_ids in Hin. destruct Hin as (ss & Hss & Hf).
        pose proof (find_none _ _ Ef ss Hss) as Hn. cbv beta in Hn. rewrite Hf in Hn.
        fold (toi_of s id) in Hn. rewrite N.eqb_refl in Hn. discriminate.
      + destruct (find _ (queue s)) as [id0|] eqn:Eq.
        * apply find_some in Eq. destruct Eq as [Hid0 Hp]. apply N.eqb_eq in Hp.
          assert (id0 = id).
          { apply Hinj; [apply in_or_app; right; assumption|apply in_or_app; right; assumption|exact Hp]. }
          subst id0. reflexivity.
        * exfalso. pose proof (find_none _ _ Eq id Hin) as Hn. cbv beta in Hn.
          fold (toi_of s id) in Hn. rewrite N.eqb_refl in Hn. discriminate.
  Qed.

  (* readiness seen before the FDT session ran is still there afterwards *)
  Lemma rdy_frame now L fs s s1 ss prio :
    INV L fs s -> Frame L s s1 -> In ss L -> Rdy now ss s prio -> Rdy now ss s1 prio.
  Proof.
    intros I F Hss Hr.
    assert (Hslot : forall id, ss_file ss = Some id -> f_t (obj s1 id) = f_t (obj s id)).
    { intros id Hf.
      assert (Hin : In id (live L s)).
      { apply in_or_app. left. unfold slot_ids. change id with (fst (id, ss_prio ss)). apply in_map. apply slot_ids_in; assumption. }
      apply (fr_obj _ _ _ F id); [|assumption].
      apply (own_bound _ _ _ _ _ _ _ _ (inv_own _ _ _ I)). exact Hin. }
    destruct Hr as [Hr|(Hr & (y & Hy & Hs))].
    - left. unfold ready_in_slot in *. destruct (ss_file ss) as [id|] eqn:Hf; [|assumption]. destruct (ss_enc ss); [|assumption].
      unfold tick_due in *. rewrite (Hslot id eq_refl). assumption.
    - right. split.
      + unfold slot_free in *. destruct (ss_enc ss); [|reflexivity]. destruct (ss_file ss) as [id|] eqn:Hf; [|assumption].
        unfold tick_due in *. rewrite (Hslot id eq_refl). assumption.
      + exists y. split; [rewrite (fr_queue _ _ _ F); assumption|].
        assert (Hin : In y (live L s)) by (apply in_or_app; right; assumption).
        assert (Hl : (y < length (objs s))%nat) by (apply (own_bound _ _ _ _ _ _ _ _ (inv_own _ _ _ I)); exact Hin).
        destruct (fr_obj _ _ _ F y Hl) as (E1 & E2 & E3).
        rewrite (fr_full _ _ _ F). eapply stn_mono; [symmetry; exact E1|symmetry; exact (E3 Hin)|exact E2|exact Hs].
  Qed.

  (* ---------- the read theorem ---------- *)
  Theorem priority_read now s o s' : Inv s -> sread now s = (o, s') -> P_C13_priority s now o = true.
  Proof.
    intros IS H. destruct o as [| |toi c| |]; try reflexivity.
    unfold sender_read in H.
    destruct (runfdt now s) as [o1 s1] eqn:E1.
    destruct (Inv_runfdt _ _ _ now s o1 s1 IS E1) as (I1 & F1 & Ho1).
    destruct o1; try (inversion H; subst; exfalso; eapply Ho1; reflexivity); try discriminate.
    destruct (rqs [] (squeues s1) now s1) as [[o2 qs] s2] eqn:E2.
    assert (Ho2 : o2 = RObj toi c).
    { destruct o2; try (inversion H; subst; reflexivity); try discriminate.
      exfalso. destruct (runfdt now (set_squeues s2 qs)) as [o3 s3] eqn:E3.
      destruct (read_queues_path fdt_npk fdt_ok divf now _ _ _ _ _ _ (Forall_nil _) (Inv_wfq _ I1) E2) as (W2 & P2 & _).
      assert (I3 : Inv (set_squeues s2 qs)).
      { (* the state handed to the last FDT run satisfies Inv *)
        destruct I1 as [J1 W1 S1].
        destruct (read_queues_path fdt_npk fdt_ok divf now _ _ _ _ _ _ (Forall_nil _) W1 E2) as (W2' & P2' & (Lm & tm & Pm & Rm)).
        cbn [app] in *.
        destruct Rm as [(_ & -> & ->)|(Hc & _)]; [|contradiction].
        assert (J2 : INV (all_sessions qs) (fdt_session s1) s2) by (eapply inv_qpath; eauto).
        pose proof (qpath_static _ _ _ _ _ _ _ _ Pm) as St.
        assert (Efs : fdt_session s2 = fdt_session s1) by (unfold static in St; congruence).
        constructor; cbn [squeues fdt_session set_squeues].
        - rewrite Efs. eapply inv_fields; [..|exact J2]; reflexivity.
        - assumption.
        - rewrite P2'. assumption. }
      destruct (Inv_runfdt _ _ _ now _ _ _ I3 E3) as (_ & _ & Ho3).
      inversion H; subst. eapply Ho3. reflexivity. }
    subst o2.
    destruct I1 as [J1 W1 S1].
    pose proof (fr_squeues _ _ _ F1) as Esq.
    destruct (rq_priority now (fdt_session s1) (squeues s1) [] s1 toi c qs s2 (Forall_nil _) W1 S1 J1 E2)
      as (p & id & Hin & Ht & Hp & Hk & Hq & Hno).
    cbn [app] in *. rewrite Esq in *.
    set (L := all_sessions (squeues s)) in *.
    pose proof (Inv_inv _ IS) as J0. fold L in J0.
    assert (Hin0 : In id (live L s)) by (unfold live in *; rewrite <- (fr_queue _ _ _ F1); exact Hin).
    assert (Hl : (id < length (objs s))%nat) by (apply (own_bound _ _ _ _ _ _ _ _ (inv_own _ _ _ J0)); exact Hin0).
    destruct (fr_obj _ _ _ F1 id Hl) as (Eo & _ & _).
    assert (Ht0 : toi_of s id = toi) by (unfold toi_of in *; rewrite <- Eo; exact Ht).
    unfold P_C13_priority. rewrite <- Ht0. rewrite (prio_of_toi_live s id IS Hin0).
    apply negb_true_iff. destruct (existsb _ (squeues s)) eqn:Ex; [|reflexivity]. exfalso.
    apply existsb_exists in Ex. destruct Ex as (q & Hq0 & Hb). apply andb_true_iff in Hb. destruct Hb as [Hlt Hrd].
    apply N.ltb_lt in Hlt. apply queue_ready_Rdy in Hrd. destruct Hrd as (ss & Hss & Hr).
    assert (Hlt' : q_prio q < p) by (rewrite <- Hp, Eo; exact Hlt).
    apply (Hno q Hq0 Hlt' ss Hss).
    eapply rdy_frame; [exact J0|exact F1| |exact Hr].
    unfold L, all_sessions. apply in_flat_map. exists q. split; assumption.
  Qed.
End F.

(* ============================== part G ============================== *)
(* C13, history level: part G - every operation keeps the invariant; the trace theorem *)


(* TOIs of the objects that hold a transmission slot or wait for one *)
Definition live_tois (s : st) : list N := map (toi_of s) (live (all_sessions (squeues s)) s).

(* side condition on add_object: the TOI is not the TOI of an object still held by the sender
   (the TOI allocator of the implementation hands a TOI out again only after its previous holder
   has been dropped) *)
Definition op_fresh (s : st) (o : op) : bool :=
  match o with
  | OpAdd od _ true => negb (memN (o_toi od) (live_tois s))
  | _ => true
  end.

Lemma memN_false x l : memN x l = false -> ~ In x l.
Proof.
  unfold memN. intros H Hin. assert (existsb (N.eqb x) l = true); [|congruence].
  apply existsb_exists. exists x. split; [assumption|apply N.eqb_refl].
Qed.

Lemma slot_pairs_nil L : (forall ss, In ss L -> ss_file ss = None) -> slot_pairs L = [].
Proof.
  induction L as [|x L IH]; intros H; [reflexivity|]. unfold slot_pairs in *. cbn [flat_map].
  rewrite (H x (or_introl eq_refl)). cbn [app]. apply IH. intros ss Hss. apply H. right. assumption.
Qed.

Lemma sorted_map {A} (f : A -> N) : forall l, StronglySorted N.lt (map f l) ->
  StronglySorted (fun a b => f a < f b) l.
Proof.
  induction l as [|x l IH]; intros H; [constructor|]. cbn [map] in H. apply StronglySorted_inv in H.
  destruct H as [H1 H2]. constructor; [auto|]. rewrite Forall_forall in *. intros y Hy. apply H2. apply in_map. assumption.
Qed.

Section G.
  Variable fdt_npk : N -> nat.
  Variable fdt_ok : N -> bool.
  Variable divf : Z -> N -> option Z.

  Notation sread := (sender_read fdt_npk fdt_ok divf).
  Notation publ := (publish fdt_npk fdt_ok).
  Notation mstep := (step fdt_npk fdt_ok divf).
  Notation mtrace := (model_trace fdt_npk fdt_ok divf).

  Fixpoint ops_fresh (s : st) (ops : list op) : bool :=
    match ops with
    | [] => true
    | o :: r => op_fresh s o && ops_fresh (snd (mstep s o)) r
    end.

  Lemma Inv_change s t' :
    Inv s -> INV (all_sessions (squeues s)) (fdt_session s) t' ->
    squeues t' = squeues s -> fdt_session t' = fdt_session s -> Inv t'.
  Proof. intros [I W S] I' E1 E2. constructor; rewrite ?E1, ?E2; assumption. Qed.

  Lemma Inv_add s od start :
    Inv s -> ~ In (o_toi od) (live_tois s) ->
    let s1 := set_objs s (objs s ++ [mk_fdesc od false (mk_tinfo false 0 0 None None None None start)]) in
    Inv (set_queue (set_files s1 (files s1 ++ [length (objs s)])) (queue s1 ++ [length (objs s)])).
  Proof.
    intros IS Hfresh. cbv zeta. set (nf := mk_fdesc od false _). set (sA := set_queue _ _).
    eapply Inv_change; [exact IS| |reflexivity|reflexivity].
    destruct (Inv_inv _ IS) as [A B C D].
    assert (Eobj : forall j, obj sA j = nth j (objs s ++ [nf]) dummy_f) by reflexivity.
    assert (Eold : forall j, (j < length (objs s))%nat -> obj sA j = obj s j).
    { intros j Hj. rewrite Eobj. rewrite app_nth1 by assumption. reflexivity. }
    assert (Enew : obj sA (length (objs s)) = nf).
    { rewrite Eobj. rewrite app_nth2 by lia. rewrite Nat.sub_diag. reflexivity. }
    constructor; [assumption|assumption| |].
    - intros j. destruct (Nat.lt_ge_cases j (length (objs s))) as [Hl|Hl]; [rewrite Eold by assumption; apply C|].
      destruct (Nat.eq_dec j (length (objs s))) as [->|Hne].
      + rewrite Enew. unfold untimed, untimed'. cbn. destruct (o_target od); auto.
      + rewrite Eobj. rewrite nth_overflow by (rewrite app_length; cbn; lia). unfold untimed, untimed'. cbn. auto.
    - change (queue sA) with (queue s ++ [length (objs s)]). change (files sA) with (files s ++ [length (objs s)]).
      change (Dq sA) with (Dq s).
      replace (length (objs sA)) with (S (length (objs s))) by (change (objs sA) with (objs s ++ [nf]); rewrite app_length; cbn; lia).
      eapply own_add; [exact D| | | |].
      + intros j Hj. unfold fo_of. rewrite Eold by assumption. reflexivity.
      + intros j Hj. unfold tr_of. rewrite Eold by assumption. reflexivity.
      + unfold tr_of. rewrite Enew. reflexivity.
      + unfold fo_of at 1. rewrite Enew. exact Hfresh.
  Qed.

  Lemma Inv_step s o : Inv s -> op_fresh s o = true -> Inv (snd (mstep s o)).
  Proof.
    intros IS Hf. destruct o as [od start acc|now|toi|toi ts| |now]; cbn [step].
    - destruct (negb (has_queue s (o_prio od))); [assumption|].
      destruct (complete s); [assumption|].
      destruct acc; cbn [negb]; [|assumption]. cbn [snd]. apply (Inv_add s od start); [assumption|].
      cbn [op_fresh] in Hf. apply negb_true_iff in Hf. apply memN_false. assumption.
    - destruct (publ now s) as [ok s'] eqn:E. cbn [snd].
      replace s' with (snd (publ now s)) by (rewrite E; reflexivity).
      pose proof (static_publish fdt_npk fdt_ok now s) as St. unfold static in St.
      eapply Inv_change; [exact IS|apply inv_publish; apply (Inv_inv _ IS)|congruence|congruence].
    - destruct (is_added s toi); [|assumption]. cbn [snd].
      eapply Inv_change; [exact IS| |reflexivity|reflexivity].
      destruct (Inv_inv _ IS) as [A B C D]. constructor; [assumption|assumption|exact C|].
      unfold remove_toi. apply own_remove. exact D.
    - destruct (find_file s toi) as [id|]; [|assumption].
      destruct (t_transferring (f_t (obj s id))); [assumption|]. cbn [snd].
      eapply Inv_change; [exact IS| |reflexivity|reflexivity].
      apply inv_upd_neutral; [apply untimed_reset|reflexivity|apply (Inv_inv _ IS)].
    - cbn [snd]. eapply Inv_change; [exact IS| |reflexivity|reflexivity].
      eapply inv_fields; [..|apply (Inv_inv _ IS)]; reflexivity.
    - destruct (sread now s) as [r s'] eqn:E. cbn [snd]. eapply Inv_sread; eauto.
  Qed.

  Lemma Inv_init full dur car sid queues :
    StronglySorted N.lt (map fst queues) -> Inv (init_st full dur car sid queues).
  Proof.
    intros Hs. unfold init_st.
    set (mkq := fun pq : N * nat => mk_squeue (fst pq) 0 (repeat (mk_session (fst pq) false None None) (Nat.max 1 (snd pq)))).
    assert (Hall : forall ss, In ss (all_sessions (map mkq queues)) -> ss_file ss = None /\ ss_enc ss = None /\ ss_fdt_only ss = false).
    { intros ss H. unfold all_sessions in H. apply in_flat_map in H. destruct H as (q & Hq & H).
      apply in_map_iff in Hq. destruct Hq as (pq & <- & _). cbn [q_sessions mkq] in H.
      apply repeat_spec in H. subst ss. auto. }
    constructor; cbn [squeues fdt_session].
    - constructor.
      + intros ss H. destruct (Hall ss H) as (H1 & H2 & H3). rewrite H1, H2, H3. auto.
      + split; [reflexivity|reflexivity].
      + intros j. unfold obj. cbn [objs]. destruct j; cbn; unfold untimed, untimed'; cbn; auto.
      + rewrite slot_pairs_nil by (intros ss H; apply (Hall ss H)).
        unfold Dq. constructor; cbn; intros; try contradiction; try lia; try constructor.
    - rewrite Forall_forall. intros q Hq. apply in_map_iff in Hq. destruct Hq as (pq & <- & _).
      split; cbn [q_index q_sessions q_prio mkq].
      + rewrite repeat_length. lia.
      + intros ss H. apply repeat_spec in H. subst ss. reflexivity.
    - rewrite map_map. cbn [q_prio mkq]. exact Hs.
  Qed.

  (* (1) strict priority along every run *)
  Theorem strict_priority_trace : forall ops s,
    Inv s -> ops_fresh s ops = true ->
    Forall (fun es => match fst es with
                      | TRead now r _ _ => P_C13_priority (snd es) now r = true
                      | _ => True
                      end) (mtrace s ops).
  Proof.
    induction ops as [|o r IH]; intros s IS Hf; cbn [model_trace]; [constructor|].
    cbn [ops_fresh] in Hf. apply andb_true_iff in Hf. destruct Hf as [Hf1 Hf2].
    pose proof (Inv_step s o IS Hf1) as IS'.
    destruct (mstep s o) as [out s'] eqn:E. cbn [snd] in *.
    constructor; [|apply IH; assumption].
    cbn [fst snd]. destruct o as [od start acc|now|toi|toi ts| |now]; cbn [step] in E.
    - destruct (negb (has_queue s (o_prio od))); [inversion E; subst; exact Logic.I|].
      destruct (complete s); [inversion E; subst; exact Logic.I|].
      destruct (negb acc); inversion E; subst; exact Logic.I.
    - destruct (publ now s); inversion E; subst; exact Logic.I.
    - destruct (is_added s toi); inversion E; subst; exact Logic.I.
    - destruct (find_file s toi); [destruct (t_transferring _)|]; inversion E; subst; exact Logic.I.
    - inversion E; subst. exact Logic.I.
    - destruct (sread now s) as [r0 s0] eqn:Er. inversion E; subst out s'.
      pose proof (priority_read fdt_npk fdt_ok divf now s r0 s0 IS Er) as P.
      destruct r0; cbn [ev_of]; exact P.
  Qed.

  Theorem strict_priority_from_init ops full dur car sid queues :
    StronglySorted N.lt (map fst queues) ->
    ops_fresh (init_st full dur car sid queues) ops = true ->
    Forall (fun es => match fst es with
                      | TRead now r _ _ => P_C13_priority (snd es) now r = true
                      | _ => True
                      end) (mtrace (init_st full dur car sid queues) ops).
  Proof. intros Hs Hf. apply strict_priority_trace; [apply Inv_init; assumption|assumption]. Qed.
End G.

(* ============================== part H ============================== *)
(* C13, history level: part H - the model's own start/stop events pass the event predicate *)


Lemma find_unique {A} (p : A -> bool) l x :
  In x l -> p x = true -> (forall y, In y l -> p y = true -> y = x) -> find p l = Some x.
Proof.
  intros Hin Hp Hu. destruct (find p l) as [y|] eqn:E.
  - apply find_some in E. destruct E as [Hy Hpy]. f_equal. apply Hu; assumption.
  - pose proof (find_none _ _ E x Hin). congruence.
Qed.

Lemma find_ext_in {A} (p q : A -> bool) l : (forall x, In x l -> p x = q x) -> find p l = find q l.
Proof.
  induction l as [|x l IH]; intros H; [reflexivity|]. cbn [find].
  rewrite (H x (or_introl eq_refl)). destruct (q x); [reflexivity|]. apply IH. intros y Hy. apply H. right. assumption.
Qed.

Lemma slot_pairs_length L : (length (slot_pairs L) <= length L)%nat.
Proof.
  induction L as [|x L IH]; [apply Nat.le_refl|]. unfold slot_pairs in *. cbn [flat_map]. rewrite app_length.
  cbn [length]. destruct (ss_file x); cbn [length]; lia.
Qed.

(* TOIs of live objects are not the FDT's TOI *)
Definition NZ (L : list session) (t : st) : Prop := forall j, In j (live L t) -> toi_of t j <> 0.
Definition NZs (s : st) : Prop := NZ (all_sessions (squeues s)) s.

Definition prio_count (p : N) (L : list session) : nat := length (filter (fun ss => ss_prio ss =? p) L).
Definition Slots (L : list session) (r : st) : Prop := forall p, (prio_count p L <= slots_of r p)%nat.

Section H.
  Variable fdt_npk : N -> nat.
  Variable fdt_ok : N -> bool.
  Variable divf : Z -> N -> option Z.

  Notation srun := (session_run fdt_npk fdt_ok divf).
  Notation gnft := (get_next_file_transfer fdt_npk fdt_ok divf).
  Notation rqs := (read_queues fdt_npk fdt_ok divf).
  Notation sread := (sender_read fdt_npk fdt_ok divf).
  Notation runfdt := (run_fdt_session fdt_npk fdt_ok divf).
  Notation file_run := (file_run fdt_npk fdt_ok divf).
  Notation fresh_run := (fresh_run fdt_npk fdt_ok divf).
  Notation vstep := (vstep fdt_npk fdt_ok divf).
  Notation qpath := (qpath fdt_npk fdt_ok divf).
  Notation c13 := (c13_events divf).

  (* the replayed state r against the model state t *)
  Record Sim (L : list session) (r t : st) : Prop := mk_Sim {
    sim_queue : queue r = queue t;
    sim_files : files r = files t;
    sim_full : full_fdt r = full_fdt t;
    sim_squeues : squeues r = squeues t;
    sim_len : (length (objs r) <= length (objs t))%nat;
    sim_obj : forall j, (j < length (objs r))%nat ->
                f_o (obj r j) = f_o (obj t j) /\ f_t (obj r j) = f_t (obj t j)
                /\ (full_fdt t = true -> f_pub (obj r j) = f_pub (obj t j));
    sim_live : forall j, In j (live L t) -> (j < length (objs r))%nat;
    sim_filesb : forall j, In j (files t) -> (j < length (objs r))%nat
  }.

  Lemma sim_refl L fs t : INV L fs t -> Sim L t t.
  Proof.
    intros I. constructor; auto.
    - apply (own_bound _ _ _ _ _ _ _ _ (inv_own _ _ _ I)).
    - apply (own_files _ _ _ _ _ _ _ _ (inv_own _ _ _ I)).
  Qed.

  Lemma sim_toi L r t j : Sim L r t -> (j < length (objs r))%nat -> toi_of r j = toi_of t j.
  Proof. intros S Hj. unfold toi_of. destruct (sim_obj _ _ _ S j Hj) as (E & _). rewrite E. reflexivity. Qed.

  Lemma sim_stn L r t j prio now : Sim L r t -> (j < length (objs r))%nat ->
    should_transfer_now (obj r j) prio (full_fdt r) now = should_transfer_now (obj t j) prio (full_fdt t) now.
  Proof.
    intros S Hj. destruct (sim_obj _ _ _ S j Hj) as (E1 & E2 & E3). rewrite (sim_full _ _ _ S).
    apply stn_congr; assumption.
  Qed.

  (* ---------- the multiplex bound ---------- *)
  Lemma multiplex_bound L fs r t p :
    INV L fs t -> Sim L r t -> Slots L r -> (length (in_transmission r p) <= slots_of r p)%nat.
  Proof.
    intros I S Hs. eapply Nat.le_trans; [|apply (Hs p)]. unfold prio_count.
    set (Lp := filter (fun ss => ss_prio ss =? p) L).
    eapply Nat.le_trans; [|apply (slot_pairs_length Lp)].
    rewrite <- (map_length fst (slot_pairs Lp)).
    apply NoDup_incl_length; [apply NoDup_filter; apply seq_NoDup|].
    intros j Hj. unfold in_transmission in Hj. apply filter_In in Hj. destruct Hj as [Hj Hp].
    apply in_seq in Hj. assert (Hl : (j < length (objs r))%nat) by lia.
    apply andb_true_iff in Hp. destruct Hp as [Hp Hfid]. apply andb_true_iff in Hp. destruct Hp as [Htr Hpr].
    destruct (sim_obj _ _ _ S j Hl) as (E1 & E2 & _). rewrite E1 in Hpr, Hfid. rewrite E2 in Htr.
    apply N.eqb_eq in Hpr.
    pose proof (inv_own _ _ _ I) as O.
    destruct (own_tr _ _ _ _ _ _ _ _ O j ltac:(pose proof (sim_len _ _ _ S); lia) Htr) as [Hin|Hfs].
    - apply in_slot_ids in Hin. destruct Hin as (ss & Hss & Hf).
      assert (Hpp : ss_prio ss = p).
      { rewrite <- Hpr. symmetry. apply (own_prio _ _ _ _ _ _ _ _ O). apply slot_ids_in; assumption. }
      change j with (fst (j, ss_prio ss)). apply in_map. apply slot_ids_in; [|assumption].
      unfold Lp. apply filter_In. split; [assumption|]. apply N.eqb_eq. assumption.
    - exfalso. assert (Hd : In j (Dq t ++ opt_list (ss_file fs))) by (rewrite Hfs; apply in_or_app; right; left; reflexivity).
      destruct (own_fdt _ _ _ _ _ _ _ _ O j Hd) as (_ & [Hfl _] & _). unfold fo_of in Hfl.
      destruct (o_fdtid (f_o (obj t j))); [discriminate|contradiction].
  Qed.

  Lemma slots_replace L1 ss L2 ss' r r' :
    Slots (L1 ++ ss :: L2) r -> ss_prio ss' = ss_prio ss -> squeues r' = squeues r -> Slots (L1 ++ ss' :: L2) r'.
  Proof.
    intros H Hp Hq p. unfold slots_of. rewrite Hq. fold (slots_of r p).
    eapply Nat.le_trans; [|apply (H p)]. unfold prio_count. rewrite !filter_app. cbn [filter]. rewrite Hp.
    rewrite !app_length. destruct (ss_prio ss =? p); cbn [length]; apply Nat.le_refl.
  Qed.

  (* ---------- replaying a stop ---------- *)
  Lemma sim_transfer_done L1 ss L2 fs r t id now :
    INV (L1 ++ ss :: L2) fs t -> Sim (L1 ++ ss :: L2) r t -> ss_file ss = Some id ->
    Sim (L1 ++ empty_of ss :: L2) (transfer_done id now r) (transfer_done id now t).
  Proof.
    intros I S Hf. set (L := L1 ++ ss :: L2) in *. set (L' := L1 ++ empty_of ss :: L2).
    assert (Hidl : In id (live L t)) by (apply live_mid; auto).
    assert (Hl : (id < length (objs r))%nat) by (apply (sim_live _ _ _ S); assumption).
    assert (Hlt : (id < length (objs t))%nat) by (pose proof (sim_len _ _ _ S); lia).
    set (r1 := upd_t r id (t_done now)). set (t1 := upd_t t id (t_done now)).
    assert (Hobj : forall j, (j < length (objs r))%nat ->
              f_o (obj r1 j) = f_o (obj t1 j) /\ f_t (obj r1 j) = f_t (obj t1 j)
              /\ (full_fdt t = true -> f_pub (obj r1 j) = f_pub (obj t1 j))).
    { intros j Hj. destruct (sim_obj _ _ _ S j Hj) as (E1 & E2 & E3). unfold r1, t1.
      rewrite !obj_upd_t_o, !obj_upd_t_pub. split; [assumption|]. split; [|assumption].
      destruct (Nat.eq_dec id j) as [<-|Hne].
      - rewrite !obj_upd_t_same by assumption. destruct (sim_obj _ _ _ S id Hl) as (_ & E & _). rewrite E. reflexivity.
      - rewrite !obj_upd_t_other by assumption. assumption. }
    assert (Hlive : forall j, In j (live L' (transfer_done id now t)) -> (j < length (objs r))%nat).
    { intros j Hj. apply (sim_live _ _ _ S). apply live_mid in Hj. apply live_mid. cbn [ss_file empty_of] in Hj.
      rewrite Hf. destruct Hj as [Hj|[Hj|[Hj|Hj]]]; auto; [discriminate|].
      destruct (td_queue id now t) as [E|E]; rewrite E in Hj; auto.
      apply in_app_or in Hj. destruct Hj as [Hj|[<-|[]]]; auto. }
    assert (Hfb : forall j, In j (files (transfer_done id now t)) -> (j < length (objs r))%nat).
    { intros j Hj. apply (sim_filesb _ _ _ S). apply (td_files id now t). assumption. }
    (* the three tests of transfer_done agree *)
    assert (ET : o_toi (f_o (obj r1 id)) = o_toi (f_o (obj t1 id))) by (destruct (Hobj id Hl) as (E & _); rewrite E; reflexivity).
    assert (EE : is_expired (obj r1 id) = is_expired (obj t1 id)).
    { unfold is_expired. destruct (Hobj id Hl) as (E1 & E2 & _). rewrite E1, E2. reflexivity. }
    assert (Etoi : forall e1 e2 j, In j (files t) -> toi_of (log_ev r1 e1) j = toi_of (log_ev t1 e2) j).
    { intros e1 e2 j Hj. unfold toi_of. change (obj (log_ev r1 e1) j) with (obj r1 j). change (obj (log_ev t1 e2) j) with (obj t1 j).
      destruct (Hobj j (sim_filesb _ _ _ S j Hj)) as (E & _). rewrite E. reflexivity. }
    assert (EA : forall e1 e2 T, is_added (log_ev r1 e1) T = is_added (log_ev t1 e2) T).
    { intros e1 e2 T. unfold is_added, find_file. change (files (log_ev r1 e1)) with (files r). change (files (log_ev t1 e2)) with (files t).
      rewrite (sim_files _ _ _ S). f_equal. apply find_ext_in. intros j Hj. rewrite (Etoi e1 e2 j Hj). reflexivity. }
    assert (Hlen : (length (objs r1) <= length (objs t1))%nat) by (unfold r1, t1; rewrite !len_upd_t; apply (sim_len _ _ _ S)).
    assert (Hlr : length (objs r1) = length (objs r)) by apply len_upd_t.
    pose proof (td_full id now t) as Hfull.
    remember (transfer_done id now t) as tt eqn:Ett.
    unfold transfer_done in Ett |- *. fold r1 in Ett |- *. fold t1 in Ett |- *. rewrite ET, EE.
    revert Ett. destruct (o_toi (f_o (obj t1 id)) =? 0).
    { destruct (is_expired (obj t1 id)); intros ->; constructor; cbn [queue files full_fdt squeues objs set_cur_fdt];
        try apply S; try assumption; rewrite ?Hlr; try assumption. }
    cbv zeta. rewrite (EA _ (EvStop (o_toi (f_o (obj t1 id)))) _).
    destruct (is_added (log_ev t1 _) _); cbn [negb].
    2:{ intros ->. constructor; cbn [queue files full_fdt squeues objs log_ev];
          try apply S; try assumption; rewrite ?Hlr; try assumption. }
    destruct (is_expired (obj t1 id)); cbn [negb]; intros ->.
    - constructor; cbn [queue files full_fdt squeues objs log_ev set_files];
        try apply S; try assumption; rewrite ?Hlr; try assumption.
      unfold remove_toi. change (files r1) with (files r). change (files t1) with (files t).
      rewrite (sim_files _ _ _ S). apply filter_ext_in. intros j Hj. rewrite (Etoi _ (EvStop (o_toi (f_o (obj t1 id)))) j Hj). reflexivity.
    - constructor; cbn [queue files full_fdt squeues objs log_ev set_queue];
        try apply S; try assumption; rewrite ?Hlr; try assumption.
      change (queue r1) with (queue r). change (queue t1) with (queue t). rewrite (sim_queue _ _ _ S). reflexivity.
  Qed.

  Lemma replay_stop L1 ss L2 fs r t id now :
    INV (L1 ++ ss :: L2) fs t -> NZ (L1 ++ ss :: L2) t -> Sim (L1 ++ ss :: L2) r t -> ss_file ss = Some id ->
    forall rest, c13 r now (EvStop (toi_of t id) :: rest) = c13 (transfer_done id now r) now rest.
  Proof.
    intros I Z S Hf rest. set (L := L1 ++ ss :: L2) in *.
    assert (Hidl : In id (live L t)) by (apply live_mid; auto).
    assert (Hl : (id < length (objs r))%nat) by (apply (sim_live _ _ _ S); assumption).
    pose proof (inv_own _ _ _ I) as O.
    cbn [c13_events].
    rewrite (find_unique _ _ id); [reflexivity| | |].
    - apply in_seq. lia.
    - rewrite (sim_toi _ _ _ _ S Hl), N.eqb_refl. destruct (sim_obj _ _ _ S id Hl) as (_ & E & _). rewrite E.
      apply (own_slot_tr _ _ _ _ _ _ _ _ O). unfold L. rewrite (slot_pairs_mid_some _ _ _ _ Hf), ids_mid.
      apply in_or_app. right. left. reflexivity.
    - intros y Hy Hp. apply in_seq in Hy. assert (Hyl : (y < length (objs r))%nat) by lia.
      apply andb_true_iff in Hp. destruct Hp as [Ht Htr]. apply N.eqb_eq in Ht.
      rewrite (sim_toi _ _ _ _ S Hyl) in Ht. destruct (sim_obj _ _ _ S y Hyl) as (_ & E & _). rewrite E in Htr.
      destruct (own_tr _ _ _ _ _ _ _ _ O y ltac:(pose proof (sim_len _ _ _ S); lia) Htr) as [Hin|Hfs].
      + eapply (NoDup_map_inj_in (fun j => o_toi (fo_of t j))); [apply (own_toi _ _ _ _ _ _ _ _ O)| |exact Hidl|exact Ht].
        apply in_or_app. left. exact Hin.
      + exfalso. assert (Hd : In y (Dq t ++ opt_list (ss_file fs))) by (rewrite Hfs; apply in_or_app; right; left; reflexivity).
        destruct (own_fdt _ _ _ _ _ _ _ _ O y Hd) as (_ & [_ H0] & _). apply (Z id Hidl). rewrite <- Ht. exact H0.
  Qed.

  (* ---------- replaying a start ---------- *)
  Lemma split_toi_spec s toi : forall a id r,
    (forall y, In y a -> toi_of s y <> toi) -> toi_of s id = toi ->
    split_toi s toi (a ++ id :: r) = Some (a, id, r).
  Proof.
    induction a as [|x a IH]; intros id r Ha Hid; cbn [split_toi app].
    - rewrite Hid, N.eqb_refl. reflexivity.
    - destruct (N.eqb_spec (toi_of s x) toi) as [E|E]; [exfalso; apply (Ha x (or_introl eq_refl)); assumption|].
      rewrite IH; [reflexivity| |assumption]. intros y Hy. apply Ha. right. assumption.
  Qed.

  Lemma start_pub prio now t id t1 :
    gnft prio now t = ROk _ (Some id, t1) -> full_fdt t = true -> forall j, f_pub (obj t1 j) = f_pub (obj t j).
  Proof.
    intros G Hfull j. apply gnft_some in G. destruct G as (a & q & ti & _ & _ & _ & _ & ->).
    set (tm := upd_t _ id _).
    destruct (mp_facts fdt_npk fdt_ok now tm) as (_ & _ & _ & _ & _ & _ & _ & Hid). cbv zeta in Hid.
    rewrite Hid by exact Hfull. unfold tm. rewrite obj_upd_t_pub. reflexivity.
  Qed.

  Lemma replay_start L1 ss0 L2 fs r t now id t1 e :
    INV (L1 ++ ss0 :: L2) fs t -> Sim (L1 ++ ss0 :: L2) r t -> Slots (L1 ++ ss0 :: L2) r ->
    ss_enc ss0 = None -> gnft (ss_prio ss0) now t = ROk _ (Some id, t1) ->
    exists r1, Sim (L1 ++ loaded ss0 id e :: L2) r1 t1 /\ squeues r1 = squeues r
               /\ forall rest, c13 r now (EvStart (toi_of t id) :: rest) = c13 r1 now rest.
  Proof.
    intros I S Hsl He G. set (L := L1 ++ ss0 :: L2) in *. set (L' := L1 ++ loaded ss0 id e :: L2).
    pose proof (inv_gnft_some _ _ _ _ _ _ _ _ _ _ _ e I He G) as I1. fold L' in I1.
    pose proof (static_gnft _ _ _ _ _ _ _ _ G) as Hst. unfold static in Hst.
    pose proof (start_pub _ _ _ _ _ G) as Hpub.
    destruct (start_facts _ _ _ _ _ _ _ _ G) as (a & q & ti & Hq & Hq1 & Hf1 & Hfu1 & Hs & Ha & Hi & Hlen & Ho & _ & _).
    destruct (Lwf_mid _ _ _ (inv_L _ _ _ I)) as (_ & A2 & _).
    assert (Hlive' : forall j, In j (live L' t1) -> In j (live L t)).
    { intros j Hj. apply live_mid in Hj. apply live_mid. cbn [ss_file loaded] in Hj. rewrite Hq1 in Hj. rewrite Hq.
      destruct Hj as [Hj|[Hj|[Hj|Hj]]]; auto.
      - inversion Hj; subst. right. right. right. apply in_or_app. right. left. reflexivity.
      - right. right. right. apply in_app_or in Hj. apply in_or_app. destruct Hj; [left|right; right]; assumption. }
    assert (Hinq : forall y, In y (a ++ id :: q) -> In y (live L t)) by (intros y Hy; apply in_or_app; right; rewrite Hq; assumption).
    assert (Hidl : In id (live L t)) by (apply Hinq; apply in_or_app; right; left; reflexivity).
    assert (Hl : (id < length (objs r))%nat) by (apply (sim_live _ _ _ S); assumption).
    pose proof (inv_own _ _ _ I) as O.
    destruct (sim_obj _ _ _ S id Hl) as (Eo & Et & _).
    set (r1 := upd_t (set_queue r (a ++ q)) id (fun _ => ti)).
    assert (Hlr1 : length (objs r1) = length (objs r)) by (unfold r1; rewrite len_upd_t; reflexivity).
    assert (S1 : Sim L' r1 t1).
    { constructor; rewrite ?Hlr1.
      - rewrite Hq1. reflexivity.
      - rewrite Hf1. apply (sim_files _ _ _ S).
      - rewrite Hfu1. apply (sim_full _ _ _ S).
      - change (squeues r1) with (squeues r). rewrite (sim_squeues _ _ _ S). congruence.
      - pose proof (sim_len _ _ _ S). lia.
      - intros j Hj. assert (Hjt : (j < length (objs t))%nat) by (pose proof (sim_len _ _ _ S); lia).
        destruct (Ho j Hjt) as (F1 & F2). destruct (sim_obj _ _ _ S j Hj) as (E1 & E2 & E3).
        unfold r1. rewrite obj_upd_t_o, obj_upd_t_pub. change (obj (set_queue r (a ++ q)) j) with (obj r j).
        split; [congruence|]. split.
        + rewrite F2. destruct (Nat.eqb_spec j id) as [->|Hne].
          * rewrite obj_upd_t_same by assumption. reflexivity.
          * rewrite obj_upd_t_other by congruence. assumption.
        + intros Hfull. rewrite Hfu1 in Hfull. rewrite E3 by assumption. rewrite Hpub by assumption. reflexivity.
      - intros j Hj. apply (sim_live _ _ _ S). apply Hlive'. assumption.
      - intros j Hj. rewrite Hf1 in Hj. apply (sim_filesb _ _ _ S). assumption. }
    exists r1. split; [assumption|]. split; [reflexivity|].
    intros rest. cbn [c13_events]. rewrite (sim_queue _ _ _ S), Hq.
    rewrite (split_toi_spec r (toi_of t id) a id q).
    2:{ intros y Hy Heq.
        assert (Hyl : In y (live L t)) by (apply Hinq; apply in_or_app; left; assumption).
        rewrite (sim_toi _ _ _ _ S (sim_live _ _ _ S y Hyl)) in Heq.
        assert (y = id).
        { eapply (NoDup_map_inj_in (fun j => o_toi (fo_of t j))); [apply (own_toi _ _ _ _ _ _ _ _ O)|exact Hyl|exact Hidl|exact Heq]. }
        subst y. pose proof (own_nodup _ _ _ _ _ _ _ _ O) as Hnd. rewrite Hq in Hnd.
        rewrite app_assoc in Hnd. apply NoDup_remove_2 in Hnd. apply Hnd. rewrite <- app_assoc.
        apply in_or_app. right. apply in_or_app. left. assumption. }
    2:{ apply (sim_toi _ _ _ _ S Hl). }
    rewrite Eo. rewrite (stn_prio _ _ _ _ Hs).
    destruct (existsb _ a) eqn:Ex.
    { exfalso. apply existsb_exists in Ex. destruct Ex as (y & Hy & Hsy).
      assert (Hyl : In y (live L t)) by (apply Hinq; apply in_or_app; left; assumption).
      rewrite (sim_stn _ _ _ _ _ _ S (sim_live _ _ _ S y Hyl)) in Hsy. rewrite (Ha y Hy) in Hsy. discriminate. }
    unfold transfer_started. change (obj (set_queue r (a ++ q)) id) with (obj r id). rewrite Eo, Et, Hi.
    fold r1.
    assert (Hsl1 : Slots L' r1).
    { eapply slots_replace; [exact Hsl|reflexivity|reflexivity]. }
    pose proof (multiplex_bound L' fs r1 t1 (ss_prio ss0) I1 S1 Hsl1) as Hm.
    apply Nat.leb_le in Hm. rewrite Hm. reflexivity.
  Qed.
End H.

(* ============================== part I ============================== *)
(* C13, history level: part I - events of a whole read *)


Lemma filter_none {A} (f : A -> bool) l : (forall x, In x l -> f x = false) -> filter f l = [].
Proof.
  induction l as [|x l IH]; intros H; [reflexivity|]. cbn [filter]. rewrite (H x (or_introl eq_refl)).
  apply IH. intros y Hy. apply H. right. assumption.
Qed.

Lemma filter_len_le {A} (f : A -> bool) l : (length (filter f l) <= length l)%nat.
Proof. induction l as [|x l IH]; [apply Nat.le_refl|]. cbn [filter]. destruct (f x); cbn [length]; lia. Qed.

Lemma slots_count p : forall qs, Forall wfq qs -> StronglySorted N.lt (map q_prio qs) ->
  (prio_count p (all_sessions qs)
   <= match find (fun q => (q_prio q =? p)%N) qs with Some q => length (q_sessions q) | None => 0%nat end)%nat.
Proof.
  induction qs as [|q r IH]; intros W S; [apply Nat.le_refl|].
  inversion W as [|? ? Wq Wr]; subst. cbn [map] in S. apply StronglySorted_inv in S. destruct S as [S Hlt].
  unfold prio_count, all_sessions in *. cbn [flat_map find]. rewrite filter_app, app_length.
  destruct Wq as [_ Wp].
  destruct (N.eqb_spec (q_prio q) p) as [E|E].
  - rewrite (filter_none _ (flat_map q_sessions r)).
    + pose proof (filter_len_le (fun ss => ss_prio ss =? p) (q_sessions q)). cbn [length]. lia.
    + intros ss Hss. apply in_flat_map in Hss. destruct Hss as (q0 & Hq0 & Hss).
      rewrite Forall_forall in Wr. destruct (Wr q0 Hq0) as [_ Wp0]. rewrite (Wp0 ss Hss).
      rewrite Forall_forall in Hlt. specialize (Hlt (q_prio q0) (in_map _ _ _ Hq0)).
      apply N.eqb_neq. intros E0. rewrite E0, E in Hlt. apply (N.lt_irrefl _ Hlt).
  - rewrite (filter_none _ (q_sessions q)).
    + cbn [length]. apply IH; assumption.
    + intros ss Hss. rewrite (Wp ss Hss). apply N.eqb_neq. assumption.
Qed.

Section I.
  Variable fdt_npk : N -> nat.
  Variable fdt_ok : N -> bool.
  Variable divf : Z -> N -> option Z.

  Notation srun := (session_run fdt_npk fdt_ok divf).
  Notation gnft := (get_next_file_transfer fdt_npk fdt_ok divf).
  Notation rqs := (read_queues fdt_npk fdt_ok divf).
  Notation sread := (sender_read fdt_npk fdt_ok divf).
  Notation runfdt := (run_fdt_session fdt_npk fdt_ok divf).
  Notation mstep := (step fdt_npk fdt_ok divf).
  Notation file_run := (file_run fdt_npk fdt_ok divf).
  Notation fresh_run := (fresh_run fdt_npk fdt_ok divf).
  Notation vstep := (vstep fdt_npk fdt_ok divf).
  Notation qpath := (qpath fdt_npk fdt_ok divf).
  Notation c13 := (c13_events divf).
  Notation Shrink := (Shrink).

  Lemma slots_init s : Inv s -> Slots (all_sessions (squeues s)) s.
  Proof. intros [_ W S] p. unfold slots_of. apply slots_count; assumption. Qed.

  Lemma nz_shrink L fs t L' t' : INV L fs t -> NZ L t -> Shrink L t L' t' -> NZ L' t'.
  Proof.
    intros I Z S j Hj. destruct (live_shrink_back _ _ _ _ _ _ I S Hj) as (Hin & Et & _). rewrite Et. apply Z. assumption.
  Qed.

  Lemma sim_same L L' r t : Sim L r t -> (forall j, In j (live L' t) -> In j (live L t)) -> Sim L' r t.
  Proof. intros [A B C D E F G H] Hl. constructor; auto. Qed.

  Lemma td_evlog id now t : toi_of t id <> 0 ->
    evlog (transfer_done id now t) = evlog t ++ [EvStop (toi_of t id)].
  Proof.
    intros Hnz. destruct (transfer_done_cases id now t) as [(E0 & _)|(E0 & [(Ea & E)|[(Ea & Ee & E)|(Ea & Ee & E)]])];
      [contradiction| | |]; cbv zeta in E; rewrite E; reflexivity.
  Qed.

  Lemma td_squeues id now t : squeues (transfer_done id now t) = squeues t.
  Proof. pose proof (static_transfer_done id now t) as H. unfold static in H. congruence. Qed.

  (* one fresh phase *)
  Lemma sim_fresh_run L1 ss0 L2 fs r t now o ss' t' :
    INV (L1 ++ ss0 :: L2) fs t -> Sim (L1 ++ ss0 :: L2) r t -> Slots (L1 ++ ss0 :: L2) r ->
    ss_enc ss0 = None -> fresh_run now ss0 t o ss' t' ->
    exists evs r', evlog t' = evlog t ++ evs /\ squeues r' = squeues r
                   /\ (forall rest, c13 r now (evs ++ rest) = c13 r' now rest)
                   /\ (o = RNothing -> Sim (L1 ++ ss' :: L2) r' t').
  Proof.
    intros I S Hsl He R.
    destruct (Lwf_mid _ _ _ (inv_L _ _ _ I)) as (_ & A2 & _).
    destruct R as [G|G|id t1 G Hw|id t1 c e' G Hq Hp Er].
    - exists [], r. rewrite app_nil_r. split; [reflexivity|]. split; [reflexivity|]. split; [intros; reflexivity|discriminate].
    - exists [], r. rewrite app_nil_r. split; [reflexivity|]. split; [reflexivity|]. split; [intros; reflexivity|]. intros _.
      eapply sim_same; [exact S|]. intros j Hj. apply live_mid in Hj. apply live_mid. cbn [ss_file empty_of] in Hj.
      destruct Hj as [Hj|[Hj|[Hj|Hj]]]; auto. discriminate.
    - destruct (replay_start fdt_npk fdt_ok divf _ _ _ _ _ _ _ _ _ (fresh_enc t1 id) I S Hsl He G) as (r1 & S1 & Hsq & Hc).
      destruct (start_facts _ _ _ _ _ _ _ _ G) as (_ & _ & _ & _ & _ & _ & _ & _ & _ & _ & _ & _ & _ & Hev).
      exists [EvStart (toi_of t id)], r1. split; [exact Hev|]. split; [assumption|]. split; [exact Hc|]. intros _. exact S1.
    - destruct (replay_start fdt_npk fdt_ok divf _ _ _ _ _ _ _ _ _ e' I S Hsl He G) as (r1 & S1 & Hsq & Hc).
      destruct (start_facts _ _ _ _ _ _ _ _ G) as (_ & _ & _ & _ & _ & _ & _ & _ & _ & _ & _ & _ & _ & Hev).
      exists [EvStart (toi_of t id)], r1. split; [exact Hev|]. split; [assumption|]. split; [exact Hc|].
      intros Hc0. exfalso. eapply out_of_not_nothing; eauto.
  Qed.

  Lemma sim_file_run L1 ss L2 fs r t now o ss' t' :
    INV (L1 ++ ss :: L2) fs t -> NZ (L1 ++ ss :: L2) t -> Sim (L1 ++ ss :: L2) r t -> Slots (L1 ++ ss :: L2) r ->
    file_run now ss t o ss' t' ->
    exists evs r', evlog t' = evlog t ++ evs /\ squeues r' = squeues r
                   /\ (forall rest, c13 r now (evs ++ rest) = c13 r' now rest)
                   /\ (o = RNothing -> Sim (L1 ++ ss' :: L2) r' t').
  Proof.
    intros I Z S Hsl R.
    destruct R as [id e Hf He Hw|e He Hf|id e c e' Hf He Hq Hp Er|o ss' t' He R|id e e' o ss' t' Hf He Hq Hp Er R].
    - exists [], r. rewrite app_nil_r. split; [reflexivity|]. split; [reflexivity|]. split; [intros; reflexivity|]. intros _. exact S.
    - exists [], r. rewrite app_nil_r. split; [reflexivity|]. split; [reflexivity|]. split; [intros; reflexivity|]. intros _. exact S.
    - exists [], r. rewrite app_nil_r. split; [reflexivity|]. split; [reflexivity|]. split; [intros; reflexivity|].
      intros Hc. exfalso. eapply out_of_not_nothing; eauto.
    - eapply sim_fresh_run; eauto.
    - assert (Hidl : In id (live (L1 ++ ss :: L2) t)) by (apply live_mid; auto).
      pose proof (Z id Hidl) as Hnz.
      pose proof (inv_transfer_done L1 ss L2 fs t id now I Hf) as I0.
      pose proof (sim_transfer_done L1 ss L2 fs r t id now I S Hf) as S0.
      assert (Hsl0 : Slots (L1 ++ empty_of ss :: L2) (transfer_done id now r)).
      { eapply slots_replace; [exact Hsl|reflexivity|apply td_squeues]. }
      destruct (sim_fresh_run L1 (empty_of ss) L2 fs _ _ now o ss' t' I0 S0 Hsl0 eq_refl R)
        as (evs & r' & Hev & Hsq & Hc & Hs).
      exists (EvStop (toi_of t id) :: evs), r'.
      split; [rewrite Hev, td_evlog by assumption; rewrite <- app_assoc; reflexivity|].
      split; [rewrite Hsq; apply td_squeues|]. split; [|exact Hs].
      intros rest. cbn [app]. rewrite (replay_stop divf L1 ss L2 fs r t id now I Z S Hf). apply Hc.
  Qed.

  Lemma sim_vstep now L fs r t ss o L' t' :
    INV L fs t -> NZ L t -> Sim L r t -> Slots L r -> vstep now L t ss o L' t' ->
    exists evs r', evlog t' = evlog t ++ evs /\ Slots L' r'
                   /\ (forall rest, c13 r now (evs ++ rest) = c13 r' now rest)
                   /\ (o = RNothing -> Sim L' r' t').
  Proof.
    intros I Z S Hsl V. destruct V as [L1 ss L2 t o ss' t' H].
    destruct (Lwf_mid _ _ _ (inv_L _ _ _ I)) as (A1 & _).
    destruct (srun_prio fdt_npk fdt_ok divf now _ _ _ _ _ _ H) as [Pp _].
    apply file_run_inv in H; [|assumption].
    destruct (sim_file_run _ _ _ _ _ _ _ _ _ _ I Z S Hsl H) as (evs & r' & Hev & Hsq & Hc & Hs).
    exists evs, r'. split; [assumption|]. split; [|split; assumption].
    eapply slots_replace; eauto.
  Qed.

  Lemma sim_qpath now L fs r t L' t' :
    INV L fs t -> NZ L t -> Sim L r t -> Slots L r -> qpath now L t L' t' ->
    exists evs r', evlog t' = evlog t ++ evs /\ Sim L' r' t' /\ Slots L' r'
                   /\ forall rest, c13 r now (evs ++ rest) = c13 r' now rest.
  Proof.
    intros I Z S Hsl P. revert r I Z S Hsl. induction P as [|L t ss L1 t1 L2 t2 V P IH]; intros r I Z S Hsl.
    - exists [], r. rewrite app_nil_r. split; [reflexivity|]. split; [assumption|]. split; [assumption|]. intros; reflexivity.
    - destruct (sim_vstep now L fs r t ss RNothing L1 t1 I Z S Hsl V) as (evs1 & r1 & Hev1 & Hsl1 & Hc1 & Hs1).
      assert (I1 : INV L1 fs t1) by (eapply inv_vstep; eauto).
      assert (Z1 : NZ L1 t1) by (eapply nz_shrink; [exact I|exact Z|eapply shrink_vstep; eauto]).
      destruct (IH r1 I1 Z1 (Hs1 eq_refl) Hsl1) as (evs2 & r2 & Hev2 & Hs2 & Hsl2 & Hc2).
      exists (evs1 ++ evs2), r2. split; [rewrite Hev2, Hev1, app_assoc; reflexivity|].
      split; [assumption|]. split; [assumption|].
      intros rest. rewrite <- app_assoc, Hc1. apply Hc2.
  Qed.

  Lemma Inv_after_queues now s1 o2 qs s2 :
    Inv s1 -> rqs [] (squeues s1) now s1 = (o2, qs, s2) -> Inv (set_squeues s2 qs) /\ evlog (set_squeues s2 qs) = evlog s2.
  Proof.
    intros [J1 W1 S1] E2. split; [|reflexivity].
    destruct (read_queues_path fdt_npk fdt_ok divf now _ _ _ _ _ _ (Forall_nil _) W1 E2) as (W2 & P2 & (Lm & tm & Pm & Rm)).
    cbn [app] in *.
    assert (J2 : INV (all_sessions qs) (fdt_session s1) s2).
    { assert (Jm : INV Lm (fdt_session s1) tm) by (eapply inv_qpath; eauto).
      destruct Rm as [(_ & -> & ->)|(_ & x & _ & Vx)]; [assumption|eapply inv_vstep; eauto]. }
    assert (St : static s2 = static s1).
    { pose proof (qpath_static _ _ _ _ _ _ _ _ Pm) as Sm.
      destruct Rm as [(_ & -> & ->)|(_ & x & _ & Vx)]; [assumption|].
      rewrite <- Sm. eapply vstep_static; eauto. }
    assert (Efs : fdt_session s2 = fdt_session s1) by (unfold static in St; congruence).
    constructor; cbn [squeues fdt_session set_squeues].
    - rewrite Efs. eapply inv_fields; [..|exact J2]; reflexivity.
    - assumption.
    - rewrite P2. assumption.
  Qed.

  Lemma nz_frame s s1 : Inv s -> NZs s -> Frame (all_sessions (squeues s)) s s1 -> NZs s1.
  Proof.
    intros IS Z F j Hj. unfold NZs in *. rewrite (fr_squeues _ _ _ F) in Hj.
    assert (Hj0 : In j (live (all_sessions (squeues s)) s)) by (unfold live in *; rewrite <- (fr_queue _ _ _ F); exact Hj).
    assert (Hl : (j < length (objs s))%nat) by (apply (own_bound _ _ _ _ _ _ _ _ (inv_own _ _ _ (Inv_inv _ IS))); exact Hj0).
    destruct (fr_obj _ _ _ F j Hl) as (E & _). unfold toi_of. rewrite E. apply (Z j Hj0).
  Qed.

  (* (2) the events of one read pass the event predicate *)
  Theorem events_read now s o s' :
    Inv s -> NZs s -> sread now s = (o, s') ->
    exists evs, evlog s' = evlog s ++ evs /\ P_C13_events fdt_npk fdt_ok divf s now evs = C13ok.
  Proof.
    intros IS Z H. unfold P_C13_events. unfold sender_read in H.
    destruct (runfdt now s) as [o1 s1] eqn:E1. cbn [snd].
    destruct (Inv_runfdt _ _ _ now s o1 s1 IS E1) as (I1 & F1 & _).
    pose proof (fr_evlog _ _ _ F1) as Ev1.
    assert (Hstop : forall o2, o2 = o1 -> (o, s') = (o2, s1) ->
              exists evs, evlog s' = evlog s ++ evs /\ c13 s1 now evs = C13ok).
    { intros o2 _ E. inversion E; subst. exists []. rewrite app_nil_r. split; [assumption|reflexivity]. }
    destruct o1; try (apply (Hstop _ eq_refl); symmetry; exact H).
    destruct (rqs [] (squeues s1) now s1) as [[o2 qs] s2] eqn:E2.
    destruct (Inv_after_queues now s1 o2 qs s2 I1 E2) as (I3 & Ev3).
    pose proof (nz_frame s s1 IS Z F1) as Z1. unfold NZs in Z1.
    pose proof (slots_init s1 I1) as Hsl1.
    pose proof (Inv_inv _ I1) as J1.
    pose proof (sim_refl _ _ _ J1) as S1.
    destruct (read_queues_path fdt_npk fdt_ok divf now _ _ _ _ _ _ (Forall_nil _) (Inv_wfq _ I1) E2) as (_ & _ & (Lm & tm & Pm & Rm)).
    cbn [app] in *.
    destruct (sim_qpath now _ _ _ _ _ _ J1 Z1 S1 Hsl1 Pm) as (evs1 & r1 & Hev1 & Sm & Hslm & Hc1).
    assert (Hq : exists evs, evlog s2 = evlog s ++ evs /\ c13 s1 now evs = C13ok).
    { destruct Rm as [(_ & -> & ->)|(_ & x & _ & Vx)].
      - exists evs1. split; [rewrite Hev1, Ev1; reflexivity|]. rewrite <- (app_nil_r evs1), Hc1. reflexivity.
      - assert (Im : INV Lm (fdt_session s1) tm) by (eapply inv_qpath; eauto).
        assert (Zm : NZ Lm tm) by (eapply nz_shrink; [exact J1|exact Z1|eapply shrink_qpath; eauto]).
        destruct (sim_vstep now _ _ _ _ _ _ _ _ Im Zm Sm Hslm Vx) as (evs2 & r2 & Hev2 & _ & Hc2 & _).
        exists (evs1 ++ evs2). split; [rewrite Hev2, Hev1, Ev1, app_assoc; reflexivity|].
        rewrite Hc1. rewrite <- (app_nil_r evs2), Hc2. reflexivity. }
    destruct Hq as (evs & Hev & Hok).
    assert (Hstop2 : forall o3, o3 = o2 -> o2 <> RNothing -> (o, s') = (o3, set_squeues s2 qs) ->
              exists evs, evlog s' = evlog s ++ evs /\ c13 s1 now evs = C13ok).
    { intros o3 _ _ E. inversion E; subst. exists evs. split; [rewrite Ev3; assumption|assumption]. }
    destruct o2; try (apply (Hstop2 _ eq_refl); [discriminate|symmetry; exact H]).
    destruct (Inv_runfdt _ _ _ now _ _ _ I3 H) as (_ & F4 & _).
    exists evs. split; [rewrite (fr_evlog _ _ _ F4), Ev3; assumption|assumption].
  Qed.

  (* ---------- reachability: both invariants along a run ---------- *)
  Definition op_nz (o : op) : bool :=
    match o with OpAdd od _ true => negb (o_toi od =? 0) | _ => true end.

  Lemma NZs_step s o : Inv s -> NZs s -> op_fresh s o = true -> op_nz o = true -> NZs (snd (mstep s o)).
  Proof.
    intros IS Z Hf Hn. pose proof (Inv_inv _ IS) as J. pose proof (inv_own _ _ _ J) as O.
    destruct o as [od start acc|now|toi|toi ts| |now]; cbn [step].
    - destruct (negb (has_queue s (o_prio od))); [assumption|].
      destruct (complete s); [assumption|].
      destruct acc; cbn [negb]; [|assumption]. cbn [snd].
      intros j Hj. unfold live in Hj. cbn [squeues queue set_queue set_files set_objs] in Hj.
      rewrite app_assoc in Hj. apply in_app_or in Hj. unfold toi_of, obj. cbn [objs set_queue set_files set_objs].
      destruct Hj as [Hj|[<-|[]]].
      + assert (Hl : (j < length (objs s))%nat) by (apply (own_bound _ _ _ _ _ _ _ _ O); exact Hj).
        rewrite app_nth1 by assumption. apply (Z j Hj).
      + rewrite app_nth2 by lia. rewrite Nat.sub_diag. cbn [nth f_o]. cbn [op_nz] in Hn.
        apply negb_true_iff in Hn. apply N.eqb_neq. assumption.
    - destruct (publish fdt_npk fdt_ok now s) as [ok s1] eqn:E. cbn [snd].
      replace s1 with (snd (publish fdt_npk fdt_ok now s)) by (rewrite E; reflexivity).
      destruct (fdt_ok (fdtid s)) eqn:Eo; [|rewrite publish_fail by assumption; assumption].
      rewrite publish_ok_eq by assumption. cbn [snd].
      intros j Hj. change (live (all_sessions (squeues (pub_st fdt_npk now s))) (pub_st fdt_npk now s))
        with (live (all_sessions (squeues s)) s) in Hj.
      assert (Hl : (j < length (objs s))%nat) by (apply (own_bound _ _ _ _ _ _ _ _ O); exact Hj).
      destruct (pub_st_objs fdt_npk now s) as (_ & P2 & _). destruct (P2 j Hl) as (E1 & _).
      unfold toi_of. rewrite E1. apply (Z j Hj).
    - destruct (is_added s toi); [|assumption]. cbn [snd].
      intros j Hj. unfold live in Hj. cbn [squeues queue set_queue set_files] in Hj.
      change (toi_of (set_queue (set_files s (remove_toi s toi (files s))) (remove_toi s toi (queue s))) j) with (toi_of s j).
      apply Z. apply in_app_or in Hj. apply in_or_app. destruct Hj as [Hj|Hj]; [left; assumption|right].
      apply filter_In in Hj. tauto.
    - destruct (find_file s toi) as [id|]; [|assumption].
      destruct (t_transferring (f_t (obj s id))); [assumption|]. cbn [snd].
      intros j Hj. change (live (all_sessions (squeues (upd_t s id (t_reset ts)))) (upd_t s id (t_reset ts)))
        with (live (all_sessions (squeues s)) s) in Hj.
      rewrite toi_of_upd_t. apply (Z j Hj).
    - cbn [snd]. exact Z.
    - destruct (sread now s) as [r s'] eqn:E. cbn [snd].
      (* a read only shrinks the live set *)
      unfold sender_read in E.
      destruct (runfdt now s) as [o1 s1] eqn:E1.
      destruct (Inv_runfdt _ _ _ now s o1 s1 IS E1) as (I1 & F1 & _).
      pose proof (nz_frame s s1 IS Z F1) as Z1.
      assert (Hstop : forall o2, o2 = o1 -> (r, s') = (o2, s1) -> NZs s') by (intros o2 _ E0; inversion E0; subst; assumption).
      destruct o1; try (apply (Hstop _ eq_refl); symmetry; exact E).
      destruct (rqs [] (squeues s1) now s1) as [[o2 qs] s2] eqn:E2.
      destruct (Inv_after_queues now s1 o2 qs s2 I1 E2) as (I3 & _).
      pose proof (Inv_inv _ I1) as J1.
      destruct (read_queues_path fdt_npk fdt_ok divf now _ _ _ _ _ _ (Forall_nil _) (Inv_wfq _ I1) E2) as (_ & _ & (Lm & tm & Pm & Rm)).
      cbn [app] in *.
      assert (Z3 : NZs (set_squeues s2 qs)).
      { unfold NZs. cbn [squeues set_squeues].
        assert (Z2 : NZ (all_sessions qs) s2).
        { assert (Zm : NZ Lm tm) by (eapply nz_shrink; [exact J1|exact Z1|eapply shrink_qpath; eauto]).
          destruct Rm as [(_ & -> & ->)|(_ & x & _ & Vx)]; [assumption|].
          eapply nz_shrink; [eapply inv_qpath; eauto|exact Zm|eapply shrink_vstep; [eapply inv_qpath; eauto|exact Vx]]. }
        exact Z2. }
      assert (Hstop2 : forall o3, o3 = o2 -> o2 <> RNothing -> (r, s') = (o3, set_squeues s2 qs) -> NZs s')
        by (intros o3 _ _ E0; inversion E0; subst; assumption).
      destruct o2; try (apply (Hstop2 _ eq_refl); [discriminate|symmetry; exact E]).
      destruct (Inv_runfdt _ _ _ now _ _ _ I3 E) as (_ & F4 & _).
      eapply nz_frame; eauto.
  Qed.

  Fixpoint ops_nz (ops : list op) : bool :=
    match ops with [] => true | o :: r => op_nz o && ops_nz r end.

  Lemma reach_inv : forall ops s,
    Inv s -> NZs s -> ops_fresh fdt_npk fdt_ok divf s ops = true -> ops_nz ops = true ->
    let s' := snd (run_ops fdt_npk fdt_ok divf s ops) in Inv s' /\ NZs s'.
  Proof.
    induction ops as [|o r IH]; intros s IS Z Hf Hn; cbn [run_ops]; [split; assumption|].
    cbn [ops_fresh ops_nz] in *. apply andb_true_iff in Hf. destruct Hf as [Hf1 Hf2].
    apply andb_true_iff in Hn. destruct Hn as [Hn1 Hn2].
    pose proof (Inv_step fdt_npk fdt_ok divf s o IS Hf1) as IS'.
    pose proof (NZs_step s o IS Z Hf1 Hn1) as Z'.
    destruct (mstep s o) as [x s1]. cbn [snd] in *.
    specialize (IH s1 IS' Z' Hf2 Hn2). cbv zeta in IH.
    destruct (run_ops fdt_npk fdt_ok divf s1 r) as [xs s2]. cbn [snd] in *. exact IH.
  Qed.

  Lemma NZs_init full dur car sid queues : NZs (init_st full dur car sid queues).
  Proof.
    intros j Hj. exfalso. unfold live, slot_ids in Hj. cbn [queue init_st] in Hj. rewrite app_nil_r in Hj.
    rewrite slot_pairs_nil in Hj; [destruct Hj|].
    intros ss H. unfold all_sessions in H. apply in_flat_map in H. destruct H as (q & Hq & H).
    cbn [squeues init_st] in Hq. apply in_map_iff in Hq. destruct Hq as (pq & <- & _). cbn [q_sessions] in H.
    apply repeat_spec in H. subst ss. reflexivity.
  Qed.
End I.

(* ============================== part J ============================== *)
(* C13, history level: part J - the event log does not influence anything *)


Definition with_log (s : st) (l : list event) : st :=
  mk_st (objs s) (files s) (queue s) (fdtq s) (cur_fdt s) (complete s) (fdtid s) (last_publish s)
        (full_fdt s) (fdt_duration s) (fdt_car s) (fdt_session s) (squeues s) l.

Lemma with_log_self s : with_log s (evlog s) = s.
Proof. destruct s; reflexivity. Qed.

Lemma with_log_twice s l l' : with_log (with_log s l) l' = with_log s l'.
Proof. reflexivity. Qed.

Section J.
  Variable fdt_npk : N -> nat.
  Variable fdt_ok : N -> bool.
  Variable divf : Z -> N -> option Z.

  Notation srun := (session_run fdt_npk fdt_ok divf).
  Notation gnft := (get_next_file_transfer fdt_npk fdt_ok divf).
  Notation gnfdt := (get_next_fdt_transfer fdt_npk fdt_ok divf).
  Notation publ := (publish fdt_npk fdt_ok).
  Notation runfdt := (run_fdt_session fdt_npk fdt_ok divf).

  Lemma publish_log now s l : publ now (with_log s l) = (fst (publ now s), with_log (snd (publ now s)) l).
  Proof.
    unfold publish. change (fdtid (with_log s l)) with (fdtid s).
    destruct (fdt_ok (fdtid s)); reflexivity.
  Qed.

  Lemma transfer_done_log id now s l :
    exists l', transfer_done id now (with_log s l) = with_log (transfer_done id now s) l'.
  Proof.
    unfold transfer_done.
    change (upd_t (with_log s l) id (t_done now)) with (with_log (upd_t s id (t_done now)) l).
    set (s1 := upd_t s id (t_done now)).
    change (obj (with_log s1 l) id) with (obj s1 id).
    destruct (o_toi (f_o (obj s1 id)) =? 0).
    { destruct (is_expired (obj s1 id)); eexists; reflexivity. }
    cbv zeta.
    change (is_added (log_ev (with_log s1 l) (EvStop (o_toi (f_o (obj s1 id))))) (o_toi (f_o (obj s1 id))))
      with (is_added (log_ev s1 (EvStop (o_toi (f_o (obj s1 id))))) (o_toi (f_o (obj s1 id)))).
    destruct (is_added _ _); cbn [negb]; [|eexists; reflexivity].
    destruct (is_expired (obj s1 id)); cbn [negb]; eexists; reflexivity.
  Qed.

  Lemma gnft_log prio now s l :
    exists l', gnft prio now (with_log s l)
               = match gnft prio now s with
                 | RPanicked _ => RPanicked _
                 | ROk _ (x, s') => ROk _ (x, with_log s' l')
                 end.
  Proof.
    unfold get_next_file_transfer.
    change (find_remove (fun id => should_transfer_now (obj (with_log s l) id) prio (full_fdt (with_log s l)) now) (queue (with_log s l)))
      with (find_remove (fun id => should_transfer_now (obj s id) prio (full_fdt s) now) (queue s)).
    destruct (find_remove _ (queue s)) as [[id q']|]; [|exists l; reflexivity].
    unfold transfer_started.
    change (obj (log_ev (set_queue (with_log s l) q') (EvStart (toi_of (with_log s l) id))) id) with (obj s id).
    change (obj (log_ev (set_queue s q') (EvStart (toi_of s id))) id) with (obj s id).
    destruct (t_init divf (f_o (obj s id)) now (f_t (obj s id))) as [ti|]; [|exists l; reflexivity].
    set (s2 := upd_t (log_ev (set_queue s q') (EvStart (toi_of s id))) id (fun _ => ti)).
    change (upd_t (log_ev (set_queue (with_log s l) q') (EvStart (toi_of (with_log s l) id))) id (fun _ => ti))
      with (with_log s2 (l ++ [EvStart (toi_of s id)])).
    change (full_fdt (with_log s2 (l ++ [EvStart (toi_of s id)]))) with (full_fdt s2).
    destruct (full_fdt s2); [eexists; reflexivity|].
    rewrite publish_log. cbn [snd]. eexists; reflexivity.
  Qed.

  Lemma gnfdt_log now s l :
    exists l', gnfdt now (with_log s l)
               = match gnfdt now s with
                 | RPanicked _ => RPanicked _
                 | ROk _ (x, s') => ROk _ (x, with_log s' l')
                 end.
  Proof.
    unfold get_next_fdt_transfer.
    change (cur_fdt (with_log s l)) with (cur_fdt s).
    change (match cur_fdt s with Some c => t_transferring (f_t (obj (with_log s l) c)) | None => false end)
      with (match cur_fdt s with Some c => t_transferring (f_t (obj s c)) | None => false end).
    destruct (match cur_fdt s with Some c => t_transferring (f_t (obj s c)) | None => false end);
      [exists l; reflexivity|].
    change (current_fdt_will_expire now (with_log s l)) with (current_fdt_will_expire now s).
    set (s1 := if current_fdt_will_expire now s then snd (publ now s) else s).
    assert (E1 : (if current_fdt_will_expire now s then snd (publ now (with_log s l)) else with_log s l) = with_log s1 l).
    { unfold s1. destruct (current_fdt_will_expire now s); [rewrite publish_log; reflexivity|reflexivity]. }
    rewrite E1. clearbody s1.
    change (fdtq (with_log s1 l)) with (fdtq s1).
    set (s2 := match fdtq s1 with [] => s1 | x :: r => set_cur_fdt (set_fdtq s1 r) (Some x) end).
    assert (E2 : match fdtq s1 with [] => with_log s1 l | x :: r => set_cur_fdt (set_fdtq (with_log s1 l) r) (Some x) end
                 = with_log s2 l).
    { unfold s2. destruct (fdtq s1); reflexivity. }
    rewrite E2. clearbody s2.
    change (cur_fdt (with_log s2 l)) with (cur_fdt s2).
    destruct (cur_fdt s2) as [c|]; [|exists l; reflexivity].
    change (should_transfer_now (obj (with_log s2 l) c) 0 (full_fdt (with_log s2 l)) now)
      with (should_transfer_now (obj s2 c) 0 (full_fdt s2) now).
    destruct (should_transfer_now (obj s2 c) 0 (full_fdt s2) now); [|exists l; reflexivity].
    unfold transfer_started. change (obj (with_log s2 l) c) with (obj s2 c).
    destruct (t_init divf (f_o (obj s2 c)) now (f_t (obj s2 c))); exists l; reflexivity.
  Qed.

  Lemma srun_log now : forall fuel ss s l,
    exists l', srun fuel ss now (with_log s l)
               = (let '(o, ss', s') := srun fuel ss now s in (o, ss', with_log s' l')).
  Proof.
    induction fuel as [|f IH]; intros ss s l; cbn [session_run]; [exists l; reflexivity|].
    assert (Hr : exists l1,
              (match ss_enc ss with None => get_next fdt_npk fdt_ok divf ss now (with_log s l) | Some _ => ROk _ (ss, with_log s l) end)
              = match (match ss_enc ss with None => get_next fdt_npk fdt_ok divf ss now s | Some _ => ROk _ (ss, s) end) with
                | RPanicked _ => RPanicked _
                | ROk _ (ss1, s1) => ROk _ (ss1, with_log s1 l1)
                end).
    { destruct (ss_enc ss); [exists l; reflexivity|]. unfold get_next. destruct (ss_fdt_only ss).
      - destruct (gnfdt_log now s l) as (l1 & E). exists l1. rewrite E.
        destruct (gnfdt now s) as [[[c|] t1]|]; reflexivity.
      - destruct (gnft_log (ss_prio ss) now s l) as (l1 & E). exists l1. rewrite E.
        destruct (gnft (ss_prio ss) now s) as [[[c|] t1]|]; reflexivity. }
    destruct Hr as (l1 & Hr). rewrite Hr. clear Hr.
    destruct (match ss_enc ss with None => get_next fdt_npk fdt_ok divf ss now s | Some _ => ROk _ (ss, s) end)
      as [[ss1 s1]|]; [|exists l; reflexivity].
    change (fdtq (with_log s1 l1)) with (fdtq s1).
    destruct (negb (ss_fdt_only ss1) && negb (Nat.eqb (length (fdtq s1)) 0)); [exists l1; reflexivity|].
    destruct (ss_enc ss1) as [e|]; [|exists l1; reflexivity].
    destruct (ss_file ss1) as [id|]; [|exists l1; reflexivity].
    change (obj (with_log s1 l1) id) with (obj s1 id).
    destruct (match t_next_ts (f_t (obj s1 id)) with Some ts => (now <? ts)%Z | None => false end);
      [exists l1; reflexivity|].
    change (is_added (with_log s1 l1) (o_toi (f_o (obj s1 id)))) with (is_added s1 (o_toi (f_o (obj s1 id)))).
    destruct (enc_read _ e) as [[cl|] e'].
    - exists l1. reflexivity.
    - destruct (transfer_done_log id now s1 l1) as (l2 & E2). rewrite E2. apply IH.
  Qed.

  Lemma runfdt_log now s l : exists l', snd (runfdt now (with_log s l)) = with_log (snd (runfdt now s)) l'.
  Proof.
    unfold run_fdt_session. change (fdt_session (with_log s l)) with (fdt_session s).
    destruct (srun_log now 4 (fdt_session s) s l) as (l' & E). rewrite E.
    destruct (srun 4 (fdt_session s) now s) as [[o ss'] s']. exists l'. reflexivity.
  Qed.

  Lemma split_toi_log s l toi : forall q, split_toi (with_log s l) toi q = split_toi s toi q.
  Proof.
    induction q as [|x q IH]; cbn [split_toi]; [reflexivity|].
    change (toi_of (with_log s l) x) with (toi_of s x). rewrite IH. reflexivity.
  Qed.

  Lemma c13_log now : forall evs s l, c13_events divf (with_log s l) now evs = c13_events divf s now evs.
  Proof.
    induction evs as [|[toi|toi] evs IH]; intros s l; cbn [c13_events]; [reflexivity| |].
    - change (queue (with_log s l)) with (queue s). rewrite split_toi_log.
      destruct (split_toi s toi (queue s)) as [[[ahead id] rest]|]; [|reflexivity].
      change (obj (with_log s l) id) with (obj s id).
      change (existsb (fun i => should_transfer_now (obj (with_log s l) i) (o_prio (f_o (obj s id))) (full_fdt (with_log s l)) now) ahead)
        with (existsb (fun i => should_transfer_now (obj s i) (o_prio (f_o (obj s id))) (full_fdt s) now) ahead).
      destruct (existsb _ ahead); [reflexivity|].
      unfold transfer_started. change (obj (set_queue (with_log s l) (ahead ++ rest)) id) with (obj s id).
      change (obj (set_queue s (ahead ++ rest)) id) with (obj s id).
      destruct (t_init divf (f_o (obj s id)) now (f_t (obj s id))) as [ti|]; [|reflexivity].
      change (upd_t (set_queue (with_log s l) (ahead ++ rest)) id (fun _ => ti))
        with (with_log (upd_t (set_queue s (ahead ++ rest)) id (fun _ => ti)) l).
      set (s1 := upd_t (set_queue s (ahead ++ rest)) id (fun _ => ti)).
      change (in_transmission (with_log s1 l) (o_prio (f_o (obj s id)))) with (in_transmission s1 (o_prio (f_o (obj s id)))).
      change (slots_of (with_log s1 l) (o_prio (f_o (obj s id)))) with (slots_of s1 (o_prio (f_o (obj s id)))).
      destruct (Nat.leb _ _); [apply IH|reflexivity].
    - change (find (fun id => (toi_of (with_log s l) id =? toi) && t_transferring (f_t (obj (with_log s l) id))) (seq 0 (length (objs (with_log s l)))))
        with (find (fun id => (toi_of s id =? toi) && t_transferring (f_t (obj s id))) (seq 0 (length (objs s)))).
      destruct (find _ _) as [id|]; [|apply IH].
      destruct (transfer_done_log id now s l) as (l' & E). rewrite E. apply IH.
  Qed.

  (* the event predicate does not depend on the event log of the state it is evaluated on *)
  Lemma P_C13_events_log s l now evs :
    P_C13_events fdt_npk fdt_ok divf (with_log s l) now evs = P_C13_events fdt_npk fdt_ok divf s now evs.
  Proof.
    unfold P_C13_events. destruct (runfdt_log now s l) as (l' & E). rewrite E. apply c13_log.
  Qed.
End J.

(* ============================== part K ============================== *)
Definition clear_log (s : st) : st := with_log s [].

Section K.
  Variable fdt_npk : N -> nat.
  Variable fdt_ok : N -> bool.
  Variable divf : Z -> N -> option Z.

  Notation sread := (sender_read fdt_npk fdt_ok divf).

  Lemma Inv_with_log s l : Inv s -> Inv (with_log s l).
  Proof.
    intros IS. eapply Inv_change; [exact IS| |reflexivity|reflexivity].
    eapply inv_fields; [..|apply (Inv_inv _ IS)]; reflexivity.
  Qed.

  Lemma NZs_with_log s l : NZs s -> NZs (with_log s l).
  Proof. intros Z j Hj. apply (Z j Hj). Qed.

  (* (2) in the form the checker uses: the events of a read that starts from an empty log *)
  Theorem events_read_clear s now :
    Inv s -> NZs s ->
    let '(o, s') := sread now (clear_log s) in
    P_C13_events fdt_npk fdt_ok divf s now (evlog s') = C13ok.
  Proof.
    intros IS Z. destruct (sread now (clear_log s)) as [o s'] eqn:E.
    destruct (events_read fdt_npk fdt_ok divf now (clear_log s) o s' (Inv_with_log s [] IS) (NZs_with_log s [] Z) E)
      as (evs & Hev & Hok).
    cbn [evlog clear_log with_log app] in Hev. rewrite Hev.
    unfold clear_log in Hok. rewrite P_C13_events_log in Hok. exact Hok.
  Qed.

  Theorem events_read_reachable ops full dur car sid queues now :
    StronglySorted N.lt (map fst queues) ->
    ops_fresh fdt_npk fdt_ok divf (init_st full dur car sid queues) ops = true ->
    ops_nz ops = true ->
    let s := snd (run_ops fdt_npk fdt_ok divf (init_st full dur car sid queues) ops) in
    let '(o, s') := sread now (clear_log s) in
    P_C13_events fdt_npk fdt_ok divf s now (evlog s') = C13ok.
  Proof.
    intros Hs Hf Hn.
    destruct (reach_inv fdt_npk fdt_ok divf ops _ (Inv_init full dur car sid queues Hs)
                        (NZs_init full dur car sid queues) Hf Hn) as [IS Z].
    cbv zeta. apply events_read_clear; assumption.
  Qed.
End K.

(* ---------- the unconditional statement (1) is false of the model ----------
   Queues 0 and 3 (sorted).  Object A (TOI 5, priority 3, 3 packets, not stoppable) is published and its
   first packet sent; A is removed (it keeps its slot: it cannot be stopped before one complete
   transfer) and an object B is added under the same TOI 5 with priority 0 and published.  The next
   object packet is B's (queue 0 is served first): RObj 5.  [prio_of_toi] resolves TOI 5 to the
   object in the slot, A, priority 3, and queue 0 is ready: the predicate answers false. *)
Definition cex_npk : N -> nat := fun _ => 1%nat.
Definition cex_ok : N -> bool := fun _ => true.
Definition cex_div : Z -> N -> option Z := fun d n => Some (d / Z.of_N n)%Z.
Definition cex_A : odesc := mk_odesc 5 3 3 3 1 CNone TNone false None [].
Definition cex_B : odesc := mk_odesc 5 0 1 1 1 CNone TNone false None [].
Definition cex_ops : list op :=
  [OpAdd cex_A None true; OpPublish 0; OpRead 0; OpRead 0; OpRemove 5; OpAdd cex_B None true; OpPublish 0;
   OpRead 0; OpRead 0].
Definition cex_init : st := init_st true 3600000000000 (CDelay 1000000000) 1 [(0, 1%nat); (3, 1%nat)].

Lemma strict_priority_unconditional_false :
  ~ (forall fdt_npk fdt_ok divf ops full dur car sid queues,
       Forall (fun es => match fst es with TRead now r _ _ => P_C13_priority (snd es) now r = true | _ => True end)
              (model_trace fdt_npk fdt_ok divf (init_st full dur car sid queues) ops)).
Proof.
  intros H.
  specialize (H cex_npk cex_ok cex_div cex_ops true 3600000000000%Z (CDelay 1000000000) 1 [(0, 1%nat); (3, 1%nat)]).
  rewrite Forall_forall in H.
  set (tr := model_trace cex_npk cex_ok cex_div (init_st true 3600000000000 (CDelay 1000000000) 1 [(0, 1%nat); (3, 1%nat)]) cex_ops) in H.
  specialize (H (nth 8 tr (TComplete, cex_init))).
  assert (Hin : In (nth 8 tr (TComplete, cex_init)) tr).
  { apply nth_In. vm_compute. lia. }
  specialize (H Hin). vm_compute in H. discriminate.
Qed.
