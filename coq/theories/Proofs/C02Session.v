(* C02 at the receiver level (Model/Recv.v): one FDT instance announcing a No-Code object, carried by one
   packet of TOI 0, and the packets of the object, pushed through recv_step / recv_run from recv0 / ctx0.
   Lifts Proofs/C02Full.v (object receiver) through push_fdt_obj / push_obj, create_attach, attach_all,
   check_state and the receive-once bookkeeping. *)
From FluteV Require Import Proofs.D48Step Model.Partition Spec.C07Spec Proofs.PartitionProofs Model.ObjRecv Model.Recv
  Spec.RecvSpec Spec.SessionSpec Proofs.RecvProofs Proofs.SessionProofs Proofs.C02Full Proofs.C09Full.
From Coq Require Import Lia.
Open Scope N_scope.

Arguments N.add : simpl never. Arguments N.mul : simpl never. Arguments N.sub : simpl never.
Arguments N.eqb : simpl never. Arguments N.ltb : simpl never. Arguments N.leb : simpl never.
Arguments N.div : simpl never. Arguments N.modulo : simpl never. Arguments N.min : simpl never.

(* ================= A. frame: a writer nobody holds is never called again ================= *)
Definition Alloc (w : wid) (c : ctx) : Prop := (snd w < ncalls c (fst w))%nat.
Definition NotW (w : wid) (o : objrecv) : Prop := forall ws, r_writer o <> Some (w, ws).
Definition NotHeld (w : wid) (objs : list (N * objrecv)) : Prop := forall k o, In (k, o) objs -> NotW w o.
Definition SameCalls (w : wid) (c c' : ctx) : Prop := calls_of w (c_log c') = calls_of w (c_log c).

Lemma ext_frame w o c o' c' : Ext o c o' c' -> Alloc w c -> NotW w o ->
  Alloc w c' /\ NotW w o' /\ SameCalls w c c'.
Proof.
  intros X A Nw.
  assert (Nw' : NotW w o').
  { intros ws H. destruct (r_writer o) as [[w0 ws0]|] eqn:Ew.
    - destruct (e_stable _ _ _ _ X _ _ Ew) as [ws' H']. rewrite H in H'. inversion H'; subst w0.
      exact (Nw _ Ew).
    - pose proof (e_new _ _ _ _ X _ _ Ew H) as G. unfold Alloc in A. lia. }
  split; [|split; [exact Nw'|]].
  - unfold Alloc in *. pose proof (e_mono _ _ _ _ X (fst w)). lia.
  - apply (e_frame _ _ _ _ X). exact Nw'.
Qed.

Lemma slot_frame w l1 k o l2 c o' c' : Ext o c o' c' -> Alloc w c -> NotHeld w (l1 ++ (k, o) :: l2) ->
  Alloc w c' /\ NotHeld w (l1 ++ (k, o') :: l2) /\ SameCalls w c c'.
Proof.
  intros X A NH.
  assert (No : NotW w o) by (apply (NH k); apply in_or_app; right; left; reflexivity).
  destruct (ext_frame w o c o' c' X A No) as (A' & No' & S).
  split; [exact A'|split; [|exact S]].
  intros k2 o2 Hin. apply in_app_or in Hin. destruct Hin as [Hin|[Heq|Hin]].
  - apply (NH k2). apply in_or_app. left. exact Hin.
  - inversion Heq; subst. exact No'.
  - apply (NH k2). apply in_or_app. right. right. exact Hin.
Qed.

Lemma del_frame w l1 (k : N) (o : objrecv) l2 : NotHeld w (l1 ++ (k, o) :: l2) -> NotHeld w (l1 ++ l2).
Proof.
  intros NH k2 o2 Hin. apply (NH k2). apply in_app_or in Hin. apply in_or_app.
  destruct Hin; [left|right; right]; assumption.
Qed.

Section Frame.
  Variable E : env.
  Variable parse_fdt : list N -> option fdtinst.
  Variable cfg : rconfig.
  Variable w : wid.

  Definition FI (r : recv) (c : ctx) : Prop := Alloc w c /\ NotHeld w (rv_objects r).
  Definition FR2 (c : ctx) (x : recv * ctx) : Prop :=
    RI (fst x) (snd x) /\ FI (fst x) (snd x) /\ SameCalls w c (snd x).

  Lemma same_trans c1 c2 c3 : SameCalls w c1 c2 -> SameCalls w c2 c3 -> SameCalls w c1 c3.
  Proof. unfold SameCalls. congruence. Qed.

  Lemma put_frame r c k o o' c' :
    RI r c -> FI r c -> get_obj r k = Some o -> Ext o c o' c' ->
    FR2 c (set_objects r (put_obj k o' (rv_objects r)), c').
  Proof.
    intros R [A NH] G X. split; [unfold RI; cbn [fst snd set_objects rv_objects]; eapply RI_put; eassumption|].
    unfold get_obj in G.
    destruct (find (fun p => fst p =? k) (rv_objects r)) as [p|] eqn:Ef; [|discriminate].
    inversion G; subst. destruct (find_slot _ _ _ (proj1 R) Ef) as (l1 & l2 & S1 & _ & S3).
    cbn [fst snd set_objects rv_objects]. rewrite S3. rewrite S1 in NH.
    destruct (slot_frame w l1 k (snd p) l2 c o' c' X A NH) as (A' & NH' & S).
    split; [split; assumption|exact S].
  Qed.

  Lemma remove_obj_frame k r c : RI r c -> FI r c -> FR2 c (remove_obj k r c).
  Proof.
    intros R [A NH]. split; [apply remove_obj_inv; exact R|].
    unfold remove_obj. destruct (get_obj r k) as [o|] eqn:G.
    2:{ split; [split; assumption|reflexivity]. }
    cbn [fst snd set_objects rv_objects]. unfold get_obj in G.
    destruct (find (fun p => fst p =? k) (rv_objects r)) as [p|] eqn:Ef; [|discriminate].
    inversion G; subst. destruct (find_slot _ _ _ (proj1 R) Ef) as (l1 & l2 & S1 & S2 & _).
    rewrite S2. rewrite S1 in NH.
    assert (P : C09Full.Pre (snd p) c).
    { eapply RInv_pre; [exact R|]. rewrite S1. apply in_or_app; right; left; reflexivity. }
    destruct (or_drop_ext (snd p) c P) as (o' & X & _).
    destruct (slot_frame w l1 k (snd p) l2 c o' _ X A NH) as (A' & NH' & S).
    split; [split; [exact A'|eapply del_frame; exact NH']|exact S].
  Qed.

  Lemma FR2_trans c x (f : recv -> ctx -> recv * ctx) :
    FR2 c x -> (forall r1 c1, RI r1 c1 -> FI r1 c1 -> FR2 c1 (f r1 c1)) -> FR2 c (f (fst x) (snd x)).
  Proof.
    intros (R & F & S) H. destruct (H _ _ R F) as (R2 & F2 & S2).
    split; [exact R2|split; [exact F2|eapply same_trans; eassumption]].
  Qed.

  Lemma FR2_refl r c : RI r c -> FI r c -> FR2 c (r, c).
  Proof. intros R F. split; [exact R|split; [exact F|reflexivity]]. Qed.

  Lemma gc_error_frame : forall fuel r c, RI r c -> FI r c -> FR2 c (gc_error cfg fuel r c).
  Proof.
    induction fuel as [|f IH]; intros r c R F; cbn [gc_error]; [apply FR2_refl; assumption|].
    destruct (cf_max_err cfg <? N.of_nat (length (rv_error r))); [|apply FR2_refl; assumption].
    destruct (rv_error r) as [|t rest]; [apply FR2_refl; assumption|].
    match goal with |- context [remove_obj t ?r1 c] =>
      pose proof (remove_obj_frame t r1 c R F) as K; destruct (remove_obj t r1 c) as [r2 c2] end.
    apply (FR2_trans c (r2, c2) (gc_error cfg f) K). exact (IH).
  Qed.

  Lemma check_state_frame t r c : RI r c -> FI r c -> FR2 c (check_state cfg t r c).
  Proof.
    intros R F. unfold check_state. destruct (get_obj r t) as [o|]; [|apply FR2_refl; assumption].
    destruct (r_state o); [apply FR2_refl; assumption| | |].
    - apply remove_obj_frame; assumption.
    - match goal with |- context [gc_error cfg ?n ?r1 c] =>
        pose proof (gc_error_frame n r1 c R F) as K; destruct (gc_error cfg n r1 c) as [r2 c2] end.
      apply (FR2_trans c (r2, c2) (remove_obj t) K). apply remove_obj_frame.
    - match goal with |- context [gc_error cfg ?n ?r1 c] =>
        pose proof (gc_error_frame n r1 c R F) as K; destruct (gc_error cfg n r1 c) as [r2 c2] end.
      apply (FR2_trans c (r2, c2) (remove_obj t) K). apply remove_obj_frame.
  Qed.

  Lemma check_all_frame : forall tois r c, RI r c -> FI r c -> FR2 c (check_all cfg tois r c).
  Proof.
    induction tois as [|t rest IH]; intros r c R F; cbn [check_all]; [apply FR2_refl; assumption|].
    pose proof (check_state_frame t r c R F) as K. destruct (check_state cfg t r c) as [r1 c1].
    apply (FR2_trans c (r1, c1) (check_all cfg rest) K). exact IH.
  Qed.

  Lemma attach_all_frame id i : forall tois r c att, RI r c -> FI r c ->
    FR2 c (fst (attach_all E id i tois r c att)).
  Proof.
    induction tois as [|t rest IH]; intros r c att R F; cbn [attach_all]; [apply FR2_refl; assumption|].
    destruct (get_obj r t) as [o|] eqn:G; [|apply IH; assumption].
    pose proof (or_attach_ext E id (fi_files i) (fi_oti i) o c (RI_get_pre _ _ _ _ R G)) as X.
    destruct (or_attach E id (fi_files i) (fi_oti i) o c) as [[ok o1] c1]. unfold ExtA in X. cbn [fst snd] in X.
    pose proof (put_frame r c t o o1 c1 R F G X) as (R1 & F1 & S1). cbn [fst snd] in R1, F1, S1.
    match goal with |- FR2 c (fst (attach_all E id i rest ?r1 c1 ?a)) =>
      destruct (IH r1 c1 a R1 F1) as (R2 & F2 & S2) end.
    split; [exact R2|split; [exact F2|eapply same_trans; eassumption]].
  Qed.

  Definition FR3 (c : ctx) (x : pres * recv * ctx) : Prop := FR2 c (snd (fst x), snd x).

  Lemma push_tail_frame p now r2 c : RI r2 c -> FI r2 c -> FR3 c (push_tail E cfg p now r2 c).
  Proof.
    intros R F. unfold push_tail. cbv zeta.
    assert (G : exists r3 o c3,
      (match get_obj r2 (a_toi p) with
       | Some o => (r2, o, c)
       | None =>
         let '(cur, o1, c1) := create_attach E (rv_fdt_current r2) now (or_new (a_toi p) (cf_max_cache cfg)) c in
         (mk_recv (rv_objects r2 ++ [(a_toi p, o1)]) (rv_completed r2) (rv_error r2) (rv_fdt_receivers r2) cur (rv_closed r2),
          o1, c1)
       end) = (r3, o, c3) /\ RI r3 c3 /\ FI r3 c3 /\ SameCalls w c c3 /\ get_obj r3 (a_toi p) = Some o).
    { destruct (get_obj r2 (a_toi p)) as [o|] eqn:G.
      - exists r2, o, c. split; [reflexivity|]. split; [exact R|]. split; [exact F|]. split; [reflexivity|exact G].
      - unfold get_obj in G.
        destruct (find (fun q => fst q =? a_toi p) (rv_objects r2)) as [q|] eqn:Ef; [discriminate|].
        apply find_none_notin in Ef.
        pose proof (RInv_add _ _ (a_toi p) (cf_max_cache cfg) R Ef) as R1.
        assert (P0 : C09Full.Pre (or_new (a_toi p) (cf_max_cache cfg)) c).
        { eapply RInv_pre; [exact R1|apply in_or_app; right; left; reflexivity]. }
        pose proof (create_attach_ext E (rv_fdt_current r2) now _ c P0) as X.
        destruct (create_attach E (rv_fdt_current r2) now (or_new (a_toi p) (cf_max_cache cfg)) c) as [[cur o1] c1].
        unfold ExtC in X. cbn [fst snd] in X.
        destruct F as [A NH].
        assert (NH1 : NotHeld w (rv_objects r2 ++ [(a_toi p, or_new (a_toi p) (cf_max_cache cfg))])).
        { intros k2 o2 Hin. apply in_app_or in Hin. destruct Hin as [Hin|[Heq|[]]]; [exact (NH _ _ Hin)|].
          inversion Heq; subst. intros ws H. discriminate. }
        destruct (slot_frame w _ _ _ [] c o1 c1 X A NH1) as (A' & NH' & S).
        eexists _, o1, c1. split; [reflexivity|]. split; [|split; [|split]].
        + unfold RI. cbn [rv_objects]. eapply RInv_replace with (l2 := []); eassumption.
        + split; [exact A'|exact NH'].
        + exact S.
        + unfold get_obj. cbn [rv_objects]. rewrite find_snoc by assumption. reflexivity. }
    destruct G as (r3 & o & c3 & -> & R3 & F3 & S3 & G3).
    pose proof (or_push_ext E p o c3 (RI_get_pre _ _ _ _ R3 G3)) as X.
    destruct (or_push E p o c3) as [o2 c4]. unfold ExtP in X. cbn [fst snd] in X.
    pose proof (put_frame r3 c3 (a_toi p) o o2 c4 R3 F3 G3 X) as (R4 & F4 & S4). cbn [fst snd] in R4, F4, S4.
    match goal with |- context [check_state cfg ?t ?r4 c4] =>
      pose proof (check_state_frame t r4 c4 R4 F4) as (R5 & F5 & S5); destruct (check_state cfg t r4 c4) as [r5 c5] end.
    unfold FR3, FR2. cbn [fst snd] in *. split; [exact R5|split; [exact F5|]].
    eapply same_trans; [exact S3|eapply same_trans; eassumption].
  Qed.

  Lemma push_obj_frame p now r c : RI r c -> FI r c -> FR3 c (push_obj E cfg p now r c).
  Proof.
    intros R F. unfold push_obj. fold (push_tail E cfg p now). cbv zeta.
    assert (Rf : FR3 c (POk, r, c)) by (apply FR2_refl; assumption).
    assert (Rf' : FR3 c (PErr, r, c)) by (apply FR2_refl; assumption).
    destruct (existsb (N.eqb (a_toi p)) (rv_completed r)).
    - destruct (cf_once cfg); [exact Rf|].
      destruct (is_first_symbol p) as [[|]|]; try assumption.
      cbn [rv_error].
      destruct (existsb (N.eqb (a_toi p)) (rv_error r)).
      + match goal with |- context [get_obj ?r2 _] => apply (push_tail_frame p now r2 c); assumption end.
      + match goal with |- context [get_obj ?r2 _] => apply (push_tail_frame p now r2 c); assumption end.
    - destruct (existsb (N.eqb (a_toi p)) (rv_error r)).
      + destruct (is_first_symbol p) as [[|]|]; try assumption.
        match goal with |- context [get_obj ?r2 _] => apply (push_tail_frame p now r2 c); assumption end.
      + apply (push_tail_frame p now r c); assumption.
  Qed.

  Lemma FI_ceq r c c' : c_next c' = c_next c -> FI r c -> FI r c'.
  Proof. intros Hn [A NH]. split; [|exact NH]. unfold Alloc in *. rewrite (ncalls_next c c' _ Hn). exact A. Qed.

  Lemma push_fdt_obj_frame p now r c : RI r c -> FI r c -> FR3 c (push_fdt_obj E parse_fdt cfg p now r c).
  Proof.
    intros R F. unfold push_fdt_obj, FR3.
    destruct (a_fdt_id p) as [id|]; [|destruct (a_close_obj p || a_close_sess p); apply FR2_refl; assumption].
    destruct (cf_once cfg && existsb (fun f => fr_id f =? id) (rv_fdt_current r)); [apply FR2_refl; assumption|].
    cbv zeta.
    match goal with |- context [match fr_state ?f0 with _ => _ end] => destruct (fr_state f0) end;
      try (apply FR2_refl; assumption).
    match goal with |- context [fr_push E parse_fdt p now ?f] => destruct (fr_push E parse_fdt p now f) as [f1 pan] end.
    assert (R0 : RI r (if pan then panicc c else c)).
    { destruct pan; [|exact R]. eapply RInv_ceq; [| |exact R]; reflexivity. }
    assert (F0 : FI r (if pan then panicc c else c)).
    { destruct pan; [|exact F]. eapply FI_ceq; [|exact F]. reflexivity. }
    assert (S0 : SameCalls w c (if pan then panicc c else c)) by (destruct pan; reflexivity).
    set (c0 := if pan then panicc c else c) in *. clearbody c0.
    match goal with |- context [match fr_state ?f2 with _ => _ end] => set (ff2 := f2) end.
    destruct (fr_state ff2); try (split; [exact R0|split; [exact F0|exact S0]]).
    destruct (fr_inst ff2) as [i|]; [|split; [exact R0|split; [exact F0|exact S0]]].
    match goal with |- context [attach_all E id i ?l ?r1 c0 []] =>
      pose proof (attach_all_frame id i l r1 c0 [] R0 F0) as K2; destruct (attach_all E id i l r1 c0 []) as [[r2 c2] att] end.
    cbn [fst snd] in K2. destruct K2 as (R2 & F2 & S2). cbn [fst snd] in R2, F2, S2.
    pose proof (check_all_frame att r2 c2 R2 F2) as (R3 & F3 & S3). destruct (check_all cfg att r2 c2) as [r3 c3].
    cbn [fst snd] in *. split; [exact R3|split; [exact F3|]].
    eapply same_trans; [exact S0|eapply same_trans; eassumption].
  Qed.

  Lemma drop_all_frame : forall objs c, RInv objs c -> Alloc w c -> NotHeld w objs ->
    let c' := fold_left (fun cc q => or_drop (snd q) cc) objs c in Alloc w c' /\ SameCalls w c c'.
  Proof.
    induction objs as [|[k o] rest IH]; intros c R A NH; cbn [fold_left snd]; [split; [exact A|reflexivity]|].
    assert (P : C09Full.Pre o c) by (eapply RInv_pre; [exact R|left; reflexivity]).
    destruct (or_drop_ext o c P) as (o' & X & _).
    destruct (slot_frame w [] k o rest c o' _ X A NH) as (A' & NH' & S).
    pose proof (RInv_drop [] k o rest c R) as R'. cbn [app] in R'.
    destruct (IH (or_drop o c) R' A' (del_frame w [] k o' rest NH')) as (A2 & S2).
    split; [exact A2|eapply same_trans; eassumption].
  Qed.

  Lemma recv_step_frame r e c : RI r c -> FI r c -> FR3 c (recv_step E parse_fdt cfg r e c).
  Proof.
    intros R F. destruct e as [p now| |now expired expired_fdt|]; cbn [recv_step].
    - destruct (a_toi p =? 0); [apply push_fdt_obj_frame|apply push_obj_frame]; destruct (a_close_sess p); assumption.
    - apply FR2_refl; assumption.
    - cbv zeta.
      match goal with |- context [fold_left ?st ?l (r, c)] => set (step := st); set (ex := l) end.
      assert (G : forall l acc c0, FR2 c0 acc -> FR2 c0 (fold_left step l acc)).
      { induction l as [|t l IH]; intros acc c0 Ra; cbn [fold_left]; [exact Ra|].
        apply IH. destruct acc as [r1 c1]. unfold step.
        match goal with |- context [remove_obj t ?rr c1] => apply (FR2_trans c0 (r1, c1) (fun r' c' => remove_obj t
           (mk_recv (rv_objects r') (rv_completed r') (filter (fun t0 => negb (t0 =? t)) (rv_error r'))
                    (rv_fdt_receivers r') (rv_fdt_current r') (rv_closed r')) c') Ra) end.
        intros r2 c2 R2 F2. apply remove_obj_frame; assumption. }
      pose proof (G ex (r, c) c (FR2_refl r c R F)) as K. destruct (fold_left step ex (r, c)) as [r1 c1]. exact K.
    - unfold FR3, FR2. cbn [fst snd set_objects rv_objects]. destruct F as [A NH].
      destruct (drop_all_frame (rv_objects r) c R A NH) as (A' & S').
      split; [apply drop_all_inv; exact R|]. split; [split; [exact A'|intros k o []]|exact S'].
  Qed.

  Lemma recv_run_frame : forall evs r c, RI r c -> FI r c ->
    SameCalls w c (snd (recv_run E parse_fdt cfg r evs c)).
  Proof.
    induction evs as [|e rest IH]; intros r c R F; cbn [recv_run]; [reflexivity|].
    pose proof (recv_step_frame r e c R F) as (R1 & F1 & S1).
    destruct (recv_step E parse_fdt cfg r e c) as [[x r1] c1]. cbn [fst snd] in *.
    pose proof (IH r1 c1 R1 F1) as S2. destruct (recv_run E parse_fdt cfg r1 rest c1) as [[xs r2] c2].
    cbn [snd] in *. eapply same_trans; eassumption.
  Qed.
End Frame.

(* ================= B. object-level ingredients ================= *)
Lemma writes_run (w : wid) evs : forallb (is_write w) evs = true ->
  forall acc, exists acc', c09_run None (PhOpened acc) (calls_of w evs) = Some (PhOpened acc').
Proof.
  induction evs as [|ev evs IH]; intros H acc; [exists acc; reflexivity|].
  cbn [forallb] in H. apply andb_true_iff in H. destruct H as [H1 H2].
  destruct ev as [| |w' dat ok| | |]; cbn [is_write] in H1; try discriminate.
  change (EvWrite w' dat ok :: evs) with ([EvWrite w' dat ok] ++ evs).
  rewrite C09Full.calls_of_app. cbn [calls_of flat_map]. rewrite H1. cbn [app c09_run c09_step].
  apply IH. exact H2.
Qed.

Lemma done_runw content (w : wid) toi c : ShapeDone content w toi c -> runw w (c_log c) = Some PhDone.
Proof.
  intros (evs & H1 & H2 & _). unfold runw. rewrite H1, !C09Full.calls_of_app. unfold hdr.
  cbn [calls_of flat_map]. rewrite C09Full.wid_eqb_refl. cbn [app c09_run c09_step].
  rewrite c09_run_app. destruct (writes_run w evs H2 []) as (acc' & ->). reflexivity.
Qed.

(* the calls of the writer, spelled out: open, successful or failed writes whose data concatenate to the
   object, one complete *)
Definition delivered_calls (content : list N) (cs : list wcall) : Prop :=
  exists ws, cs = CallOpen true :: ws ++ [CallComplete]
             /\ Forall (fun cl => match cl with CallWrite _ _ => True | _ => False end) ws
             /\ written ws = content.

Lemma calls_writes_shape (w : wid) evs : forallb (is_write w) evs = true ->
  Forall (fun cl => match cl with CallWrite _ _ => True | _ => False end) (calls_of w evs)
  /\ written (calls_of w evs) = wdata evs.
Proof.
  induction evs as [|ev evs IH]; intros H; [split; [constructor|reflexivity]|].
  cbn [forallb] in H. apply andb_true_iff in H. destruct H as [H1 H2]. destruct (IH H2) as [I1 I2].
  destruct ev as [| |w' dat ok| | |]; cbn [is_write] in H1; try discriminate.
  change (EvWrite w' dat ok :: evs) with ([EvWrite w' dat ok] ++ evs).
  rewrite C09Full.calls_of_app, wdata_app. cbn [calls_of flat_map]. rewrite H1. cbn [app]. split.
  - constructor; [exact I|exact I1].
  - cbn [written flat_map wdata]. rewrite app_nil_r. fold (written (calls_of w evs)). rewrite I2.
    destruct ok; reflexivity.
Qed.

Lemma done_calls content (w : wid) toi c : ShapeDone content w toi c -> delivered_calls content (calls_of w (c_log c)).
Proof.
  intros (evs & H1 & H2 & H3). destruct (calls_writes_shape w evs H2) as [S1 S2].
  exists (calls_of w evs). rewrite H1, !C09Full.calls_of_app. unfold hdr.
  cbn [calls_of flat_map]. rewrite C09Full.wid_eqb_refl. cbn [app].
  split; [reflexivity|]. split; [exact S1|]. rewrite S2. exact H3.
Qed.

Definition Blank (c : ctx) : Prop := c_next c = [] /\ c_log c = [].

Ltac prj := cbn [r_state r_toi r_oti r_cache r_cache_size r_max r_blocks r_off r_tlen r_cenc r_md5 r_md5chk
                 r_al r_as r_nal r_writer r_bw r_fdt_id r_nb_alloc r_alloc_size r_clen r_nocache] in *.

Section Obj.
  Variable E : env.
  Variable oti : roti.
  Variable content : list N.
  Variable toi : N.
  Variable md5 : option (list N).
  Variable max : N.
  Variables al as_ nal n : N.
  Hypothesis Hfec : ro_fec oti = FNoCode.
  Hypothesis He : 0 < ro_e oti.
  Hypothesis Hb : 0 < ro_b oti.
  Hypothesis HL : 0 < lenN_ content.
  Hypothesis Hu64 : lenN_ content + ro_e oti < U64.
  Hypothesis Hpart : block_partitioning (ro_b oti) (lenN_ content) (ro_e oti) = (al, as_, nal, n).

  Notation w := (toi, 0%nat).
  Notation PF lem := (lem (ro_b oti) (ro_e oti) (lenN_ content) al as_ nal n Hb He HL Hpart) (only parsing).
  Notation StructT := (Struct oti content w toi md5 max al as_ nal n).

  (* attach_struct of C02Full, from any context with an empty log in which the builder was never called *)
  Lemma attach_struct_blank fid files inst f c :
    Blank c ->
    find (fun f => ff_toi f =? toi) files = Some f ->
    ff_cenc f = CNull -> match ff_oti f with Some x => Some x | None => inst end = Some oti ->
    ff_tlen f = lenN_ content -> ff_md5 f = md5 ->
    e_builder E toi 0%nat = WStore -> e_open_ok E w = true ->
    exists o0 c0, or_attach E fid files inst (or_new toi max) c = (true, o0, c0) /\ StructT o0 c0
                  /\ r_nocache o0 = ff_nocache f.
  Proof.
    intros [Hnx Hlg] Hfind Hce Hoti Htl Hmd5 Hbld Hopen.
    assert (Hnc : ncalls c toi = 0%nat) by (unfold ncalls; rewrite Hnx; reflexivity).
    unfold or_attach, or_new. prj. rewrite Hfind, Hoti, Htl, Hce, Hmd5. cbv iota beta.
    unfold init_partition at 1. unfold nb_block at 1. prj.
    change (0 <? 0 + N.of_nat (length (@nil bdec))) with false. cbv iota beta. rewrite Hpart. cbv iota beta.
    unfold init_writer. prj. rewrite Hnc, Hbld. cbv iota beta zeta.
    rewrite Hopen. cbn [negb]. destruct (N.eqb_spec (lenN_ content) 0) as [G|HL0]; [lia|]. prj.
    try (d48_skip HL0).
    match goal with |- context [push_from_cache E ?x ?y] => set (o3 := x); set (c3 := y) end.
    pose proof (PF n_pos) as Hn.
    set (m := N.to_nat (N.min n 2048)) in *.
    assert (Hm : (0 < m)%nat) by (unfold m; lia).
    assert (Hlen : length (r_blocks o3) = m) by (unfold o3; prj; apply repeat_length).
    assert (Hnb : 0 < nb_block o3) by (unfold nb_block; rewrite Hlen; unfold o3; prj; lia).
    assert (I3 : push_from_cache E o3 c3 = (o3, c3)).
    { unfold push_from_cache, cache_replay_blocked. change (r_oti o3) with (Some oti). cbv iota beta.
      destruct (N.eqb_spec (nb_block o3) 0) as [G|_]; [lia|]. reflexivity. }
    assert (Hn0 : nth 0 (r_blocks o3) bdec_new = bdec_new) by (unfold o3; prj; apply nth_repeat).
    assert (I4 : write_blocks E (S (length (r_blocks o3))) 0 o3 c3 = (ROk o3, c3)).
    { cbn [write_blocks]. change (r_writer o3) with (Some (w, WOpened)). cbv iota beta.
      change (r_bw o3) with (Some (bw_new (lenN_ content) (ff_clen f) CNull (match md5 with Some _ => e_md5_enabled E | None => false end))).
      cbv iota beta. change (r_off o3) with 0.
      destruct (N.leb_spec 0 0) as [_|G]; [|lia]. replace (0 - 0) with 0 by lia.
      destruct (N.ltb_spec 0 (N.of_nat (length (r_blocks o3)))) as [_|G]; [|lia]. cbn [andb].
      change (N.to_nat 0) with 0%nat. rewrite Hn0. reflexivity. }
    rewrite I3, I4. cbv iota beta. rewrite I3. exists o3, c3. split; [reflexivity|].
    split; [|reflexivity].
    split; [|split].
    - constructor; unfold o3; prj; try reflexivity. discriminate.
    - constructor; unfold o3; prj.
      + eexists. split; [reflexivity|]. constructor; cbn [bw_new bw_sbn bw_left bw_cenc bw_acc bw_md5]; try reflexivity.
        * rewrite (PF boff_0). lia.
        * rewrite (PF boff_0). reflexivity.
      + exact Hn.
      + rewrite repeat_length. fold m. lia.
      + intros i. rewrite nth_repeat. apply blockok_new.
      + lia.
      + exists []. split; [unfold c3, hdr; cbn [logc inc_calls c_log]; rewrite Hlg; reflexivity|]. split; [reflexivity|].
        rewrite (PF boff_0). reflexivity.
    - unfold Flushed. rewrite Hn0. reflexivity.
  Qed.
End Obj.

Section Inband.
  Variable E : env.
  Variable oti : roti.
  Variable content : list N.
  Variable max : N.
  Variables al as_ nal n : N.
  Hypothesis Hfec : ro_fec oti = FNoCode.
  Hypothesis He : 0 < ro_e oti.
  Hypothesis Hb : 0 < ro_b oti.
  Hypothesis HL : 0 < lenN_ content.
  Hypothesis Hu64 : lenN_ content + ro_e oti < U64.
  Hypothesis Hpart : block_partitioning (ro_b oti) (lenN_ content) (ro_e oti) = (al, as_, nal, n).
  Notation w0 := (0, 0%nat).
  Notation PF lem := (lem (ro_b oti) (ro_e oti) (lenN_ content) al as_ nal n Hb He HL Hpart) (only parsing).

  (* the first packet of the FDT object (TOI 0) carries its FDT instance id and OTI in band: the inner
     object receiver is initialised from it exactly like an attached one *)
  Lemma inband_first p id :
    a_toi p = 0 -> a_fdt_id p = Some id -> a_oti p = Some (oti, lenN_ content) ->
    (a_cenc p = None \/ a_cenc p = Some CNull) ->
    e_builder E 0 0%nat = WStore -> e_open_ok E w0 = true ->
    exists o3 c3, Struct oti content w0 0 None max al as_ nal n o3 c3
                  /\ or_push E p (or_new 0 max) ctx0 = or_push E p o3 c3.
  Proof.
    intros Htoi Hfid Hoti Hce Hbld Hopen.
    unfold or_push at 1. unfold or_new. prj. rewrite Htoi, Hfid, Hoti. rewrite N.eqb_refl.
    assert (Hce' : match a_cenc p with Some x => Some x | None => Some CNull end = Some CNull)
      by (destruct Hce as [-> | ->]; reflexivity).
    rewrite Hce'. cbv iota beta.
    unfold init_partition at 1. unfold nb_block at 1. prj.
    change (0 <? 0 + N.of_nat (length (@nil bdec))) with false. cbv iota beta. rewrite Hpart. cbv iota beta.
    unfold init_writer. prj. change (ncalls ctx0 0) with 0%nat. rewrite Hbld. cbv iota beta zeta.
    rewrite Hopen. cbn [negb]. destruct (N.eqb_spec (lenN_ content) 0) as [G|HL0]; [lia|]. prj.
    try (d48_skip HL0).
    match goal with |- context [push_from_cache E ?x ?y] => set (o3 := x); set (c3 := y) end.
    pose proof (PF n_pos) as Hn.
    set (m := N.to_nat (N.min n 2048)) in *.
    assert (Hm : (0 < m)%nat) by (unfold m; lia).
    assert (Hlen : length (r_blocks o3) = m) by (unfold o3; prj; apply repeat_length).
    assert (Hnb : 0 < nb_block o3) by (unfold nb_block; rewrite Hlen; unfold o3; prj; lia).
    assert (I3 : push_from_cache E o3 c3 = (o3, c3)).
    { unfold push_from_cache, cache_replay_blocked. change (r_oti o3) with (Some oti). cbv iota beta.
      destruct (N.eqb_spec (nb_block o3) 0) as [G|_]; [lia|]. reflexivity. }
    assert (Hn0 : nth 0 (r_blocks o3) bdec_new = bdec_new) by (unfold o3; prj; apply nth_repeat).
    change (r_state o3) with Receiving. cbv iota beta. rewrite I3. cbv iota beta.
    change (r_state o3) with Receiving. cbv iota beta. change (r_oti o3) with (Some oti). cbv iota beta.
    assert (St : Static oti content w0 None max al as_ nal o3).
    { constructor; unfold o3; prj; try reflexivity. discriminate. }
    exists o3, c3. split.
    - split; [exact St|split].
      + constructor; unfold o3; prj.
        * eexists. split; [reflexivity|]. constructor; cbn [bw_new bw_sbn bw_left bw_cenc bw_acc bw_md5]; try reflexivity.
          -- rewrite (PF boff_0). lia.
          -- rewrite (PF boff_0). reflexivity.
        * exact Hn.
        * rewrite repeat_length. fold m. lia.
        * intros i. rewrite nth_repeat. apply blockok_new.
        * lia.
        * exists []. split; [reflexivity|]. split; [reflexivity|]. rewrite (PF boff_0). reflexivity.
      + unfold Flushed. rewrite Hn0. reflexivity.
    - symmetry. apply (or_push_static E oti content w0 None max al as_ nal He Hb HL Hu64 o3 c3 p St Hnb).
  Qed.
End Inband.

(* ================= C. the FDT receiver: an instance carried by one packet ================= *)
Notation w0 := (0, 0%nat) (only parsing).

(* what push_fdt_obj / fr_push / the inner object receiver need of the packet that carries the instance:
   TOI 0, EXT_FDT with the instance id, EXT_FTI with a No-Code OTI and the length of the XML document [d],
   no content encoding, and the whole document as the one source symbol (genuine + recoverable alone) *)
Definition fdt_pkt_ok (pf : apkt) (id : N) (foti : roti) (d : list N) : Prop :=
  a_toi pf = 0 /\ a_fdt_id pf = Some id /\ a_oti pf = Some (foti, lenN_ d)
  /\ (a_cenc pf = None \/ a_cenc pf = Some CNull)
  /\ nocode_ok foti (lenN_ d) /\ lenN_ d <= 1048576
  /\ genuine_pkt foti d pf = true /\ recoverable foti (lenN_ d) [pf] = true.

Lemma single_covers_one b e L al as_ nal n x :
  0 < b -> 0 < e -> 0 < L -> block_partitioning b L e = (al, as_, nal, n) ->
  covered al as_ nal n [x] -> n <= 1.
Proof.
  intros Hb He HL Hp Cov. destruct (N.le_gt_cases n 1) as [G|G]; [exact G|exfalso].
  pose proof (k_pos b e L al as_ nal n Hb He HL Hp 0) as K0.
  pose proof (k_pos b e L al as_ nal n Hb He HL Hp 1) as K1.
  destruct (Cov 0 0 ltac:(lia) K0) as [H0|[]]. destruct (Cov 1 0 G K1) as [H1|[]]. congruence.
Qed.

Lemma fdt_obj_single E foti d pf id :
  fdt_pkt_ok pf id foti d ->
  e_builder E 0 0%nat = WStore -> e_open_ok E w0 = true -> (forall i, e_write_ok E w0 i = true) ->
  exists o1 c1, or_push E pf (or_new 0 1048576) ctx0 = (o1, c1)
                /\ r_state o1 = Completed /\ ShapeDone d w0 0 c1.
Proof.
  intros (Htoi & Hfid & Hoti & Hce & (Hfec & He & Hb & HL & Hu) & Hmax & Hgen & Hrec) Hbld Hopen Hwr.
  destruct (partition_of foti (lenN_ d)) as [[[al as_] nal] n] eqn:Hpart. unfold partition_of in Hpart.
  destruct (inband_first E foti d 1048576 al as_ nal n He Hb HL Hu Hpart pf id Htoi Hfid Hoti Hce Hbld Hopen)
    as (o3 & c3 & S3 & Eq).
  assert (Cov : covered al as_ nal n (map pid_of [pf])).
  { apply recoverable_covered. unfold recoverable, source_ks, partition_of in Hrec. rewrite Hpart in Hrec. exact Hrec. }
  pose proof (deliver E foti d w0 0 None 1048576 al as_ nal n Hfec He Hb HL Hu Hpart [pf] o3 c3 S3) as D.
  assert (D' : let (o', c') := run E [pf] (o3, c3) in r_state o' = Completed /\ ShapeDone d w0 0 c').
  { apply D.
    - split; [split; [exact Hwr|exact I]|]. split; [exact Hmax|].
      pose proof (single_covers_one _ _ _ _ _ _ _ _ Hb He HL Hpart Cov). lia.
    - apply (genuine_pkt_spec foti d al as_ nal n [pf] Hpart). constructor; [exact Hgen|constructor].
    - intros pre p post Eq' Hp. rewrite app_nil_r.
      destruct pre as [|a pre]; cbn [app] in Eq'; inversion Eq'; subst; [exact Cov|destruct pre; discriminate].
    - exact Cov. }
  unfold run in D'. cbn [fold_left fst snd] in D'. rewrite <- Eq in D'.
  destruct (or_push E pf (or_new 0 1048576) ctx0) as [o1 c1]. exists o1, c1. split; [reflexivity|exact D'].
Qed.

Section FdtLog.
  Variable parse_fdt : list N -> option fdtinst.

  Lemma apply_log_app a : forall b f, apply_fdt_log parse_fdt (a ++ b) f = apply_fdt_log parse_fdt b (apply_fdt_log parse_fdt a f).
  Proof. induction a as [|ev a IH]; intros b f; [reflexivity|]. destruct ev; cbn [app apply_fdt_log]; apply IH. Qed.

  Lemma apply_log_writes (w : wid) evs : forallb (is_write w) evs = true -> forall f,
    apply_fdt_log parse_fdt evs f
    = mk_fr (fr_id f) (fr_obj f) (fr_data f ++ wdata evs) (fr_state f) (fr_inst f) (fr_offset f) (fr_check f).
  Proof.
    induction evs as [|ev evs IH]; intros H f; [cbn [apply_fdt_log wdata flat_map]; rewrite app_nil_r; destruct f; reflexivity|].
    cbn [forallb] in H. apply andb_true_iff in H. destruct H as [H1 H2].
    destruct ev as [| |w' dat ok| | |]; cbn [is_write] in H1; try discriminate.
    cbn [apply_fdt_log]. rewrite (IH H2). cbn [fr_id fr_obj fr_data fr_state fr_inst fr_offset fr_check].
    change (EvWrite w' dat ok :: evs) with ([EvWrite w' dat ok] ++ evs). rewrite wdata_app.
    cbn [wdata flat_map]. rewrite app_nil_r, app_assoc. reflexivity.
  Qed.

  Lemma apply_log_done d (w : wid) toi c f inst : ShapeDone d w toi c -> fr_data f = [] -> parse_fdt d = Some inst ->
    apply_fdt_log parse_fdt (c_log c) f = mk_fr (fr_id f) (fr_obj f) d FComplete (Some inst) (fr_offset f) (fr_check f).
  Proof.
    intros (evs & H1 & H2 & H3) Hd Hp. rewrite H1. unfold hdr. cbn [app apply_fdt_log].
    rewrite apply_log_app, (apply_log_writes w evs H2). cbn [apply_fdt_log fr_id fr_obj fr_data fr_state fr_inst fr_offset fr_check].
    rewrite Hd, H3. cbn [app]. rewrite Hp. reflexivity.
  Qed.
End FdtLog.

Definition fdt_off (pf : apkt) (now : Z) : option (Z * bool) :=
  match a_sct pf with
  | Some t => if (t <? now)%Z then Some ((now - t)%Z, true) else Some ((t - now)%Z, false)
  | None => None
  end.
Definition fdt_done (cfg : rconfig) (id : N) (d : list N) (inst : fdtinst) (pf : apkt) (now : Z) : fdtrecv :=
  mk_fr id None d FComplete (Some inst) (fdt_off pf now) (cf_exp_check cfg).

(* the instance is not expired when it is completed and looked up at [now]: no expiry check, or
   Expires >= the sender's clock (EXT_TIME of the FDT packet when present, else the receiver's) *)
Definition fdt_live (cfg : rconfig) (inst : fdtinst) (pf : apkt) (now : Z) : Prop :=
  cf_exp_check cfg = false
  \/ exists ex, fi_expires inst = Some ex /\ (ex <? match a_sct pf with Some t => t | None => now end)%Z = false.

Lemma server_time_done cfg id d inst pf now :
  server_time (fdt_done cfg id d inst pf now) now = match a_sct pf with Some t => t | None => now end.
Proof.
  unfold server_time, fdt_done, fdt_off. cbn [fr_offset]. destruct (a_sct pf) as [t|]; [|reflexivity].
  destruct (t <? now)%Z; lia.
Qed.

Lemma live_update cfg id d inst pf now : fdt_live cfg inst pf now ->
  fr_update_expired (fdt_done cfg id d inst pf now) now = fdt_done cfg id d inst pf now.
Proof.
  intros Hl. unfold fr_update_expired, fr_is_expired. rewrite server_time_done.
  unfold fdt_done. cbn [fr_state fr_check fr_inst].
  destruct Hl as [->|(ex & Hex & Hlt)]; [reflexivity|].
  rewrite Hex, Hlt, andb_false_r. reflexivity.
Qed.

Section FdtPush.
  Variable E : env.
  Variable parse_fdt : list N -> option fdtinst.
  Variable cfg : rconfig.
  Variables (pf : apkt) (id : N) (foti : roti) (d : list N) (inst : fdtinst) (now : Z).
  Hypothesis Hpf : fdt_pkt_ok pf id foti d.
  Hypothesis Hparse : parse_fdt d = Some inst.
  Hypothesis Hlive : fdt_live cfg inst pf now.

  Lemma fr_push_single : exists pan, fr_push E parse_fdt pf now (fr_new cfg id) = (fdt_done cfg id d inst pf now, pan).
  Proof.
    destruct (fdt_obj_single (E_fdt E) foti d pf id Hpf eq_refl eq_refl (fun _ => eq_refl)) as (o1 & c1 & Ep & Hst & Hsh).
    unfold fr_push, fr_new. cbn [fr_id fr_obj fr_data fr_state fr_inst fr_offset fr_check]. rewrite Ep.
    erewrite apply_log_done; [|exact Hsh|reflexivity|exact Hparse]. rewrite Hst.
    cbn [fr_id fr_obj fr_data fr_state fr_inst fr_offset fr_check]. exists (c_panic c1). reflexivity.
  Qed.

  (* the FDT packet on a receiver that holds no FDT instance yet *)
  Lemma push_fdt_first r c : rv_fdt_current r = [] -> rv_fdt_receivers r = [] ->
    exists c0, (c0 = c \/ c0 = panicc c) /\
      push_fdt_obj E parse_fdt cfg pf now r c =
      (let r1 := mk_recv (rv_objects r) (rv_completed r) (rv_error r) [] [fdt_done cfg id d inst pf now] (rv_closed r) in
       let '(r2, c2, attached) := attach_all E id inst (map fst (rv_objects r1)) r1 c0 [] in
       let (r3, c3) := check_all cfg attached r2 c2 in
       let comp := match fi_files inst with
                   | [] => rv_completed r3
                   | _ => filter (fun t => existsb (fun f => ff_toi f =? t) (fi_files inst)) (rv_completed r3)
                   end in
       (POk, mk_recv (rv_objects r3) comp (rv_error r3) (rv_fdt_receivers r3) (firstn 10 (rv_fdt_current r3)) (rv_closed r3), c3)).
  Proof.
    intros Hcur Hrcv. destruct fr_push_single as (pan & Hpush).
    exists (if pan then panicc c else c). split; [destruct pan; [right|left]; reflexivity|].
    unfold push_fdt_obj. destruct Hpf as (_ & Hfid & _). rewrite Hfid, Hcur, Hrcv.
    cbn [existsb find]. rewrite andb_false_r. cbn [fr_state fr_new]. rewrite Hpush.
    cbn [fr_state fdt_done]. fold (fdt_done cfg id d inst pf now). rewrite (live_update _ _ _ _ _ _ Hlive).
    cbn [fr_state fr_inst fdt_done filter]. reflexivity.
  Qed.
End FdtPush.

(* ================= the cache directive of an object is only set by or_attach ================= *)
Section NoCache.
  Variable E : env.
  Lemma nc_complete o c : r_nocache (fst (complete o c)) = r_nocache o.
  Proof. unfold complete. destruct (r_writer o) as [[x ws]|]; reflexivity. Qed.
  Lemma nc_error o i c : r_nocache (fst (error o i c)) = r_nocache o.
  Proof. unfold error. destruct (r_writer o) as [[x ws]|]; destruct i; reflexivity. Qed.

  Lemma nc_write_blocks : forall fuel sbn o c,
    r_nocache (res_obj (fst (write_blocks E fuel sbn o c))) = r_nocache o.
  Proof.
    induction fuel as [|f IH]; intros sbn o c; cbn [write_blocks fst res_obj]; [reflexivity|].
    destruct (r_writer o) as [[x ws]|]; [|reflexivity].
    destruct ws; try reflexivity.
    destruct (r_bw o) as [bw|]; [|reflexivity].
    destruct ((r_off o <=? sbn) && (sbn - r_off o <? N.of_nat (length (r_blocks o)))); [|reflexivity].
    destruct (negb (bd_completed _)); [reflexivity|].
    destruct (bw_write E x sbn _ bw c) as [[| bw' | |] c1]; cbn [fst res_obj]; try reflexivity.
    destruct (Nat.eqb (N.to_nat (sbn - r_off o)) 0); cbv zeta beta iota;
    match goal with |- context [set_blocks o ?a ?b ?d ?e ?g] => set (o1 := set_blocks o a b d e g) end;
    assert (K1 : r_nocache o1 = r_nocache o) by reflexivity;
    destruct (bw_left bw' =? 0).
    all: try (rewrite IH; exact K1).
    all: destruct (match r_md5 o1, bw_md5 bw' with Some want, Some got => eqb_bytes want got | _, _ => true end).
    all: try (pose proof (nc_complete o1 c1) as K2; destruct (complete o1 c1) as [o2 c2]; cbn [fst res_obj] in K2 |- *; congruence).
    all: try (pose proof (nc_error o1 false c1) as K2; destruct (error o1 false c1) as [o2 c2]; cbn [fst res_obj] in K2 |- *; congruence).
  Qed.

  Lemma nc_push_to_block2 p o c : r_nocache (res_obj (fst (push_to_block2 E p o c))) = r_nocache o.
  Proof.
    unfold push_to_block2.
    destruct (r_oti o) as [oti|]; [|reflexivity].
    destruct (r_tlen o) as [tlen|]; [|reflexivity].
    destruct (a_pid_with (ro_fec oti) p) as [[[sbn esi] sbl]|]; [|reflexivity].
    destruct (tlen =? 0).
    { destruct (r_writer o); [|reflexivity]. pose proof (nc_complete o c) as K. destruct (complete o c) as [o1 c1]. exact K. }
    destruct (sbn <? r_off o); [reflexivity|].
    destruct (match sbl with None => nb_blocks_of oti tlen <=? sbn | Some _ => false end); [reflexivity|].
    destruct ((N.of_nat (length (r_blocks o)) <=? sbn - r_off o) && (4096 <? sbn - r_off o)); [reflexivity|].
    cbv zeta.
    match goal with |- context [bd_completed ?b] => destruct (bd_completed b) end; [reflexivity|].
    match goal with |- context [match ?x with None => _ | Some _ => _ end] =>
      destruct x as [[[[b1 nb] sz]|]|] end; cbn [fst res_obj]; try reflexivity.
    destruct (bd_push E (r_toi o) oti sbn esi (a_payload p) b1) as [b2 pan].
    destruct (bd_completed b2); cbn [fst res_obj]; [|reflexivity].
    rewrite nc_write_blocks. reflexivity.
  Qed.

  Lemma nc_push_to_block p o c : r_nocache (res_obj (fst (push_to_block E p o c))) = r_nocache o.
  Proof.
    unfold push_to_block. pose proof (nc_push_to_block2 p o c) as K.
    destruct (push_to_block2 E p o c) as [[o1|o1] c1]; cbn [fst res_obj] in *; [|exact K].
    destruct (a_close_obj p); [|exact K].
    destruct (r_state o1); try exact K.
    destruct (r_writer o1); [|exact K].
    pose proof (nc_error o1 true c1) as K2. destruct (error o1 true c1) as [o2 c2]. cbn [fst res_obj] in *. congruence.
  Qed.
End NoCache.

(* ================= D. the session ================= *)
Section Session.
  Variable E : env.
  Variable parse_fdt : list N -> option fdtinst.
  Variable cfg : rconfig.
  Variable oti : roti.
  Variable content : list N.
  Variable toi : N.
  Variable md5 : option (list N).
  Variables al as_ nal n : N.
  Variable now : Z.
  Hypothesis Hfec : ro_fec oti = FNoCode.
  Hypothesis He : 0 < ro_e oti.
  Hypothesis Hb : 0 < ro_b oti.
  Hypothesis HL : 0 < lenN_ content.
  Hypothesis Hu64 : lenN_ content + ro_e oti < U64.
  Hypothesis Hpart : block_partitioning (ro_b oti) (lenN_ content) (ro_e oti) = (al, as_, nal, n).
  Hypothesis Htoi : toi <> 0.
  Notation max := (cf_max_cache cfg).
  Notation w := (toi, 0%nat).
  Hypothesis Hnice : Nice2 E content w md5 max n.
  Hypothesis Hacc : writer_accepts E toi.
  (* the FDT instance and its entry for the object *)
  Variables (id : N) (inst : fdtinst) (f : fdtfile).
  Hypothesis Hfind : find (fun f => ff_toi f =? toi) (fi_files inst) = Some f.
  Hypothesis Hce : ff_cenc f = CNull.
  Hypothesis Hfo : match ff_oti f with Some x => Some x | None => fi_oti inst end = Some oti.
  Hypothesis Htl : ff_tlen f = lenN_ content.
  Hypothesis Hmd5 : ff_md5 f = md5.

  Notation StructT := (Struct oti content w toi md5 max al as_ nal n).
  Notation gen := (genuine oti content al as_ nal n).
  Notation cov := (covered al as_ nal n).
  Notation push := (fun p => RvPush p now).

  Definition DoneCore (r : recv) (c : ctx) : Prop :=
    rv_objects r = [] /\ rv_completed r = (if ff_nocache f then [] else [toi]) /\ rv_error r = []
    /\ ShapeDone content w toi c /\ Alloc w c.
  Definition RecvCore (seen : list (N * N)) (r : recv) (c : ctx) : Prop :=
    exists o, rv_objects r = [(toi, o)] /\ rv_completed r = [] /\ rv_error r = []
              /\ StructT o c /\ LiveAll seen o /\ r_nocache o = ff_nocache f.
  Definition SessDone (r : recv) (c : ctx) : Prop :=
    RI r c /\ FI w r c /\ delivered_calls content (calls_of w (c_log c))
    /\ (cf_once cfg = true -> ff_nocache f = false -> DoneCore r c).

  Lemma done_core_sess r c : DoneCore r c -> RI r c -> SessDone r c.
  Proof.
    intros D R. pose proof D as (D1 & D2 & D3 & D4 & D5). split; [exact R|]. split; [|split].
    - split; [exact D5|]. rewrite D1. intros k o [].
    - apply (done_calls content w toi c D4).
    - intros _ _. exact D.
  Qed.

  Lemma or_drop_done o c : C09Full.Pre o c -> (exists ws, r_writer o = Some (w, ws)) ->
    ShapeDone content w toi c -> or_drop o c = c /\ Alloc w c.
  Proof.
    intros (_ & W & _) (ws & Hw) Sh. rewrite Hw in W. cbn [WInv] in W. destruct W as (_ & W2 & ph & Rn & K).
    rewrite (done_runw content w toi c Sh) in Rn. inversion Rn; subst ph.
    split; [|exact W2]. unfold or_drop. rewrite Hw. destruct ws; cbn [phase_ok] in K; try contradiction; reflexivity.
  Qed.

  Lemma nc_or_push_static o c p : StructT o c -> r_nocache (fst (or_push E p o c)) = r_nocache o.
  Proof.
    intros (St & Dy & _).
    rewrite (or_push_static E oti content w md5 max al as_ nal He Hb HL Hu64 o c p St (dy_nb _ _ _ _ _ _ _ _ _ _ Dy)).
    pose proof (nc_push_to_block E p o c) as K. destruct (push_to_block E p o c) as [[o1|o1] c1]; cbn [fst res_obj] in *; [exact K|].
    rewrite nc_error. exact K.
  Qed.

  (* one packet of the object on the attached, receiving object *)
  Lemma obj_tail_ok seen p r3 o c3 :
    rv_objects r3 = [(toi, o)] -> rv_completed r3 = [] -> rv_error r3 = [] ->
    StructT o c3 -> LiveAll seen o -> r_nocache o = ff_nocache f -> C09Full.Pre o c3 ->
    gen p -> (a_close_obj p = true -> cov (pid_of p :: seen)) ->
    let (o2, c4) := or_push E p o c3 in
    let (r5, c5) := check_state cfg toi (set_objects r3 (put_obj toi o2 (rv_objects r3))) c4 in
    RecvCore (pid_of p :: seen) r5 c5 \/ DoneCore r5 c5.
  Proof.
    intros Hobjs Hcomp Herr HS Lv Hnc HP Gp Cl.
    pose proof (step E oti content w toi md5 max al as_ nal n Hfec He Hb HL Hu64 Hpart o c3 p _ _ HS Gp) as H.
    pose proof (or_push_ext E p o c3 HP) as X. pose proof (nc_or_push_static o c3 p HS) as NC.
    destruct (or_push E p o c3) as [o2 c4]. cbn [StepOut] in H. unfold ExtP in X. cbn [fst snd] in X, NC.
    rewrite Hobjs. unfold put_obj. cbn [existsb fst map]. rewrite N.eqb_refl. cbn [orb].
    unfold check_state, get_obj. cbn [set_objects rv_objects find fst snd]. rewrite N.eqb_refl.
    cbn [snd set_objects rv_objects rv_completed rv_error rv_fdt_receivers rv_fdt_current rv_closed].
    assert (LvP : forall o', Mono o o' -> LiveOne (fst (pid_of p)) (snd (pid_of p)) o' -> LiveAll (pid_of p :: seen) o').
    { intros o' M2 L2 s i [Eq|Hin]; [rewrite Eq in L2; exact L2|apply M2, Lv, Hin]. }
    destruct H as [(S1 & M1 & L1)|[(H1 & H2)|(_ & _ & H3)]].
    - pose proof S1 as (St1 & _). rewrite (st_state _ _ _ _ _ _ _ _ _ St1). left. exists o2.
      cbn [rv_objects rv_completed rv_error].
      split; [reflexivity|]. split; [exact Hcomp|]. split; [exact Herr|]. split; [exact S1|].
      split; [apply LvP; assumption|congruence].
    - rewrite H1. cbv iota.
      assert (Hw : exists ws, r_writer o2 = Some (w, ws)).
      { pose proof HS as (St0 & _). exact (e_stable _ _ _ _ X _ _ (st_writer _ _ _ _ _ _ _ _ _ St0)). }
      destruct (or_drop_done o2 c4 (e_pre _ _ _ _ X) Hw H2) as [Hd Ha].
      unfold remove_obj, get_obj. cbn [rv_objects find fst snd]. rewrite N.eqb_refl.
      cbn [set_objects rv_objects rv_completed rv_error rv_fdt_receivers rv_fdt_current rv_closed del_obj filter fst snd].
      rewrite N.eqb_refl. cbn [negb]. rewrite Hd, Hcomp, NC, Hnc. right.
      unfold DoneCore. cbn [rv_objects rv_completed rv_error existsb app].
      split; [reflexivity|]. split; [destruct (ff_nocache f); reflexivity|]. split; [exact Herr|].
      split; [exact H2|exact Ha].
    - exfalso. apply H3. split; [exact Hnice|]. intros Hcl o' c' S2 M2 L2.
      apply (struct_not_covered oti content w toi md5 max al as_ nal n He Hb HL Hu64 Hpart o' c' (pid_of p :: seen) S2 (LvP o' M2 L2)).
      exact (Cl Hcl).
  Qed.

  Lemma recv_core_closed seen r c b :
    RecvCore seen r c ->
    RecvCore seen (mk_recv (rv_objects r) (rv_completed r) (rv_error r) (rv_fdt_receivers r) (rv_fdt_current r) b) c.
  Proof. intros (o & H). exists o. exact H. Qed.

  Lemma push_obj_recv seen r c p :
    RecvCore seen r c -> RI r c -> a_toi p = toi -> gen p -> (a_close_obj p = true -> cov (pid_of p :: seen)) ->
    let '(x, r', c') := push_obj E cfg p now r c in (RecvCore (pid_of p :: seen) r' c' \/ DoneCore r' c') /\ RI r' c'.
  Proof.
    intros (o & Hobjs & Hcomp & Herr & HS & Lv & Hnc) R Ht Gp Cl.
    pose proof (push_obj_inv E cfg p now r c R) as R'.
    assert (HP : C09Full.Pre o c) by (eapply RInv_pre; [exact R|rewrite Hobjs; left; reflexivity]).
    pose proof (obj_tail_ok seen p r o c Hobjs Hcomp Herr HS Lv Hnc HP Gp Cl) as T.
    assert (Eq : push_obj E cfg p now r c =
                 (let (o2, c4) := or_push E p o c in
                  let (r5, c5) := check_state cfg toi (set_objects r (put_obj toi o2 (rv_objects r))) c4 in
                  (POk, r5, c5))).
    { unfold push_obj. cbv zeta. rewrite Ht, Hcomp. cbn [existsb]. cbv iota beta. rewrite Herr. cbn [existsb]. cbv iota beta.
      unfold get_obj. rewrite Hobjs. cbn [find fst]. rewrite N.eqb_refl. cbn [snd]. rewrite <- Hobjs. reflexivity. }
    rewrite Eq in *. clear Eq.
    destruct (or_push E p o c) as [o2 c4].
    destruct (check_state cfg toi (set_objects r (put_obj toi o2 (rv_objects r))) c4) as [r5 c5].
    split; [exact T|exact R'].
  Qed.

  (* the first packet of the object when a complete, unexpired instance listing it is current *)
  Lemma push_obj_first F2 rest r c p :
    rv_objects r = [] -> rv_completed r = [] -> rv_error r = [] -> rv_fdt_current r = F2 :: rest ->
    fr_update_expired F2 now = F2 -> fr_state F2 = FComplete -> fr_inst F2 = Some inst ->
    Blank c -> RI r c -> a_toi p = toi -> gen p -> (a_close_obj p = true -> cov [pid_of p]) ->
    let '(x, r', c') := push_obj E cfg p now r c in (RecvCore [pid_of p] r' c' \/ DoneCore r' c') /\ RI r' c'.
  Proof.
    intros Hobjs Hcomp Herr Hcur Hup Hst Hin Bl R Ht Gp Cl.
    pose proof (push_obj_inv E cfg p now r c R) as R'.
    destruct Hacc as [A1 A2].
    destruct (attach_struct_blank E oti content toi md5 max al as_ nal n He Hb HL Hu64 Hpart (fr_id F2) (fi_files inst) (fi_oti inst) f c
                Bl Hfind Hce Hfo Htl Hmd5 A1 A2) as (o0 & c0 & Hat & S0 & Hnc).
    assert (P0 : C09Full.Pre (or_new toi max) c).
    { split; [left; exact I|]. split; [exact I|]. destruct R as (_ & _ & Fr & _). exact Fr. }
    pose proof (or_attach_ext E (fr_id F2) (fi_files inst) (fi_oti inst) _ c P0) as X. rewrite Hat in X.
    unfold ExtA in X. cbn [fst snd] in X.
    set (r3 := mk_recv (rv_objects r ++ [(toi, o0)]) (rv_completed r) (rv_error r) (rv_fdt_receivers r) (F2 :: rest) (rv_closed r)).
    assert (T : let (o2, c4) := or_push E p o0 c0 in
                let (r5, c5) := check_state cfg toi (set_objects r3 (put_obj toi o2 (rv_objects r3))) c4 in
                RecvCore (pid_of p :: []) r5 c5 \/ DoneCore r5 c5).
    { apply obj_tail_ok; try assumption.
      - unfold r3. cbn [rv_objects]. rewrite Hobjs. reflexivity.
      - intros s i [].
      - exact (e_pre _ _ _ _ X). }
    assert (Eq : push_obj E cfg p now r c =
                 (let (o2, c4) := or_push E p o0 c0 in
                  let (r5, c5) := check_state cfg toi (set_objects r3 (put_obj toi o2 (rv_objects r3))) c4 in
                  (POk, r5, c5))).
    { unfold push_obj. cbv zeta. rewrite Ht, Hcomp. cbn [existsb]. cbv iota beta. rewrite Herr. cbn [existsb]. cbv iota beta.
      unfold get_obj. rewrite Hobjs. cbn [find]. rewrite Hcur. cbn [create_attach]. rewrite Hup, Hst, Hin, Hat.
      cbv iota beta. unfold r3. rewrite Hobjs, Herr. reflexivity. }
    rewrite Eq in *. clear Eq.
    destruct (or_push E p o0 c0) as [o2 c4].
    destruct (check_state cfg toi (set_objects r3 (put_obj toi o2 (rv_objects r3))) c4) as [r5 c5].
    split; [exact T|exact R'].
  Qed.

  Notation closed_of p r :=
    (if a_close_sess p
     then mk_recv (rv_objects r) (rv_completed r) (rv_error r) (rv_fdt_receivers r) (rv_fdt_current r) true
     else r).

  Lemma step_is_push_obj r c p : a_toi p = toi ->
    recv_step E parse_fdt cfg r (RvPush p now) c = push_obj E cfg p now (closed_of p r) c.
  Proof. intros Ht. cbn [recv_step]. rewrite Ht. destruct (N.eqb_spec toi 0) as [G|_]; [contradiction|reflexivity]. Qed.

  (* once delivered: whatever else arrives for the TOI, the first writer is never called again; with
     receive-once and a cacheable object every later packet of the TOI is ignored *)
  Lemma done_step r c p : SessDone r c -> a_toi p = toi ->
    let '(x, r', c') := recv_step E parse_fdt cfg r (RvPush p now) c in SessDone r' c'.
  Proof.
    intros (R & F & Dc & B) Ht.
    assert (Eqb : cf_once cfg = true -> ff_nocache f = false ->
                  recv_step E parse_fdt cfg r (RvPush p now) c = (POk, closed_of p r, c)).
    { intros Ho Hn. destruct (B Ho Hn) as (D1 & D2 & _). rewrite Hn in D2. rewrite (step_is_push_obj r c p Ht).
      unfold push_obj. cbv zeta. rewrite Ht.
      assert (Hc : rv_completed (closed_of p r) = [toi]) by (destruct (a_close_sess p); exact D2).
      rewrite Hc. cbn [existsb]. rewrite N.eqb_refl. cbn [orb]. rewrite Ho. reflexivity. }
    pose proof (recv_step_frame E parse_fdt cfg w r (RvPush p now) c R F) as (R1 & F1 & S1).
    destruct (recv_step E parse_fdt cfg r (RvPush p now) c) as [[x r1] c1]. cbn [fst snd] in *.
    split; [exact R1|]. split; [exact F1|]. split.
    - unfold SameCalls in S1. rewrite S1. exact Dc.
    - intros Ho Hn. specialize (Eqb Ho Hn). inversion Eqb; subst x r1 c1. pose proof (B Ho Hn) as D.
      destruct (a_close_sess p); exact D.
  Qed.

  Lemma run_done pkts : forall r c, SessDone r c -> Forall (fun p => a_toi p = toi) pkts ->
    let '(_, r', c') := recv_run E parse_fdt cfg r (map push pkts) c in SessDone r' c'.
  Proof.
    induction pkts as [|p pkts IH]; intros r c D T; [exact D|].
    pose proof (Forall_inv T) as Tp; pose proof (Forall_inv_tail T) as Tr. cbn beta in Tp. cbn [map recv_run].
    pose proof (done_step r c p D Tp) as D1. destruct (recv_step E parse_fdt cfg r (RvPush p now) c) as [[x r1] c1].
    specialize (IH r1 c1 D1 Tr). destruct (recv_run E parse_fdt cfg r1 (map push pkts) c1) as [[xs r2] c2]. exact IH.
  Qed.

  Lemma close_ok_tail seen p pkts : close_ok al as_ nal n seen (p :: pkts) -> close_ok al as_ nal n (pid_of p :: seen) pkts.
  Proof.
    intros Cl pre q post Eq Hq s i Hs Hi. specialize (Cl (p :: pre) q post). rewrite Eq in Cl.
    specialize (Cl eq_refl Hq s i Hs Hi). cbn [app map] in Cl. destruct Cl as [Cl|Cl].
    - apply in_or_app. right. left. exact Cl.
    - apply in_app_or in Cl. apply in_or_app. destruct Cl as [Cl|Cl]; [left; exact Cl|right; right; exact Cl].
  Qed.

  Lemma run_recv pkts : forall r c seen, RecvCore seen r c -> RI r c ->
    Forall gen pkts -> Forall (fun p => a_toi p = toi) pkts ->
    close_ok al as_ nal n seen pkts -> cov (List.rev (map pid_of pkts) ++ seen) ->
    let '(_, r', c') := recv_run E parse_fdt cfg r (map push pkts) c in SessDone r' c'.
  Proof.
    induction pkts as [|p pkts IH]; intros r c seen HR R G T Cl Cv.
    - exfalso. destruct HR as (o & _ & _ & _ & HS & Lv & _). cbn [map List.rev app] in Cv.
      exact (struct_not_covered oti content w toi md5 max al as_ nal n He Hb HL Hu64 Hpart o c seen HS Lv Cv).
    - pose proof (Forall_inv G) as Gp; pose proof (Forall_inv_tail G) as Gr; pose proof (Forall_inv T) as Tp; pose proof (Forall_inv_tail T) as Tr. cbn beta in Tp. cbn [map recv_run].
      rewrite (step_is_push_obj r c p Tp).
      assert (HR0 : RecvCore seen (closed_of p r) c) by (destruct (a_close_sess p); [apply recv_core_closed|]; exact HR).
      assert (R0 : RI (closed_of p r) c) by (destruct (a_close_sess p); exact R).
      assert (Clp : a_close_obj p = true -> cov (pid_of p :: seen)).
      { intros Hcl. exact (Cl [] p pkts eq_refl Hcl). }
      pose proof (push_obj_recv seen _ c p HR0 R0 Tp Gp Clp) as H.
      destruct (push_obj E cfg p now (closed_of p r) c) as [[x r1] c1]. destruct H as [[H|H] R1].
      + assert (Cv1 : cov (List.rev (map pid_of pkts) ++ pid_of p :: seen)).
        { cbn [map List.rev] in Cv. rewrite <- app_assoc in Cv. exact Cv. }
        specialize (IH r1 c1 (pid_of p :: seen) H R1 Gr Tr (close_ok_tail seen p pkts Cl) Cv1).
        destruct (recv_run E parse_fdt cfg r1 (map push pkts) c1) as [[xs r2] c2]. exact IH.
      + pose proof (run_done pkts r1 c1 (done_core_sess _ _ H R1) Tr) as D.
        destruct (recv_run E parse_fdt cfg r1 (map push pkts) c1) as [[xs r2] c2]. exact D.
  Qed.

  Lemma cov_rev l : cov l -> cov (List.rev l ++ []).
  Proof. intros C s i Hs Hi. rewrite app_nil_r. apply in_rev. rewrite rev_involutive. apply C; assumption. Qed.

  (* the object's packets after a complete, unexpired instance listing it has become current *)
  Lemma run_after_fdt F2 rest pkts r c :
    rv_objects r = [] -> rv_completed r = [] -> rv_error r = [] -> rv_fdt_current r = F2 :: rest ->
    fr_update_expired F2 now = F2 -> fr_state F2 = FComplete -> fr_inst F2 = Some inst ->
    Blank c -> RI r c ->
    Forall gen pkts -> Forall (fun p => a_toi p = toi) pkts ->
    close_ok al as_ nal n [] pkts -> cov (map pid_of pkts) ->
    let '(_, r', c') := recv_run E parse_fdt cfg r (map push pkts) c in SessDone r' c'.
  Proof.
    intros Hobjs Hcomp Herr Hcur Hup Hst Hin Bl R G T Cl Cv.
    destruct pkts as [|p pkts].
    { exfalso. pose proof (n_pos _ _ _ _ _ _ _ Hb He HL Hpart) as Hn. pose proof (k_pos _ _ _ _ _ _ _ Hb He HL Hpart 0) as Hk.
      exact (Cv 0 0 Hn Hk). }
    pose proof (Forall_inv G) as Gp; pose proof (Forall_inv_tail G) as Gr; pose proof (Forall_inv T) as Tp; pose proof (Forall_inv_tail T) as Tr. cbn beta in Tp. cbn [map recv_run].
    rewrite (step_is_push_obj r c p Tp).
    assert (R0 : RI (closed_of p r) c) by (destruct (a_close_sess p); exact R).
    assert (Clp : a_close_obj p = true -> cov [pid_of p]).
    { intros Hcl. pose proof (Cl [] p pkts eq_refl Hcl) as K. cbn [app map] in K. exact K. }
    assert (H : let '(x, r', c') := push_obj E cfg p now (closed_of p r) c in
                (RecvCore [pid_of p] r' c' \/ DoneCore r' c') /\ RI r' c').
    { apply (push_obj_first F2 rest); try assumption; destruct (a_close_sess p); assumption. }
    destruct (push_obj E cfg p now (closed_of p r) c) as [[x r1] c1]. destruct H as [[H|H] R1].
    + apply cov_rev in Cv. cbn [map List.rev] in Cv. rewrite <- !app_assoc in Cv.
      pose proof (run_recv pkts r1 c1 [pid_of p] H R1 Gr Tr (close_ok_tail [] p pkts Cl) Cv) as D.
      destruct (recv_run E parse_fdt cfg r1 (map push pkts) c1) as [[xs r2] c2]. exact D.
    + pose proof (run_done pkts r1 c1 (done_core_sess _ _ H R1) Tr) as D.
      destruct (recv_run E parse_fdt cfg r1 (map push pkts) c1) as [[xs r2] c2]. exact D.
  Qed.

  (* ---------- S1: the FDT packet first ---------- *)
  Variables (pf : apkt) (foti : roti) (d : list N).
  Hypothesis Hpf : fdt_pkt_ok pf id foti d.
  Hypothesis Hparse : parse_fdt d = Some inst.
  Hypothesis Hlive : fdt_live cfg inst pf now.

  Lemma blank_or c c0 : Blank c -> c0 = c \/ c0 = panicc c -> Blank c0.
  Proof. intros B [->| ->]; exact B. Qed.

  Theorem fdt_first_delivers pkts :
    Forall gen pkts -> Forall (fun p => a_toi p = toi) pkts ->
    close_ok al as_ nal n [] pkts -> cov (map pid_of pkts) ->
    let '(_, r, c) := recv_run E parse_fdt cfg recv0 (map push (pf :: pkts)) ctx0 in SessDone r c.
  Proof.
    intros G T Cl Cv. cbn [map recv_run]. cbn [recv_step].
    pose proof Hpf as (Hz & _). rewrite Hz. rewrite N.eqb_refl.
    set (r0 := closed_of pf recv0).
    destruct (push_fdt_first E parse_fdt cfg pf id foti d inst now Hpf Hparse Hlive r0 ctx0) as (c0 & Hc0 & Eq).
    { unfold r0. destruct (a_close_sess pf); reflexivity. }
    { unfold r0. destruct (a_close_sess pf); reflexivity. }
    rewrite Eq. clear Eq.
    assert (Ho : rv_objects r0 = []) by (unfold r0; destruct (a_close_sess pf); reflexivity).
    assert (Hcm : rv_completed r0 = []) by (unfold r0; destruct (a_close_sess pf); reflexivity).
    assert (Her : rv_error r0 = []) by (unfold r0; destruct (a_close_sess pf); reflexivity).
    cbv zeta. cbn [rv_objects]. rewrite Ho. cbn [map attach_all check_all].
    cbn [rv_objects rv_completed rv_error rv_fdt_receivers rv_fdt_current rv_closed firstn].
    assert (Bl : Blank c0) by (apply (blank_or ctx0); [split; reflexivity|exact Hc0]).
    assert (Hcomp0 : match fi_files inst with
                     | [] => rv_completed r0
                     | _ :: _ => filter (fun t => existsb (fun f0 => ff_toi f0 =? t) (fi_files inst)) (rv_completed r0)
                     end = []).
    { rewrite Hcm. destruct (fi_files inst); reflexivity. }
    rewrite Hcomp0, Her.
    match goal with |- context [recv_run E parse_fdt cfg ?rr _ c0] => set (r1 := rr) end.
    assert (R1 : RI r1 c0).
    { unfold RI, r1. cbn [rv_objects]. destruct Hc0 as [->| ->]; [exact RInv0|].
      eapply RInv_ceq; [| |exact RInv0]; reflexivity. }
    pose proof (run_after_fdt (fdt_done cfg id d inst pf now) [] pkts r1 c0 eq_refl eq_refl eq_refl eq_refl
                  (live_update _ _ _ _ _ _ Hlive) eq_refl eq_refl Bl R1 G T Cl Cv) as D.
    destruct (recv_run E parse_fdt cfg r1 (map push pkts) c0) as [[xs r2] c2]. exact D.
  Qed.

  (* ---------- S2: packets of the object (in-band FTI) before the FDT instance ---------- *)
  Notation Lc := (lenN_ content).
  Notation kof := (k_of al as_ nal).
  Notation sof := (soff al as_ nal).
  Notation bln := (blen (ro_e oti) Lc al as_ nal).
  Notation BOk := (BlockOk oti content al as_ nal n).
  Notation BInit := (BlockInit oti content al as_ nal n).
  Notation asumT := (asum oti content al as_ nal).

  (* an object that decodes without FDT and without writer: OTI and length from EXT_FTI, nothing flushed *)
  Record PreS (o : objrecv) : Prop := {
    ps_state : r_state o = Receiving;
    ps_toi : r_toi o = toi;
    ps_oti : r_oti o = Some oti;
    ps_tlen : r_tlen o = Some Lc;
    ps_cenc : r_cenc o = None;
    ps_fdt : r_fdt_id o = None;
    ps_cache : r_cache o = [];
    ps_csz : r_cache_size o = 0;
    ps_al : r_al o = al;
    ps_as : r_as o = as_;
    ps_nal : r_nal o = nal;
    ps_max : r_max o = max;
    ps_writer : r_writer o = None;
    ps_off : r_off o = 0;
    ps_nb : (0 < length (r_blocks o))%nat;
    ps_blocks : forall i, BOk (N.of_nat i) (nth i (r_blocks o) bdec_new);
    ps_alloc : r_alloc_size o <= asumT 0 (r_blocks o)
  }.

  Lemma pres_set_blocks o bl nb sz bw : PreS o -> (0 < length bl)%nat ->
    (forall i, BOk (N.of_nat i) (nth i bl bdec_new)) -> sz <= asumT 0 bl -> PreS (set_blocks o bl 0 nb sz bw).
  Proof. intros [] H1 H2 H3. constructor; unfold set_blocks; prj; first [assumption|reflexivity]. Qed.

  Lemma pre_tail o c sbn esi payload b1 nb sz :
    PreS o -> sbn < n ->
    let idx := N.to_nat sbn in
    (idx < length (r_blocks o))%nat ->
    let dd := nth idx (r_blocks o) bdec_new in
    bd_completed dd = false -> BInit sbn b1 -> bd_completed b1 = false ->
    (bd_init dd = true -> b1 = dd /\ sz = r_alloc_size o) ->
    (bd_init dd = false -> sz = r_alloc_size o + bln sbn) ->
    esi < kof sbn -> payload = sym_bytes oti content (sof sbn + esi) ->
    exists o1,
      (let (b2, pan) := bd_push E (r_toi o) oti sbn esi payload b1 in
       let c1 := if pan then panicc c else c in
       let o1 := set_blocks o (upd_nthb idx (fun _ => b2) (r_blocks o)) 0 nb sz (r_bw o) in
       if bd_completed b2 then write_blocks E (S (length (r_blocks o1))) sbn o1 c1 else (ROk o1, c1))
      = (ROk o1, c) /\ PreS o1 /\ Mono o o1 /\ LiveOne sbn esi o1.
  Proof.
    intros PS Hlt idx Hidx dd Hdc BI1 Hc1 Hinit Hnew Hesi Hpay.
    destruct (bd_push_ok E oti content al as_ nal n Hfec He Hb HL Hu64 Hpart (r_toi o) sbn esi payload b1 BI1 Hc1 Hesi Hpay)
      as (Q1 & Q2 & Q3 & Q4).
    destruct (bd_push E (r_toi o) oti sbn esi payload b1) as [b2 pan]. cbn [fst snd] in Q1, Q2, Q3, Q4. subst pan.
    cbv zeta.
    set (o1 := set_blocks o (upd_nthb idx (fun _ => b2) (r_blocks o)) 0 nb sz (r_bw o)).
    assert (Hsbn : N.of_nat idx = sbn) by (unfold idx; lia).
    assert (P1 : PreS o1).
    { apply pres_set_blocks; [exact PS|rewrite length_upd; lia| |].
      - intros i. destruct (Nat.eq_dec i idx) as [->|Ne].
        + rewrite (nth_upd_eq oti content He Hb HL Hu64) by exact Hidx. rewrite Hsbn.
          split; [rewrite (bi_init _ _ _ _ _ _ _ _ Q2); discriminate|intros _; exact Q2].
        + rewrite nth_upd_ne by exact Ne. apply (ps_blocks _ PS).
      - pose proof (ps_alloc _ PS) as A. destruct (bd_init dd) eqn:Hi.
        + destruct (Hinit eq_refl) as [_ ->]. rewrite asum_upd_same; [exact A|]. fold dd. rewrite Hi. apply (bi_init _ _ _ _ _ _ _ _ Q2).
        + rewrite (Hnew eq_refl).
          rewrite (asum_upd_new oti content al as_ nal He Hb HL Hu64); [|exact Hidx|exact Hi|apply (bi_init _ _ _ _ _ _ _ _ Q2)].
          replace (0 + N.of_nat idx) with sbn by lia. lia. }
    assert (M1 : Mono o o1).
    { intros s i [H|[H1 H2]]; [left; unfold o1, set_blocks; prj; rewrite (ps_off _ PS) in H; exact H|].
      right. unfold o1, set_blocks; prj. rewrite (ps_off _ PS) in *. split; [exact H1|].
      destruct (Nat.eq_dec (N.to_nat (s - 0)) idx) as [Eq|Ne].
      - rewrite Eq in *. rewrite (nth_upd_eq oti content He Hb HL Hu64) by exact Hidx. fold dd in H2. cbv zeta in H2. destruct H2 as [H2 H3].
        split; [apply (bi_init _ _ _ _ _ _ _ _ Q2)|]. right. destruct H3 as [H3|H3]; [congruence|].
        apply Q4. destruct (Hinit H2) as [-> _]. exact H3.
      - rewrite nth_upd_ne by exact Ne. exact H2. }
    assert (Lv : LiveOne sbn esi o1).
    { right. unfold o1, set_blocks; prj. split; [lia|]. replace (N.to_nat (sbn - 0)) with idx by (unfold idx; lia).
      rewrite (nth_upd_eq oti content He Hb HL Hu64) by exact Hidx.
      split; [apply (bi_init _ _ _ _ _ _ _ _ Q2)|right; exact Q3]. }
    exists o1. split; [|split; [exact P1|split; [exact M1|exact Lv]]].
    destruct (bd_completed b2); [|reflexivity].
    cbn [write_blocks]. rewrite (ps_writer _ P1). reflexivity.
  Qed.

  Lemma pre_p2b o c p sbn esi : PreS o -> genuine_at oti content al as_ nal n p sbn esi ->
    exists o1, push_to_block2 E p o c = (ROk o1, c) /\ PreS o1 /\ Mono o o1 /\ LiveOne sbn esi o1.
  Proof.
    intros PS (Hpid & Hlt & Hesi & Hpay). destruct Hnice as (_ & Hmax & Hn97).
    unfold push_to_block2. rewrite (ps_oti _ PS), (ps_tlen _ PS), Hfec, Hpid.
    destruct (N.eqb_spec Lc 0) as [G|_]; [lia|]. rewrite (ps_off _ PS).
    destruct (N.ltb_spec sbn 0) as [G|_]; [lia|].
    assert (Hnb : nb_blocks_of oti Lc = n) by (unfold nb_blocks_of; rewrite Hpart; reflexivity).
    rewrite Hnb. destruct (N.leb_spec n sbn) as [G|_]; [lia|].
    replace (sbn - 0) with sbn by lia.
    set (len := N.of_nat (length (r_blocks o))).
    destruct ((len <=? sbn) && (4096 <? sbn)) eqn:X.
    { exfalso. apply andb_true_iff in X. destruct X as [_ X]. apply N.ltb_lt in X. lia. }
    cbv zeta.
    set (bl0 := if len <=? sbn then r_blocks o ++ repeat bdec_new (N.to_nat sbn + 1 - length (r_blocks o)) else r_blocks o).
    assert (F : (forall i, nth i bl0 bdec_new = nth i (r_blocks o) bdec_new)
                /\ (forall s, asumT s bl0 = asumT s (r_blocks o))
                /\ (N.to_nat sbn < length bl0)%nat /\ (length (r_blocks o) <= length bl0)%nat).
    { unfold bl0. destruct (N.leb_spec len sbn) as [G|G]; unfold len in G.
      - split; [intros i; apply nth_app_new|]. split; [intros s; apply (asum_app_new oti content al as_ nal He Hb HL Hu64)|].
        rewrite app_length, repeat_length. lia.
      - split; [reflexivity|]. split; [reflexivity|]. lia. }
    destruct F as (F1 & F2 & F3 & F4). clearbody bl0.
    set (o0 := set_blocks o bl0 0 (r_nb_alloc o) (r_alloc_size o) (r_bw o)).
    assert (PS0 : PreS o0).
    { apply pres_set_blocks; [exact PS|pose proof (ps_nb _ PS); lia| |].
      - intros i. rewrite F1. apply (ps_blocks _ PS).
      - rewrite F2. exact (ps_alloc _ PS). }
    assert (M0 : Mono o o0).
    { intros s i [H|[H1 H2]]; [left; unfold o0, set_blocks; prj; rewrite (ps_off _ PS) in H; exact H|right].
      unfold o0, set_blocks; prj. rewrite (ps_off _ PS) in *. split; [exact H1|]. rewrite F1. exact H2. }
    set (dd := nth (N.to_nat sbn) bl0 bdec_new).
    assert (Bd : BOk sbn dd).
    { unfold dd. rewrite F1. replace sbn with (N.of_nat (N.to_nat sbn)) at 1 by lia. apply (ps_blocks _ PS). }
    destruct (bd_completed dd) eqn:Hc.
    { exists o0. split; [reflexivity|]. split; [exact PS0|]. split; [exact M0|]. right.
      unfold o0, set_blocks; prj. split; [lia|]. replace (N.to_nat (sbn - 0)) with (N.to_nat sbn) by lia. fold dd.
      split; [|left; exact Hc].
      destruct (bd_init dd) eqn:Hi; [reflexivity|]. destruct Bd as [B0 _]. rewrite B0 in Hc by exact Hi. discriminate. }
    assert (Tl : forall b1 nb sz, BInit sbn b1 -> bd_completed b1 = false ->
      (bd_init dd = true -> b1 = dd /\ sz = r_alloc_size o) -> (bd_init dd = false -> sz = r_alloc_size o + bln sbn) ->
      exists o1,
        (let (b2, pan) := bd_push E (r_toi o) oti sbn esi (a_payload p) b1 in
         let c1 := if pan then panicc c else c in
         let o1 := set_blocks o0 (upd_nthb (N.to_nat sbn) (fun _ => b2) bl0) 0 nb sz (r_bw o) in
         if bd_completed b2 then write_blocks E (S (length (r_blocks o1))) sbn o1 c1 else (ROk o1, c1))
        = (ROk o1, c) /\ PreS o1 /\ Mono o o1 /\ LiveOne sbn esi o1).
    { intros b1 nb sz BI1 Hc1 Hi1 Hi2.
      destruct (pre_tail o0 c sbn esi (a_payload p) b1 nb sz PS0 Hlt F3 Hc BI1 Hc1 Hi1 Hi2 Hesi Hpay) as (o1 & Eq & P1 & M1 & L1).
      exists o1. split; [exact Eq|]. split; [exact P1|]. split; [|exact L1].
      intros s i H. apply M1, M0, H. }
    destruct (bd_init dd) eqn:Hi.
    - cbv iota beta.
      assert (BId : BInit sbn dd) by (destruct Bd as [_ B1]; apply B1; exact Hi).
      apply (Tl dd (r_nb_alloc o) (r_alloc_size o) BId Hc).
      + intros _. split; reflexivity.
      + intros G. congruence.
    - rewrite (ps_al _ PS), (ps_as _ PS), (ps_nal _ PS).
      change (if sbn <? nal then al else as_) with (kof sbn).
      rewrite (bl64 _ _ _ _ _ _ _ Hb He HL Hpart Hu64 sbn Hlt).
      destruct ((2 <=? r_nb_alloc o) && (r_max o <? r_alloc_size o + bln sbn)) eqn:Y.
      { exfalso. apply andb_true_iff in Y. destruct Y as [_ Y]. apply N.ltb_lt in Y.
        rewrite (ps_max _ PS) in Y. pose proof (ps_alloc _ PS) as A. rewrite <- F2 in A.
        pose proof (asum_upd_new oti content al as_ nal He Hb HL Hu64 (N.to_nat sbn) (fun x => mk_bdec false true 0 0 [] None false) bl0 0 F3 Hi eq_refl) as U.
        pose proof (asum_le_L oti content al as_ nal n He Hb HL Hu64 Hpart (upd_nthb (N.to_nat sbn) (fun x => mk_bdec false true 0 0 [] None false) bl0) 0) as B.
        replace (0 + N.of_nat (N.to_nat sbn)) with sbn in U by lia. lia. }
      unfold bd_init_block. rewrite Hi, Hfec. cbv iota beta.
      set (b1 := mk_bdec (bd_completed dd) true (bln sbn) (kof sbn) [] None true).
      assert (BI1 : BInit sbn b1).
      { constructor; unfold b1; cbn [bd_init bd_k bd_size bd_alloc bd_shards bd_completed bd_data length map]; try reflexivity; try assumption.
        - constructor.
        - constructor.
        - intros _. split; [reflexivity|]. pose proof (k_pos _ _ _ _ _ _ _ Hb He HL Hpart sbn). cbn [N.of_nat]. lia.
        - rewrite Hc. discriminate. }
      apply (Tl b1 (r_nb_alloc o + 1) (r_alloc_size o + bln sbn) BI1 Hc).
      + intros G. congruence.
      + intros _. reflexivity.
  Qed.

  Lemma pre_or_push_static o c p : PreS o -> a_toi p = toi -> a_cenc p = None ->
    or_push E p o c = match push_to_block E p o c with
                      | (ROk o5, c5) => (o5, c5)
                      | (RErr o5, c5) => error o5 false c5
                      end.
  Proof.
    intros [P1 P2 P3 P4 P5 P6 P7 P8 P9 P10 P11 P12 P13 P14 P15 P16 P17] Ht Hcp.
    destruct o as [st ti ot ca cs mx bl of tl ce m5 mc a1 a2 a3 wr bw fi na az cl nc]. prj.
    subst st ti ot ca cs wr of tl ce fi.
    unfold or_push. prj. rewrite Ht, Hcp. destruct (N.eqb_spec toi 0) as [G|_]; [contradiction|]. cbv iota beta.
    match goal with |- context [init_partition ?x] => set (o0 := x) end.
    assert (Hnb0 : 0 < nb_block o0) by (unfold nb_block, o0; prj; lia).
    assert (I1 : init_partition o0 = o0).
    { unfold init_partition. destruct (N.ltb_spec 0 (nb_block o0)) as [_|G]; [reflexivity|lia]. }
    assert (I2 : init_writer E o0 c = (o0, c)) by reflexivity.
    assert (I3 : push_from_cache E o0 c = (o0, c)).
    { unfold push_from_cache, cache_replay_blocked. change (r_oti o0) with (Some oti). cbv iota beta.
      destruct (N.eqb_spec (nb_block o0) 0) as [G|_]; [lia|]. reflexivity. }
    rewrite I1, I2. cbv iota beta. change (r_state o0) with Receiving. cbv iota beta.
    rewrite I3. cbv iota beta. change (r_state o0) with Receiving. cbv iota beta.
    change (r_oti o0) with (Some oti). cbv iota beta. reflexivity.
  Qed.

  (* one more packet of the object before any FDT instance: decoded, nothing written, the log untouched *)
  (* a close-object flag on such a packet is ignored: the object has no writer yet (D44) *)
  Lemma pre_or_push o c p sbn esi : PreS o -> a_toi p = toi -> a_cenc p = None ->
    genuine_at oti content al as_ nal n p sbn esi ->
    exists o1, or_push E p o c = (o1, c) /\ PreS o1 /\ Mono o o1 /\ LiveOne sbn esi o1.
  Proof.
    intros PS Ht Hcp G. rewrite (pre_or_push_static o c p PS Ht Hcp).
    destruct (pre_p2b o c p sbn esi PS G) as (o1 & Eq & P1 & M1 & L1).
    unfold push_to_block. rewrite Eq, (ps_state _ P1), (ps_writer _ P1).
    exists o1. split; [destruct (a_close_obj p); reflexivity|]. split; [exact P1|split; assumption].
  Qed.

  Definition pre_init : objrecv :=
    mk_or Receiving toi (Some oti) [] 0 max (repeat bdec_new (N.to_nat (N.min n 2048))) 0 (Some Lc) None None false
          al as_ nal None None None 0 0 None false.

  Lemma pre_init_ok : PreS pre_init.
  Proof.
    pose proof (n_pos _ _ _ _ _ _ _ Hb He HL Hpart) as Hn.
    constructor; unfold pre_init; prj; try reflexivity.
    - rewrite repeat_length. lia.
    - intros i. rewrite nth_repeat. apply blockok_new.
    - lia.
  Qed.

  Lemma pre_first c p sbn esi : a_toi p = toi -> a_oti p = Some (oti, Lc) -> a_cenc p = None ->
    genuine_at oti content al as_ nal n p sbn esi ->
    exists o1, or_push E p (or_new toi max) c = (o1, c) /\ PreS o1 /\ LiveOne sbn esi o1.
  Proof.
    intros Ht Ho Hcp G.
    assert (Eq : or_push E p (or_new toi max) c = or_push E p pre_init c).
    { rewrite (pre_or_push_static pre_init c p pre_init_ok Ht Hcp).
      unfold or_push, or_new. prj. rewrite Ht, Hcp, Ho. destruct (N.eqb_spec toi 0) as [G0|_]; [contradiction|]. cbv iota beta.
      unfold init_partition at 1. unfold nb_block at 1. prj.
      change (0 <? 0 + N.of_nat (length (@nil bdec))) with false. cbv iota beta. rewrite Hpart. cbv iota beta.
      fold pre_init.
      assert (Hnb0 : 0 < nb_block pre_init).
      { unfold nb_block, pre_init; prj. rewrite repeat_length. pose proof (n_pos _ _ _ _ _ _ _ Hb He HL Hpart). lia. }
      assert (I2 : init_writer E pre_init c = (pre_init, c)) by reflexivity.
      assert (I3 : push_from_cache E pre_init c = (pre_init, c)).
      { unfold push_from_cache, cache_replay_blocked. change (r_oti pre_init) with (Some oti). cbv iota beta.
        destruct (N.eqb_spec (nb_block pre_init) 0) as [G0|_]; [lia|]. reflexivity. }
      rewrite I2. cbv iota beta. change (r_state pre_init) with Receiving. cbv iota beta.
      rewrite I3. cbv iota beta. change (r_state pre_init) with Receiving. cbv iota beta.
      change (r_oti pre_init) with (Some oti). cbv iota beta. reflexivity. }
    rewrite Eq. destruct (pre_or_push pre_init c p sbn esi pre_init_ok Ht Hcp G) as (o1 & E1 & P1 & _ & L1).
    exists o1. split; [exact E1|split; assumption].
  Qed.

  Lemma struct_push_from_cache o c : StructT o c -> push_from_cache E o c = (o, c).
  Proof.
    intros (St & Dy & _). pose proof (dy_nb _ _ _ _ _ _ _ _ _ _ Dy) as Hnb.
    pose proof (st_cache _ _ _ _ _ _ _ _ _ St) as H1. pose proof (st_csz _ _ _ _ _ _ _ _ _ St) as H2.
    unfold push_from_cache, cache_replay_blocked. rewrite (st_oti _ _ _ _ _ _ _ _ _ St). fold (nb_block o) in Hnb.
    destruct (N.eqb_spec (nb_block o) 0) as [G|_]; [lia|]. cbv iota beta. cbn [andb].
    rewrite H1. cbn [List.rev drain_cache]. destruct o. prj. subst. reflexivity.
  Qed.

  Lemma find_existsb (files : list fdtfile) g : find (fun x => ff_toi x =? toi) files = Some g ->
    existsb (fun x => ff_toi x =? toi) files = true.
  Proof.
    intros H. apply find_some in H. apply existsb_exists. exists g. exact H.
  Qed.

  Lemma done_alloc c : Fresh c -> ShapeDone content w toi c -> Alloc w c.
  Proof.
    intros Fr (evs & H1 & _). unfold Alloc. destruct (Nat.lt_ge_cases (snd w) (ncalls c (fst w))) as [G|G]; [exact G|].
    specialize (Fr w G). rewrite H1, !C09Full.calls_of_app in Fr. unfold hdr in Fr. cbn [calls_of flat_map] in Fr.
    rewrite C09Full.wid_eqb_refl in Fr. discriminate Fr.
  Qed.

  Lemma or_drop_done' o c : C09Full.Pre o c -> ShapeDone content w toi c -> or_drop o c = c /\ Alloc w c.
  Proof.
    intros (_ & W & Fr) Sh. split; [|exact (done_alloc c Fr Sh)].
    unfold or_drop. destruct (r_writer o) as [[w' ws]|]; [|reflexivity]. cbn [WInv] in W.
    destruct W as (_ & _ & ph & Rn & K).
    assert (Hph : ph = PhDone \/ ph = PhStart).
    { destruct (wid_eq_dec w' w) as [->|Ne].
      - rewrite (done_runw content w toi c Sh) in Rn. inversion Rn. left; reflexivity.
      - right. destruct Sh as (evs & H1 & H2 & _). unfold runw in Rn. rewrite H1, !C09Full.calls_of_app in Rn.
        rewrite (calls_writes_other w w' evs H2 (wid_eqb_neq _ _ Ne)) in Rn. unfold hdr in Rn. cbn [calls_of flat_map] in Rn.
        rewrite (wid_eqb_neq _ _ Ne) in Rn. cbn in Rn. inversion Rn. reflexivity. }
    destruct Hph as [-> | ->]; destruct ws; cbn [phase_ok] in K; try contradiction; reflexivity.
  Qed.

  (* the FDT instance reaches an object that has decoded without it: the writer is opened and the completed
     blocks at the front of the window are flushed *)
  Lemma attach_pre fid o c seen :
    PreS o -> LiveAll seen o -> Blank c ->
    exists o' c', or_attach E fid (fi_files inst) (fi_oti inst) o c = (true, o', c')
      /\ r_nocache o' = ff_nocache f
      /\ ((StructT o' c' /\ LiveAll seen o') \/ (r_state o' = Completed /\ ShapeDone content w toi c')).
  Proof.
    intros [P1 P2 P3 P4 P5 P6 P7 P8 P9 P10 P11 P12 P13 P14 P15 P16 P17] Lv [Hnx Hlg].
    destruct o as [st ti ot ca cs mx bl of tl ce m5 mc a1 a2 a3 wr bw fi na az cl nc]. prj.
    subst st ti ot ca cs wr of tl ce fi.
    destruct Hacc as [A1 A2]. destruct Hnice as ((Hwr & Hmd) & Hmax & Hn97).
    assert (Hnc : ncalls c toi = 0%nat) by (unfold ncalls; rewrite Hnx; reflexivity).
    pose proof (n_pos _ _ _ _ _ _ _ Hb He HL Hpart) as Hn.
    unfold or_attach. prj. rewrite Hfind, Hce, Hmd5. cbv iota beta.
    unfold init_partition at 1. unfold nb_block at 1. prj.
    destruct (N.ltb_spec 0 (0 + N.of_nat (length bl))) as [_|G]; [|lia].
    unfold init_writer. prj. rewrite Hnc, A1. cbv iota beta zeta.
    rewrite A2. cbn [negb]. destruct (N.eqb_spec Lc 0) as [G|HL0]; [lia|]. prj.
    try (d48_skip HL0).
    match goal with |- context [push_from_cache E ?x ?y] => set (o3 := x); set (c3 := y) end.
    assert (Hnb : 0 < nb_block o3) by (unfold nb_block, o3; prj; lia).
    assert (I3 : push_from_cache E o3 c3 = (o3, c3)).
    { unfold push_from_cache, cache_replay_blocked. change (r_oti o3) with (Some oti). cbv iota beta.
      destruct (N.eqb_spec (nb_block o3) 0) as [G|_]; [lia|]. reflexivity. }
    rewrite I3.
    assert (Pre3 : C02Full.Pre oti content w toi md5 max al as_ nal n o3 c3).
    { split.
      - constructor; unfold o3; prj; try reflexivity; try assumption. discriminate.
      - constructor; unfold o3; prj.
        + eexists. split; [reflexivity|]. constructor; cbn [bw_new bw_sbn bw_left bw_cenc bw_acc bw_md5]; try reflexivity.
          * rewrite (boff_0 _ _ _ _ _ _ _ Hb He HL Hpart). lia.
          * rewrite (boff_0 _ _ _ _ _ _ _ Hb He HL Hpart). reflexivity.
        + exact Hn.
        + lia.
        + intros i. replace (0 + N.of_nat i) with (N.of_nat i) by lia. apply P16.
        + exact P17.
        + exists []. split; [unfold c3, hdr; cbn [logc inc_calls c_log]; rewrite Hlg; reflexivity|]. split; [reflexivity|].
          rewrite (boff_0 _ _ _ _ _ _ _ Hb He HL Hpart). reflexivity. }
    pose proof (wb_loop E oti content w toi md5 max al as_ nal n He Hb HL Hu64 Hpart (S (length (r_blocks o3))) o3 c3 Pre3
                  ltac:(lia)) as W.
    change (r_off o3) with 0 in W.
    pose proof (nc_write_blocks E (S (length (r_blocks o3))) 0 o3 c3) as NC.
    pose proof (ckc_write_blocks E (S (length (r_blocks o3))) 0 o3 c3) as CK.
    destruct (write_blocks E (S (length (r_blocks o3))) 0 o3 c3) as [[o5|o5] c5]; cbn [WOut fst res_obj] in *.
    2:{ exfalso. destruct W as [_ W]. apply W. split; assumption. }
    change (r_nocache o3) with (ff_nocache f) in NC.
    destruct W as [[S5 M5]|[[H1 H2]|(_ & _ & H3)]].
    - rewrite (struct_push_from_cache o5 c5 S5). exists o5, c5. split; [reflexivity|]. split; [exact NC|]. left.
      split; [exact S5|]. intros s i H. apply M5. exact (Lv s i H).
    - assert (Hca : r_cache o5 = []).
      { destruct CK as [_ [[K1 _]|[K1 _]]]; [rewrite K1; reflexivity|exact K1]. }
      unfold push_from_cache. destruct (cache_replay_blocked o5).
      + exists o5, c5. split; [reflexivity|]. split; [exact NC|]. right. split; assumption.
      + rewrite Hca. cbn [List.rev drain_cache]. eexists _, c5. split; [reflexivity|]. prj. split; [exact NC|].
        right. split; assumption.
    - exfalso. apply H3. split; assumption.
  Qed.

  Lemma check_state_struct r c o : rv_objects r = [(toi, o)] -> StructT o c -> check_state cfg toi r c = (r, c).
  Proof.
    intros Ho (St & _). unfold check_state, get_obj. rewrite Ho. cbn [find fst]. rewrite N.eqb_refl. cbn [snd].
    rewrite (st_state _ _ _ _ _ _ _ _ _ St). reflexivity.
  Qed.

  Lemma check_state_done r c o : rv_objects r = [(toi, o)] -> rv_completed r = [] ->
    r_state o = Completed -> C09Full.Pre o c -> ShapeDone content w toi c ->
    check_state cfg toi r c
    = (mk_recv [] (if r_nocache o then [] else [toi]) (rv_error r) (rv_fdt_receivers r) (rv_fdt_current r) (rv_closed r), c)
    /\ Alloc w c.
  Proof.
    intros Ho Hc Hs HP Sh. destruct (or_drop_done' o c HP Sh) as [Hd Ha]. split; [|exact Ha].
    unfold check_state, get_obj. rewrite Ho. cbn [find fst]. rewrite N.eqb_refl. cbn [snd]. rewrite Hs, Hc.
    cbn [existsb app]. unfold remove_obj, get_obj. cbn [rv_objects]. cbn [find fst]. rewrite N.eqb_refl.
    cbn [snd set_objects rv_objects rv_completed rv_error rv_fdt_receivers rv_fdt_current rv_closed del_obj filter fst].
    rewrite N.eqb_refl. cbn [negb]. rewrite Hd. destruct (r_nocache o); reflexivity.
  Qed.

  Definition PreCore (seen : list (N * N)) (r : recv) : Prop :=
    exists o, rv_objects r = [(toi, o)] /\ rv_completed r = [] /\ rv_error r = []
              /\ rv_fdt_current r = [] /\ rv_fdt_receivers r = [] /\ PreS o /\ LiveAll seen o.

  Lemma pre_core_closed seen r b :
    PreCore seen r ->
    PreCore seen (mk_recv (rv_objects r) (rv_completed r) (rv_error r) (rv_fdt_receivers r) (rv_fdt_current r) b).
  Proof. intros (o & H). exists o. exact H. Qed.

  (* what S2 asks of a packet that arrives before the FDT instance: EXT_FTI with the object's OTI and
     length, no EXT_CENC; it may carry the close-object flag (ignored while there is no writer, D44) *)
  Definition PktPre (p : apkt) : Prop :=
    a_toi p = toi /\ a_oti p = Some (oti, Lc) /\ a_cenc p = None /\ gen p.

  Lemma push_obj_pre seen r c p : PreCore seen r -> PktPre p ->
    exists r', push_obj E cfg p now r c = (POk, r', c) /\ PreCore (pid_of p :: seen) r'.
  Proof.
    intros (o & Hobjs & Hcomp & Herr & Hcur & Hrcv & PS & Lv) (Ht & _ & Hcp & Gp).
    destruct (pre_or_push o c p _ _ PS Ht Hcp Gp) as (o1 & Eq & P1 & M1 & L1).
    unfold push_obj. cbv zeta. rewrite Ht, Hcomp. cbn [existsb]. cbv iota beta. rewrite Herr. cbn [existsb]. cbv iota beta.
    unfold get_obj. rewrite Hobjs. cbn [find fst]. rewrite N.eqb_refl. cbn [snd]. rewrite Eq. rewrite Hobjs.
    unfold put_obj. cbn [existsb fst map]. rewrite N.eqb_refl. cbn [orb].
    unfold check_state, get_obj. cbn [set_objects rv_objects find fst]. rewrite N.eqb_refl. cbn [snd].
    rewrite (ps_state _ P1). eexists. split; [reflexivity|]. exists o1.
    cbn [rv_objects rv_completed rv_error rv_fdt_current rv_fdt_receivers].
    split; [reflexivity|]. split; [exact Hcomp|]. split; [exact Herr|]. split; [exact Hcur|]. split; [exact Hrcv|].
    split; [exact P1|]. intros s i [H|H]; [rewrite H in L1; exact L1|apply M1, Lv, H].
  Qed.

  Lemma push_obj_pre_first r c p :
    rv_objects r = [] -> rv_completed r = [] -> rv_error r = [] -> rv_fdt_current r = [] -> rv_fdt_receivers r = [] ->
    PktPre p -> exists r', push_obj E cfg p now r c = (POk, r', c) /\ PreCore [pid_of p] r'.
  Proof.
    intros Hobjs Hcomp Herr Hcur Hrcv (Ht & Ho & Hcp & Gp).
    destruct (pre_first c p _ _ Ht Ho Hcp Gp) as (o1 & Eq & P1 & L1).
    unfold push_obj. cbv zeta. rewrite Ht, Hcomp. cbn [existsb]. cbv iota beta. rewrite Herr. cbn [existsb]. cbv iota beta.
    unfold get_obj. rewrite Hobjs. cbn [find]. rewrite Hcur. cbn [create_attach]. rewrite Eq.
    cbn [rv_objects app]. unfold put_obj. cbn [existsb fst map]. rewrite N.eqb_refl. cbn [orb].
    unfold check_state, get_obj. cbn [set_objects rv_objects find fst]. rewrite N.eqb_refl. cbn [snd].
    rewrite (ps_state _ P1). eexists. split; [reflexivity|]. exists o1.
    cbn [rv_objects rv_completed rv_error rv_fdt_current rv_fdt_receivers].
    split; [reflexivity|]. split; [exact Hcomp|]. split; [exact Herr|]. split; [reflexivity|]. split; [exact Hrcv|].
    split; [exact P1|]. intros s i [H|[]]. rewrite H in L1. exact L1.
  Qed.

  Lemma run_pre pkts : forall r c seen, PreCore seen r -> Forall PktPre pkts ->
    exists xs r', recv_run E parse_fdt cfg r (map push pkts) c = (xs, r', c)
                  /\ PreCore (List.rev (map pid_of pkts) ++ seen) r'.
  Proof.
    induction pkts as [|p pkts IH]; intros r c seen HP F0.
    - exists [], r. split; [reflexivity|exact HP].
    - pose proof (Forall_inv F0) as Fp. pose proof (Forall_inv_tail F0) as Fr. cbn [map recv_run].
      rewrite (step_is_push_obj r c p (proj1 Fp)).
      assert (HP0 : PreCore seen (closed_of p r)) by (destruct (a_close_sess p); [apply pre_core_closed|]; exact HP).
      destruct (push_obj_pre seen _ c p HP0 Fp) as (r1 & Eq & HP1). rewrite Eq.
      destruct (IH r1 c (pid_of p :: seen) HP1 Fr) as (xs & r2 & Eq2 & HP2). rewrite Eq2.
      exists (POk :: xs), r2. split; [reflexivity|]. cbn [map List.rev]. rewrite <- app_assoc. exact HP2.
  Qed.

  (* the FDT instance arrives while the object is decoding without it *)
  Lemma push_fdt_pre seen r c : PreCore seen r -> Blank c -> RI r c ->
    let '(x, r', c') := push_fdt_obj E parse_fdt cfg pf now r c in
    (RecvCore seen r' c' \/ DoneCore r' c') /\ RI r' c'.
  Proof.
    intros (o & Hobjs & Hcomp & Herr & Hcur & Hrcv & PS & Lv) Bl R.
    pose proof (push_fdt_obj_inv E parse_fdt cfg pf now r c R) as R'.
    destruct (push_fdt_first E parse_fdt cfg pf id foti d inst now Hpf Hparse Hlive r c Hcur Hrcv) as (c0 & Hc0 & Eq).
    assert (Bl0 : Blank c0) by (apply (blank_or c); assumption).
    assert (R0 : RI r c0).
    { destruct Hc0 as [->| ->]; [exact R|]. eapply RInv_ceq; [| |exact R]; reflexivity. }
    destruct (attach_pre id o c0 seen PS Lv Bl0) as (o' & c' & Hat & Hnc & Hcase).
    assert (HP' : C09Full.Pre o' c').
    { assert (HP : C09Full.Pre o c0) by (eapply RInv_pre; [exact R0|rewrite Hobjs; left; reflexivity]).
      pose proof (or_attach_ext E id (fi_files inst) (fi_oti inst) o c0 HP) as X. rewrite Hat in X. exact (e_pre _ _ _ _ X). }
    assert (Hex : existsb (fun x => ff_toi x =? toi) (fi_files inst) = true) by (apply (find_existsb _ f); exact Hfind).
    set (F2 := fdt_done cfg id d inst pf now) in *.
    set (r2 := mk_recv [(toi, o')] (rv_completed r) (rv_error r) [] [F2] (rv_closed r)).
    assert (Eq2 : push_fdt_obj E parse_fdt cfg pf now r c =
                  (let (r3, c3) := check_state cfg toi r2 c' in
                   let comp := match fi_files inst with
                               | [] => rv_completed r3
                               | _ => filter (fun t => existsb (fun f => ff_toi f =? t) (fi_files inst)) (rv_completed r3)
                               end in
                   (POk, mk_recv (rv_objects r3) comp (rv_error r3) (rv_fdt_receivers r3) (firstn 10 (rv_fdt_current r3)) (rv_closed r3), c3))).
    { rewrite Eq. cbv zeta. cbn [rv_objects]. rewrite Hobjs. cbn [map fst attach_all].
      unfold get_obj. cbn [rv_objects find fst]. rewrite N.eqb_refl. cbn [snd]. rewrite Hat.
      cbn [attach_all app check_all]. unfold put_obj. cbn [set_objects rv_objects rv_completed rv_error rv_fdt_receivers rv_fdt_current rv_closed existsb fst map].
      rewrite N.eqb_refl. cbn [orb].
      unfold set_objects. cbn [rv_objects rv_completed rv_error rv_fdt_receivers rv_fdt_current rv_closed]. fold r2.
      destruct (check_state cfg toi r2 c') as [r3 c3]. reflexivity. }
    rewrite Eq2 in *. clear Eq2 Eq.
    destruct Hcase as [[S' Lv']|[H1 H2]].
    - rewrite (check_state_struct r2 c' o' eq_refl S') in *. cbv zeta in *.
      cbn [r2 rv_objects rv_completed rv_error rv_fdt_receivers rv_fdt_current rv_closed firstn] in *.
      split; [|exact R']. left. exists o'. cbn [rv_objects rv_completed rv_error].
      split; [reflexivity|]. split; [rewrite Hcomp; destruct (fi_files inst); reflexivity|]. split; [exact Herr|].
      split; [exact S'|]. split; [exact Lv'|exact Hnc].
    - destruct (check_state_done r2 c' o' eq_refl Hcomp H1 HP' H2) as [Eqc Ha]. rewrite Eqc in *. cbv zeta in *.
      cbn [r2 rv_objects rv_completed rv_error rv_fdt_receivers rv_fdt_current rv_closed firstn] in *.
      split; [|exact R']. right. unfold DoneCore. cbn [rv_objects rv_completed rv_error].
      split; [reflexivity|]. split; [|split; [exact Herr|split; [exact H2|exact Ha]]].
      rewrite Hnc. destruct (fi_files inst) as [|f0 fl] eqn:Ef; [discriminate Hfind|].
      destruct (ff_nocache f); [reflexivity|]. cbn [filter]. rewrite Hex. reflexivity.
  Qed.

  Lemma recv_run_app a : forall b r c,
    recv_run E parse_fdt cfg r (a ++ b) c =
    (let '(xs, r1, c1) := recv_run E parse_fdt cfg r a c in
     let '(ys, r2, c2) := recv_run E parse_fdt cfg r1 b c1 in (xs ++ ys, r2, c2)).
  Proof.
    induction a as [|e a IH]; intros b r c; cbn [app recv_run].
    - destruct (recv_run E parse_fdt cfg r b c) as [[ys r2] c2]. reflexivity.
    - destruct (recv_step E parse_fdt cfg r e c) as [[x r1] c1]. rewrite IH.
      destruct (recv_run E parse_fdt cfg r1 a c1) as [[xs r2] c2].
      destruct (recv_run E parse_fdt cfg r2 b c2) as [[ys r3] c3]. reflexivity.
  Qed.

  Lemma in_map_rev (l : list apkt) x : In x (List.rev (map pid_of l)) <-> In x (map pid_of l).
  Proof. symmetry. apply in_rev. Qed.

  Lemma cov_incl l l' : cov l -> incl l l' -> cov l'.
  Proof. intros C I s i Hs Hi. apply I. apply C; assumption. Qed.

  (* S2: packets with in-band FTI, then the FDT instance, then more packets *)
  Theorem fdt_late_delivers pkts1 pkts2 :
    Forall PktPre pkts1 -> Forall gen pkts2 -> Forall (fun p => a_toi p = toi) pkts2 ->
    (forall pre p post, pkts2 = pre ++ p :: post -> a_close_obj p = true -> cov (map pid_of (pkts1 ++ pre ++ [p]))) ->
    cov (map pid_of (pkts1 ++ pkts2)) ->
    let '(_, r, c) := recv_run E parse_fdt cfg recv0 (map push (pkts1 ++ pf :: pkts2)) ctx0 in SessDone r c.
  Proof.
    intros F1 G2 T2 Cl Cv.
    destruct pkts1 as [|p1 pkts1].
    { cbn [app] in *. apply fdt_first_delivers; try assumption.
      intros pre p post Eq Hp. rewrite app_nil_r. exact (Cl pre p post Eq Hp). }
    set (P1 := p1 :: pkts1) in *.
    assert (Hrun1 : exists xs r2, recv_run E parse_fdt cfg recv0 (map push P1) ctx0 = (xs, r2, ctx0)
                                  /\ PreCore (List.rev (map pid_of P1)) r2).
    { unfold P1. pose proof (Forall_inv F1) as Fp. pose proof (Forall_inv_tail F1) as Fr. cbn [map recv_run].
      rewrite (step_is_push_obj recv0 ctx0 p1 (proj1 Fp)).
      destruct (push_obj_pre_first (closed_of p1 recv0) ctx0 p1) as (r1 & Eq & HP1); try (destruct (a_close_sess p1); reflexivity); [exact Fp|].
      rewrite Eq. destruct (run_pre pkts1 r1 ctx0 [pid_of p1] HP1 Fr) as (xs & r2 & Eq2 & HP2). rewrite Eq2.
      exists (POk :: xs), r2. split; [reflexivity|]. cbn [map List.rev]. exact HP2. }
    destruct Hrun1 as (xs & r2 & Eq1 & HP2).
    pose proof (recv_run_inv E parse_fdt cfg (map push P1) recv0 ctx0 RInv0) as R2. rewrite Eq1 in R2.
    unfold RIr in R2. cbn [fst snd] in R2.
    rewrite map_app, recv_run_app, Eq1. cbn [map recv_run]. cbn [recv_step].
    pose proof Hpf as (Hz & _). rewrite Hz, N.eqb_refl.
    assert (HP0 : PreCore (List.rev (map pid_of P1)) (closed_of pf r2)) by (destruct (a_close_sess pf); [apply pre_core_closed|]; exact HP2).
    assert (R0 : RI (closed_of pf r2) ctx0) by (destruct (a_close_sess pf); exact R2).
    pose proof (push_fdt_pre _ _ ctx0 HP0 (conj eq_refl eq_refl) R0) as H.
    destruct (push_fdt_obj E parse_fdt cfg pf now (closed_of pf r2) ctx0) as [[x r3] c3]. destruct H as [H R3].
    assert (D : let '(_, r', c') := recv_run E parse_fdt cfg r3 (map push pkts2) c3 in SessDone r' c').
    { destruct H as [H|H].
      - apply (run_recv pkts2 r3 c3 (List.rev (map pid_of P1)) H R3 G2 T2).
        + intros pre p post Eq Hp. eapply cov_incl; [exact (Cl pre p post Eq Hp)|].
          intros y Hy. rewrite map_app in Hy. apply in_app_or in Hy. apply in_or_app.
          destruct Hy as [Hy|Hy]; [right; apply in_map_rev; exact Hy|left; exact Hy].
        + eapply cov_incl; [exact Cv|].
          intros y Hy. rewrite map_app in Hy. apply in_app_or in Hy. apply in_or_app.
          destruct Hy as [Hy|Hy]; [right|left]; apply in_map_rev; exact Hy.
      - exact (run_done pkts2 r3 c3 (done_core_sess _ _ H R3) T2). }
    destruct (recv_run E parse_fdt cfg r3 (map push pkts2) c3) as [[ys r4] c4]. exact D.
  Qed.
End Session.

(* ================= E. the statements, with the executable premises of C02Full ================= *)
Lemma delivered_exact content cs m : delivered_calls content cs -> complete_exact content (m, cs) = true.
Proof.
  intros (ws & -> & Fw & Hw). unfold complete_exact. cbn [snd].
  change (CallOpen true :: ws ++ [CallComplete]) with ([CallOpen true] ++ ws ++ [CallComplete]).
  rewrite !completed_app, !failed_app, !written_app.
  assert (Hf : failed ws = false /\ completed ws = false).
  { clear Hw. induction Fw as [|cl l Hcl Fl IH]; [split; reflexivity|].
    destruct cl; try contradiction. destruct IH as [I1 I2]. split; cbn [failed completed existsb]; assumption. }
  destruct Hf as [-> ->]. cbn [completed failed written existsb flat_map app orb negb andb].
  rewrite app_nil_r, Hw. apply eqb_bytes_refl.
Qed.

Definition entry_nocache (inst : fdtinst) (toi : N) : bool :=
  match find (fun f => ff_toi f =? toi) (fi_files inst) with Some f => ff_nocache f | None => false end.

(* what the session has done for the object when the run ends *)
Definition session_delivered (cfg : rconfig) (inst : fdtinst) (content : list N) (toi : N) (r : recv) (c : ctx) : Prop :=
  delivered_calls content (calls_of (toi, 0%nat) (c_log c))
  /\ (forall m, complete_exact content (m, calls_of (toi, 0%nat) (c_log c)) = true)
  /\ (cf_once cfg = true -> entry_nocache inst toi = false ->
      rv_objects r = [] /\ rv_completed r = [toi] /\ rv_error r = [] /\ ShapeDone content (toi, 0%nat) toi c).

Lemma sess_done_delivered cfg inst content toi f r c :
  find (fun f => ff_toi f =? toi) (fi_files inst) = Some f ->
  SessDone cfg content toi f r c -> session_delivered cfg inst content toi r c.
Proof.
  intros Hf (_ & _ & Dc & B). split; [exact Dc|]. split; [intros m; apply delivered_exact; exact Dc|].
  intros Ho Hn. unfold entry_nocache in Hn. rewrite Hf in Hn. destruct (B Ho Hn) as (D1 & D2 & D3 & D4 & _).
  rewrite Hn in D2. repeat split; assumption.
Qed.

Lemma covered_incl' al as_ nal n l l' : covered al as_ nal n l -> incl l l' -> covered al as_ nal n l'.
Proof. intros C I s i Hs Hi. apply I. apply C; assumption. Qed.

(* S1: the FDT instance (one packet of TOI 0) first, then the packets of the object in any order with any
   duplication *)
Theorem session_fdt_first_delivers E parse_fdt cfg oti content toi md5 now pf id foti d inst pkts :
  let L := lenN_ content in
  nocode_ok oti L -> toi <> 0 ->
  fdt_pkt_ok pf id foti d -> parse_fdt d = Some inst -> fdt_live cfg inst pf now ->
  fdt_entry_for (fi_files inst) (fi_oti inst) toi oti L md5 ->
  writer_accepts E toi -> writes_succeed E toi -> md5_good E content md5 ->
  L <= cf_max_cache cfg -> nb_blocks_of oti L <= 4097 ->
  Forall (fun p => a_toi p = toi) pkts ->
  Forall (fun p => genuine_pkt oti content p = true) pkts ->
  close_flag_ok oti L pkts ->
  recoverable oti L pkts = true ->
  let '(_, r, c) := recv_run E parse_fdt cfg recv0 (map (fun p => RvPush p now) (pf :: pkts)) ctx0 in
  session_delivered cfg inst content toi r c.
Proof.
  intros L (Hfec & He & Hb & HL & Hu) Htoi Hpf Hparse Hlive (f & F1 & F2 & F3 & F4 & F5) Hacc Hwr Hmd5 Hmax Hn T G Cl Rec.
  destruct (partition_of oti L) as [[[al as_] nal] n] eqn:Hpart. unfold partition_of in Hpart.
  assert (Hnb : nb_blocks_of oti L = n) by (unfold nb_blocks_of; rewrite Hpart; reflexivity).
  assert (Cov : forall l, recoverable oti L l = true -> covered al as_ nal n (map pid_of l)).
  { intros l H. apply recoverable_covered. unfold recoverable, source_ks, partition_of in H. rewrite Hpart in H. exact H. }
  assert (Nc : Nice2 E content (toi, 0%nat) md5 (cf_max_cache cfg) n).
  { split; [split; [exact Hwr|exact Hmd5]|]. split; [exact Hmax|]. rewrite <- Hnb. exact Hn. }
  pose proof (fdt_first_delivers E parse_fdt cfg oti content toi md5 al as_ nal n now Hfec He Hb HL Hu Hpart Htoi Nc Hacc
                id inst f F1 F2 F3 F4 F5 pf foti d Hpf Hparse Hlive pkts
                (genuine_pkt_spec _ _ _ _ _ _ _ Hpart G) T) as D.
  assert (D' : let '(_, r, c) := recv_run E parse_fdt cfg recv0 (map (fun p => RvPush p now) (pf :: pkts)) ctx0 in
               SessDone cfg content toi f r c).
  { apply D.
    - intros pre p post Eq Hp. rewrite app_nil_r. apply Cov. apply (Cl pre p post Eq Hp).
    - apply Cov. exact Rec. }
  destruct (recv_run E parse_fdt cfg recv0 (map (fun p => RvPush p now) (pf :: pkts)) ctx0) as [[xs r] c].
  eapply sess_done_delivered; eassumption.
Qed.
Print Assumptions session_fdt_first_delivers.

(* S2: packets of the object carrying EXT_FTI arrive BEFORE the FDT instance (no EXT_CENC): they are decoded without
   writer; the instance opens the writer and flushes the completed blocks; the rest of the packets follow.  S1 is the
   case pkts1 = [].  The packets of pkts1 may carry the close-object flag anywhere (D44: ignored while the object has
   no writer); a flag in pkts2 comes only once the packets up to it, pkts1 included, are recoverable. *)
Theorem session_fdt_late_delivers_any_flag_before_fdt E parse_fdt cfg oti content toi md5 now pf id foti d inst pkts1 pkts2 :
  let L := lenN_ content in
  nocode_ok oti L -> toi <> 0 ->
  fdt_pkt_ok pf id foti d -> parse_fdt d = Some inst -> fdt_live cfg inst pf now ->
  fdt_entry_for (fi_files inst) (fi_oti inst) toi oti L md5 ->
  writer_accepts E toi -> writes_succeed E toi -> md5_good E content md5 ->
  L <= cf_max_cache cfg -> nb_blocks_of oti L <= 4097 ->
  Forall (fun p => a_toi p = toi) (pkts1 ++ pkts2) ->
  Forall (fun p => genuine_pkt oti content p = true) (pkts1 ++ pkts2) ->
  Forall (fun p => a_oti p = Some (oti, L) /\ a_cenc p = None) pkts1 ->
  close_flag_ok_after (recoverable oti L) pkts1 pkts2 ->
  recoverable oti L (pkts1 ++ pkts2) = true ->
  let '(_, r, c) := recv_run E parse_fdt cfg recv0 (map (fun p => RvPush p now) (pkts1 ++ pf :: pkts2)) ctx0 in
  session_delivered cfg inst content toi r c.
Proof.
  intros L (Hfec & He & Hb & HL & Hu) Htoi Hpf Hparse Hlive (f & F1 & F2 & F3 & F4 & F5) Hacc Hwr Hmd5 Hmax Hn T G Pre1 Cl Rec.
  destruct (partition_of oti L) as [[[al as_] nal] n] eqn:Hpart. unfold partition_of in Hpart.
  assert (Hnb : nb_blocks_of oti L = n) by (unfold nb_blocks_of; rewrite Hpart; reflexivity).
  assert (Cov : forall l, recoverable oti L l = true -> covered al as_ nal n (map pid_of l)).
  { intros l H. apply recoverable_covered. unfold recoverable, source_ks, partition_of in H. rewrite Hpart in H. exact H. }
  assert (Nc : Nice2 E content (toi, 0%nat) md5 (cf_max_cache cfg) n).
  { split; [split; [exact Hwr|exact Hmd5]|]. split; [exact Hmax|]. rewrite <- Hnb. exact Hn. }
  apply Forall_app in T. destruct T as [T1 T2]. apply Forall_app in G. destruct G as [G1 G2].
  pose proof (genuine_pkt_spec _ _ _ _ _ _ _ Hpart G1) as G1'. pose proof (genuine_pkt_spec _ _ _ _ _ _ _ Hpart G2) as G2'.
  assert (P1 : Forall (PktPre oti content toi al as_ nal n) pkts1).
  { rewrite Forall_forall in *. intros p Hp. destruct (Pre1 p Hp) as (A1 & A2).
    split; [exact (T1 p Hp)|]. split; [exact A1|]. split; [exact A2|exact (G1' p Hp)]. }
  pose proof (fdt_late_delivers E parse_fdt cfg oti content toi md5 al as_ nal n now Hfec He Hb HL Hu Hpart Htoi Nc Hacc
                id inst f F1 F2 F3 F4 F5 pf foti d Hpf Hparse Hlive pkts1 pkts2 P1 G2' T2) as D.
  assert (D' : let '(_, r, c) := recv_run E parse_fdt cfg recv0 (map (fun p => RvPush p now) (pkts1 ++ pf :: pkts2)) ctx0 in
               SessDone cfg content toi f r c).
  { apply D.
    - intros pre p post Eq Hp. apply Cov. exact (Cl pre p post Eq Hp).
    - apply Cov. exact Rec. }
  destruct (recv_run E parse_fdt cfg recv0 (map (fun p => RvPush p now) (pkts1 ++ pf :: pkts2)) ctx0) as [[xs r] c].
  eapply sess_done_delivered; eassumption.
Qed.
Print Assumptions session_fdt_late_delivers_any_flag_before_fdt.

(* the statement as it was before D44 was repaired (pkts1 flag-free, close_flag_ok of the whole list): a corollary *)
Theorem session_fdt_late_delivers E parse_fdt cfg oti content toi md5 now pf id foti d inst pkts1 pkts2 :
  let L := lenN_ content in
  nocode_ok oti L -> toi <> 0 ->
  fdt_pkt_ok pf id foti d -> parse_fdt d = Some inst -> fdt_live cfg inst pf now ->
  fdt_entry_for (fi_files inst) (fi_oti inst) toi oti L md5 ->
  writer_accepts E toi -> writes_succeed E toi -> md5_good E content md5 ->
  L <= cf_max_cache cfg -> nb_blocks_of oti L <= 4097 ->
  Forall (fun p => a_toi p = toi) (pkts1 ++ pkts2) ->
  Forall (fun p => genuine_pkt oti content p = true) (pkts1 ++ pkts2) ->
  Forall (fun p => a_oti p = Some (oti, L) /\ a_cenc p = None /\ a_close_obj p = false) pkts1 ->
  close_flag_ok oti L (pkts1 ++ pkts2) ->
  recoverable oti L (pkts1 ++ pkts2) = true ->
  let '(_, r, c) := recv_run E parse_fdt cfg recv0 (map (fun p => RvPush p now) (pkts1 ++ pf :: pkts2)) ctx0 in
  session_delivered cfg inst content toi r c.
Proof.
  intros L H1 H2 H3 H4 H5 H6 H7 H8 H9 H10 H11 T G Pre1 Cl Rec.
  apply (session_fdt_late_delivers_any_flag_before_fdt E parse_fdt cfg oti content toi md5 now pf id foti d inst pkts1 pkts2);
    try assumption.
  - eapply Forall_impl; [|exact Pre1]. intros p (A1 & A2 & _). split; assumption.
  - apply close_flag_ok_after_of_whole. exact Cl.
Qed.
Print Assumptions session_fdt_late_delivers.

(* ================= F. a toy session: non-vacuity, and what the premises exclude ================= *)
(* the FDT "document" is the two bytes "<>"; the toy parser maps it to an instance listing TOI 7 = ex_content of
   C02Full (5 bytes, E = 2, B = 2) *)
Definition tx_inst (nocache : bool) (ex : option Z) : fdtinst :=
  mk_fi [mk_ff 7 CNull (Some ex_oti) 5 None None nocache] None ex.
Definition tx_doc : list N := [60; 62].
Definition tx_parse (nocache : bool) (ex : option Z) (d : list N) : option fdtinst :=
  if eqb_bytes d tx_doc then Some (tx_inst nocache ex) else None.
Definition tx_foti : roti := mk_roti FNoCode 2 1 0 None.
Definition tx_fdt (sct : option Z) : apkt :=
  mk_apkt 0 false false (Some 1) (Some (tx_foti, 2)) None sct 0 (mk_pid 0 0) tx_doc 2.
Definition tx_cfg (once chk : bool) : rconfig := mk_rcfg 5 1000 once chk.
(* the same packet with EXT_FTI *)
Definition with_fti (p : apkt) : apkt :=
  mk_apkt (a_toi p) (a_close_obj p) (a_close_sess p) (a_fdt_id p) (Some (ex_oti, 5)) (a_cenc p) (a_sct p) (a_cp p)
          (a_pidbytes p) (a_payload p) (a_datalen p).
Definition sess (parse : list N -> option fdtinst) (cfg : rconfig) (evs : list apkt) :=
  let '(xs, r, c) := recv_run env_ok parse cfg recv0 (map (fun p => RvPush p 100%Z) evs) ctx0 in
  (xs, map fst (rv_objects r), rv_completed r, rv_error r, c_log c).
Definition delivered_log : list wev :=
  [EvBuilder 7 WStore; EvOpen (7, 0%nat) true; EvWrite (7, 0%nat) [1; 2; 3; 4] true; EvWrite (7, 0%nat) [5] true;
   EvComplete (7, 0%nat)].

Lemma tx_fdt_ok sct : fdt_pkt_ok (tx_fdt sct) 1 tx_foti tx_doc.
Proof.
  unfold fdt_pkt_ok. split; [reflexivity|]. split; [reflexivity|]. split; [reflexivity|]. split; [left; reflexivity|].
  split; [repeat split; vm_compute; reflexivity|]. split; [vm_compute; discriminate|]. split; vm_compute; reflexivity.
Qed.

(* S1 computed: FDT first, the packets shuffled and duplicated, receive-once *)
Example ex_session_computed :
  sess (tx_parse false None) (tx_cfg true false) (tx_fdt None :: ex_pkts)
  = ([POk; POk; POk; POk; POk; POk], [], [7], [], delivered_log).
Proof. vm_compute. reflexivity. Qed.

(* S1 by the theorem: its premises are satisfiable *)
Example ex_session_by_theorem :
  let '(_, r, c) := recv_run env_ok (tx_parse false None) (tx_cfg true false) recv0
                             (map (fun p => RvPush p 100%Z) (tx_fdt None :: ex_pkts)) ctx0 in
  session_delivered (tx_cfg true false) (tx_inst false None) ex_content 7 r c.
Proof.
  apply (session_fdt_first_delivers env_ok (tx_parse false None) (tx_cfg true false) ex_oti ex_content 7 None 100%Z
           (tx_fdt None) 1 tx_foti tx_doc (tx_inst false None) ex_pkts).
  - repeat split; vm_compute; reflexivity.
  - discriminate.
  - apply tx_fdt_ok.
  - reflexivity.
  - left. reflexivity.
  - exists (mk_ff 7 CNull (Some ex_oti) 5 None None false). repeat split.
  - split; reflexivity.
  - intros i. reflexivity.
  - exact I.
  - vm_compute. discriminate.
  - vm_compute. discriminate.
  - repeat constructor.
  - repeat constructor.
  - apply close_flag_ok_noflag. repeat constructor.
  - vm_compute. reflexivity.
Qed.

(* S2 computed and by the theorem: three packets with EXT_FTI, then the FDT instance, then the other two *)
Example ex_session_late_computed :
  sess (tx_parse false None) (tx_cfg true false) (map with_fti (firstn 3 ex_pkts) ++ tx_fdt None :: skipn 3 ex_pkts)
  = ([POk; POk; POk; POk; POk; POk], [], [7], [], delivered_log)
  /\ sess (tx_parse false None) (tx_cfg true false) (map with_fti ex_pkts ++ [tx_fdt None])
     = ([POk; POk; POk; POk; POk; POk], [], [7], [], delivered_log).
Proof. vm_compute. split; reflexivity. Qed.

Example ex_session_late_by_theorem :
  let '(_, r, c) := recv_run env_ok (tx_parse false None) (tx_cfg true false) recv0
                             (map (fun p => RvPush p 100%Z) (map with_fti (firstn 3 ex_pkts) ++ tx_fdt None :: skipn 3 ex_pkts)) ctx0 in
  session_delivered (tx_cfg true false) (tx_inst false None) ex_content 7 r c.
Proof.
  apply (session_fdt_late_delivers env_ok (tx_parse false None) (tx_cfg true false) ex_oti ex_content 7 None 100%Z
           (tx_fdt None) 1 tx_foti tx_doc (tx_inst false None) (map with_fti (firstn 3 ex_pkts)) (skipn 3 ex_pkts)).
  - repeat split; vm_compute; reflexivity.
  - discriminate.
  - apply tx_fdt_ok.
  - reflexivity.
  - left. reflexivity.
  - exists (mk_ff 7 CNull (Some ex_oti) 5 None None false). repeat split.
  - split; reflexivity.
  - intros i. reflexivity.
  - exact I.
  - vm_compute. discriminate.
  - vm_compute. discriminate.
  - repeat constructor.
  - repeat constructor.
  - repeat constructor.
  - apply close_flag_ok_noflag. repeat constructor.
  - vm_compute. reflexivity.
Qed.

(* REFUTATION 1 (fdt_live): with the expiry check on, an instance without Expires, or whose Expires is behind the
   receiver's clock when the FDT packet has no EXT_TIME, is never attached: the packets are cached, nothing is
   delivered.  With EXT_TIME = 40 <= Expires = 50 the same session delivers. *)
Example fdt_expired_refuted :
  sess (tx_parse false None) (tx_cfg true true) (tx_fdt None :: ex_pkts) = ([POk; POk; POk; POk; POk; POk], [7], [], [], [])
  /\ sess (tx_parse false (Some 50%Z)) (tx_cfg true true) (tx_fdt None :: ex_pkts) = ([POk; POk; POk; POk; POk; POk], [7], [], [], [])
  /\ sess (tx_parse false (Some 50%Z)) (tx_cfg true true) (tx_fdt (Some 40%Z) :: ex_pkts)
     = ([POk; POk; POk; POk; POk; POk], [], [7], [], delivered_log).
Proof. vm_compute. repeat split. Qed.

(* FORMER REFUTATION 2 (S2, no close-object flag before the FDT instance; defect D44, repaired): the in-order
   transfer with the B flag on its last packet, every packet carrying EXT_FTI, arrives entirely BEFORE the FDT
   instance.  Before the repair the object was decoded completely, then interrupted by the flag for want of a
   writer, dropped and listed in rv_error, and the FDT instance that followed found nothing to attach.  Now the
   flag is ignored while the object has no writer: the instance opens the writer, the completed blocks are flushed
   and the object is delivered, exactly as when the FDT comes first. *)
Example close_flag_before_fdt_now_delivered :
  forallb (genuine_pkt ex_oti ex_content) (map with_fti ex_pkts_inorder) = true
  /\ recoverable ex_oti 5 (map with_fti ex_pkts_inorder) = true
  /\ sess (tx_parse false None) (tx_cfg true false) (map with_fti ex_pkts_inorder ++ [tx_fdt None])
     = ([POk; POk; POk; POk], [], [7], [], delivered_log)
  /\ sess (tx_parse false None) (tx_cfg true false) (tx_fdt None :: map with_fti ex_pkts_inorder)
     = ([POk; POk; POk; POk], [], [7], [], delivered_log).
Proof. vm_compute. repeat split. Qed.

(* the same by the theorem without the flag premise: pkts1 = the whole flagged transfer, pkts2 = [] *)
Example close_flag_before_fdt_by_theorem :
  map a_close_obj (map with_fti ex_pkts_inorder) = [false; false; true]
  /\ let '(_, r, c) := recv_run env_ok (tx_parse false None) (tx_cfg true false) recv0
                               (map (fun p => RvPush p 100%Z) (map with_fti ex_pkts_inorder ++ tx_fdt None :: [])) ctx0 in
     session_delivered (tx_cfg true false) (tx_inst false None) ex_content 7 r c.
Proof.
  split; [vm_compute; reflexivity|].
  apply (session_fdt_late_delivers_any_flag_before_fdt env_ok (tx_parse false None) (tx_cfg true false) ex_oti ex_content 7 None 100%Z
           (tx_fdt None) 1 tx_foti tx_doc (tx_inst false None) (map with_fti ex_pkts_inorder) []).
  - repeat split; vm_compute; reflexivity.
  - discriminate.
  - apply tx_fdt_ok.
  - reflexivity.
  - left. reflexivity.
  - exists (mk_ff 7 CNull (Some ex_oti) 5 None None false). repeat split.
  - split; reflexivity.
  - intros i. reflexivity.
  - exact I.
  - vm_compute. discriminate.
  - vm_compute. discriminate.
  - repeat constructor.
  - repeat constructor.
  - repeat constructor.
  - apply close_flag_ok_after_noflag. constructor.
  - vm_compute. reflexivity.
Qed.

(* SURPRISE 1 (Cache-Control no-cache): a completed no-cache object is not recorded in rv_completed, so ANY late
   duplicate of the TOI (here symbol (0,1)) re-creates the object and opens a second writer (7,1), also with
   receive-once.  The first writer's calls are untouched (what the theorems state). *)
Example nocache_duplicate_reopens :
  sess (tx_parse true None) (tx_cfg true false) (tx_fdt None :: ex_pkts)
  = ([POk; POk; POk; POk; POk; POk], [7], [], [], delivered_log ++ [EvBuilder 7 WStore; EvOpen (7, 1%nat) true]).
Proof. vm_compute. reflexivity. Qed.

(* SURPRISE 2 (receive-once off): after completion a duplicate of symbol (0,0) is taken for the start of a new
   transfer: the TOI leaves rv_completed and is received again by a second writer; other duplicates are ignored *)
Example first_symbol_duplicate_restarts :
  sess (tx_parse false None) (tx_cfg false false) (tx_fdt None :: ex_pkts ++ [src_pkt 7 0 1 false [3; 4]])
  = ([POk; POk; POk; POk; POk; POk; POk], [], [7], [], delivered_log)
  /\ sess (tx_parse false None) (tx_cfg false false) (tx_fdt None :: ex_pkts ++ [src_pkt 7 0 0 false [1; 2]])
     = ([POk; POk; POk; POk; POk; POk; POk], [7], [], [], delivered_log ++ [EvBuilder 7 WStore; EvOpen (7, 1%nat) true]).
Proof. vm_compute. repeat split. Qed.

(* not covered by S2: packets WITHOUT EXT_FTI before the FDT instance are cached and replayed when it arrives
   (LIFO); the model delivers this instance too *)
Example cached_packets_before_fdt_computed :
  sess (tx_parse false None) (tx_cfg true false) (ex_pkts ++ [tx_fdt None])
  = ([POk; POk; POk; POk; POk; POk], [], [7], [], delivered_log).
Proof. vm_compute. reflexivity. Qed.
