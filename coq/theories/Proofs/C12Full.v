(* C12, history level: every run of the sender model satisfies the wire monitor P_C12_wire
   (and the counter predicate P_C12_counter after every operation), under explicit premises
   on the accepted adds.  The invariant relates the monitor's list of c12obj to the model state
   through a ghost list pairing every monitor object with the allocation index of its FileDesc. *)
From FluteV Require Import Model.SenderCtl Spec.SenderSpec Proofs.SenderProofs.
From Coq Require Import Lia Permutation.
Open Scope N_scope.

Arguments N.add : simpl never. Arguments N.mul : simpl never. Arguments N.sub : simpl never.
Arguments N.eqb : simpl never. Arguments N.ltb : simpl never. Arguments N.leb : simpl never.
Arguments Z.add : simpl never. Arguments Z.sub : simpl never. Arguments Z.mul : simpl never.
Arguments Z.ltb : simpl never. Arguments Z.leb : simpl never. Arguments Z.max : simpl never.
Arguments Nat.max : simpl never. Arguments Nat.min : simpl never. Arguments Nat.leb : simpl never.
Arguments Nat.mul : simpl never. Arguments Nat.sub : simpl never.

(* ================= lists ================= *)
Lemma nth_upd_nth_eq {A} (F : A -> A) d : forall l i, (i < length l)%nat ->
  nth i (upd_nth i F l) d = F (nth i l d).
Proof. induction l as [|x l IH]; intros [|i] H; cbn in *; try lia; auto. apply IH; lia. Qed.

Lemma nth_upd_nth_neq {A} (F : A -> A) d : forall l i j, i <> j ->
  nth j (upd_nth i F l) d = nth j l d.
Proof. induction l as [|x l IH]; intros [|i] [|j] H; cbn; auto; try congruence. Qed.

Lemma nth_upd_nth_inv {A B} (F : A -> A) (h : A -> B) d : (forall a, h (F a) = h a) ->
  forall l i j, h (nth j (upd_nth i F l) d) = h (nth j l d).
Proof.
  intros HF. induction l as [|x l IH]; intros [|i] [|j]; cbn; auto.
Qed.

Lemma NoDup_map_inj {A B} (h : A -> B) l a b :
  NoDup (map h l) -> In a l -> In b l -> h a = h b -> a = b.
Proof.
  induction l as [|x l IH]; cbn; intros ND Ha Hb E; [contradiction|].
  inversion ND as [|? ? Hn ND']; subst.
  destruct Ha as [<-|Ha], Hb as [<-|Hb]; auto.
  - exfalso. apply Hn. rewrite E. apply in_map. assumption.
  - exfalso. apply Hn. rewrite <- E. apply in_map. assumption.
Qed.

Lemma nth_error_split_upd {A} (l : list A) i x y : nth_error l i = Some x ->
  exists a b, l = a ++ x :: b /\ upd_nth i (fun _ => y) l = a ++ y :: b.
Proof.
  revert i; induction l as [|z l IH]; intros [|i] H; cbn in H; try discriminate.
  - inversion H; subst. exists [], l. split; reflexivity.
  - destruct (IH _ H) as (a & b & -> & E). exists (z :: a), b. cbn. rewrite E. split; reflexivity.
Qed.

(* ================= observables of the state ================= *)
Definition oo (s : st) (u : nat) : odesc := f_o (obj s u).
Definition cnt (s : st) (u : nat) : N := t_count (f_t (obj s u)).
Definition tot (s : st) (u : nat) : N := t_total (f_t (obj s u)).

Lemma toi_of_oo s u : toi_of s u = o_toi (oo s u).
Proof. reflexivity. Qed.

Lemma oo_upd_t s id G u : oo (upd_t s id G) u = oo s u.
Proof.
  unfold oo, obj, upd_t. cbn [objs set_objs].
  apply (nth_upd_nth_inv _ f_o). reflexivity.
Qed.

Lemma cnt_upd_t_neq s id G u : u <> id -> cnt (upd_t s id G) u = cnt s u.
Proof. intros H. unfold cnt, obj, upd_t. cbn [objs set_objs]. rewrite nth_upd_nth_neq by congruence. reflexivity. Qed.

Lemma tot_upd_t_neq s id G u : u <> id -> tot (upd_t s id G) u = tot s u.
Proof. intros H. unfold tot, obj, upd_t. cbn [objs set_objs]. rewrite nth_upd_nth_neq by congruence. reflexivity. Qed.

Lemma ft_upd_t_eq s id G : (id < length (objs s))%nat -> f_t (obj (upd_t s id G) id) = G (f_t (obj s id)).
Proof. intros H. unfold obj, upd_t. cbn [objs set_objs]. rewrite nth_upd_nth_eq by assumption. reflexivity. Qed.

Lemma len_upd_t s id G : length (objs (upd_t s id G)) = length (objs s).
Proof. unfold upd_t. cbn [objs set_objs]. apply upd_nth_length. Qed.

(* ================= the ghost list ================= *)
Definition ghost := list (c12obj * nat).
Definition gl (g : ghost) : list c12obj := map fst g.
Definition tois (g : ghost) : list N := map (fun p => x_toi (fst p)) g.

Fixpoint upd_g (toi : N) (f : c12obj -> c12obj) (g : ghost) : ghost :=
  match g with
  | [] => []
  | (x, u) :: r => if x_toi x =? toi then (f x, u) :: r else (x, u) :: upd_g toi f r
  end.

Lemma upd_obj_gl toi f g : upd_obj toi f (gl g) = gl (upd_g toi f g).
Proof.
  induction g as [|[x u] g IH]; cbn [gl map upd_obj upd_g fst]; [reflexivity|].
  rewrite andb_false_r. cbn [negb]. rewrite andb_true_r.
  destruct (x_toi x =? toi); cbn [map fst]; [reflexivity|]. f_equal. exact IH.
Qed.

Lemma upd_g_tois toi f g : (forall x, x_toi (f x) = x_toi x) -> tois (upd_g toi f g) = tois g.
Proof.
  intros Hf. induction g as [|[x u] g IH]; cbn [tois map upd_g fst]; [reflexivity|].
  destruct (x_toi x =? toi); cbn [map fst]; [rewrite Hf; reflexivity|]. f_equal. exact IH.
Qed.

Lemma upd_g_ids toi f g : map snd (upd_g toi f g) = map snd g.
Proof.
  induction g as [|[x u] g IH]; cbn [map upd_g snd]; [reflexivity|].
  destruct (x_toi x =? toi); cbn [map snd]; [reflexivity|]. f_equal. exact IH.
Qed.

Lemma upd_g_in toi f g x' u : NoDup (tois g) -> In (x', u) (upd_g toi f g) ->
  exists x, In (x, u) g /\ ((x_toi x = toi /\ x' = f x) \/ (x_toi x <> toi /\ x' = x)).
Proof.
  induction g as [|[x0 u0] g IH]; cbn [tois map upd_g fst]; intros ND H; [contradiction|].
  inversion ND as [|? ? Hn ND']; subst.
  destruct (N.eqb_spec (x_toi x0) toi) as [E|E].
  - destruct H as [H|H].
    + injection H as <- <-. exists x0. split; [left; reflexivity|]. left. auto.
    + exists x'. split; [right; assumption|]. right. split; [|reflexivity].
      intros E'. apply Hn. rewrite E, <- E'. change (x_toi x') with ((fun p : c12obj * nat => x_toi (fst p)) (x', u)).
      apply in_map. assumption.
  - destruct H as [H|H].
    + injection H as <- <-. exists x0. split; [left; reflexivity|]. right. auto.
    + destruct (IH ND' H) as (x & Hi & Hx). exists x. split; [right; assumption|assumption].
Qed.

Lemma upd_g_in_rev toi f g x u : In (x, u) g ->
  In ((if x_toi x =? toi then f x else x), u) (upd_g toi f g) \/ x_toi x = toi.
Proof.
  induction g as [|[x0 u0] g IH]; cbn [upd_g]; intros H; [contradiction|].
  destruct H as [H|H].
  - inversion H; subst. destruct (x_toi x =? toi); left; left; reflexivity.
  - destruct (N.eqb_spec (x_toi x0) toi) as [E|E].
    + destruct (N.eqb_spec (x_toi x) toi) as [E'|E']; [right; assumption|]. left. right. assumption.
    + destruct (IH H) as [H'|H']; [left; right; assumption|right; assumption].
Qed.

Lemma find_obj_gl g x u : NoDup (tois g) -> In (x, u) g -> find_obj (x_toi x) (gl g) = Some x.
Proof.
  induction g as [|[x0 u0] g IH]; cbn [tois map gl find_obj fst]; intros ND H; [contradiction|].
  inversion ND as [|? ? Hn ND']; subst.
  destruct H as [H|H].
  - inversion H; subst. rewrite N.eqb_refl. reflexivity.
  - destruct (N.eqb_spec (x_toi x0) (x_toi x)) as [E|E].
    + exfalso. apply Hn. rewrite E. change (x_toi x) with ((fun p : c12obj * nat => x_toi (fst p)) (x, u)).
      apply in_map. assumption.
    + apply IH; assumption.
Qed.

(* ================= the abstract encoder ================= *)
Definition nn (o : odesc) : nat := pk1 (o_npk o).
Definition vis (o : odesc) : Prop := o_fdtid o = None.

Definition enc_ok (o : odesc) (e : enc) : Prop :=
  (e_sent e = 0 /\ e_left e = o_npk o) \/ (0 < e_sent e /\ (e_left e + N.to_nat (e_sent e) = nn o)%nat).

(* packets the encoder can still emit when it is not forced *)
Definition rem_of (o : odesc) (e : enc) : nat :=
  if e_stopped e then 0%nat else if e_sent e =? 0 then nn o else e_left e.

Lemma nn_pos o : (1 <= nn o)%nat.
Proof. unfold nn, pk1. lia. Qed.

Lemma enc_read_stopped force e : e_stopped e = true -> enc_read force e = (None, e).
Proof. intros H. unfold enc_read. rewrite H. reflexivity. Qed.

Lemma enc_read_spec o force e : e_stopped e = false -> enc_ok o e ->
  match enc_read force e with
  | (None, e') => rem_of o e = 0%nat /\ (e_sent e <> 0) /\ e_left e = 0%nat
  | (Some c, e') => enc_ok o e' /\ e_stopped e' = force /\ e_sent e' = e_sent e + 1
                    /\ (1 <= rem_of o e)%nat
                    /\ rem_of o e' = (if force then 0 else rem_of o e - 1)%nat
                    /\ (force = true -> c = true)
  end.
Proof.
  intros Hs Hok. pose proof (nn_pos o) as Hn. unfold enc_read, rem_of. rewrite Hs.
  destruct (e_left e) as [|l] eqn:El.
  - destruct (N.eqb_spec (e_sent e) 0) as [E0|E0].
    + cbn [e_stopped e_sent e_left]. change (1 =? 0) with false.
      assert (Hnn : nn o = 1%nat).
      { destruct Hok as [[_ H]|[H _]]; [|lia]. unfold nn, pk1. rewrite <- H, El. reflexivity. }
      repeat split.
      * right. cbn [e_sent e_left]. lia.
      * rewrite E0. reflexivity.
      * lia.
      * destruct force; lia.
    + auto.
  - cbn [e_stopped e_sent e_left].
    assert (Hrem : (if e_sent e =? 0 then nn o else S l) = S l).
    { destruct (N.eqb_spec (e_sent e) 0) as [E0|E0]; [|reflexivity].
      destruct Hok as [[_ H]|[H _]]; [|lia]. unfold nn, pk1. rewrite <- H, El. lia. }
    rewrite Hrem.
    destruct (N.eqb_spec (e_sent e + 1) 0) as [E1|E1]; [lia|].
    repeat split.
    + right. cbn [e_sent e_left]. split; [lia|].
      destruct Hok as [[H0 H]|[H0 H]].
      * rewrite H0. unfold nn, pk1. rewrite <- H, El. lia.
      * rewrite El in H. lia.
    + lia.
    + destruct force; lia.
    + intros ->. reflexivity.
Qed.

(* ================= the per-object invariant ================= *)
Definition static (x : c12obj) (o : odesc) : Prop :=
  x_toi x = o_toi o /\ x_npk x = o_npk o /\ x_max x = o_max o
  /\ x_car x = car_some (o_car o) /\ x_allow x = o_allow_stop o.

Definition stoppable (o : odesc) (tt : N) : bool := o_allow_stop o || (0 <? tt).

Definition removed_held (x : c12obj) (o : odesc) (tt : N) (e : enc) : Prop :=
  exists at_ allowed, x_removed x = Some (at_, allowed) /\
    (at_ <= x_sent x)%nat /\
    ((x_sent x - at_) + (if stoppable o tt then Nat.min 1 (rem_of o e) else rem_of o e) <= allowed)%nat /\
    ((x_allow x || Nat.leb (nn o) at_) = true -> stoppable o tt = true \/ rem_of o e = 0%nat) /\
    (x_car x = false -> (x_sent x + rem_of o e <= N.to_nat (o_max o) * nn o)%nat).

Definition bump (x : c12obj) : c12obj :=
  mk_c12o (x_toi x) (x_npk x) (x_max x) (x_car x) (x_allow x) (S (x_sent x)) (x_removed x).

Definition mark_removed (x : c12obj) : c12obj :=
  let n := pk1 (x_npk x) in
  let allowed := if x_allow x || Nat.leb n (x_sent x) then 1%nat else (n - x_sent x)%nat in
  mk_c12o (x_toi x) (x_npk x) (x_max x) (x_car x) (x_allow x) (x_sent x) (Some (x_sent x, allowed)).

Definition chk (x : c12obj) (close : bool) : bool :=
  let n := pk1 (x_npk x) in
  let sent' := S (x_sent x) in
  (x_car x || Nat.leb sent' (N.to_nat (x_max x) * n))
  && match x_removed x with
     | None => true
     | Some (at_removal, allowed) =>
       Nat.leb (sent' - at_removal) allowed
       && (if x_allow x || Nat.leb n at_removal then close else true)
     end.

Lemma upd_obj_found_ext toi f f' l x : find_obj toi l = Some x -> f x = f' x ->
  upd_obj toi f l = upd_obj toi f' l.
Proof.
  induction l as [|y l IH]; cbn [find_obj upd_obj]; intros H E; [reflexivity|].
  rewrite andb_false_r. cbn [negb]. rewrite andb_true_r.
  destruct (x_toi y =? toi).
  - injection H as ->. rewrite E. reflexivity.
  - f_equal. apply IH; assumption.
Qed.

Lemma c12_step_read l toi close now n ls x : find_obj toi l = Some x ->
  c12_step l (TRead now (RObj toi close) n ls) = (chk x close, upd_obj toi bump l).
Proof.
  intros H. cbn [c12_step]. rewrite H. unfold chk. f_equal.
  apply upd_obj_found_ext with (x := x); [assumption|reflexivity].
Qed.

Lemma c12_step_remove l toi : c12_step l (TRemove toi true) = (true, upd_obj toi mark_removed l).
Proof. reflexivity. Qed.

Section Inv.
  Variable P : odesc -> Prop.

  Definition none_e : enc -> Prop := fun _ => False.

  Definition oinv (x : c12obj) (o : odesc) (c t : N) (inF inQ : Prop) (hold : enc -> Prop) : Prop :=
    static x o /\ P o /\ (car_some (o_car o) = true \/ 1 <= o_max o)
    /\ (car_some (o_car o) = false -> c = t)
    /\ (inQ -> inF)
    /\ (forall e, hold e -> enc_ok o e)
    /\ (inF -> x_removed x = None
              /\ (inQ \/ (exists e, hold e) -> car_some (o_car o) = false -> c < o_max o)
              /\ (~ inQ -> ~ (exists e, hold e) -> o_toi o = 0)
              /\ (forall e, hold e -> e_stopped e = false
                                      /\ (vis o -> x_sent x = (N.to_nat t * nn o + N.to_nat (e_sent e))%nat))
              /\ (~ (exists e, hold e) -> vis o -> x_sent x = (N.to_nat t * nn o)%nat))
    /\ (~ inF -> forall e, hold e -> vis o -> removed_held x o t e).

  Ltac osplit := unfold oinv; repeat match goal with |- _ /\ _ => split end.
  Ltac odes H := destruct H as (Hst & HP & Hmax & Hnc & HQF & Henc & HF & HnF).

  Lemma oinv_iff x o c t F Q H F' Q' H' :
    oinv x o c t F Q H -> (F <-> F') -> (Q <-> Q') -> (forall e, H e <-> H' e) -> oinv x o c t F' Q' H'.
  Proof.
    intros Hi EF EQ EH. odes Hi.
    assert (EX : (exists e, H e) <-> (exists e, H' e)).
    { split; intros [e He]; exists e; apply EH; assumption. }
    osplit.
    - assumption.
    - assumption.
    - assumption.
    - assumption.
    - intros q. apply EF, HQF, EQ, q.
    - intros e He. apply Henc, EH, He.
    - intros HF'. apply EF in HF'. destruct (HF HF') as (H1 & H2 & H3 & H4 & H5).
      split; [assumption|]. split; [|split; [|split]].
      + intros A B. apply H2; [|assumption]. destruct A as [A|A]; [left; apply EQ, A|right; apply EX, A].
      + intros A B. apply H3; [intros q; apply A, EQ, q|intros q; apply B, EX, q].
      + intros e He. apply H4, EH, He.
      + intros A. apply H5. intros q. apply A, EX, q.
    - intros HnF' e He. apply HnF; [intros q; apply HnF', EF, q|apply EH, He].
  Qed.

  Lemma static_bump x o : static x o -> static (bump x) o.
  Proof. unfold static. cbn. intros H; exact H. Qed.
  Lemma static_mark x o : static x o -> static (mark_removed x) o.
  Proof. unfold static. cbn. intros H; exact H. Qed.

  Lemma no_none : ~ (exists e : enc, none_e e).
  Proof. intros [e []]. Qed.
  Lemma ex_eq (e : enc) : exists e0, e = e0.
  Proof. exists e. reflexivity. Qed.

  (* a freshly added object *)
  Lemma oinv_new o : P o -> (car_some (o_car o) = true \/ 1 <= o_max o) ->
    oinv (mk_c12o (o_toi o) (o_npk o) (o_max o) (car_some (o_car o)) (o_allow_stop o) 0 None) o 0 0
         True True none_e.
  Proof.
    intros HP Hmax. osplit.
    - unfold static. cbn. repeat split.
    - assumption.
    - assumption.
    - reflexivity.
    - intros _; exact I.
    - intros e [].
    - intros _. split; [reflexivity|]. split; [|split; [|split]].
      + intros _ Hc. destruct Hmax; [congruence|lia].
      + intros A. exfalso. apply A. exact I.
      + intros e [].
      + intros _ _. cbn. lia.
    - intros A. exfalso. apply A. exact I.
  Qed.

  (* an object that is neither waiting nor in transmission and not (or no longer) in the FDT *)
  Lemma oinv_inert x x' o c t F Q H c' t' :
    oinv x o c t F Q H -> static x' o -> (car_some (o_car o) = false -> c' = t') ->
    oinv x' o c' t' False False none_e.
  Proof.
    intros Hi Hst' Hc. odes Hi. osplit.
    - assumption.
    - assumption.
    - assumption.
    - assumption.
    - intros [].
    - intros e [].
    - intros [].
    - intros _ e [].
  Qed.

  (* a waiting object starts a transfer *)
  Lemma oinv_start x o c t F c' cl :
    oinv x o c t F True none_e -> (car_some (o_car o) = false -> c' = c) ->
    oinv x o c' t F False (eq (mk_enc (o_npk o) 0 false cl)).
  Proof.
    intros Hi Hc. odes Hi.
    assert (HFt : F) by (apply HQF; exact I).
    destruct (HF HFt) as (H1 & H2 & H3 & H4 & H5).
    osplit.
    - assumption.
    - assumption.
    - assumption.
    - intros Hcar. rewrite Hc by assumption. apply Hnc. assumption.
    - intros [].
    - intros e <-. left. cbn. split; reflexivity.
    - intros _. split; [assumption|]. split; [|split; [|split]].
      + intros _ Hcar. rewrite Hc by assumption. apply H2; [left; exact I|assumption].
      + intros _ Hn. exfalso. apply Hn. apply ex_eq.
      + intros e <-. split; [reflexivity|]. cbn [e_sent]. intros Hv. rewrite H5; [lia|exact no_none|assumption].
      + intros Hn. exfalso. apply Hn. apply ex_eq.
    - intros A. exfalso. apply A. assumption.
  Qed.

  (* the transfer of a listed object ends: back to the waiting list (Q' = True) or idle (TOI 0) *)
  Lemma oinv_done_live x o c t e e' (Q' : Prop) :
    oinv x o c t True False (eq e) -> enc_read false e = (None, e') ->
    (Q' -> car_some (o_car o) = false -> c + 1 < o_max o) -> (~ Q' -> o_toi o = 0) ->
    oinv x o (c + 1) (t + 1) True Q' none_e.
  Proof.
    intros Hi Hr HQ1 HQ2. odes Hi.
    destruct (HF I) as (H1 & H2 & H3 & H4 & H5).
    destruct (H4 e eq_refl) as [Hs Hx].
    pose proof (enc_read_spec o false e Hs (Henc e eq_refl)) as Hsp. rewrite Hr in Hsp.
    destruct Hsp as (_ & Hsent & Hleft).
    osplit.
    - assumption.
    - assumption.
    - assumption.
    - intros Hcar. rewrite Hnc by assumption. reflexivity.
    - intros _; exact I.
    - intros e0 [].
    - intros _. split; [assumption|]. split; [|split; [|split]].
      + intros [Hq|[e0 []]]. apply HQ1. assumption.
      + intros Hq _. apply HQ2. assumption.
      + intros e0 [].
      + intros _ Hv. rewrite (Hx Hv).
        destruct (Henc e eq_refl) as [[H0 _]|[H0 H6]]; [congruence|].
        rewrite Hleft in H6. rewrite <- H6. lia.
    - intros A. exfalso. apply A. exact I.
  Qed.

  (* a listed object in transmission emits a packet *)
  Lemma oinv_packet_live x o c t e e' close :
    oinv x o c t True False (eq e) -> enc_read false e = (Some close, e') ->
    (vis o -> chk x close = true /\ oinv (bump x) o c t True False (eq e'))
    /\ (~ vis o -> oinv x o c t True False (eq e')).
  Proof.
    intros Hi Hr. odes Hi.
    destruct (HF I) as (H1 & H2 & H3 & H4 & H5).
    destruct (H4 e eq_refl) as [Hs Hx].
    pose proof (enc_read_spec o false e Hs (Henc e eq_refl)) as Hsp. rewrite Hr in Hsp.
    destruct Hsp as (Hok' & Hs' & Hsent' & Hrem & Hrem' & _).
    assert (Hlt : (N.to_nat (e_sent e) < nn o)%nat).
    { unfold rem_of in Hrem. rewrite Hs in Hrem. pose proof (nn_pos o).
      destruct (Henc e eq_refl) as [[H0 _]|[H0 H6]]; [rewrite H0; cbn; lia|].
      destruct (N.eqb_spec (e_sent e) 0); lia. }
    split.
    - intros Hv. specialize (Hx Hv). split.
      + unfold chk. rewrite H1. rewrite andb_true_r.
        destruct Hst as (_ & Hnpk & Hmx & Hcar & _). rewrite Hcar, Hnpk, Hmx.
        destruct (car_some (o_car o)) eqn:Ec; [reflexivity|]. cbn [orb].
        apply Nat.leb_le. fold (nn o).
        assert (Hc : c < o_max o) by (apply H2; [right; apply ex_eq|reflexivity]).
        rewrite (Hnc eq_refl) in Hc.
        assert (Hm : (S (N.to_nat t) <= N.to_nat (o_max o))%nat) by lia.
        apply (Nat.mul_le_mono_r _ _ (nn o)) in Hm. lia.
      + osplit.
        * apply static_bump; assumption.
        * assumption.
        * assumption.
        * assumption.
        * intros [].
        * intros e0 <-. assumption.
        * intros _. split; [assumption|]. split; [|split; [|split]].
          -- intros _. apply H2. right. apply ex_eq.
          -- intros _ Hn. exfalso. apply Hn. apply ex_eq.
          -- intros e0 <-. split; [assumption|]. intros _. cbn [bump x_sent]. rewrite Hx, Hsent'. lia.
          -- intros Hn. exfalso. apply Hn. apply ex_eq.
        * intros A. exfalso. apply A. exact I.
    - intros Hv. osplit.
      + assumption.
      + assumption.
      + assumption.
      + assumption.
      + intros [].
      + intros e0 <-. assumption.
      + intros _. split; [assumption|]. split; [|split; [|split]].
        * intros _. apply H2. right. apply ex_eq.
        * intros _ Hn. exfalso. apply Hn. apply ex_eq.
        * intros e0 <-. split; [assumption|]. intros A. exfalso. apply Hv, A.
        * intros Hn. exfalso. apply Hn. apply ex_eq.
      + intros A. exfalso. apply A. exact I.
  Qed.

  (* a listed object in transmission is removed *)
  Lemma oinv_remove_held x o c t e :
    oinv x o c t True False (eq e) -> oinv (mark_removed x) o c t False False (eq e).
  Proof.
    intros Hi. odes Hi.
    destruct (HF I) as (H1 & H2 & H3 & H4 & H5).
    destruct (H4 e eq_refl) as [Hs Hx].
    osplit.
    - apply static_mark; assumption.
    - assumption.
    - assumption.
    - assumption.
    - intros [].
    - assumption.
    - intros [].
    - intros _ e0 <- Hv. specialize (Hx Hv).
      destruct Hst as (_ & Hnpk & Hmx & Hcar & Hal).
      pose proof (nn_pos o) as Hn.
      unfold removed_held, mark_removed. cbn [x_removed x_sent x_allow x_car].
      rewrite Hnpk, Hal. fold (nn o).
      eexists _, _. split; [reflexivity|]. split; [lia|].
      assert (Hrem : (N.to_nat (e_sent e) + rem_of o e = nn o)%nat).
      { unfold rem_of. rewrite Hs. destruct (Henc e eq_refl) as [[H0 H6]|[H0 H6]].
        - rewrite H0, N.eqb_refl. lia.
        - destruct (N.eqb_spec (e_sent e) 0); lia. }
      unfold stoppable.
      split; [|split].
      + destruct (o_allow_stop o); cbn [orb]; [lia|].
        destruct (Nat.leb_spec (nn o) (x_sent x)) as [Hle|Hle].
        * destruct (N.ltb_spec 0 t) as [Ht|Ht]; [lia|].
          assert (t = 0) by lia. subst t. cbn in Hx. lia.
        * destruct (N.ltb_spec 0 t) as [Ht|Ht].
          -- exfalso. assert (Ht' : (1 <= N.to_nat t)%nat) by lia.
             apply (Nat.mul_le_mono_r _ _ (nn o)) in Ht'. lia.
          -- assert (t = 0) by lia. subst t. cbn in Hx. lia.
      + destruct (o_allow_stop o); cbn [orb]; [intros _; left; reflexivity|].
        intros Hle. apply Nat.leb_le in Hle.
        destruct (N.ltb_spec 0 t) as [Ht|Ht]; [left; reflexivity|right].
        assert (t = 0) by lia. subst t. cbn in Hx. lia.
      + rewrite Hcar. intros Ec.
        assert (Hc : c < o_max o) by (apply H2; [right; apply ex_eq|assumption]).
        rewrite (Hnc Ec) in Hc.
        assert (Hm : (S (N.to_nat t) <= N.to_nat (o_max o))%nat) by lia.
        apply (Nat.mul_le_mono_r _ _ (nn o)) in Hm. lia.
  Qed.

  (* a removed object still in transmission emits a packet *)
  Lemma oinv_packet_dead x o c t e e' close :
    oinv x o c t False False (eq e) -> enc_read (stoppable o t) e = (Some close, e') ->
    (vis o -> chk x close = true /\ oinv (bump x) o c t False False (eq e'))
    /\ (~ vis o -> oinv x o c t False False (eq e')).
  Proof.
    intros Hi Hr. odes Hi.
    destruct (e_stopped e) eqn:Hs; [rewrite enc_read_stopped in Hr by assumption; discriminate|].
    pose proof (enc_read_spec o (stoppable o t) e Hs (Henc e eq_refl)) as Hsp. rewrite Hr in Hsp.
    destruct Hsp as (Hok' & Hs' & Hsent' & Hrem & Hrem' & Hcl).
    assert (HnF0 : ~ False) by (intros []).
    split.
    - intros Hv. destruct (HnF HnF0 e eq_refl Hv) as (at_ & al & Hrm & Hat & Hb & Hc & Hcount).
      destruct Hst as (Htoi & Hnpk & Hmx & Hcar & Hal).
      split.
      + unfold chk. rewrite Hrm, Hnpk, Hmx. fold (nn o). apply andb_true_intro. split.
        * destruct (x_car x); [reflexivity|]. cbn [orb]. apply Nat.leb_le. specialize (Hcount eq_refl). lia.
        * apply andb_true_intro. split.
          -- apply Nat.leb_le. destruct (stoppable o t); lia.
          -- destruct (x_allow x || Nat.leb (nn o) at_) eqn:Eb; [|reflexivity].
             destruct (Hc eq_refl) as [Hst1|Hr0]; [apply Hcl; assumption|lia].
      + osplit.
        * apply static_bump. repeat split; assumption.
        * assumption.
        * assumption.
        * assumption.
        * intros [].
        * intros e0 <-. assumption.
        * intros [].
        * intros _ e0 <- _. unfold removed_held. cbn [bump x_removed x_sent x_allow x_car].
          exists at_, al. split; [assumption|]. split; [lia|]. rewrite Hrem'. split; [|split].
          -- destruct (stoppable o t); lia.
          -- intros Eb. destruct (Hc Eb) as [Hst1|Hr0]; [left; assumption|lia].
          -- intros Ec. specialize (Hcount Ec). destruct (stoppable o t); lia.
    - intros Hv. osplit.
      + assumption.
      + assumption.
      + assumption.
      + assumption.
      + intros [].
      + intros e0 <-. assumption.
      + intros [].
      + intros _ e0 <- A. exfalso. apply Hv, A.
  Qed.
End Inv.

(* ================= sessions ================= *)
Definition sfile (ss : session) : list nat := match ss_file ss with Some i => [i] | None => [] end.
Definition sfiles (sl : list session) : list nat := flat_map sfile sl.
Definition holds (sl : list session) (u : nat) (e : enc) : Prop :=
  exists ss, In ss sl /\ ss_file ss = Some u /\ ss_enc ss = Some e.
Definition swf (ss : session) : Prop :=
  (ss_file ss = None /\ ss_enc ss = None) \/ (exists u e, ss_file ss = Some u /\ ss_enc ss = Some e).
Definition fwf (ss : session) : Prop := ss_fdt_only ss = false /\ swf ss.

Lemma holds_in_sfiles sl u e : holds sl u e -> In u (sfiles sl).
Proof.
  intros (ss & Hin & Hf & _). unfold sfiles. apply in_flat_map. exists ss. split; [assumption|].
  unfold sfile. rewrite Hf. left. reflexivity.
Qed.

Lemma sfiles_holds sl u : Forall fwf sl -> In u (sfiles sl) -> exists e, holds sl u e.
Proof.
  intros Hwf Hin. unfold sfiles in Hin. apply in_flat_map in Hin. destruct Hin as (ss & Hss & Hu).
  rewrite Forall_forall in Hwf. destruct (Hwf ss Hss) as [_ [[Hf _]|(u' & e & Hf & He)]].
  - unfold sfile in Hu. rewrite Hf in Hu. destruct Hu.
  - unfold sfile in Hu. rewrite Hf in Hu. destruct Hu as [<-|[]]. exists e, ss. auto.
Qed.

Lemma holds_cons ss rest u e :
  holds (ss :: rest) u e <-> ((ss_file ss = Some u /\ ss_enc ss = Some e) \/ holds rest u e).
Proof.
  split.
  - intros (s0 & [<-|Hin] & Hf & He); [left; auto|right; exists s0; auto].
  - intros [[Hf He]|(s0 & Hin & Hf & He)]; [exists ss|exists s0]; cbn; auto.
Qed.

Lemma holds_perm sl sl' u e : Permutation sl sl' -> holds sl u e -> holds sl' u e.
Proof. intros Hp (ss & Hin & H). exists ss. split; [eapply Permutation_in; eassumption|assumption]. Qed.

Lemma sfiles_perm sl sl' : Permutation sl sl' -> Permutation (sfiles sl) (sfiles sl').
Proof. intros Hp. unfold sfiles. apply Permutation_flat_map. assumption. Qed.

Lemma sfiles_cons ss rest : sfiles (ss :: rest) = sfile ss ++ sfiles rest.
Proof. reflexivity. Qed.

Lemma sfiles_app a b : sfiles (a ++ b) = sfiles a ++ sfiles b.
Proof. unfold sfiles. apply flat_map_app. Qed.

Definition fdt_ids (fs : session) (s : st) : list nat :=
  fdtq s ++ (match cur_fdt s with Some c => [c] | None => [] end) ++ sfile fs.

(* [s'] is [s] with possibly more descriptors; descriptors are immutable; the session tables are untouched *)
Definition ext (s s' : st) : Prop :=
  (length (objs s) <= length (objs s'))%nat
  /\ (forall u, (u < length (objs s))%nat -> oo s' u = oo s u)
  /\ squeues s' = squeues s /\ fdt_session s' = fdt_session s.

Lemma ext_refl s : ext s s.
Proof. repeat split; auto. Qed.

Lemma ext_trans s1 s2 s3 : ext s1 s2 -> ext s2 s3 -> ext s1 s3.
Proof.
  intros (L1 & O1 & Q1 & F1) (L2 & O2 & Q2 & F2). repeat split.
  - lia.
  - intros u Hu. rewrite O2 by lia. apply O1. assumption.
  - congruence.
  - congruence.
Qed.

Lemma ext_upd_t s id G : ext s (upd_t s id G).
Proof.
  repeat split.
  - rewrite len_upd_t. lia.
  - intros u _. apply oo_upd_t.
Qed.

Section Glob.
  Variable P : odesc -> Prop.

  Definition entry_ok (s : st) (sl : list session) (p : c12obj * nat) : Prop :=
    (snd p < length (objs s))%nat /\
    oinv P (fst p) (oo s (snd p)) (cnt s (snd p)) (tot s (snd p))
         (In (snd p) (files s)) (In (snd p) (queue s)) (holds sl (snd p)).

  Definition Uinv (g : ghost) (sl : list session) (s : st) : Prop :=
    NoDup (tois g) /\ NoDup (queue s ++ sfiles sl)
    /\ (forall u, In u (files s) \/ In u (queue s) \/ In u (sfiles sl) -> In u (map snd g))
    /\ (forall p, In p g -> entry_ok s sl p)
    /\ Forall fwf sl.

  Definition fid_ok (g : ghost) (s : st) (c : nat) : Prop :=
    (c < length (objs s))%nat /\ ~ In c (map snd g) /\ o_fdtid (oo s c) <> None /\ o_toi (oo s c) = 0.

  Definition Finv (g : ghost) (fs : session) (s : st) : Prop :=
    ss_fdt_only fs = true /\ swf fs /\ forall c, In c (fdt_ids fs s) -> fid_ok g s c.

  Lemma Uinv_perm g sl sl' s : Permutation sl sl' -> Uinv g sl s -> Uinv g sl' s.
  Proof.
    intros Hp (H1 & H2 & H3 & H4 & H5). unfold Uinv. split; [assumption|]. split; [|split; [|split]].
    - eapply Permutation_NoDup; [|exact H2]. apply Permutation_app_head. apply sfiles_perm. assumption.
    - intros u [Hu|[Hu|Hu]]; apply H3; auto. right. right.
      eapply Permutation_in; [apply Permutation_sym, sfiles_perm; eassumption|assumption].
    - intros p Hin. destruct (H4 p Hin) as [Hl Ho]. split; [assumption|].
      eapply oinv_iff; [exact Ho|reflexivity|reflexivity|].
      intros e. split; apply holds_perm; [assumption|apply Permutation_sym; assumption].
    - eapply Permutation_Forall; eassumption.
  Qed.

  Lemma Uinv_ids_lt g sl s u : Uinv g sl s -> In u (map snd g) -> (u < length (objs s))%nat.
  Proof.
    intros (_ & _ & _ & H4 & _) Hin. apply in_map_iff in Hin. destruct Hin as (p & <- & Hp).
    apply (H4 p Hp).
  Qed.

  Lemma Uinv_static g sl s x u : Uinv g sl s -> In (x, u) g -> static x (oo s u).
  Proof. intros (_ & _ & _ & H4 & _) Hin. destruct (H4 _ Hin) as [_ Ho]. apply Ho. Qed.

  Lemma Uinv_toi_inj g sl s x u x' u' : Uinv g sl s -> In (x, u) g -> In (x', u') g ->
    toi_of s u = toi_of s u' -> (x, u) = (x', u').
  Proof.
    intros HU Hi Hi' E.
    pose proof (Uinv_static _ _ _ _ _ HU Hi) as (S1 & _).
    pose proof (Uinv_static _ _ _ _ _ HU Hi') as (S1' & _).
    destruct HU as (ND & _).
    apply (NoDup_map_inj (fun p : c12obj * nat => x_toi (fst p)) g); auto.
    cbn [fst]. rewrite S1, S1'. exact E.
  Qed.

  Lemma Uinv_id_entry g sl s x u x' : Uinv g sl s -> In (x, u) g -> In (x', u) g -> x = x'.
  Proof.
    intros HU Hi Hi'. assert (E : (x, u) = (x', u)) by (eapply Uinv_toi_inj; eauto). congruence.
  Qed.

  Lemma in_ids (g : ghost) u : In u (map snd g) -> exists x, In (x, u) g.
  Proof. intros H. apply in_map_iff in H. destruct H as ([x u'] & E & Hin). cbn in E. subst. eauto. Qed.

  Lemma is_added_iff s toi : is_added s toi = true <-> exists f, In f (files s) /\ toi_of s f = toi.
  Proof.
    unfold is_added, find_file. split.
    - destruct (find _ (files s)) as [f|] eqn:E; [|discriminate]. intros _.
      apply find_some in E. destruct E as [Hin Ht]. exists f. split; [assumption|]. apply N.eqb_eq. assumption.
    - intros (f & Hin & Ht). destruct (find _ (files s)) as [f'|] eqn:E; [reflexivity|].
      exfalso. pose proof (find_none _ _ E f Hin) as Hn. cbn in Hn. rewrite Ht, N.eqb_refl in Hn. discriminate.
  Qed.

  Lemma is_added_user g sl s x u : Uinv g sl s -> In (x, u) g ->
    (is_added s (toi_of s u) = true <-> In u (files s)).
  Proof.
    intros HU Hi. rewrite is_added_iff. split.
    - intros (f & Hf & Ht).
      assert (Hg : In f (map snd g)) by (apply HU; auto).
      apply in_ids in Hg. destruct Hg as [x' Hi'].
      assert (E : (x', f) = (x, u)) by (eapply Uinv_toi_inj; eauto). congruence.
    - intros Hf. exists u. auto.
  Qed.

  Lemma in_remove_toi s toi l u : In u (remove_toi s toi l) <-> In u l /\ toi_of s u <> toi.
  Proof.
    unfold remove_toi. rewrite filter_In. split; intros [H1 H2]; split; auto.
    - intros E. rewrite E, N.eqb_refl in H2. discriminate.
    - destruct (N.eqb_spec (toi_of s u) toi); [contradiction|reflexivity].
  Qed.

  (* frame: a change that does not touch the user objects nor the lists *)
  Lemma Uinv_frame g sl s s' : Uinv g sl s ->
    (length (objs s) <= length (objs s'))%nat -> files s' = files s -> queue s' = queue s ->
    (forall u, In u (map snd g) -> oo s' u = oo s u /\ cnt s' u = cnt s u /\ tot s' u = tot s u) ->
    Uinv g sl s'.
  Proof.
    intros (H1 & H2 & H3 & H4 & H5) HL HF HQ HO. unfold Uinv. rewrite HF, HQ.
    split; [assumption|]. split; [assumption|]. split; [assumption|]. split; [|assumption].
    intros p Hin. destruct (H4 p Hin) as [Hl Ho]. split; [lia|].
    rewrite HF, HQ. destruct (HO (snd p)) as (E1 & E2 & E3); [apply in_map; assumption|].
    rewrite E1, E2, E3. assumption.
  Qed.

  Lemma Finv_frame g fs s s' : Finv g fs s -> ext s s' ->
    (forall c, In c (fdt_ids fs s') -> In c (fdt_ids fs s)) -> Finv g fs s'.
  Proof.
    intros (H1 & H2 & H3) (HL & HO & _) Hsub. split; [assumption|]. split; [assumption|].
    intros c Hc. destruct (H3 c (Hsub c Hc)) as (A & B & C & D).
    unfold fid_ok. rewrite HO by assumption. repeat split; auto. lia.
  Qed.

  Lemma Finv_ghost g g' fs s : map snd g' = map snd g -> Finv g fs s -> Finv g' fs s.
  Proof.
    intros E (H1 & H2 & H3). split; [assumption|]. split; [assumption|].
    intros c Hc. destruct (H3 c Hc) as (A & B & C & D). unfold fid_ok. rewrite E. auto.
  Qed.

  (* ---------- publish ---------- *)
  Lemma fold_setpub_len : forall l ob, length (fold_left (fun ob fid => upd_nth fid set_pub ob) l ob) = length ob.
  Proof. induction l as [|a l IH]; intros ob; cbn [fold_left]; [reflexivity|]. rewrite IH. apply upd_nth_length. Qed.

  Lemma fold_setpub_nth {B} (h : fdesc -> B) : (forall f, h (set_pub f) = h f) ->
    forall l ob u, h (nth u (fold_left (fun ob fid => upd_nth fid set_pub ob) l ob) dummy_f) = h (nth u ob dummy_f).
  Proof.
    intros Hh. induction l as [|a l IH]; intros ob u; cbn [fold_left]; [reflexivity|].
    rewrite IH. apply nth_upd_nth_inv. assumption.
  Qed.

  Variable fdt_npk : N -> nat.
  Variable fdt_ok : N -> bool.
  Variable divf : Z -> N -> option Z.

  Lemma publish_spec now s : let s' := snd (publish fdt_npk fdt_ok now s) in
    files s' = files s /\ queue s' = queue s /\ cur_fdt s' = cur_fdt s /\ ext s s'
    /\ (forall u, (u < length (objs s))%nat -> cnt s' u = cnt s u /\ tot s' u = tot s u)
    /\ (s' = s \/ (length (objs s') = S (length (objs s)) /\ fdtq s' = fdtq s ++ [length (objs s)]
                   /\ o_fdtid (oo s' (length (objs s))) <> None /\ o_toi (oo s' (length (objs s))) = 0)).
  Proof.
    unfold publish. destruct (fdt_ok (fdtid s)); cbn [snd].
    2:{ repeat split; auto. }
    cbn [files queue cur_fdt fdtq objs].
    split; [reflexivity|]. split; [reflexivity|]. split; [reflexivity|].
    assert (Hnth : forall {B} (h : fdesc -> B) u f0, (forall f, h (set_pub f) = h f) ->
      h (nth u (fold_left (fun ob fid => upd_nth fid set_pub ob) (files s) (objs s ++ [f0])) dummy_f)
      = h (nth u (objs s ++ [f0]) dummy_f)).
    { intros B h u f0 Hh. apply fold_setpub_nth. assumption. }
    split; [|split].
    - unfold ext. cbn [objs squeues fdt_session]. rewrite fold_setpub_len, app_length. cbn [length].
      split; [lia|]. split; [|split; reflexivity].
      intros u Hu. unfold oo, obj. cbn [objs]. rewrite (Hnth _ f_o) by reflexivity.
      rewrite app_nth1 by assumption. reflexivity.
    - intros u Hu. unfold cnt, tot, obj. cbn [objs].
      rewrite (Hnth _ (fun f => t_count (f_t f))) by reflexivity.
      rewrite (Hnth _ (fun f => t_total (f_t f))) by reflexivity.
      rewrite app_nth1 by assumption. split; reflexivity.
    - right. rewrite fold_setpub_len, app_length. cbn [length].
      split; [lia|]. split; [reflexivity|].
      unfold oo, obj. cbn [objs].
      rewrite (Hnth _ f_o) by reflexivity.
      rewrite app_nth2 by lia. rewrite Nat.sub_diag. cbn. split; [discriminate|reflexivity].
  Qed.

  Lemma Uinv_publish g sl now s : Uinv g sl s -> Uinv g sl (snd (publish fdt_npk fdt_ok now s)).
  Proof.
    intros HU. destruct (publish_spec now s) as (HF & HQ & _ & (HL & HO & _) & HC & _).
    apply (Uinv_frame g sl s); auto.
    intros u Hu. pose proof (Uinv_ids_lt _ _ _ _ HU Hu) as Hlt.
    destruct (HC u Hlt). auto.
  Qed.

  Lemma Finv_publish g sl fs now s : Uinv g sl s -> Finv g fs s -> Finv g fs (snd (publish fdt_npk fdt_ok now s)).
  Proof.
    intros HU HFi. destruct (publish_spec now s) as (HF & HQ & HCu & Hext & HC & Hor).
    set (s' := snd (publish fdt_npk fdt_ok now s)) in *.
    destruct Hor as [->|(HL & Hq & Hid & Htoi)]; [assumption|].
    destruct HFi as (H1 & H2 & H3). split; [assumption|]. split; [assumption|].
    intros c Hc. unfold fdt_ids in Hc. rewrite Hq, HCu in Hc.
    rewrite <- app_assoc in Hc. apply in_app_iff in Hc. destruct Hc as [Hc|Hc].
    - destruct (H3 c) as (A & B & C & D); [unfold fdt_ids; apply in_app_iff; left; assumption|].
      destruct Hext as (HL' & HO & _). unfold fid_ok. rewrite HO by assumption. repeat split; auto. lia.
    - cbn [app] in Hc. destruct Hc as [<-|Hc].
      + unfold fid_ok. rewrite HL. repeat split; auto.
        intros Hin. pose proof (Uinv_ids_lt _ _ _ _ HU Hin). lia.
      + destruct (H3 c) as (A & B & C & D); [unfold fdt_ids; apply in_app_iff; right; assumption|].
        destruct Hext as (HL' & HO & _). unfold fid_ok. rewrite HO by assumption. repeat split; auto. lia.
  Qed.

  (* ---------- helpers about the running session ---------- *)
  Lemma NoDup_app_disj {A} (l1 l2 : list A) x : NoDup (l1 ++ l2) -> In x l1 -> In x l2 -> False.
  Proof.
    induction l1 as [|a l1 IH]; cbn; intros ND H1 H2; [contradiction|].
    inversion ND as [|? ? Hn ND']; subst. destruct H1 as [<-|H1].
    - apply Hn. apply in_app_iff. right. assumption.
    - apply IH; assumption.
  Qed.

  Lemma NoDup_app_l {A} (l1 l2 : list A) : NoDup (l1 ++ l2) -> NoDup l1.
  Proof.
    induction l1 as [|a l1 IH]; cbn; intros ND; [constructor|].
    inversion ND as [|? ? Hn ND']; subst. constructor; [|apply IH; assumption].
    intros H. apply Hn. apply in_app_iff. left. assumption.
  Qed.

  Lemma NoDup_app_r {A} (l1 l2 : list A) : NoDup (l1 ++ l2) -> NoDup l2.
  Proof.
    induction l1 as [|a l1 IH]; cbn; intros ND; [assumption|].
    inversion ND; subst. apply IH; assumption.
  Qed.

  Lemma holds_head g ss rest s u e : Uinv g (ss :: rest) s -> ss_file ss = Some u -> ss_enc ss = Some e ->
    (forall e0, holds (ss :: rest) u e0 <-> e = e0) /\ ~ In u (queue s) /\ ~ In u (sfiles rest)
    /\ In u (map snd g).
  Proof.
    intros (_ & ND & Hm & _ & _) Hf He.
    assert (Hs : sfiles (ss :: rest) = u :: sfiles rest).
    { rewrite sfiles_cons. unfold sfile. rewrite Hf. reflexivity. }
    rewrite Hs in ND, Hm.
    assert (Hnr : ~ In u (sfiles rest)).
    { apply NoDup_app_r in ND. inversion ND; assumption. }
    split; [|split; [|split]].
    - intros e0. rewrite holds_cons. split.
      + intros [[_ H]|H]; [congruence|]. exfalso. apply Hnr. eapply holds_in_sfiles; eassumption.
      + intros <-. left. auto.
    - intros Hq. apply (NoDup_app_disj _ _ u ND Hq). left. reflexivity.
    - assumption.
    - apply Hm. right. right. left. reflexivity.
  Qed.

  Lemma holds_other ss ss' rest u e : ss_file ss <> Some u -> ss_file ss' <> Some u ->
    (holds (ss' :: rest) u e <-> holds (ss :: rest) u e).
  Proof.
    intros H1 H2. rewrite !holds_cons. split; (intros [[A _]|A]; [contradiction|right; assumption]).
  Qed.

  Lemma t_init_spec o now t t' : t_init divf o now t = Some t' ->
    t_total t' = t_total t /\ (car_some (o_car o) = false -> t_count t' = t_count t).
  Proof.
    unfold t_init. intros H.
    destruct (match o_target o with TNone | TFast => Some None
              | TDuration d => match divf d (N.max 1 (o_nsrc o)) with Some k => Some (Some k) | None => None end
              | TTime tm => match divf (Z.max 0 (tm - now)) (N.max 1 (o_nsrc o)) with Some k => Some (Some k) | None => None end
              end) as [tk|]; [|discriminate].
    injection H as <-. cbn [t_total t_count]. split; [reflexivity|].
    intros ->. rewrite andb_false_r. reflexivity.
  Qed.

  Lemma t_tickf_spec t : t_count (t_tickf t) = t_count t /\ t_total (t_tickf t) = t_total t.
  Proof. unfold t_tickf. destruct (t_tick t), (t_next_ts t); split; reflexivity. Qed.

  Lemma cnt_tot_upd_t_eq s id G : (id < length (objs s))%nat ->
    cnt (upd_t s id G) id = t_count (G (f_t (obj s id))) /\ tot (upd_t s id G) id = t_total (G (f_t (obj s id))).
  Proof. intros H. unfold cnt, tot. rewrite ft_upd_t_eq by assumption. split; reflexivity. Qed.

  (* ---------- a waiting object is taken by a free session ---------- *)
  Lemma Uinv_start g rest s ss a b id now t' ev cl prio :
    Uinv g (ss :: rest) s -> ss_file ss = None -> ss_enc ss = None ->
    queue s = a ++ id :: b ->
    t_init divf (oo s id) now (f_t (obj s id)) = Some t' ->
    Uinv g (mk_session prio false (Some id) (Some (mk_enc (o_npk (oo s id)) 0 false cl)) :: rest)
         (upd_t (log_ev (set_queue s (a ++ b)) ev) id (fun _ => t')).
  Proof.
    intros HU Hf He Hq Ht.
    pose proof HU as (ND1 & ND2 & Hm & Hent & Hwf).
    set (s0 := log_ev (set_queue s (a ++ b)) ev).
    set (new := mk_session prio false (Some id) (Some (mk_enc (o_npk (oo s id)) 0 false cl))).
    assert (Hs : sfiles (ss :: rest) = sfiles rest).
    { rewrite sfiles_cons. unfold sfile. rewrite Hf. reflexivity. }
    assert (Hs' : sfiles (new :: rest) = id :: sfiles rest) by reflexivity.
    rewrite Hs, Hq in ND2.
    assert (Hidq : In id (queue s)) by (rewrite Hq; apply in_app_iff; right; left; reflexivity).
    assert (Hnr : ~ In id (sfiles rest)).
    { intros H. apply (NoDup_app_disj _ _ id ND2); [|assumption]. apply in_app_iff. right. left. reflexivity. }
    assert (Hnab : ~ In id (a ++ b)).
    { apply NoDup_app_l in ND2. apply NoDup_remove_2 in ND2. assumption. }
    assert (Hidg : In id (map snd g)) by (apply Hm; auto).
    pose proof (Uinv_ids_lt _ _ _ _ HU Hidg) as Hlt.
    destruct (t_init_spec _ _ _ _ Ht) as [Htot Hcnt].
    unfold Uinv. split; [assumption|]. split; [|split; [|split]].
    - cbn [queue upd_t set_objs]. change (queue s0) with (a ++ b). rewrite Hs'.
      eapply Permutation_NoDup; [|exact ND2].
      rewrite <- !app_assoc. cbn [app].
      apply Permutation_app_head. apply Permutation_middle.
    - cbn [files queue upd_t set_objs]. change (files s0) with (files s). change (queue s0) with (a ++ b).
      rewrite Hs'. intros u [Hu|[Hu|Hu]].
      + apply Hm. auto.
      + apply Hm. right. left. rewrite Hq. apply in_app_iff in Hu. apply in_app_iff.
        destruct Hu; [left|right; right]; assumption.
      + destruct Hu as [<-|Hu]; [assumption|]. apply Hm. right. right. rewrite Hs. assumption.
    - intros [x u] Hin. destruct (Hent _ Hin) as [Hl Ho]. unfold entry_ok. cbn [fst snd] in *.
      split; [rewrite len_upd_t; exact Hl|].
      cbn [files queue upd_t set_objs]. change (files s0) with (files s). change (queue s0) with (a ++ b).
      rewrite oo_upd_t. change (oo s0 u) with (oo s u).
      destruct (Nat.eq_dec u id) as [->|Hne].
      + destruct (cnt_tot_upd_t_eq s0 id (fun _ => t') Hlt) as [Ec Et]. rewrite Ec, Et, Htot.
        change (t_total (f_t (obj s id))) with (tot s id).
        eapply oinv_iff.
        * eapply (oinv_start P _ _ _ _ (In id (files s)) (t_count t') cl).
          -- eapply oinv_iff; [exact Ho|reflexivity| |].
             ++ split; [intros _; exact I|intros _; exact Hidq].
             ++ intros e. split; [|intros []]. intros H. apply Hnr. rewrite <- Hs. eapply holds_in_sfiles; eassumption.
          -- exact Hcnt.
        * reflexivity.
        * split; [intros []|exact Hnab].
        * intros e. unfold new. rewrite holds_cons. cbn [ss_file ss_enc]. split.
          -- intros <-. left. auto.
          -- intros [[_ H]|H]; [congruence|]. exfalso. apply Hnr. eapply holds_in_sfiles; eassumption.
      + rewrite cnt_upd_t_neq, tot_upd_t_neq by assumption.
        change (cnt s0 u) with (cnt s u). change (tot s0 u) with (tot s u).
        eapply oinv_iff; [exact Ho|reflexivity| |].
        * rewrite Hq, !in_app_iff. cbn [In]. split; [intros [H|[H|H]]; auto; congruence|intros [H|H]; auto].
        * intros e. apply holds_other; [cbn; congruence|rewrite Hf; discriminate].
    - constructor; [|inversion Hwf; assumption]. split; [reflexivity|]. right. cbn. eauto.
  Qed.

  Lemma gnft_inv g rest fs s ss prio now r s1 :
    Uinv g (ss :: rest) s -> Finv g fs s -> ss_file ss = None -> ss_enc ss = None ->
    get_next_file_transfer fdt_npk fdt_ok divf prio now s = ROk _ (r, s1) ->
    ext s s1 /\ Finv g fs s1 /\
    match r with
    | None => Uinv g (ss :: rest) s1
    | Some id => forall p cl,
        Uinv g (mk_session p false (Some id) (Some (mk_enc (o_npk (oo s1 id)) 0 false cl)) :: rest) s1
    end.
  Proof.
    intros HU HFi Hf He. unfold get_next_file_transfer.
    destruct (find_remove _ (queue s)) as [[id q']|] eqn:Efr.
    2:{ intros H. injection H as <- <-. split; [apply ext_refl|]. split; assumption. }
    apply find_remove_first in Efr. destruct Efr as (a & b & Hq & -> & _ & _).
    set (s0 := log_ev (set_queue s (a ++ b)) (EvStart (toi_of s id))).
    unfold transfer_started. change (f_o (obj s0 id)) with (oo s id). change (f_t (obj s0 id)) with (f_t (obj s id)).
    destruct (t_init divf (oo s id) now (f_t (obj s id))) as [t'|] eqn:Ht; [|discriminate].
    set (s2 := upd_t s0 id (fun _ => t')).
    intros H. injection H as <- <-.
    assert (Hidq : In id (queue s)) by (rewrite Hq; apply in_app_iff; right; left; reflexivity).
    assert (Hlt : (id < length (objs s))%nat).
    { eapply Uinv_ids_lt; [exact HU|]. apply HU. auto. }
    assert (E02 : ext s s2).
    { apply (ext_trans s s0 s2); [|apply ext_upd_t]. repeat split; auto. }
    assert (HU2 : forall p cl, Uinv g (mk_session p false (Some id) (Some (mk_enc (o_npk (oo s id)) 0 false cl)) :: rest) s2).
    { intros p cl. eapply Uinv_start; eassumption. }
    assert (HF2 : Finv g fs s2).
    { eapply Finv_frame; [exact HFi|exact E02|]. intros c Hc. exact Hc. }
    change (full_fdt s2) with (full_fdt s). destruct (full_fdt s).
    - split; [assumption|]. split; [assumption|]. intros p cl.
      destruct E02 as (_ & HO & _). rewrite HO by assumption. apply HU2.
    - destruct (publish_spec now s2) as (_ & _ & _ & Hext & _).
      assert (E03 : ext s (snd (publish fdt_npk fdt_ok now s2))) by (eapply ext_trans; eassumption).
      split; [assumption|]. split.
      + eapply Finv_publish; [apply (HU2 0 false)|assumption].
      + intros p cl. destruct E03 as (_ & HO & _). rewrite HO by assumption.
        apply Uinv_publish. apply HU2.
  Qed.

  (* ---------- the end of a transfer ---------- *)
  Lemma is_added_ext s s' toi : files s' = files s -> (forall u, oo s' u = oo s u) -> is_added s' toi = is_added s toi.
  Proof.
    intros HF HO. unfold is_added, find_file. rewrite HF. f_equal. clear HF.
    induction (files s) as [|f l IH]; cbn [find]; [reflexivity|].
    rewrite !toi_of_oo, HO. destruct (o_toi (oo s f) =? toi); [reflexivity|assumption].
  Qed.

  Lemma remove_toi_ext s s' toi l : (forall u, oo s' u = oo s u) -> remove_toi s' toi l = remove_toi s toi l.
  Proof.
    intros HO. unfold remove_toi. apply filter_ext. intros u. rewrite !toi_of_oo, HO. reflexivity.
  Qed.

  Definition expired_at (s : st) (u : nat) : bool :=
    if cnt s u <? o_max (oo s u) then false else negb (car_some (o_car (oo s u))).

  Lemma transfer_done_spec u now s : let s' := transfer_done u now s in
    ext s s' /\ (forall v, v <> u -> cnt s' v = cnt s v /\ tot s' v = tot s v)
    /\ ((u < length (objs s))%nat -> cnt s' u = cnt s u + 1 /\ tot s' u = tot s u + 1)
    /\ fdtq s' = fdtq s /\ (cur_fdt s' = cur_fdt s \/ cur_fdt s' = None)
    /\ ((toi_of s u = 0 /\ files s' = files s /\ queue s' = queue s)
        \/ (toi_of s u <> 0 /\ is_added s (toi_of s u) = false /\ files s' = files s /\ queue s' = queue s)
        \/ (toi_of s u <> 0 /\ is_added s (toi_of s u) = true /\ expired_at s' u = false
            /\ files s' = files s /\ queue s' = queue s ++ [u])
        \/ (toi_of s u <> 0 /\ is_added s (toi_of s u) = true /\ expired_at s' u = true
            /\ files s' = remove_toi s (toi_of s u) (files s) /\ queue s' = queue s)).
  Proof.
    unfold transfer_done.
    set (s1 := upd_t s u (t_done now)).
    assert (HO : forall v, oo s1 v = oo s v) by (intros v; apply oo_upd_t).
    assert (E1 : ext s s1) by apply ext_upd_t.
    assert (C1 : forall v, v <> u -> cnt s1 v = cnt s v /\ tot s1 v = tot s v).
    { intros v Hv. split; [apply cnt_upd_t_neq|apply tot_upd_t_neq]; assumption. }
    assert (C2 : (u < length (objs s))%nat -> cnt s1 u = cnt s u + 1 /\ tot s1 u = tot s u + 1).
    { intros Hu. destruct (cnt_tot_upd_t_eq s u (t_done now) Hu) as [A B]. unfold s1. rewrite A, B. split; reflexivity. }
    assert (Hcore : forall s', objs s' = objs s1 -> squeues s' = squeues s1 -> fdt_session s' = fdt_session s1 ->
      ext s s' /\ (forall v, v <> u -> cnt s' v = cnt s v /\ tot s' v = tot s v)
      /\ ((u < length (objs s))%nat -> cnt s' u = cnt s u + 1 /\ tot s' u = tot s u + 1)).
    { intros s' Ho Hq Hf. split; [|split].
      - destruct E1 as (A & B & C & D). unfold ext, oo, obj in *. rewrite Ho, Hq, Hf. auto.
      - intros v Hv. unfold cnt, tot, obj in *. rewrite Ho. apply C1. assumption.
      - intros Hu. unfold cnt, tot, obj in *. rewrite Ho. apply C2. assumption. }
    change (o_toi (f_o (obj s1 u))) with (toi_of s1 u).
    assert (Ht : toi_of s1 u = toi_of s u) by (rewrite !toi_of_oo, HO; reflexivity).
    rewrite Ht.
    destruct (N.eqb_spec (toi_of s u) 0) as [E0|E0].
    - destruct (is_expired (obj s1 u)); cbv zeta.
      + destruct (Hcore (set_cur_fdt s1 None) eq_refl eq_refl eq_refl) as (A & B & C).
        split; [exact A|]. split; [exact B|]. split; [exact C|]. split; [reflexivity|].
        split; [right; reflexivity|]. left. repeat split; auto.
      + destruct (Hcore s1 eq_refl eq_refl eq_refl) as (A & B & C).
        split; [exact A|]. split; [exact B|]. split; [exact C|]. split; [reflexivity|].
        split; [left; reflexivity|]. left. repeat split; auto.
    - set (s2 := log_ev s1 (EvStop (toi_of s u))).
      assert (Ha : is_added s2 (toi_of s u) = is_added s (toi_of s u)).
      { apply is_added_ext; [reflexivity|]. intros v. apply HO. }
      rewrite Ha. cbv zeta.
      destruct (is_added s (toi_of s u)) eqn:Ead; cbn [negb].
      + change (is_expired (obj s1 u)) with (expired_at s1 u).
        destruct (expired_at s1 u) eqn:Eex; cbn [negb].
        * destruct (Hcore (set_files s2 (remove_toi s2 (toi_of s u) (files s2))) eq_refl eq_refl eq_refl) as (A & B & C).
          split; [exact A|]. split; [exact B|]. split; [exact C|]. split; [reflexivity|].
          split; [left; reflexivity|]. right. right. right.
          split; [assumption|]. split; [reflexivity|]. split; [exact Eex|]. split; [|reflexivity].
          cbn [files set_files]. apply remove_toi_ext. intros v. apply HO.
        * destruct (Hcore (set_queue s2 (queue s2 ++ [u])) eq_refl eq_refl eq_refl) as (A & B & C).
          split; [exact A|]. split; [exact B|]. split; [exact C|]. split; [reflexivity|].
          split; [left; reflexivity|]. right. right. left.
          split; [assumption|]. split; [reflexivity|]. split; [exact Eex|]. split; reflexivity.
      + destruct (Hcore s2 eq_refl eq_refl eq_refl) as (A & B & C).
        split; [exact A|]. split; [exact B|]. split; [exact C|]. split; [reflexivity|].
        split; [left; reflexivity|]. right. left. repeat split; auto.
  Qed.

  Lemma Uinv_done_assemble g rest s s' ss u e x p :
    Uinv g (ss :: rest) s -> ss_file ss = Some u -> ss_enc ss = Some e -> In (x, u) g ->
    (length (objs s) <= length (objs s'))%nat ->
    (forall v, In v (map snd g) -> oo s' v = oo s v) ->
    (forall v, v <> u -> cnt s' v = cnt s v /\ tot s' v = tot s v) ->
    (forall v, In v (map snd g) -> v <> u -> (In v (files s') <-> In v (files s))) ->
    (forall v, In v (files s') -> In v (files s)) ->
    (queue s' = queue s \/ queue s' = queue s ++ [u]) ->
    oinv P x (oo s u) (cnt s' u) (tot s' u) (In u (files s')) (In u (queue s')) none_e ->
    Uinv g (mk_session p false None None :: rest) s'.
  Proof.
    intros HU Hf He Hxu HL HO HC HFo HFsub HQ Hou.
    destruct (holds_head _ _ _ _ _ _ HU Hf He) as (Hh & Hnq & Hnr & Hug).
    pose proof HU as (ND1 & ND2 & Hm & Hent & Hwf).
    assert (Hs : sfiles (ss :: rest) = u :: sfiles rest).
    { rewrite sfiles_cons. unfold sfile. rewrite Hf. reflexivity. }
    set (idle := mk_session p false None None).
    assert (Hs' : sfiles (idle :: rest) = sfiles rest) by reflexivity.
    rewrite Hs in ND2, Hm.
    unfold Uinv. split; [assumption|]. split; [|split; [|split]].
    - rewrite Hs'. destruct HQ as [->| ->].
      + eapply NoDup_remove_1. eassumption.
      + rewrite <- app_assoc. cbn [app]. assumption.
    - rewrite Hs'. intros v [Hv|[Hv|Hv]].
      + apply Hm. left. apply HFsub. assumption.
      + destruct HQ as [E|E]; rewrite E in Hv.
        * apply Hm. auto.
        * apply in_app_iff in Hv. destruct Hv as [Hv|[<-|[]]]; [apply Hm; auto|assumption].
      + apply Hm. right. right. right. assumption.
    - intros [x' v] Hin. destruct (Hent _ Hin) as [Hl Ho]. unfold entry_ok. cbn [fst snd] in *.
      split; [lia|].
      assert (Hvg : In v (map snd g)) by (apply in_map_iff; exists (x', v); auto).
      rewrite (HO v Hvg).
      destruct (Nat.eq_dec v u) as [->|Hne].
      + assert (x' = x) by (eapply Uinv_id_entry; eassumption). subst x'.
        eapply oinv_iff; [exact Hou|reflexivity|reflexivity|].
        intros e0. split; [intros []|]. intros H. apply Hnr. rewrite <- Hs'. eapply holds_in_sfiles; eassumption.
      + destruct (HC v Hne) as [Ec Et]. rewrite Ec, Et.
        eapply oinv_iff; [exact Ho| | |].
        * symmetry. apply HFo; assumption.
        * destruct HQ as [->| ->]; [reflexivity|]. rewrite in_app_iff. cbn [In].
          split; [auto|]. intros [H|[H|[]]]; [assumption|congruence].
        * intros e0. apply holds_other; [cbn; discriminate|rewrite Hf; congruence].
    - constructor; [|inversion Hwf; assumption]. split; [reflexivity|]. left. auto.
  Qed.

  Lemma expired_at_false s u : expired_at s u = false ->
    car_some (o_car (oo s u)) = false -> cnt s u < o_max (oo s u).
  Proof.
    unfold expired_at. intros H Hc. destruct (N.ltb_spec (cnt s u) (o_max (oo s u))); [assumption|].
    rewrite Hc in H. discriminate.
  Qed.

  Lemma Uinv_done g rest fs s ss u e e' now p :
    Uinv g (ss :: rest) s -> Finv g fs s -> ss_file ss = Some u -> ss_enc ss = Some e ->
    enc_read (can_be_stopped (obj s u) && negb (is_added s (toi_of s u))) e = (None, e') ->
    Uinv g (mk_session p false None None :: rest) (transfer_done u now s)
    /\ Finv g fs (transfer_done u now s) /\ ext s (transfer_done u now s).
  Proof.
    intros HU HFi Hf He Hr.
    destruct (holds_head _ _ _ _ _ _ HU Hf He) as (Hh & Hnq & Hnr & Hug).
    destruct (in_ids _ _ Hug) as [x Hxu].
    pose proof HU as (ND1 & ND2 & Hm & Hent & Hwf).
    destruct (Hent _ Hxu) as [Hl Ho]. cbn [fst snd] in Hl, Ho.
    destruct (transfer_done_spec u now s) as (Hext & Hoth & Hu & Hfq & Hcur & Hcases).
    set (s' := transfer_done u now s) in *.
    destruct (Hu Hl) as [Ec Et].
    assert (HOu : oo s' u = oo s u) by (apply Hext; assumption).
    split; [|split; [|assumption]].
    2:{ eapply Finv_frame; [exact HFi|exact Hext|].
        intros c Hc. unfold fdt_ids in *. rewrite Hfq in Hc.
        rewrite !in_app_iff in *. destruct Hc as [Hc|[Hc|Hc]]; auto.
        destruct Hcur as [E|E]; rewrite E in Hc; [auto|destruct Hc]. }
    assert (Ho1 : oinv P x (oo s u) (cnt s u) (tot s u) (In u (files s)) False (eq e)).
    { eapply oinv_iff; [exact Ho|reflexivity| |].
      - split; [assumption|intros []].
      - intros e0. rewrite Hh. reflexivity. }
    pose proof Ho1 as (_ & _ & _ & Hnc & _).
    assert (Hnc' : car_some (o_car (oo s u)) = false -> cnt s' u = tot s' u).
    { intros Hc. rewrite Ec, Et, (Hnc Hc). reflexivity. }
    pose proof (is_added_user _ _ _ _ _ HU Hxu) as Hadd.
    assert (Hgen : forall (HFo : forall v, In v (map snd g) -> v <> u -> (In v (files s') <-> In v (files s)))
                          (HFsub : forall v, In v (files s') -> In v (files s))
                          (HQ : queue s' = queue s \/ queue s' = queue s ++ [u]),
               oinv P x (oo s u) (cnt s' u) (tot s' u) (In u (files s')) (In u (queue s')) none_e ->
               Uinv g (mk_session p false None None :: rest) s').
    { intros HFo HFsub HQ Hou. eapply Uinv_done_assemble; try eassumption.
      - apply Hext.
      - intros v Hv. apply Hext. eapply Uinv_ids_lt; eassumption. }
    destruct (in_dec Nat.eq_dec u (files s)) as [HF|HF].
    - (* still listed: the transfer ran to its end *)
      assert (Ea : is_added s (toi_of s u) = true) by (apply Hadd; assumption).
      rewrite Ea, andb_false_r in Hr.
      assert (Ho2 : oinv P x (oo s u) (cnt s u) (tot s u) True False (eq e)).
      { eapply oinv_iff; [exact Ho1| |reflexivity|reflexivity]. split; auto. }
      destruct Hcases as [(Ht0 & EF & EQ)|[(Ht0 & Ea' & _)|[(Ht0 & _ & Eex & EF & EQ)|(Ht0 & _ & Eex & EF & EQ)]]].
      + apply Hgen; [intros; rewrite EF; reflexivity|intros v; rewrite EF; auto|left; assumption|].
        rewrite Ec, Et, EF, EQ.
        eapply oinv_iff; [eapply (oinv_done_live P _ _ _ _ _ _ False); [exact Ho2|exact Hr| |]| | |].
        * intros [].
        * intros _. rewrite <- toi_of_oo. assumption.
        * split; auto.
        * split; [intros []|assumption].
        * reflexivity.
      + congruence.
      + apply Hgen; [intros; rewrite EF; reflexivity|intros v; rewrite EF; auto|right; assumption|].
        rewrite Ec, Et, EF, EQ.
        eapply oinv_iff; [eapply (oinv_done_live P _ _ _ _ _ _ True); [exact Ho2|exact Hr| |]| | |].
        * intros _ Hc. rewrite <- Ec, <- HOu. apply expired_at_false; [assumption|]. rewrite HOu. assumption.
        * intros A. exfalso. apply A. exact I.
        * split; auto.
        * split; [intros _|auto]. apply in_app_iff. right. left. reflexivity.
        * reflexivity.
      + assert (Hnu : ~ In u (files s')).
        { rewrite EF. rewrite in_remove_toi. intros [_ A]. apply A. reflexivity. }
        apply Hgen.
        * intros v Hv Hne. rewrite EF, in_remove_toi. split; [intros [A _]; assumption|].
          intros A. split; [assumption|]. intros E. apply Hne.
          destruct (in_ids _ _ Hv) as [x' Hx'].
          assert (E2 : (x', v) = (x, u)) by (eapply Uinv_toi_inj; eassumption). congruence.
        * intros v. rewrite EF, in_remove_toi. intros [A _]; assumption.
        * left; assumption.
        * eapply oinv_iff; [eapply (oinv_inert P x x); [exact Ho2|apply Ho2|exact Hnc']| | |].
          -- split; [intros []|assumption].
          -- rewrite EQ. split; [intros []|assumption].
          -- reflexivity.
    - (* removed while in transmission *)
      assert (Ea : is_added s (toi_of s u) = false).
      { destruct (is_added s (toi_of s u)) eqn:E; [|reflexivity]. exfalso. apply HF, Hadd. reflexivity. }
      assert (Hin : files s' = files s -> queue s' = queue s -> Uinv g (mk_session p false None None :: rest) s').
      { intros EF EQ.
        apply Hgen; [intros; rewrite EF; reflexivity|intros v; rewrite EF; auto|left; assumption|].
        rewrite EF, EQ.
        eapply oinv_iff; [eapply (oinv_inert P x x); [exact Ho1|apply Ho1|exact Hnc']| | |].
        - split; [intros []|assumption].
        - split; [intros []|assumption].
        - reflexivity. }
      destruct Hcases as [(Ht0 & EF & EQ)|[(Ht0 & Ea' & EF & EQ)|[(Ht0 & Ea' & _)|(Ht0 & Ea' & _)]]].
      + apply Hin; assumption.
      + apply Hin; assumption.
      + congruence.
      + congruence.
  Qed.

  (* ---------- a packet ---------- *)
  Definition gstep (g : ghost) (o : rout) : ghost :=
    match o with RObj toi _ => upd_g toi bump g | _ => g end.
  Definition mon_ok (g : ghost) (o : rout) : Prop :=
    match o with RObj toi c => exists x, find_obj toi (gl g) = Some x /\ chk x c = true | _ => True end.

  Lemma mon_ok_step g o now n ls : mon_ok g o ->
    c12_step (gl g) (TRead now o n ls) = (true, gl (gstep g o)).
  Proof.
    destruct o; try reflexivity. cbn [mon_ok gstep]. intros (x & Hf & Hc).
    rewrite (c12_step_read _ _ _ _ _ _ _ Hf), Hc, upd_obj_gl. reflexivity.
  Qed.

  Lemma gstep_tois g o : tois (gstep g o) = tois g.
  Proof. destruct o; try reflexivity. cbn [gstep]. apply upd_g_tois. reflexivity. Qed.
  Lemma gstep_ids g o : map snd (gstep g o) = map snd g.
  Proof. destruct o; try reflexivity. cbn [gstep]. apply upd_g_ids. Qed.

  Lemma Uinv_packet_assemble g g' rest s ss u e e' x xnew p :
    Uinv g (ss :: rest) s -> ss_file ss = Some u -> ss_enc ss = Some e -> In (x, u) g ->
    tois g' = tois g -> map snd g' = map snd g ->
    (forall x' v, In (x', v) g' -> exists x0, In (x0, v) g /\ ((v = u /\ x' = xnew) \/ (v <> u /\ x' = x0))) ->
    oinv P xnew (oo s u) (cnt s u) (tot s u) (In u (files s)) False (eq e') ->
    Uinv g' (mk_session p false (Some u) (Some e') :: rest) (upd_t s u t_tickf).
  Proof.
    intros HU Hf He Hxu Ht Hi Hg' Hou.
    destruct (holds_head _ _ _ _ _ _ HU Hf He) as (Hh & Hnq & Hnr & Hug).
    pose proof HU as (ND1 & ND2 & Hm & Hent & Hwf).
    assert (Hs : sfiles (ss :: rest) = u :: sfiles rest).
    { rewrite sfiles_cons. unfold sfile. rewrite Hf. reflexivity. }
    set (new := mk_session p false (Some u) (Some e')).
    assert (Hs' : sfiles (new :: rest) = u :: sfiles rest) by reflexivity.
    set (s' := upd_t s u t_tickf).
    assert (HC : forall v, (v < length (objs s))%nat -> cnt s' v = cnt s v /\ tot s' v = tot s v).
    { intros v Hv. destruct (Nat.eq_dec v u) as [->|Hne].
      - destruct (cnt_tot_upd_t_eq s u t_tickf Hv) as [A B]. unfold s'. rewrite A, B.
        destruct (t_tickf_spec (f_t (obj s u))) as [C D]. rewrite C, D. split; reflexivity.
      - unfold s'. rewrite cnt_upd_t_neq, tot_upd_t_neq by assumption. split; reflexivity. }
    unfold Uinv. rewrite Ht, Hi, Hs'. change (queue s') with (queue s). change (files s') with (files s).
    rewrite <- Hs. split; [assumption|]. split; [assumption|]. split; [assumption|]. split.
    - intros [x' v] Hin. destruct (Hg' _ _ Hin) as (x0 & Hin0 & Hx').
      destruct (Hent _ Hin0) as [Hl Ho]. unfold entry_ok. cbn [fst snd] in *.
      split; [unfold s'; rewrite len_upd_t; exact Hl|].
      change (queue s') with (queue s). change (files s') with (files s).
      unfold s' at 1. rewrite oo_upd_t. destruct (HC v Hl) as [A B]. rewrite A, B.
      destruct Hx' as [[-> ->]|[Hne ->]].
      + eapply oinv_iff; [exact Hou|reflexivity| |].
        * split; [intros []|assumption].
        * intros e0. unfold new. rewrite holds_cons. cbn [ss_file ss_enc]. split.
          -- intros <-. left. auto.
          -- intros [[_ H]|H]; [congruence|]. exfalso. apply Hnr. eapply holds_in_sfiles; eassumption.
      + eapply oinv_iff; [exact Ho|reflexivity|reflexivity|].
        intros e0. apply holds_other; [cbn; congruence|rewrite Hf; congruence].
    - constructor; [|inversion Hwf; assumption]. split; [reflexivity|]. right. cbn. eauto.
  Qed.

  Lemma Uinv_packet g rest s ss u e e' close p :
    Uinv g (ss :: rest) s -> ss_file ss = Some u -> ss_enc ss = Some e ->
    enc_read (can_be_stopped (obj s u) && negb (is_added s (toi_of s u))) e = (Some close, e') ->
    let out := match o_fdtid (oo s u) with Some fid => RFdt fid close | None => RObj (toi_of s u) close end in
    mon_ok g out /\ Uinv (gstep g out) (mk_session p false (Some u) (Some e') :: rest) (upd_t s u t_tickf).
  Proof.
    intros HU Hf He Hr.
    destruct (holds_head _ _ _ _ _ _ HU Hf He) as (Hh & Hnq & Hnr & Hug).
    destruct (in_ids _ _ Hug) as [x Hxu].
    pose proof HU as (ND1 & ND2 & Hm & Hent & Hwf).
    destruct (Hent _ Hxu) as [Hl Ho]. cbn [fst snd] in Hl, Ho.
    assert (Ho1 : oinv P x (oo s u) (cnt s u) (tot s u) (In u (files s)) False (eq e)).
    { eapply oinv_iff; [exact Ho|reflexivity| |].
      - split; [assumption|intros []].
      - intros e0. rewrite Hh. reflexivity. }
    pose proof (is_added_user _ _ _ _ _ HU Hxu) as Hadd.
    assert (Hres : (vis (oo s u) -> chk x close = true
                     /\ oinv P (bump x) (oo s u) (cnt s u) (tot s u) (In u (files s)) False (eq e'))
                   /\ (~ vis (oo s u) -> oinv P x (oo s u) (cnt s u) (tot s u) (In u (files s)) False (eq e'))).
    { destruct (in_dec Nat.eq_dec u (files s)) as [HF|HF].
      - assert (Ea : is_added s (toi_of s u) = true) by (apply Hadd; assumption).
        rewrite Ea, andb_false_r in Hr.
        assert (Ho2 : oinv P x (oo s u) (cnt s u) (tot s u) True False (eq e)).
        { eapply oinv_iff; [exact Ho1| |reflexivity|reflexivity]. split; auto. }
        destruct (oinv_packet_live P _ _ _ _ _ _ _ Ho2 Hr) as [A B]. split.
        + intros Hv. destruct (A Hv) as [A1 A2]. split; [assumption|].
          eapply oinv_iff; [exact A2| |reflexivity|reflexivity]. split; auto.
        + intros Hv. eapply oinv_iff; [exact (B Hv)| |reflexivity|reflexivity]. split; auto.
      - assert (Ea : is_added s (toi_of s u) = false).
        { destruct (is_added s (toi_of s u)) eqn:E; [|reflexivity]. exfalso. apply HF, Hadd. reflexivity. }
        rewrite Ea in Hr. cbn [negb] in Hr. rewrite andb_true_r in Hr.
        change (can_be_stopped (obj s u)) with (stoppable (oo s u) (tot s u)) in Hr.
        assert (Ho2 : oinv P x (oo s u) (cnt s u) (tot s u) False False (eq e)).
        { eapply oinv_iff; [exact Ho1| |reflexivity|reflexivity]. split; [assumption|intros []]. }
        destruct (oinv_packet_dead P _ _ _ _ _ _ _ Ho2 Hr) as [A B]. split.
        + intros Hv. destruct (A Hv) as [A1 A2]. split; [assumption|].
          eapply oinv_iff; [exact A2| |reflexivity|reflexivity]. split; [intros []|assumption].
        + intros Hv. eapply oinv_iff; [exact (B Hv)| |reflexivity|reflexivity]. split; [intros []|assumption]. }
    destruct Hres as [Hvis Hnvis]. unfold vis in *.
    destruct (o_fdtid (oo s u)) as [fid|] eqn:Efid; cbv zeta.
    - split; [exact I|]. cbn [gstep].
      eapply Uinv_packet_assemble; try eassumption; try reflexivity.
      + intros x' v Hin. exists x'. split; [assumption|].
        destruct (Nat.eq_dec v u) as [->|Hne]; [left|right; auto].
        split; [reflexivity|]. eapply Uinv_id_entry; eassumption.
      + apply Hnvis. discriminate.
    - destruct (Hvis eq_refl) as [Hchk Hob].
      pose proof (Uinv_static _ _ _ _ _ HU Hxu) as (Stoi & _).
      split.
      + cbn [mon_ok]. exists x. split; [|assumption]. rewrite toi_of_oo, <- Stoi.
        eapply find_obj_gl; eassumption.
      + cbn [gstep].
        eapply Uinv_packet_assemble; try eassumption.
        * apply upd_g_tois. reflexivity.
        * apply upd_g_ids.
        * intros x' v Hin. destruct (upd_g_in _ _ _ _ _ ND1 Hin) as (x0 & Hin0 & Hx0).
          exists x0. split; [assumption|]. destruct Hx0 as [[Et ->]|[Et ->]].
          -- left. assert (E2 : (x0, v) = (x, u)).
             { apply (NoDup_map_inj (fun p : c12obj * nat => x_toi (fst p)) g); auto.
               cbn [fst]. rewrite Et, Stoi, toi_of_oo. reflexivity. }
             injection E2 as -> ->. auto.
          -- right. split; [|reflexivity]. intros ->.
             assert (x0 = x) by (eapply Uinv_id_entry; eassumption). subst x0.
             apply Et. rewrite Stoi, toi_of_oo. reflexivity.
  Qed.

  (* ---------- one run of a file session ---------- *)
  Lemma file_get_phase g ss rest fs now s : fwf ss -> Uinv g (ss :: rest) s -> Finv g fs s ->
    match (match ss_enc ss with
           | None => get_next fdt_npk fdt_ok divf ss now s
           | Some _ => ROk _ (ss, s)
           end) with
    | RPanicked _ => True
    | ROk _ (ss1, s1) => fwf ss1 /\ Uinv g (ss1 :: rest) s1 /\ Finv g fs s1 /\ ext s s1
    end.
  Proof.
    intros [Hfo Hwf] HU HFi. destruct (ss_enc ss) as [e|] eqn:He.
    - split; [split; assumption|]. split; [assumption|]. split; [assumption|apply ext_refl].
    - destruct Hwf as [[Hf _]|(u & e & _ & He')]; [|congruence].
      unfold get_next. rewrite Hfo.
      destruct (get_next_file_transfer fdt_npk fdt_ok divf (ss_prio ss) now s) as [[[id|] s1]|] eqn:Eg; [| |exact I].
      + destruct (gnft_inv _ _ _ _ _ _ _ _ _ HU HFi Hf He Eg) as (E1 & F1 & U1).
        split; [|split; [|split]]; [|apply U1|assumption|assumption].
        split; [reflexivity|]. right. cbn. eauto.
      + destruct (gnft_inv _ _ _ _ _ _ _ _ _ HU HFi Hf He Eg) as (E1 & F1 & U1).
        assert (Ess : mk_session (ss_prio ss) false None None = ss).
        { destruct ss; cbn in *; subst; reflexivity. }
        rewrite Ess. split; [|split; [|split]]; auto. split; [assumption|]. left. auto.
  Qed.

  Lemma file_session_run_inv : forall fuel g ss rest fs now s o ss' s',
    fwf ss -> Uinv g (ss :: rest) s -> Finv g fs s ->
    session_run fdt_npk fdt_ok divf fuel ss now s = (o, ss', s') ->
    mon_ok g o /\ Uinv (gstep g o) (ss' :: rest) s' /\ Finv (gstep g o) fs s' /\ ext s s'.
  Proof.
    induction fuel as [|f IH]; intros g ss rest fs now s o ss' s' Hw HU HFi H; cbn [session_run] in H.
    - injection H as <- <- <-. split; [exact I|]. split; [assumption|]. split; [assumption|apply ext_refl].
    - pose proof (file_get_phase g ss rest fs now s Hw HU HFi) as Hg.
      destruct (match ss_enc ss with
                | None => get_next fdt_npk fdt_ok divf ss now s
                | Some _ => ROk _ (ss, s)
                end) as [[ss1 s1]|].
      2:{ injection H as <- <- <-. split; [exact I|]. split; [assumption|]. split; [assumption|apply ext_refl]. }
      destruct Hg as ([Hfo1 Hwf1] & U1 & F1 & E1).
      rewrite Hfo1 in H. cbn [negb andb] in H.
      destruct (negb (Nat.eqb (length (fdtq s1)) 0)).
      { injection H as <- <- <-. split; [exact I|]. split; [assumption|]. split; assumption. }
      destruct Hwf1 as [[Hf1 He1]|(u & e & Hf1 & He1)]; rewrite He1 in H; try rewrite Hf1 in H.
      { injection H as <- <- <-. split; [exact I|]. split; [assumption|]. split; assumption. }
      destruct (match t_next_ts (f_t (obj s1 u)) with Some ts => (now <? ts)%Z | None => false end).
      { injection H as <- <- <-. split; [exact I|]. split; [assumption|]. split; assumption. }
      destruct (enc_read (can_be_stopped (obj s1 u) && negb (is_added s1 (o_toi (f_o (obj s1 u))))) e)
        as [[close|] e'] eqn:Hr.
      + injection H as <- <- <-.
        destruct (Uinv_packet g rest s1 ss1 u e e' close (ss_prio ss1) U1 Hf1 He1 Hr) as [M U2].
        cbv zeta in M, U2.
        change (o_fdtid (f_o (obj s1 u))) with (o_fdtid (oo s1 u)).
        change (o_toi (f_o (obj s1 u))) with (toi_of s1 u).
        split; [exact M|]. split; [exact U2|]. split.
        * eapply Finv_ghost; [apply gstep_ids|].
          eapply Finv_frame; [exact F1|apply ext_upd_t|]. intros c Hc. exact Hc.
        * eapply ext_trans; [exact E1|apply ext_upd_t].
      + destruct (Uinv_done g rest fs s1 ss1 u e e' now (ss_prio ss1) U1 F1 Hf1 He1 Hr) as (U2 & F2 & E2).
        apply (IH g _ rest fs) in H; [|split; [reflexivity|left; auto]|exact U2|exact F2].
        destruct H as (M & U3 & F3 & E3). split; [assumption|]. split; [assumption|]. split; [assumption|].
        eapply ext_trans; [exact E1|]. eapply ext_trans; eassumption.
  Qed.

  (* ---------- the FDT session ---------- *)
  Lemma Uinv_upd_nonuser g sl s c G : Uinv g sl s -> ~ In c (map snd g) -> Uinv g sl (upd_t s c G).
  Proof.
    intros HU Hc. apply (Uinv_frame g sl s); auto.
    - rewrite len_upd_t. lia.
    - intros u Hu. assert (u <> c) by congruence.
      rewrite oo_upd_t, cnt_upd_t_neq, tot_upd_t_neq by assumption. auto.
  Qed.

  Lemma Finv_upd_t g fs s c G : Finv g fs s -> Finv g fs (upd_t s c G).
  Proof. intros HF. eapply Finv_frame; [exact HF|apply ext_upd_t|]. intros c0 Hc0. exact Hc0. Qed.

  Lemma Finv_session g fs fs' s : Finv g fs s -> ss_fdt_only fs' = true -> swf fs' ->
    (forall c, In c (sfile fs') -> In c (fdt_ids fs s)) -> Finv g fs' s.
  Proof.
    intros (H1 & H2 & H3) Hfo Hwf Hsub. split; [assumption|]. split; [assumption|].
    intros c Hc. apply H3. unfold fdt_ids in *. rewrite !in_app_iff in *.
    destruct Hc as [Hc|[Hc|Hc]]; auto. specialize (Hsub c Hc). rewrite !in_app_iff in Hsub. assumption.
  Qed.

  Lemma gnfdt_inv g sl fs now s r s1 : Uinv g sl s -> Finv g fs s ->
    get_next_fdt_transfer fdt_npk fdt_ok divf now s = ROk _ (r, s1) ->
    ext s s1 /\ Uinv g sl s1 /\ Finv g fs s1 /\
    match r with None => True | Some c => In c (fdt_ids fs s1) end.
  Proof.
    intros HU HFi. unfold get_next_fdt_transfer.
    destruct (match cur_fdt s with Some c => t_transferring (f_t (obj s c)) | None => false end).
    { intros H. injection H as <- <-. split; [apply ext_refl|]. auto. }
    set (s1' := if current_fdt_will_expire now s then snd (publish fdt_npk fdt_ok now s) else s).
    assert (H1 : ext s s1' /\ Uinv g sl s1' /\ Finv g fs s1').
    { unfold s1'. destruct (current_fdt_will_expire now s).
      - destruct (publish_spec now s) as (_ & _ & _ & Hext & _).
        split; [assumption|]. split; [apply Uinv_publish; assumption|eapply Finv_publish; eassumption].
      - split; [apply ext_refl|]. auto. }
    destruct H1 as (E1 & U1 & F1).
    set (s2 := match fdtq s1' with [] => s1' | x :: r0 => set_cur_fdt (set_fdtq s1' r0) (Some x) end).
    assert (H2 : ext s s2 /\ Uinv g sl s2 /\ Finv g fs s2).
    { unfold s2. destruct (fdtq s1') as [|x r0] eqn:Eq; [auto|].
      split; [|split].
      - eapply ext_trans; [exact E1|]. repeat split; auto.
      - apply (Uinv_frame g sl s1'); auto.
      - eapply Finv_frame; [exact F1|repeat split; auto|].
        intros c Hc. unfold fdt_ids in *. cbn [fdtq cur_fdt set_cur_fdt set_fdtq] in Hc. rewrite Eq.
        rewrite !in_app_iff in *. cbn [In] in *. destruct Hc as [Hc|[[Hc|[]]|Hc]]; auto. }
    destruct H2 as (E2 & U2 & F2). clearbody s2. clear s1' E1 U1 F1.
    destruct (cur_fdt s2) as [c|] eqn:Ec.
    2:{ intros H. injection H as <- <-. auto. }
    destruct (should_transfer_now (obj s2 c) 0 (full_fdt s2) now).
    2:{ intros H. injection H as <- <-. auto. }
    unfold transfer_started. destruct (t_init divf (f_o (obj s2 c)) now (f_t (obj s2 c))) as [t'|]; [|discriminate].
    intros H. injection H as <- <-.
    assert (Hc : In c (fdt_ids fs s2)).
    { unfold fdt_ids. rewrite Ec. apply in_app_iff. right. left. reflexivity. }
    destruct F2 as (A & B & C). destruct (C c Hc) as (Hl & Hng & _).
    split; [eapply ext_trans; [exact E2|apply ext_upd_t]|].
    split; [apply Uinv_upd_nonuser; assumption|].
    split; [apply Finv_upd_t; split; [assumption|split; assumption]|exact Hc].
  Qed.

  Lemma fdt_session_run_inv : forall fuel g sl fs now s o fs' s',
    Uinv g sl s -> Finv g fs s ->
    session_run fdt_npk fdt_ok divf fuel fs now s = (o, fs', s') ->
    (forall toi c, o <> RObj toi c) /\ Uinv g sl s' /\ Finv g fs' s' /\ ext s s'.
  Proof.
    induction fuel as [|f IH]; intros g sl fs now s o fs' s' HU HFi H; cbn [session_run] in H.
    - injection H as <- <- <-. split; [discriminate|]. split; [assumption|]. split; [assumption|apply ext_refl].
    - pose proof HFi as (Hfo & Hwf & Hids).
      assert (Hg : match (match ss_enc fs with
                          | None => get_next fdt_npk fdt_ok divf fs now s
                          | Some _ => ROk _ (fs, s)
                          end) with
                   | RPanicked _ => True
                   | ROk _ (fs1, s1) => Uinv g sl s1 /\ Finv g fs1 s1 /\ ext s s1
                   end).
      { destruct (ss_enc fs) as [e|] eqn:He.
        - split; [assumption|]. split; [assumption|apply ext_refl].
        - unfold get_next. rewrite Hfo.
          destruct (get_next_fdt_transfer fdt_npk fdt_ok divf now s) as [[[c|] s1]|] eqn:Eg; [| |exact I].
          + destruct (gnfdt_inv _ _ _ _ _ _ _ HU HFi Eg) as (E1 & U1 & F1 & Hc).
            split; [assumption|]. split; [|assumption].
            eapply Finv_session; [exact F1|reflexivity|right; cbn; eauto|].
            intros c0 [<-|[]]. exact Hc.
          + destruct (gnfdt_inv _ _ _ _ _ _ _ HU HFi Eg) as (E1 & U1 & F1 & _).
            split; [assumption|]. split; [|assumption].
            eapply Finv_session; [exact F1|reflexivity|left; auto|]. intros c0 []. }
      destruct (match ss_enc fs with
                | None => get_next fdt_npk fdt_ok divf fs now s
                | Some _ => ROk _ (fs, s)
                end) as [[fs1 s1]|].
      2:{ injection H as <- <- <-. split; [discriminate|]. split; [assumption|]. split; [assumption|apply ext_refl]. }
      destruct Hg as (U1 & F1 & E1).
      pose proof F1 as (Hfo1 & Hwf1 & Hids1).
      rewrite Hfo1 in H. cbn [negb andb] in H.
      destruct Hwf1 as [[Hf1 He1]|(c & e & Hf1 & He1)]; rewrite He1 in H; try rewrite Hf1 in H.
      { injection H as <- <- <-. split; [discriminate|]. split; [assumption|]. split; assumption. }
      destruct (match t_next_ts (f_t (obj s1 c)) with Some ts => (now <? ts)%Z | None => false end).
      { injection H as <- <- <-. split; [discriminate|]. split; [assumption|]. split; assumption. }
      assert (Hc : In c (fdt_ids fs1 s1)).
      { unfold fdt_ids, sfile. rewrite Hf1, !in_app_iff. right. right. left. reflexivity. }
      destruct (Hids1 c Hc) as (Hl & Hng & Hfid & Htoi).
      destruct (enc_read false e) as [[close|] e'] eqn:Hr.
      + injection H as <- <- <-.
        split.
        { intros toi c0. change (o_fdtid (f_o (obj s1 c))) with (o_fdtid (oo s1 c)).
          destruct (o_fdtid (oo s1 c)); [discriminate|congruence]. }
        split; [apply Uinv_upd_nonuser; assumption|].
        split; [|eapply ext_trans; [exact E1|apply ext_upd_t]].
        apply Finv_upd_t. eapply Finv_session; [exact F1|reflexivity|right; cbn; eauto|].
        intros c0 [<-|[]]. exact Hc.
      + destruct (transfer_done_spec c now s1) as (Hext & Hoth & _ & Hfq & Hcur & Hcases).
        set (s2 := transfer_done c now s1) in *.
        assert (EFQ : files s2 = files s1 /\ queue s2 = queue s1).
        { rewrite toi_of_oo in Hcases.
          destruct Hcases as [(_ & A & B)|[(A & _)|[(A & _)|(A & _)]]]; auto; contradiction. }
        destruct EFQ as [EF EQ].
        apply (IH g sl) in H.
        * destruct H as (M & U3 & F3 & E3). split; [assumption|]. split; [assumption|]. split; [assumption|].
          eapply ext_trans; [exact E1|]. eapply ext_trans; eassumption.
        * apply (Uinv_frame g sl s1); auto; [apply Hext|].
          intros u Hu. assert (u <> c) by congruence. destruct (Hoth u H0) as [A B].
          split; [|auto]. apply Hext. eapply Uinv_ids_lt; eassumption.
        * eapply Finv_frame; [|exact Hext|].
          -- eapply Finv_session; [exact F1|reflexivity|left; auto|]. intros c0 [].
          -- intros c0 Hc0. unfold fdt_ids in *. rewrite Hfq in Hc0. cbn [sfile ss_file] in *.
             rewrite !in_app_iff in *. destruct Hc0 as [Hc0|[Hc0|Hc0]]; auto.
             destruct Hcur as [E|E]; rewrite E in Hc0; [auto|destruct Hc0].
  Qed.

  (* ---------- Sender::read ---------- *)
  Lemma perm_pick {A} (pre a : list A) x b post :
    Permutation (pre ++ (a ++ x :: b) ++ post) (x :: (pre ++ a ++ b ++ post)).
  Proof.
    rewrite <- !app_assoc. cbn [app]. rewrite !app_assoc. rewrite <- (app_assoc (pre ++ a) b post).
    apply Permutation_sym. apply Permutation_middle.
  Qed.

  Lemma Uinv_fwf_in g sl s ss : Uinv g sl s -> In ss sl -> fwf ss.
  Proof. intros (_ & _ & _ & _ & H) Hin. rewrite Forall_forall in H. apply H. assumption. Qed.

  Lemma rr_loop_inv : forall n g q orig now s o q' s' pre post fs,
    Uinv g (pre ++ q_sessions q ++ post) s -> Finv g fs s ->
    rr_loop fdt_npk fdt_ok divf n q orig now s = (o, q', s') ->
    mon_ok g o /\ Uinv (gstep g o) (pre ++ q_sessions q' ++ post) s' /\ Finv (gstep g o) fs s' /\ ext s s'.
  Proof.
    induction n as [|n IH]; intros g q orig now s o q' s' pre post fs HU HFi H; cbn [rr_loop] in H.
    - injection H as <- <- <-. split; [exact I|]. split; [assumption|]. split; [assumption|apply ext_refl].
    - destruct (nth_error (q_sessions q) (q_index q)) as [ss|] eqn:En.
      2:{ injection H as <- <- <-. split; [exact I|]. split; [assumption|]. split; [assumption|apply ext_refl]. }
      destruct (session_run fdt_npk fdt_ok divf 4 ss now s) as [[o1 ss1] s1] eqn:Er.
      destruct (nth_error_split_upd _ _ _ ss1 En) as (a & b & Eq & Eu).
      rewrite Eu in H. rewrite Eq in HU.
      assert (Hw : fwf ss).
      { eapply Uinv_fwf_in; [exact HU|]. rewrite !in_app_iff. right. left. right. left. reflexivity. }
      apply (Uinv_perm _ _ _ _ (perm_pick pre a ss b post)) in HU.
      destruct (file_session_run_inv _ _ _ _ _ _ _ _ _ _ Hw HU HFi Er) as (M1 & U1 & F1 & E1).
      apply (Uinv_perm _ _ _ _ (Permutation_sym (perm_pick pre a ss1 b post))) in U1.
      set (q1 := mk_squeue (q_prio q)
                   (if Nat.eqb (S (q_index q)) (length (q_sessions q)) then 0%nat else S (q_index q))
                   (a ++ ss1 :: b)) in *.
      change (a ++ ss1 :: b) with (q_sessions q1) in U1.
      destruct o1; try (injection H as <- <- <-; split; [assumption|]; split; [assumption|]; split; assumption).
      destruct (Nat.eqb _ orig).
      + injection H as <- <- <-. split; [assumption|]. split; [assumption|]. split; assumption.
      + cbn [gstep] in U1, F1. apply (IH g _ _ _ _ _ _ _ pre post fs U1 F1) in H.
        destruct H as (M2 & U2 & F2 & E2). split; [assumption|]. split; [assumption|]. split; [assumption|].
        eapply ext_trans; eassumption.
  Qed.

  Lemma flat_map_mid (done : list squeue) q r :
    flat_map q_sessions (done ++ q :: r) = flat_map q_sessions done ++ q_sessions q ++ flat_map q_sessions r.
  Proof. rewrite flat_map_app. reflexivity. Qed.

  Lemma read_queues_inv : forall todo g done now s o qs s' fs,
    Uinv g (flat_map q_sessions (done ++ todo)) s -> Finv g fs s ->
    read_queues fdt_npk fdt_ok divf done todo now s = (o, qs, s') ->
    mon_ok g o /\ Uinv (gstep g o) (flat_map q_sessions qs) s' /\ Finv (gstep g o) fs s' /\ ext s s'.
  Proof.
    induction todo as [|q r IH]; intros g done now s o qs s' fs HU HFi H; cbn [read_queues] in H.
    - injection H as <- <- <-. rewrite app_nil_r in HU.
      split; [exact I|]. split; [assumption|]. split; [assumption|apply ext_refl].
    - destruct (read_priority_queue fdt_npk fdt_ok divf q now s) as [[o1 q1] s1] eqn:Er.
      unfold read_priority_queue in Er. rewrite flat_map_mid in HU.
      destruct (rr_loop_inv _ _ _ _ _ _ _ _ _ _ _ _ HU HFi Er) as (M1 & U1 & F1 & E1).
      rewrite <- flat_map_mid in U1.
      destruct o1; try (injection H as <- <- <-; split; [assumption|]; split; [assumption|]; split; assumption).
      cbn [gstep] in U1, F1.
      assert (Eapp : done ++ q1 :: r = (done ++ [q1]) ++ r) by (rewrite <- app_assoc; reflexivity).
      rewrite Eapp in U1.
      apply (IH g _ _ _ _ _ _ fs U1 F1) in H.
      destruct H as (M2 & U2 & F2 & E2). split; [assumption|]. split; [assumption|]. split; [assumption|].
      eapply ext_trans; eassumption.
  Qed.

  Definition Ginv (g : ghost) (s : st) : Prop :=
    Uinv g (flat_map q_sessions (squeues s)) s /\ Finv g (fdt_session s) s.

  Lemma run_fdt_session_inv g now s o s' : Ginv g s ->
    run_fdt_session fdt_npk fdt_ok divf now s = (o, s') ->
    (forall toi c, o <> RObj toi c) /\ Ginv g s'.
  Proof.
    intros [HU HFi]. unfold run_fdt_session.
    destruct (session_run fdt_npk fdt_ok divf 4 (fdt_session s) now s) as [[o1 fs1] s1] eqn:Er.
    intros H. injection H as <- <-.
    destruct (fdt_session_run_inv _ _ _ _ _ _ _ _ _ HU HFi Er) as (M & U1 & F1 & (_ & _ & Eq & _)).
    split; [assumption|]. split.
    - change (squeues (set_fdt_session s1 fs1)) with (squeues s1). rewrite Eq. exact U1.
    - exact F1.
  Qed.

  Lemma sender_read_inv g now s o s' : Ginv g s ->
    sender_read fdt_npk fdt_ok divf now s = (o, s') ->
    mon_ok g o /\ Ginv (gstep g o) s'.
  Proof.
    intros HG. unfold sender_read.
    destruct (run_fdt_session fdt_npk fdt_ok divf now s) as [o1 s1] eqn:E1.
    destruct (run_fdt_session_inv _ _ _ _ _ HG E1) as [N1 G1].
    assert (Hno : forall o0 sx, (forall toi c, o0 <> RObj toi c) -> Ginv g sx -> mon_ok g o0 /\ Ginv (gstep g o0) sx).
    { intros o0 sx Hn HGx. destruct o0; try (split; [exact I|exact HGx]). exfalso. eapply Hn. reflexivity. }
    destruct o1; try (intros H; injection H as <- <-; apply Hno; assumption).
    destruct (read_queues fdt_npk fdt_ok divf [] (squeues s1) now s1) as [[o2 qs] s2] eqn:E2.
    destruct G1 as [U1 F1].
    destruct (read_queues_inv (squeues s1) g [] _ _ _ _ _ _ U1 F1 E2) as (M2 & U2 & F2 & (_ & _ & _ & Efs)).
    assert (G3 : Ginv (gstep g o2) (set_squeues s2 qs)).
    { split; [exact U2|]. change (fdt_session (set_squeues s2 qs)) with (fdt_session s2). rewrite Efs. exact F2. }
    destruct o2; try (intros H; injection H as <- <-; split; assumption).
    cbn [gstep] in G3.
    intros H. destruct (run_fdt_session_inv _ _ _ _ _ G3 H) as [N3 G4]. apply Hno; assumption.
  Qed.

  (* ---------- API operations ---------- *)
  Lemma holds_unique sl u e e0 : NoDup (sfiles sl) -> holds sl u e -> holds sl u e0 -> e = e0.
  Proof.
    induction sl as [|ss rest IH]; intros ND H1 H2.
    - destruct H1 as (ss & [] & _).
    - rewrite sfiles_cons in ND. rewrite holds_cons in H1, H2.
      destruct H1 as [[F1 E1]|H1], H2 as [[F2 E2]|H2].
      + congruence.
      + exfalso. apply (NoDup_app_disj _ _ u ND); [unfold sfile; rewrite F1; left; reflexivity|].
        eapply holds_in_sfiles; eassumption.
      + exfalso. apply (NoDup_app_disj _ _ u ND); [unfold sfile; rewrite F2; left; reflexivity|].
        eapply holds_in_sfiles; eassumption.
      + apply IH; auto. eapply NoDup_app_r; eassumption.
  Qed.

  Lemma NoDup_filter_app {A} (p : A -> bool) l r : NoDup (l ++ r) -> NoDup (filter p l ++ r).
  Proof.
    induction l as [|a l IH]; cbn [filter app]; intros ND; [assumption|].
    inversion ND as [|? ? Hn ND']; subst. destruct (p a); [|apply IH; assumption].
    cbn [app]. constructor; [|apply IH; assumption].
    intros H. apply Hn. rewrite in_app_iff in *. destruct H as [H|H]; [left|right; assumption].
    apply filter_In in H. apply H.
  Qed.

  Lemma cnt_tot_upd_t_pres s id G u :
    (forall t, t_count (G t) = t_count t) -> (forall t, t_total (G t) = t_total t) ->
    cnt (upd_t s id G) u = cnt s u /\ tot (upd_t s id G) u = tot s u.
  Proof.
    intros H1 H2. unfold cnt, tot, obj, upd_t. cbn [objs set_objs]. split.
    - apply (nth_upd_nth_inv _ (fun f => t_count (f_t f))). intros a. cbn. apply H1.
    - apply (nth_upd_nth_inv _ (fun f => t_total (f_t f))). intros a. cbn. apply H2.
  Qed.

  Lemma add_inv g s od start :
    Ginv g s -> ~ In (o_toi od) (tois g) -> (car_some (o_car od) = true \/ 1 <= o_max od) -> P od ->
    let id := length (objs s) in
    let s1 := set_objs s (objs s ++ [mk_fdesc od false (mk_tinfo false 0 0 None None None None start)]) in
    Ginv ((mk_c12o (o_toi od) (o_npk od) (o_max od) (car_some (o_car od)) (o_allow_stop od) 0 None, id) :: g)
         (set_queue (set_files s1 (files s1 ++ [id])) (queue s1 ++ [id])).
  Proof.
    intros [HU HFi] Hnew Hmax HP id s1.
    set (s' := set_queue (set_files s1 (files s1 ++ [id])) (queue s1 ++ [id])).
    set (newx := mk_c12o (o_toi od) (o_npk od) (o_max od) (car_some (o_car od)) (o_allow_stop od) 0 None).
    set (sl := flat_map q_sessions (squeues s)) in *.
    pose proof HU as (ND1 & ND2 & Hm & Hent & Hwf).
    assert (Hold : forall u, (u < id)%nat -> oo s' u = oo s u /\ cnt s' u = cnt s u /\ tot s' u = tot s u).
    { intros u Hu. unfold oo, cnt, tot, obj. cbn [objs s' s1 set_queue set_files set_objs].
      rewrite app_nth1 by assumption. auto. }
    assert (Hnewo : oo s' id = od /\ cnt s' id = 0 /\ tot s' id = 0).
    { unfold oo, cnt, tot, obj. cbn [objs s' s1 set_queue set_files set_objs].
      rewrite app_nth2 by (unfold id; lia). unfold id. rewrite Nat.sub_diag. cbn. auto. }
    assert (Hlt : forall u, In u (files s) \/ In u (queue s) \/ In u (sfiles sl) -> (u < id)%nat).
    { intros u Hu. eapply Uinv_ids_lt; [exact HU|]. apply Hm. assumption. }
    assert (Hlen : length (objs s') = S id).
    { cbn [objs s' s1 set_queue set_files set_objs]. rewrite app_length. cbn. unfold id. lia. }
    split.
    - unfold Uinv. change (squeues s') with (squeues s). fold sl.
      change (files s') with (files s ++ [id]). change (queue s') with (queue s ++ [id]).
      split; [|split; [|split; [|split]]].
      + cbn [tois map fst]. constructor; assumption.
      + rewrite <- app_assoc. cbn [app]. eapply Permutation_NoDup; [apply Permutation_middle|].
        constructor; [|assumption]. intros H. apply in_app_iff in H.
        assert (id < id)%nat; [|lia]. apply Hlt. tauto.
      + cbn [map snd]. intros u Hu. rewrite !in_app_iff in Hu. cbn [In] in Hu.
        destruct (Nat.eq_dec id u) as [E|E]; [left; assumption|right].
        apply Hm. tauto.
      + intros p [<-|Hin].
        * unfold entry_ok. cbn [fst snd]. rewrite Hlen. split; [lia|].
          destruct Hnewo as (A & B & C). rewrite A, B, C.
          eapply oinv_iff; [apply (oinv_new P od HP Hmax)| | |].
          -- split; [intros _|auto]. apply in_app_iff. right. left. reflexivity.
          -- split; [intros _|auto]. apply in_app_iff. right. left. reflexivity.
          -- intros e. split; [intros []|]. intros H. apply holds_in_sfiles in H.
             assert (id < id)%nat; [|lia]. apply Hlt. tauto.
        * destruct (Hent _ Hin) as [Hl Ho]. unfold entry_ok. rewrite Hlen. split; [lia|].
          destruct (Hold (snd p) Hl) as (A & B & C). rewrite A, B, C.
          change (files s') with (files s ++ [id]). change (queue s') with (queue s ++ [id]).
          eapply oinv_iff; [exact Ho| | |reflexivity].
          -- rewrite in_app_iff. cbn [In]. split; [auto|]. intros [H|[H|[]]]; [assumption|]. unfold id in *. lia.
          -- rewrite in_app_iff. cbn [In]. split; [auto|]. intros [H|[H|[]]]; [assumption|]. unfold id in *. lia.
      + assumption.
    - destruct HFi as (A & B & C). split; [exact A|]. split; [exact B|].
      intros c Hc. destruct (C c Hc) as (C1 & C2 & C3 & C4).
      destruct (Hold c C1) as (E & _). unfold fid_ok. rewrite Hlen, E. cbn [map snd].
      split; [lia|]. split; [|auto]. intros [H|H]; [unfold id in *; lia|contradiction].
  Qed.

  Lemma remove_inv g s toi : Ginv g s -> is_added s toi = true ->
    Ginv (upd_g toi mark_removed g)
         (set_queue (set_files s (remove_toi s toi (files s))) (remove_toi s toi (queue s))).
  Proof.
    intros [HU HFi] Hadd.
    set (s' := set_queue (set_files s (remove_toi s toi (files s))) (remove_toi s toi (queue s))).
    set (sl := flat_map q_sessions (squeues s)) in *.
    pose proof HU as (ND1 & ND2 & Hm & Hent & Hwf).
    apply is_added_iff in Hadd. destruct Hadd as (f & Hff & Hft).
    assert (Hfg : In f (map snd g)) by (apply Hm; auto).
    destruct (in_ids _ _ Hfg) as [x Hxf].
    pose proof (Uinv_static _ _ _ _ _ HU Hxf) as (Stoi & _).
    assert (Hxt : x_toi x = toi) by (rewrite Stoi, <- toi_of_oo; assumption).
    split.
    - unfold Uinv. change (squeues s') with (squeues s). fold sl.
      change (files s') with (remove_toi s toi (files s)). change (queue s') with (remove_toi s toi (queue s)).
      rewrite upd_g_tois by reflexivity. rewrite upd_g_ids.
      split; [assumption|]. split; [|split; [|split; [|assumption]]].
      + unfold remove_toi. apply NoDup_filter_app. assumption.
      + intros u Hu. apply Hm. rewrite !in_remove_toi in Hu. tauto.
      + intros [x' v] Hin. destruct (upd_g_in _ _ _ _ _ ND1 Hin) as (x0 & Hin0 & Hx0).
        destruct (Hent _ Hin0) as [Hl Ho]. unfold entry_ok. cbn [fst snd] in *. split; [exact Hl|].
        change (oo s' v) with (oo s v). change (cnt s' v) with (cnt s v). change (tot s' v) with (tot s v).
        change (files s') with (remove_toi s toi (files s)). change (queue s') with (remove_toi s toi (queue s)).
        pose proof (Uinv_static _ _ _ _ _ HU Hin0) as (Stoi0 & _).
        destruct Hx0 as [[Et ->]|[Et ->]].
        * assert (E2 : (x0, v) = (x, f)).
          { apply (NoDup_map_inj (fun p : c12obj * nat => x_toi (fst p)) g); auto. cbn [fst]. congruence. }
          injection E2 as -> ->.
          assert (HnF : ~ In f (remove_toi s toi (files s))) by (rewrite in_remove_toi; tauto).
          assert (HnQ : ~ In f (remove_toi s toi (queue s))) by (rewrite in_remove_toi; tauto).
          destruct (in_dec Nat.eq_dec f (sfiles sl)) as [Hs|Hs].
          -- destruct (sfiles_holds _ _ Hwf Hs) as [e He].
             assert (Hq : ~ In f (queue s)) by (intros Hq; exact (NoDup_app_disj _ _ f ND2 Hq Hs)).
             eapply oinv_iff; [apply (oinv_remove_held P x _ _ _ e)| | |].
             ++ eapply oinv_iff; [exact Ho| | |].
                ** split; auto.
                ** split; [assumption|intros []].
                ** intros e0. split; [|intros <-; assumption]. intros H0.
                   eapply holds_unique; [eapply NoDup_app_r; exact ND2|eassumption|eassumption].
             ++ split; [intros []|assumption].
             ++ split; [intros []|assumption].
             ++ intros e0. split; [intros <-; assumption|]. intros H0.
                eapply holds_unique; [eapply NoDup_app_r; exact ND2|eassumption|eassumption].
          -- pose proof Ho as (_ & _ & _ & Hnc & _).
             eapply oinv_iff; [apply (oinv_inert P x (mark_removed x) _ _ _ _ _ _ _ _ Ho); [apply static_mark; apply Ho|exact Hnc]| | |].
             ++ split; [intros []|assumption].
             ++ split; [intros []|assumption].
             ++ intros e0. split; [intros []|]. intros H0. apply Hs. eapply holds_in_sfiles; eassumption.
        * assert (Hvt : toi_of s v <> toi) by (rewrite toi_of_oo, <- Stoi0; assumption).
          eapply oinv_iff; [exact Ho| | |reflexivity].
          -- rewrite in_remove_toi. tauto.
          -- rewrite in_remove_toi. tauto.
    - eapply Finv_ghost; [apply upd_g_ids|]. exact HFi.
  Qed.

  Lemma trigger_inv g s id ts : Ginv g s -> Ginv g (upd_t s id (t_reset ts)).
  Proof.
    intros [HU HFi]. split.
    - change (squeues (upd_t s id (t_reset ts))) with (squeues s).
      apply (Uinv_frame _ _ s); auto.
      + rewrite len_upd_t. lia.
      + intros u _. rewrite oo_upd_t.
        destruct (cnt_tot_upd_t_pres s id (t_reset ts) u) as [A B]; try reflexivity. auto.
    - change (fdt_session (upd_t s id (t_reset ts))) with (fdt_session s). apply Finv_upd_t. assumption.
  Qed.

  Definition add_ok (seen : list N) (e : tev) : Prop :=
    match e with
    | TAdd o _ true => ~ In (o_toi o) seen /\ (car_some (o_car o) = true \/ 1 <= o_max o) /\ P o
    | _ => True
    end.
  Definition tois_after (l : list N) (e : tev) : list N :=
    match e with TAdd o _ true => o_toi o :: l | _ => l end.

  Lemma step_inv g s op out s' :
    Ginv g s -> step fdt_npk fdt_ok divf s op = (out, s') -> add_ok (tois g) (ev_of fdt_npk op out s') ->
    exists g', c12_step (gl g) (ev_of fdt_npk op out s') = (true, gl g') /\ Ginv g' s'
               /\ tois g' = tois_after (tois g) (ev_of fdt_npk op out s').
  Proof.
    intros HG Hs Hadd. destruct op as [od start accepted|now|toi|toi ts| |now]; cbn [step] in Hs.
    - destruct (negb (has_queue s (o_prio od))).
      { injection Hs as <- <-. exists g. split; [reflexivity|]. split; [exact HG|reflexivity]. }
      destruct (complete s).
      { injection Hs as <- <-. exists g. split; [reflexivity|]. split; [exact HG|reflexivity]. }
      destruct accepted; cbn [negb] in Hs.
      2:{ injection Hs as <- <-. exists g. split; [reflexivity|]. split; [exact HG|reflexivity]. }
      injection Hs as <- <-. cbn [ev_of add_ok] in Hadd. destruct Hadd as (A & B & C).
      eexists. split; [|split; [apply add_inv; eassumption|]]; reflexivity.
    - destruct (publish fdt_npk fdt_ok now s) as [ok s1] eqn:Ep. injection Hs as <- <-.
      assert (E : s1 = snd (publish fdt_npk fdt_ok now s)) by (rewrite Ep; reflexivity).
      exists g. split; [reflexivity|]. split; [|reflexivity].
      destruct HG as [HU HFi]. destruct (publish_spec now s) as (_ & _ & _ & (_ & _ & Eq & Ef) & _).
      rewrite <- E in Eq, Ef. split.
      + rewrite Eq, E. apply Uinv_publish. assumption.
      + rewrite Ef, E. eapply Finv_publish; eassumption.
    - destruct (is_added s toi) eqn:Ea.
      + injection Hs as <- <-. exists (upd_g toi mark_removed g).
        split; [cbn [ev_of]; rewrite c12_step_remove, upd_obj_gl; reflexivity|].
        split; [apply remove_inv; assumption|]. cbn [ev_of tois_after]. apply upd_g_tois. reflexivity.
      + injection Hs as <- <-. exists g. split; [reflexivity|]. split; [exact HG|reflexivity].
    - destruct (find_file s toi) as [id|].
      + destruct (t_transferring (f_t (obj s id))).
        * injection Hs as <- <-. exists g. split; [reflexivity|]. split; [exact HG|reflexivity].
        * injection Hs as <- <-. exists g. split; [reflexivity|]. split; [apply trigger_inv; assumption|reflexivity].
      + injection Hs as <- <-. exists g. split; [reflexivity|]. split; [exact HG|reflexivity].
    - injection Hs as <- <-. exists g. split; [reflexivity|]. split; [exact HG|reflexivity].
    - destruct (sender_read fdt_npk fdt_ok divf now s) as [r s1] eqn:Er. injection Hs as <- <-.
      destruct (sender_read_inv _ _ _ _ _ HG Er) as [M G1].
      exists (gstep g r). split; [|split; [assumption|]].
      + destruct r; cbn [ev_of]; apply mon_ok_step; assumption.
      + rewrite gstep_tois. destruct r; reflexivity.
  Qed.
End Glob.

(* ================= the premises on the accepted adds, and the run ================= *)
(* the TOIs of the accepted adds are pairwise distinct, a non-carousel object is configured with
   max_transfer_count >= 1, and every accepted descriptor satisfies [Pb] *)
Fixpoint c12_adds_okb (Pb : odesc -> bool) (seen : list N) (tr : list tev) : bool :=
  match tr with
  | [] => true
  | e :: r =>
    match e with
    | TAdd o _ true =>
      negb (memN (o_toi o) seen) && (car_some (o_car o) || (1 <=? o_max o)) && Pb o
      && c12_adds_okb Pb (o_toi o :: seen) r
    | _ => c12_adds_okb Pb seen r
    end
  end.

Lemma memN_false x l : memN x l = false -> ~ In x l.
Proof.
  unfold memN. intros H Hin. assert (E : existsb (N.eqb x) l = true).
  { apply existsb_exists. exists x. split; [assumption|apply N.eqb_refl]. }
  congruence.
Qed.

Lemma adds_okb_cons Pb seen e r : c12_adds_okb Pb seen (e :: r) = true ->
  add_ok (fun o => Pb o = true) seen e /\ c12_adds_okb Pb (tois_after seen e) r = true.
Proof.
  cbn [c12_adds_okb]. destruct e as [o st ok| | | | |]; try (intros H; split; [exact I|exact H]).
  destruct ok; [|intros H; split; [exact I|exact H]].
  intros H. apply andb_prop in H. destruct H as [H H4]. apply andb_prop in H. destruct H as [H H3].
  apply andb_prop in H. destruct H as [H1 H2]. cbn [add_ok tois_after]. split; [|assumption].
  split; [|split; [|assumption]].
  - apply memN_false. destruct (memN (o_toi o) seen); [discriminate|reflexivity].
  - destruct (car_some (o_car o)); [left; reflexivity|right]. cbn [orb] in H2. apply N.leb_le. assumption.
Qed.

Lemma run_inv Pb fdt_npk fdt_ok divf : forall ops g s,
  Ginv (fun o => Pb o = true) g s ->
  c12_adds_okb Pb (tois g) (map fst (model_trace fdt_npk fdt_ok divf s ops)) = true ->
  c12_run (gl g) (map fst (model_trace fdt_npk fdt_ok divf s ops)) = true
  /\ exists g', Ginv (fun o => Pb o = true) g' (snd (run_ops fdt_npk fdt_ok divf s ops))
                /\ gl g' = c12_objs (gl g) (map fst (model_trace fdt_npk fdt_ok divf s ops)).
Proof.
  induction ops as [|o r IH]; intros g s HG Hp.
  - cbn. split; [reflexivity|]. exists g. split; [exact HG|reflexivity].
  - cbn [model_trace run_ops] in *.
    destruct (step fdt_npk fdt_ok divf s o) as [out s1] eqn:Es.
    cbn [map fst c12_run c12_objs] in *.
    apply adds_okb_cons in Hp. destruct Hp as [Ha Hp].
    destruct (step_inv _ _ _ _ _ _ _ _ _ HG Es Ha) as (g1 & Hc & G1 & Ht).
    rewrite Hc. cbn [andb snd]. rewrite <- Ht in Hp.
    destruct (IH g1 s1 G1 Hp) as [R (g' & G' & E')].
    split; [exact R|]. exists g'.
    destruct (run_ops fdt_npk fdt_ok divf s1 r) as [xs s2]. cbn [snd] in *. split; assumption.
Qed.

Lemma sfiles_idle sl : Forall (fun ss => ss_file ss = None /\ ss_enc ss = None /\ ss_fdt_only ss = false) sl ->
  sfiles sl = [] /\ Forall fwf sl.
Proof.
  induction 1 as [|ss sl (A & B & C) _ [IH1 IH2]]; [split; [reflexivity|constructor]|].
  split.
  - rewrite sfiles_cons, IH1. unfold sfile. rewrite A. reflexivity.
  - constructor; [|assumption]. split; [assumption|left; auto].
Qed.

Lemma Ginv_init P full dur car sid queues : Ginv P [] (init_st full dur car sid queues).
Proof.
  set (s := init_st full dur car sid queues).
  assert (Hidle : Forall (fun ss => ss_file ss = None /\ ss_enc ss = None /\ ss_fdt_only ss = false)
                         (flat_map q_sessions (squeues s))).
  { unfold s, init_st. cbn [squeues]. induction queues as [|pq qs IH]; cbn [map flat_map]; [constructor|].
    apply Forall_app. split; [|exact IH]. cbn [q_sessions].
    apply Forall_forall. intros ss Hin. apply repeat_spec in Hin. subst ss. cbn. auto. }
  destruct (sfiles_idle _ Hidle) as [Hs Hw].
  split.
  - unfold Uinv. rewrite Hs. cbn [tois map queue files s init_st app].
    split; [constructor|]. split; [constructor|]. split; [|split; [|assumption]].
    + intros u [[]|[[]|[]]].
    + intros p [].
  - split; [reflexivity|]. split; [left; auto|]. intros c [].
Qed.

Theorem C12_wire_holds : forall fdt_npk fdt_ok divf ops full dur car sid queues,
  let tr := model_trace fdt_npk fdt_ok divf (init_st full dur car sid queues) ops in
  c12_adds_okb (fun _ => true) [] (map fst tr) = true ->
  P_C12_wire (map fst tr) = true.
Proof.
  intros fdt_npk fdt_ok divf ops full dur car sid queues tr Hp. unfold P_C12_wire.
  apply (run_inv (fun _ => true) fdt_npk fdt_ok divf ops [] _ (Ginv_init _ full dur car sid queues) Hp).
Qed.

(* ================= the transfer counter against the wire ================= *)
Definition Pcnt (o : odesc) : bool := negb (o_toi o =? 0) && negb (is_some (o_fdtid o)).

Lemma counter_of_Ginv g s : Ginv (fun o => Pcnt o = true) g s -> P_C12_counter (gl g) (files_view s) = true.
Proof.
  intros [HU _]. unfold P_C12_counter, files_view. apply forallb_forall. intros tv Hin.
  apply in_map_iff in Hin. destruct Hin as (id & <- & Hid). cbn [fst snd].
  set (sl := flat_map q_sessions (squeues s)) in *.
  pose proof HU as (ND1 & ND2 & Hm & Hent & Hwf).
  assert (Hg : In id (map snd g)) by (apply Hm; auto).
  destruct (in_ids _ _ Hg) as [x Hx].
  destruct (Hent _ Hx) as [Hl Ho]. cbn [fst snd] in Hl, Ho.
  destruct Ho as (Hst & HP & Hmax & Hnc & HQF & Henc & HF & HnF).
  destruct Hst as (Stoi & Snpk & Smax & Scar & Sal).
  change (o_toi (f_o (obj s id))) with (o_toi (oo s id)). rewrite <- Stoi.
  rewrite (find_obj_gl _ _ _ ND1 Hx).
  change (t_total (f_t (obj s id))) with (tot s id).
  unfold Pcnt in HP. apply andb_prop in HP. destruct HP as [HP1 HP2].
  assert (Htoi : o_toi (oo s id) <> 0).
  { intros E. rewrite E in HP1. discriminate. }
  assert (Hvis : vis (oo s id)).
  { unfold vis. destruct (o_fdtid (oo s id)); [discriminate|reflexivity]. }
  destruct (HF Hid) as (H1 & H2 & H3 & H4 & H5).
  rewrite Snpk, Scar, Smax. fold (nn (oo s id)).
  pose proof (nn_pos (oo s id)) as Hn.
  set (n := nn (oo s id)) in *. set (t := tot s id) in *.
  assert (Hmaxb : (car_some (o_car (oo s id)) || (t <? o_max (oo s id))) = true
                  \/ (~ In id (queue s) /\ ~ exists e, holds sl id e)).
  { destruct (in_dec Nat.eq_dec id (queue s)) as [Hq|Hq].
    - left. destruct (car_some (o_car (oo s id))) eqn:Ec; [reflexivity|]. cbn [orb].
      apply N.ltb_lt. rewrite <- (Hnc eq_refl). apply H2; auto.
    - destruct (in_dec Nat.eq_dec id (sfiles sl)) as [Hs|Hs].
      + left. destruct (sfiles_holds _ _ Hwf Hs) as [e He].
        destruct (car_some (o_car (oo s id))) eqn:Ec; [reflexivity|]. cbn [orb].
        apply N.ltb_lt. rewrite <- (Hnc eq_refl). apply H2; [right; exists e; assumption|reflexivity].
      + right. split; [assumption|]. intros [e He]. apply Hs. eapply holds_in_sfiles; eassumption. }
  destruct Hmaxb as [Hmaxb|[Hq Hh]]; [|exfalso; apply Htoi, H3; assumption].
  rewrite Hmaxb, andb_true_r.
  assert (Hw : (x_sent x / n = N.to_nat t \/ x_sent x / n = S (N.to_nat t))%nat).
  { destruct (in_dec Nat.eq_dec id (sfiles sl)) as [Hs|Hs].
    - destruct (sfiles_holds _ _ Hwf Hs) as [e He].
      destruct (H4 e He) as [_ Hxs]. rewrite (Hxs Hvis).
      rewrite Nat.div_add_l by lia.
      destruct (Henc e He) as [[E0 _]|[E0 E1]].
      + left. rewrite E0. cbn. rewrite Nat.div_small by lia. lia.
      + destruct (Nat.eq_dec (N.to_nat (e_sent e)) n) as [E|E].
        * right. rewrite E, Nat.div_same by lia. lia.
        * left. rewrite Nat.div_small by (fold n in E1; lia). lia.
    - left. rewrite H5; [|intros [e He]; apply Hs; eapply holds_in_sfiles; eassumption|assumption].
      apply Nat.div_mul. lia. }
  apply andb_true_intro. split; apply N.leb_le; destruct Hw as [-> | ->]; lia.
Qed.

(* after every run (hence after every operation: [ops] is arbitrary) the counters the sender
   reports for the objects of its FDT agree with the whole transfers seen on the wire *)
Theorem C12_counter_holds : forall fdt_npk fdt_ok divf ops full dur car sid queues,
  let s0 := init_st full dur car sid queues in
  let tr := model_trace fdt_npk fdt_ok divf s0 ops in
  c12_adds_okb Pcnt [] (map fst tr) = true ->
  P_C12_counter (c12_objs [] (map fst tr)) (files_view (snd (run_ops fdt_npk fdt_ok divf s0 ops))) = true.
Proof.
  intros fdt_npk fdt_ok divf ops full dur car sid queues s0 tr Hp.
  destruct (run_inv Pcnt fdt_npk fdt_ok divf ops [] _ (Ginv_init _ full dur car sid queues) Hp)
    as [_ (g' & G' & E')].
  change (gl []) with (@nil c12obj) in E'. fold s0 tr in E'. rewrite <- E'.
  apply counter_of_Ginv. exact G'.
Qed.

(* ================= the same premises stated on the operations ================= *)
(* every OpAdd the caller marks acceptable: pairwise distinct TOIs, max_transfer_count >= 1 unless
   carousel, [Pb].  (Adds the sender refuses - no such queue, session complete - are included, so this
   is slightly stronger than the premise on the trace.) *)
Fixpoint ops_adds_okb (Pb : odesc -> bool) (seen : list N) (ops : list op) : bool :=
  match ops with
  | [] => true
  | o :: r =>
    match o with
    | OpAdd od _ true =>
      negb (memN (o_toi od) seen) && (car_some (o_car od) || (1 <=? o_max od)) && Pb od
      && ops_adds_okb Pb (o_toi od :: seen) r
    | _ => ops_adds_okb Pb seen r
    end
  end.

Lemma memN_incl x l l' : incl l l' -> memN x l' = false -> memN x l = false.
Proof.
  intros Hi H. destruct (memN x l) eqn:E; [|reflexivity].
  unfold memN in *. apply existsb_exists in E. destruct E as (y & Hy & Ey).
  assert (E' : existsb (N.eqb x) l' = true) by (apply existsb_exists; exists y; auto).
  congruence.
Qed.

Lemma adds_okb_incl Pb : forall tr seen seen', incl seen seen' ->
  c12_adds_okb Pb seen' tr = true -> c12_adds_okb Pb seen tr = true.
Proof.
  induction tr as [|e r IH]; intros seen seen' Hi H; [reflexivity|].
  cbn [c12_adds_okb] in *. destruct e as [o st ok| | | | |]; try (eapply IH; eassumption).
  destruct ok; [|eapply IH; eassumption].
  apply andb_prop in H. destruct H as [H H4]. apply andb_prop in H. destruct H as [H H3].
  apply andb_prop in H. destruct H as [H1 H2]. rewrite H2, H3. cbn [andb].
  rewrite (memN_incl _ _ _ Hi); [|destruct (memN (o_toi o) seen'); [discriminate|reflexivity]].
  cbn [negb andb]. eapply IH; [|exact H4].
  intros y [<-|Hy]; [left; reflexivity|right; apply Hi; assumption].
Qed.

Lemma ops_to_trace Pb fdt_npk fdt_ok divf : forall ops s seen,
  ops_adds_okb Pb seen ops = true ->
  c12_adds_okb Pb seen (map fst (model_trace fdt_npk fdt_ok divf s ops)) = true.
Proof.
  induction ops as [|o r IH]; intros s seen H; [reflexivity|].
  cbn [model_trace]. destruct (step fdt_npk fdt_ok divf s o) as [out s1] eqn:Es.
  cbn [map fst]. cbn [ops_adds_okb] in H.
  destruct o as [od start accepted|now|toi|toi ts| |now]; cbn [step] in Es.
  - assert (Hrej : ops_adds_okb Pb seen (OpAdd od start accepted :: r) = true ->
                   c12_adds_okb Pb seen (map fst (model_trace fdt_npk fdt_ok divf s1 r)) = true).
    { cbn [ops_adds_okb]. destruct accepted; [|apply IH]. intros H'.
      apply andb_prop in H'. destruct H' as [_ H4].
      eapply adds_okb_incl; [|apply IH; exact H4]. intros y Hy. right. assumption. }
    destruct (negb (has_queue s (o_prio od))).
    { injection Es as <- <-. cbn [ev_of c12_adds_okb]. apply Hrej. exact H. }
    destruct (complete s).
    { injection Es as <- <-. cbn [ev_of c12_adds_okb]. apply Hrej. exact H. }
    destruct accepted; cbn [negb] in Es.
    2:{ injection Es as <- <-. cbn [ev_of c12_adds_okb]. apply Hrej. exact H. }
    injection Es as <- <-. cbn [ev_of c12_adds_okb].
    apply andb_prop in H. destruct H as [H H4]. rewrite H. cbn [andb]. apply IH. exact H4.
  - destruct (publish fdt_npk fdt_ok now s) as [ok s2]. injection Es as <- <-. cbn [ev_of c12_adds_okb]. apply IH, H.
  - destruct (is_added s toi); injection Es as <- <-; cbn [ev_of c12_adds_okb]; apply IH, H.
  - destruct (find_file s toi) as [id|]; [destruct (t_transferring (f_t (obj s id)))|];
      injection Es as <- <-; cbn [ev_of c12_adds_okb]; apply IH, H.
  - injection Es as <- <-. cbn [ev_of c12_adds_okb]. apply IH, H.
  - destruct (sender_read fdt_npk fdt_ok divf now s) as [rr s2]. injection Es as <- <-.
    destruct rr; cbn [ev_of c12_adds_okb]; apply IH, H.
Qed.

Theorem C12_wire_holds_ops : forall fdt_npk fdt_ok divf ops full dur car sid queues,
  ops_adds_okb (fun _ => true) [] ops = true ->
  P_C12_wire (map fst (model_trace fdt_npk fdt_ok divf (init_st full dur car sid queues) ops)) = true.
Proof. intros. apply C12_wire_holds. apply ops_to_trace. assumption. Qed.

Theorem C12_counter_holds_ops : forall fdt_npk fdt_ok divf ops full dur car sid queues,
  let s0 := init_st full dur car sid queues in
  ops_adds_okb Pcnt [] ops = true ->
  P_C12_counter (c12_objs [] (map fst (model_trace fdt_npk fdt_ok divf s0 ops)))
                (files_view (snd (run_ops fdt_npk fdt_ok divf s0 ops))) = true.
Proof. intros. apply C12_counter_holds. apply ops_to_trace. assumption. Qed.

(* the statement without premise is false *)
Lemma C12_unconditional_false :
  ~ (forall fdt_npk fdt_ok divf ops full dur car sid queues,
       let tr := model_trace fdt_npk fdt_ok divf (init_st full dur car sid queues) ops in
       P_C12_wire (map fst tr) = true).
Proof.
  intros H.
  specialize (H (fun _ => 1%nat) (fun _ => true) (fun d n => Some (d / Z.of_N n)%Z)
                [OpAdd (mk_odesc 1 0 2 2 0 CNone TNone false None []) None true; OpPublish 0;
                 OpRead 0; OpRead 0; OpRead 0]
                true 3600000000000%Z (CDelay 1000000000) 1 [(0, 1%nat)]).
  vm_compute in H. discriminate.
Qed.
