(* C10: the content of an FDT instance (Model/FdtInst.v) against the specification
   (Spec/C10Spec.v), and the id / listing / expiry / republication invariants of the control
   model (Model/SenderCtl.v). *)
From FluteV Require Import Model.Toi Spec.C15Spec Proofs.ToiProofs.
From FluteV Require Import Model.Partition Model.Ntp Proofs.AlcProofs.
From FluteV Require Import Model.Xml Model.SenderCtl Model.FdtInst Model.FdtRecv.
From FluteV Require Import Spec.C10Spec Spec.SenderSpec.
From FluteV Require Import Proofs.XmlProofs Proofs.SenderProofs.
From Coq Require Import Lia.
Open Scope char_scope.
Open Scope bool_scope.
Open Scope N_scope.

Arguments N.add : simpl never. Arguments N.mul : simpl never. Arguments N.sub : simpl never.
Arguments N.div : simpl never. Arguments N.modulo : simpl never.
Arguments N.eqb : simpl never. Arguments N.ltb : simpl never. Arguments N.leb : simpl never.
Arguments Z.add : simpl never. Arguments Z.sub : simpl never. Arguments Z.mul : simpl never.
Arguments Z.div : simpl never. Arguments Z.modulo : simpl never.
Arguments Z.ltb : simpl never. Arguments Z.leb : simpl never. Arguments Z.max : simpl never.

(* ================================================================== decimal text *)
Lemma code_chr n : n < 256 -> code (chr n) = n.
Proof. intros H. unfold code, chr. apply N_ascii_embedding. exact H. Qed.

Lemma digit_char d : d < 10 -> is_digit (chr (48 + d)) = true /\ code (chr (48 + d)) - 48 = d.
Proof.
  intros H. unfold is_digit. rewrite code_chr by lia. split; [|lia].
  apply andb_true_iff. split; apply N.leb_le; lia.
Qed.

Lemma parse_dec_aux_digits ds acc : forallb (fun d => d <? 10) ds = true ->
  parse_dec_aux (map (fun d => chr (48 + d)) ds) acc = Some (fold_left (fun a d => a * 10 + d) ds acc).
Proof.
  revert acc; induction ds as [|d ds IH]; intros acc H; [reflexivity|].
  cbn [forallb] in H. apply andb_true_iff in H as [Hd Hds]. apply N.ltb_lt in Hd.
  cbn [map parse_dec_aux fold_left]. destruct (digit_char d Hd) as [E1 E2]. rewrite E1, E2. apply IH, Hds.
Qed.

Lemma parse_dec_dec n : parse_dec (dec n) = Some n.
Proof.
  unfold parse_dec, dec. pose proof (to_decimal_canonical n) as Hc. pose proof (to_decimal_value n) as Hv.
  unfold canonical_dec in Hc. apply andb_true_iff in Hc as [Hd Hne].
  destruct (to_decimal n) as [|d ds] eqn:E; [discriminate|].
  change (map (fun d0 => chr (48 + d0)) (d :: ds)) with (chr (48 + d) :: map (fun d0 => chr (48 + d0)) ds).
  change (chr (48 + d) :: map (fun d0 => chr (48 + d0)) ds) with (map (fun d0 => chr (48 + d0)) (d :: ds)).
  cbv beta iota. rewrite parse_dec_aux_digits by exact Hd. unfold dec_value in Hv. rewrite Hv. reflexivity.
Qed.

Lemma dec_is_dec n : dec_is (dec n) n = true.
Proof. unfold dec_is. rewrite parse_dec_dec. apply N.eqb_refl. Qed.

Lemma odec_is_dec n : odec_is (Some (dec n)) n = true.
Proof. apply dec_is_dec. Qed.

Lemma ostr_eqb_refl o : ostr_eqb o o = true.
Proof. destruct o; cbn; [apply str_eqb_refl|reflexivity]. Qed.

Lemma strs_eqb_refl l : strs_eqb l l = true.
Proof. induction l as [|x l IH]; cbn; [reflexivity|]. rewrite str_eqb_refl, IH. reflexivity. Qed.

(* ================================================================== time *)
Lemma ntp_secs_spec t : time_in_era t -> ntp_secs t = spec_ntp_secs t.
Proof.
  intros H. destruct (system_time_to_ntp_val t H) as (E & Hi & Lo). unfold ntp_secs. rewrite E.
  unfold TWO32 in *. rewrite N.shiftr_div_pow2. change (2 ^ 32) with 4294967296.
  rewrite N.div_add_l by lia. rewrite N.div_small by exact Lo. rewrite N.add_0_r.
  unfold ntp_hi, spec_ntp_secs, NTP_UNIX_OFFSET. f_equal. destruct H as [H0 _].
  rewrite <- (Z2N.id t) at 2 by exact H0. change 1000000000%Z with (Z.of_N 1000000000).
  rewrite <- N2Z.inj_div. rewrite N2Z.id. reflexivity.
Qed.

Lemma ntp_secs_lt t : time_in_era t -> spec_ntp_secs t < 4294967296.
Proof.
  intros [H0 H1]. unfold spec_ntp_secs. unfold NTP_UNIX_OFFSET, TWO32 in H1.
  replace (Z.to_N (t / 1000000000)) with (Z.to_N t / 1000000000); [exact H1|].
  rewrite <- (Z2N.id t) at 2 by exact H0. change 1000000000%Z with (Z.of_N 1000000000).
  rewrite <- N2Z.inj_div. rewrite N2Z.id. reflexivity.
Qed.

(* (fdt_expires_value) Expires = whole NTP seconds of the publication instant + validity in seconds *)
Lemma expires_value_spec now dur : time_in_era now -> expires_value now dur = spec_expires now dur.
Proof. intros H. unfold expires_value, spec_expires. rewrite ntp_secs_spec by exact H. reflexivity. Qed.

Lemma fdt_expires_value cfg complete now ms : time_in_era now ->
  xi_expires (get_fdt_instance cfg complete now ms)
  = dec (Z.to_N (now / 1000000000) + 2208988800 + Z.to_N (c_dur cfg / 1000000000)).
Proof. intros H. cbn [get_fdt_instance instance_gen xi_expires]. rewrite expires_value_spec by exact H. reflexivity. Qed.

(* ================================================================== FEC OTI *)
Lemma nb_blocks_spec o tlen : nb_blocks o tlen = N.max 1 (spec_nb_blocks (max_sbl o) tlen (esl o)).
Proof.
  unfold nb_blocks, spec_nb_blocks, block_partitioning.
  destruct (N.eqb_spec (max_sbl o) 0) as [Hb|Hb]; [reflexivity|].
  destruct (N.eqb_spec (esl o) 0) as [He|He]; [reflexivity|]. cbn [orb].
  destruct (N.eqb_spec (div_ceil (div_ceil tlen (esl o)) (max_sbl o)) 0) as [Hn|Hn]; [rewrite Hn; reflexivity|reflexivity].
Qed.

Definition meta_ok (cfg : fdt_cfg) (now : Z) (m : fmeta) : Prop :=
  filedesc_oti (c_oti cfg) (m_oti m) (m_tlen m) <> None
  /\ m_cenc m <= 3
  /\ match m_cache m with
     | Some (CCExpires d) => time_in_era (now + d)
     | Some (CCExpiresAt t) => time_in_era t
     | _ => True
     end.

Lemma inherit_some a b : inherit (Some a) b = Some a. Proof. reflexivity. Qed.

Lemma oti_matches_attrs (o o' : oti) tlen inst :
  fec_id o' = fec_id o -> fec_inst o' = fec_inst o -> max_sbl o' = max_sbl o -> esl o' = esl o ->
  parity o' = parity o ->
  match spec_scheme_info o tlen with Some info => scheme_info o' = Some info | None => True end ->
  oti_matches (eff_oti (get_attributes o') inst) o tlen = true.
Proof.
  intros E1 E2 E3 E4 E5 Hs. unfold oti_matches, eff_oti, get_attributes.
  cbn [xo_id xo_inst xo_b xo_e xo_maxn xo_ssi inherit]. rewrite E1, E2, E3, E4, E5.
  rewrite !odec_is_dec, !dec_is_dec. cbn [andb].
  destruct (spec_scheme_info o tlen) as [info|]; [|reflexivity].
  rewrite Hs. cbn [inherit]. apply str_eqb_refl.
Qed.

Lemma oti_matches_self o tlen inst :
  (fec_id o =? 6) = false -> (fec_id o =? 1) = false ->
  oti_matches (eff_oti (get_attributes o) inst) o tlen = true.
Proof.
  intros H6 H1. apply oti_matches_attrs; try reflexivity.
  unfold spec_scheme_info, scheme_info. rewrite H6, H1.
  destruct (fec_id o =? 2); [|exact I]. destruct (sch o); try exact I. reflexivity.
Qed.

Lemma eff_oti_empty x : eff_oti empty_xoti x = x.
Proof. destruct x; reflexivity. Qed.

Lemma oti_matches_inst o tlen :
  (fec_id o =? 6) = false -> (fec_id o =? 1) = false ->
  oti_matches (eff_oti empty_xoti (get_attributes o)) o tlen = true.
Proof.
  intros H6 H1. rewrite eff_oti_empty. rewrite <- (eff_oti_empty (get_attributes o)) at 1.
  replace (eff_oti empty_xoti (get_attributes o)) with (eff_oti (get_attributes o) empty_xoti)
    by (unfold eff_oti, get_attributes; cbn; destruct (scheme_info o); reflexivity).
  apply oti_matches_self; assumption.
Qed.

(* the FileDesc's OTI differs from the configured one only in Z *)
Lemma filedesc_oti_fields session per tlen u :
  filedesc_oti session per tlen = Some u ->
  let o := match per with Some x => x | None => session end in
  fec_id u = fec_id o /\ fec_inst u = fec_inst o /\ max_sbl u = max_sbl o /\ esl u = esl o /\ parity u = parity o
  /\ match spec_scheme_info o tlen with Some info => scheme_info u = Some info | None => True end.
Proof.
  unfold filedesc_oti. set (o := match per with Some x => x | None => session end). intros H. cbv zeta.
  unfold spec_scheme_info, scheme_info. rewrite <- (nb_blocks_spec o tlen).
  destruct (N.eqb_spec (fec_id o) 6) as [E6|N6].
  - assert (E2 : (fec_id o =? 2) = false) by (rewrite E6; reflexivity). rewrite E2.
    destruct (sch o) as [|m g|z n al|z n al] eqn:Es; try discriminate;
      destruct (nb_blocks o tlen <? 256); try discriminate; inversion H; subst u; clear H;
      cbn [fec_id fec_inst max_sbl esl parity sch]; rewrite ?E6, ?Es; cbn; repeat split; reflexivity.
  - destruct (N.eqb_spec (fec_id o) 1) as [E1|N1].
    + assert (E2 : (fec_id o =? 2) = false) by (rewrite E1; reflexivity). rewrite E2.
      destruct (sch o) as [|m g|z n al|z n al] eqn:Es; try discriminate;
        destruct (nb_blocks o tlen <? 65536); try discriminate; inversion H; subst u; clear H;
        cbn [fec_id fec_inst max_sbl esl parity sch]; rewrite ?E1, ?Es; cbn; repeat split; reflexivity.
    + inversion H; subst u; clear H. repeat split; try reflexivity.
      apply N.eqb_neq in N6, N1. rewrite N6, N1.
      destruct (fec_id o =? 2); [|exact I]. destruct (sch o); try exact I. reflexivity.
Qed.

(* ================================================================== one file *)
Lemma cenc_matches_str c : c <= 3 -> cenc_matches (cenc_str c) c = true.
Proof.
  intros H. unfold cenc_str, cenc_matches.
  destruct (N.eqb_spec c 0) as [->|H0]; [reflexivity|].
  destruct (N.eqb_spec c 1) as [->|H1]; [reflexivity|].
  destruct (N.eqb_spec c 2) as [->|H2]; [reflexivity|].
  assert (c = 3) by lia. subst. reflexivity.
Qed.

Lemma cache_matches_xml c now :
  match c with
  | Some (CCExpires d) => time_in_era (now + d)
  | Some (CCExpiresAt t) => time_in_era t
  | _ => True
  end ->
  cache_matches (match c with Some x => Some (cache_xml x now) | None => None end) c now = true.
Proof.
  destruct c as [[| |d|t]|]; cbn [cache_xml cache_matches]; intros H; try reflexivity.
  - rewrite ntp_secs_spec by exact H. apply dec_is_dec.
  - rewrite ntp_secs_spec by exact H. apply dec_is_dec.
Qed.

Lemma file_matches_model cfg now m : meta_ok cfg now m ->
  file_matches (c_oti cfg)
    (if (fec_id (c_oti cfg) =? 6) || (fec_id (c_oti cfg) =? 1) then empty_xoti else get_attributes (c_oti cfg))
    now m (to_file_xml (used_oti cfg m) m now) = true.
Proof.
  intros (Hacc & Hcenc & Hcache). unfold file_matches, to_file_xml.
  cbn [xf_toi xf_loc xf_clen xf_tlen xf_ctype xf_cenc xf_md5 xf_oti xf_etag xf_cache xf_groups].
  rewrite dec_is_dec, str_eqb_refl, !odec_is_dec, !ostr_eqb_refl, strs_eqb_refl.
  rewrite (cenc_matches_str _ Hcenc), (cache_matches_xml _ _ Hcache). cbn [andb]. rewrite !andb_true_r.
  unfold used_oti. destruct (filedesc_oti (c_oti cfg) (m_oti m) (m_tlen m)) as [u|] eqn:Eu; [|congruence].
  destruct (filedesc_oti_fields _ _ _ _ Eu) as (F1 & F2 & F3 & F4 & F5 & F6).
  fold (the_oti (c_oti cfg) m) in F1, F2, F3, F4, F5, F6.
  destruct ((fec_id u =? 6) || (fec_id u =? 1)) eqn:Ek.
  - apply oti_matches_attrs; assumption.
  - apply orb_false_iff in Ek as [K6 K1]. rewrite F1 in K6, K1.
    unfold the_oti in *. destruct (m_oti m) as [o|].
    + apply oti_matches_self; assumption.
    + rewrite K6, K1. cbn [orb]. apply oti_matches_inst; assumption.
Qed.

(* ================================================================== the whole instance *)
Definition cfg_ok (cfg : fdt_cfg) : Prop := True.

Lemma flag_is_model (b : bool) : flag_is (if b then Some (lit "true") else None) b = true.
Proof. destruct b; reflexivity. Qed.

Lemma content_holds cfg complete now ms :
  time_in_era now -> Forall (meta_ok cfg now) ms ->
  P_C10_content cfg complete now ms (get_fdt_instance cfg complete now ms) = true.
Proof.
  intros Ht Hms. unfold P_C10_content, get_fdt_instance, instance_gen.
  cbn [xi_expires xi_complete xi_full xi_oti xi_files xi_groups].
  rewrite expires_value_spec by exact Ht. rewrite dec_is_dec, !flag_is_model, strs_eqb_refl, map_length, Nat.eqb_refl.
  cbn [andb]. apply andb_true_iff. split.
  - apply forallb_forall. intros m Hm. apply existsb_exists.
    exists (to_file_xml (used_oti cfg m) m now). split.
    + apply in_map_iff. exists m. split; [reflexivity|exact Hm].
    + apply file_matches_model. rewrite Forall_forall in Hms. apply Hms, Hm.
  - apply forallb_forall. intros f Hf. apply in_map_iff in Hf as (m & <- & Hm).
    apply existsb_exists. exists m. split; [exact Hm|]. unfold to_file_xml. cbn [xf_toi]. apply dec_is_dec.
Qed.

(* the reference parser reads from the document the model emits exactly what the sender was given *)
Theorem spec_instance_holds cfg complete now ms :
  time_in_era now -> Forall (meta_ok cfg now) ms ->
  P_C10_instance cfg complete now ms (fdt_xml cfg complete now ms) = true.
Proof.
  intros Ht Hms. unfold P_C10_instance, fdt_xml. rewrite xml_roundtrip. apply content_holds; assumption.
Qed.

(* ================================================================== invariants of the control model *)
(* An invariant kept by the primitives of fdt.rs is kept by Sender::read (sendersession.rs run loop,
   sender.rs round robin) whatever the sessions do. *)
Section Preserve.
  Variable fdt_npk : N -> nat.
  Variable fdt_ok : N -> bool.
  Variable divf : Z -> N -> option Z.
  Variable I : st -> Prop.

  Hypothesis I_next_fdt : forall now s o s',
    I s -> get_next_fdt_transfer fdt_npk fdt_ok divf now s = ROk _ (o, s') -> I s'.
  Hypothesis I_next_file : forall prio now s o s',
    I s -> get_next_file_transfer fdt_npk fdt_ok divf prio now s = ROk _ (o, s') -> I s'.
  Hypothesis I_done : forall id now s, I s -> I (transfer_done id now s).
  Hypothesis I_tick : forall s id, I s -> I (upd_t s id t_tickf).
  Hypothesis I_sess : forall s x, I s -> I (set_fdt_session s x).
  Hypothesis I_sq : forall s x, I s -> I (set_squeues s x).

  Lemma get_next_I ss now s ss' s' :
    I s -> get_next fdt_npk fdt_ok divf ss now s = ROk _ (ss', s') -> I s'.
  Proof.
    intros Hi H. unfold get_next in H. destruct (ss_fdt_only ss).
    - destruct (get_next_fdt_transfer fdt_npk fdt_ok divf now s) as [[[id|] s1]|] eqn:E; inversion H; subst;
        eapply I_next_fdt; eauto.
    - destruct (get_next_file_transfer fdt_npk fdt_ok divf (ss_prio ss) now s) as [[[id|] s1]|] eqn:E;
        inversion H; subst; eapply I_next_file; eauto.
  Qed.

  Lemma session_run_I : forall fuel ss now s o ss' s',
    I s -> session_run fdt_npk fdt_ok divf fuel ss now s = (o, ss', s') -> I s'.
  Proof.
    induction fuel as [|f IH]; intros ss now s o ss' s' Hi H; cbn [session_run] in H.
    - inversion H; subst. exact Hi.
    - set (r := match ss_enc ss with None => get_next fdt_npk fdt_ok divf ss now s | Some _ => _ end) in H.
      assert (Hr : forall ss1 s1, r = ROk _ (ss1, s1) -> I s1).
      { intros ss1 s1 E. unfold r in E. destruct (ss_enc ss).
        - inversion E; subst. exact Hi.
        - eapply get_next_I; eauto. }
      destruct r as [[ss1 s1]|] eqn:Er; [|inversion H; subst; exact Hi].
      specialize (Hr ss1 s1 eq_refl).
      destruct (negb (ss_fdt_only ss1) && negb (Nat.eqb (List.length (fdtq s1)) 0)); [inversion H; subst; exact Hr|].
      destruct (ss_enc ss1) as [e|]; [|inversion H; subst; exact Hr].
      destruct (ss_file ss1) as [id|]; [|inversion H; subst; exact Hr].
      destruct (match t_next_ts (f_t (obj s1 id)) with Some ts => (now <? ts)%Z | None => false end);
        [inversion H; subst; exact Hr|].
      destruct (enc_read _ e) as [[close|] e'].
      + inversion H; subst. apply I_tick, Hr.
      + eapply IH; [|exact H]. apply I_done, Hr.
  Qed.

  Lemma run_fdt_session_I now s o s' :
    I s -> run_fdt_session fdt_npk fdt_ok divf now s = (o, s') -> I s'.
  Proof.
    intros Hi H. unfold run_fdt_session in H.
    destruct (session_run fdt_npk fdt_ok divf 4 (fdt_session s) now s) as [[o1 ss1] s1] eqn:E.
    inversion H; subst. apply I_sess. eapply session_run_I; eauto.
  Qed.

  Lemma rr_loop_I : forall n q orig now s o q' s',
    I s -> rr_loop fdt_npk fdt_ok divf n q orig now s = (o, q', s') -> I s'.
  Proof.
    induction n as [|n IH]; intros q orig now s o q' s' Hi H; cbn [rr_loop] in H.
    - inversion H; subst. exact Hi.
    - destruct (nth_error (q_sessions q) (q_index q)) as [ss|]; [|inversion H; subst; exact Hi].
      destruct (session_run fdt_npk fdt_ok divf 4 ss now s) as [[o1 ss1] s1] eqn:E.
      assert (H1 : I s1) by (eapply session_run_I; eauto).
      destruct o1; try (inversion H; subst; exact H1).
      destruct (Nat.eqb _ orig); [inversion H; subst; exact H1|]. eapply IH; eauto.
  Qed.

  Lemma read_queues_I : forall todo done now s o qs s',
    I s -> read_queues fdt_npk fdt_ok divf done todo now s = (o, qs, s') -> I s'.
  Proof.
    induction todo as [|q r IH]; intros done now s o qs s' Hi H; cbn [read_queues] in H.
    - inversion H; subst. exact Hi.
    - unfold read_priority_queue in H.
      destruct (rr_loop fdt_npk fdt_ok divf (List.length (q_sessions q)) q (q_index q) now s) as [[o1 q1] s1] eqn:E.
      assert (H1 : I s1) by (eapply rr_loop_I; eauto).
      destruct o1; try (inversion H; subst; exact H1). eapply IH; eauto.
  Qed.

  Lemma sender_read_I now s o s' :
    I s -> sender_read fdt_npk fdt_ok divf now s = (o, s') -> I s'.
  Proof.
    intros Hi H. unfold sender_read in H.
    destruct (run_fdt_session fdt_npk fdt_ok divf now s) as [o1 s1] eqn:E1.
    assert (H1 : I s1) by (eapply run_fdt_session_I; eauto).
    destruct o1; try (inversion H; subst; exact H1).
    destruct (read_queues fdt_npk fdt_ok divf [] (squeues s1) now s1) as [[o2 qs] s2] eqn:E2.
    assert (H2 : I s2) by (eapply read_queues_I; eauto).
    assert (H3 : I (set_squeues s2 qs)) by (apply I_sq, H2).
    destruct o2; try (inversion H; subst; exact H3).
    eapply run_fdt_session_I; eauto.
  Qed.
End Preserve.

(* ================================================================== instance ids *)
Definition fos (s : st) : list odesc := map f_o (objs s).
Definition inst_of_fos (l : list odesc) : list (N * list N) :=
  flat_map (fun o => match o_fdtid o with Some id => [(id, o_listing o)] | None => [] end) l.

Lemma instances_fos s : instances s = inst_of_fos (fos s).
Proof. unfold instances, inst_of_fos, fos. induction (objs s) as [|f l IH]; cbn; [reflexivity|]. rewrite IH. reflexivity. Qed.

Lemma inst_of_fos_app a b : inst_of_fos (a ++ b) = inst_of_fos a ++ inst_of_fos b.
Proof. unfold inst_of_fos. apply flat_map_app. Qed.

Lemma map_fo_upd_nth i (g : fdesc -> fdesc) l :
  (forall f, f_o (g f) = f_o f) -> map f_o (upd_nth i g l) = map f_o l.
Proof.
  intros Hg. revert i; induction l as [|x l IH]; intros [|i]; cbn; try reflexivity.
  - rewrite Hg. reflexivity.
  - rewrite IH. reflexivity.
Qed.

Lemma fos_upd_t s id g : fos (upd_t s id g) = fos s.
Proof. unfold fos, upd_t. cbn. apply map_fo_upd_nth. reflexivity. Qed.

Lemma fold_set_pub_fos l ob : map f_o (fold_left (fun ob fid => upd_nth fid set_pub ob) l ob) = map f_o ob.
Proof.
  revert ob; induction l as [|x l IH]; intros ob; cbn; [reflexivity|].
  rewrite IH. apply map_fo_upd_nth. reflexivity.
Qed.

(* what a state change may do to (objects, next id): nothing, or append one FDT object with the
   next id and step the id *)
Definition fdt_odesc (fdt_npk : N -> nat) (s : st) : odesc :=
  mk_odesc 0 0 (fdt_npk (fdtid s)) 0 1 (fdt_car s) TNone false (Some (fdtid s)) (listed_tois s).

Section Ids.
  Variable fdt_npk : N -> nat.
  Variable fdt_ok : N -> bool.
  Variable divf : Z -> N -> option Z.

  Lemma publish_view now s :
    (fdt_ok (fdtid s) = true
     /\ fos (snd (publish fdt_npk fdt_ok now s)) = fos s ++ [fdt_odesc fdt_npk s]
     /\ fdtid (snd (publish fdt_npk fdt_ok now s)) = (fdtid s + 1) mod 1048576
     /\ fst (publish fdt_npk fdt_ok now s) = true)
    \/ (fdt_ok (fdtid s) = false /\ publish fdt_npk fdt_ok now s = (false, s)).
  Proof.
    unfold publish. destruct (fdt_ok (fdtid s)); [left|right; split; reflexivity].
    split; [reflexivity|]. cbn [snd fst fdtid]. split; [|split; reflexivity].
    unfold fos. cbn [objs]. rewrite fold_set_pub_fos, map_app. cbn [map f_o].
    unfold fdt_odesc, listed_tois, listed_ids, toi_of. destruct (full_fdt s); reflexivity.
  Qed.

  Definition IdInv (sid : N) (s : st) : Prop :=
    map fst (instances s) = map (fun k => (sid + N.of_nat k) mod TWO20) (seq 0 (List.length (instances s)))
    /\ fdtid s = (sid + N.of_nat (List.length (instances s))) mod TWO20.

  Lemma IdInv_same sid s s' : fos s' = fos s -> fdtid s' = fdtid s -> IdInv sid s -> IdInv sid s'.
  Proof. unfold IdInv. rewrite !instances_fos. intros -> ->. auto. Qed.

  Lemma IdInv_publish sid now s : IdInv sid s -> IdInv sid (snd (publish fdt_npk fdt_ok now s)).
  Proof.
    intros [H1 H2]. destruct (publish_view now s) as [(Hok & Hf & Hid & _)|(Hno & E)].
    - unfold IdInv. rewrite instances_fos, Hf, inst_of_fos_app, <- instances_fos, Hid.
      cbn [inst_of_fos flat_map fdt_odesc o_fdtid o_listing app].
      rewrite app_length, map_app. cbn [List.length map fst]. rewrite Nat.add_1_r, seq_S, map_app.
      cbn [map]. rewrite H1, H2. split; [reflexivity|]. unfold TWO20.
      rewrite N.add_mod_idemp_l by lia. f_equal. lia.
    - rewrite E. exact (conj H1 H2).
  Qed.

  Lemma IdInv_transfer_started sid id now s s' :
    transfer_started divf id now s = ROk _ s' -> IdInv sid s -> IdInv sid s'.
  Proof.
    unfold transfer_started. destruct (t_init divf _ now _); intros H; inversion H; subst.
    apply IdInv_same; [apply fos_upd_t|reflexivity].
  Qed.

  Lemma IdInv_next_fdt sid now s o s' :
    IdInv sid s -> get_next_fdt_transfer fdt_npk fdt_ok divf now s = ROk _ (o, s') -> IdInv sid s'.
  Proof.
    intros Hi H. unfold get_next_fdt_transfer in H.
    destruct (match cur_fdt s with Some c => t_transferring (f_t (obj s c)) | None => false end);
      [inversion H; subst; exact Hi|].
    set (s1 := if current_fdt_will_expire now s then snd (publish fdt_npk fdt_ok now s) else s) in H.
    assert (H1 : IdInv sid s1) by (unfold s1; destruct (current_fdt_will_expire now s); [apply IdInv_publish|]; exact Hi).
    set (s2 := match fdtq s1 with [] => s1 | x :: r => set_cur_fdt (set_fdtq s1 r) (Some x) end) in H.
    assert (H2 : IdInv sid s2) by (unfold s2; destruct (fdtq s1); [exact H1|apply (IdInv_same sid s1); [reflexivity|reflexivity|exact H1]]).
    destruct (cur_fdt s2) as [c|]; [|inversion H; subst; exact H2].
    destruct (should_transfer_now (obj s2 c) 0 (full_fdt s2) now); [|inversion H; subst; exact H2].
    destruct (transfer_started divf c now s2) as [s3|] eqn:E; inversion H; subst.
    eapply IdInv_transfer_started; eauto.
  Qed.

  Lemma IdInv_next_file sid prio now s o s' :
    IdInv sid s -> get_next_file_transfer fdt_npk fdt_ok divf prio now s = ROk _ (o, s') -> IdInv sid s'.
  Proof.
    intros Hi H. unfold get_next_file_transfer in H.
    destruct (find_remove _ (queue s)) as [[id q']|]; [|inversion H; subst; exact Hi].
    destruct (transfer_started divf id now _) as [s2|] eqn:E; [|discriminate].
    assert (H2 : IdInv sid s2).
    { eapply IdInv_transfer_started; [exact E|]. apply (IdInv_same sid s); [reflexivity|reflexivity|exact Hi]. }
    inversion H; subst. destruct (full_fdt s2); [exact H2|apply IdInv_publish, H2].
  Qed.

  Lemma IdInv_done sid id now s : IdInv sid s -> IdInv sid (transfer_done id now s).
  Proof.
    intros Hi. apply (IdInv_same sid s); [| |exact Hi]; unfold transfer_done;
      repeat match goal with |- context [if ?c then _ else _] => destruct c end;
      cbn; try apply fos_upd_t; try reflexivity.
  Qed.

  Definition op_wf (o : op) : Prop :=
    match o with OpAdd od _ _ => o_fdtid od = None | _ => True end.

  Lemma IdInv_step sid s o out s' : op_wf o -> IdInv sid s -> step fdt_npk fdt_ok divf s o = (out, s') -> IdInv sid s'.
  Proof.
    intros Hw Hi H. destruct o as [od start acc|now|toi|toi ts| |now]; cbn [step] in H.
    - destruct (negb (has_queue s (o_prio od))); [inversion H; subst; exact Hi|].
      destruct (complete s); [inversion H; subst; exact Hi|].
      destruct (negb acc); inversion H; subst; [exact Hi|].
      destruct Hi as [H1 H2]. unfold IdInv. rewrite !instances_fos in *.
      unfold fos. cbn [objs set_queue set_files set_objs fdtid]. rewrite map_app. cbn [map f_o].
      rewrite inst_of_fos_app. cbn [inst_of_fos flat_map]. cbn in Hw. rewrite Hw. cbn [app]. rewrite app_nil_r.
      split; assumption.
    - destruct (publish fdt_npk fdt_ok now s) as [ok s1] eqn:E. inversion H; subst.
      change s' with (snd (ok, s')). rewrite <- E. apply IdInv_publish, Hi.
    - destruct (is_added s toi); inversion H; subst; [|exact Hi].
      apply (IdInv_same sid s); [reflexivity|reflexivity|exact Hi].
    - destruct (find_file s toi) as [id|]; [|inversion H; subst; exact Hi].
      destruct (t_transferring _); inversion H; subst; [exact Hi|].
      apply (IdInv_same sid s); [apply fos_upd_t|reflexivity|exact Hi].
    - inversion H; subst. apply (IdInv_same sid s); [reflexivity|reflexivity|exact Hi].
    - destruct (sender_read fdt_npk fdt_ok divf now s) as [r s1] eqn:E. inversion H; subst.
      eapply (sender_read_I fdt_npk fdt_ok divf (IdInv sid)); try exact E; try exact Hi.
      + intros. eapply IdInv_next_fdt; eauto.
      + intros. eapply IdInv_next_file; eauto.
      + intros. apply IdInv_done. assumption.
      + intros. apply (IdInv_same sid s0); [apply fos_upd_t|reflexivity|assumption].
      + intros. apply (IdInv_same sid s0); [reflexivity|reflexivity|assumption].
      + intros. apply (IdInv_same sid s0); [reflexivity|reflexivity|assumption].
  Qed.

  Lemma IdInv_run sid : forall ops s outs s', Forall op_wf ops -> IdInv sid s ->
    run_ops fdt_npk fdt_ok divf s ops = (outs, s') -> IdInv sid s'.
  Proof.
    induction ops as [|o ops IH]; intros s outs s' Hw Hi H; cbn [run_ops] in H.
    - inversion H; subst. exact Hi.
    - destruct (step fdt_npk fdt_ok divf s o) as [x s1] eqn:E1.
      destruct (run_ops fdt_npk fdt_ok divf s1 ops) as [xs s2] eqn:E2. inversion H; subst.
      inversion Hw; subst. eapply IH; [eassumption| |exact E2]. eapply IdInv_step; eauto.
  Qed.

  Lemma IdInv_init full dur car sid queues : sid < TWO20 -> IdInv sid (init_st full dur car sid queues).
  Proof.
    intros H. unfold IdInv. cbn. split; [reflexivity|]. rewrite N.add_0_r. symmetry. apply N.mod_small. exact H.
  Qed.

  (* (fdt_id_sequence) for every operation history: the k-th instance ever published carries
     (start + k) mod 2^20, and the next one will carry (start + number published) mod 2^20 *)
  Theorem fdt_id_sequence full dur car sid queues ops outs s :
    sid < TWO20 -> Forall op_wf ops ->
    run_ops fdt_npk fdt_ok divf (init_st full dur car sid queues) ops = (outs, s) ->
    map fst (instances s) = map (fun k => (sid + N.of_nat k) mod TWO20) (seq 0 (List.length (instances s)))
    /\ fdtid s = (sid + N.of_nat (List.length (instances s))) mod TWO20.
  Proof. intros Hs Hw H. eapply IdInv_run; [exact Hw|apply IdInv_init, Hs|exact H]. Qed.
End Ids.

Lemma mod_eq_window a b m : 0 < m -> a < b -> b - a < m -> a mod m <> b mod m.
Proof.
  intros Hm Hab Hd E.
  pose proof (N.div_mod a m ltac:(lia)) as Ha. pose proof (N.div_mod b m ltac:(lia)) as Hb.
  pose proof (N.mod_lt a m ltac:(lia)). pose proof (N.mod_lt b m ltac:(lia)).
  set (qa := a / m) in *. set (qb := b / m) in *. set (ra := a mod m) in *. set (rb := b mod m) in *.
  clearbody qa qb ra rb. subst rb.
  assert (qa < qb \/ qb <= qa) as [L|L] by lia; nia.
Qed.

(* (fdt_id_unique_in_window) two publications fewer than 2^20 apart carry different ids *)
Lemma seq_ids_window sid n i j :
  (i < j)%nat -> (j < n)%nat -> N.of_nat (j - i) < TWO20 ->
  nth i (map (fun k => (sid + N.of_nat k) mod TWO20) (seq 0 n)) 0
  <> nth j (map (fun k => (sid + N.of_nat k) mod TWO20) (seq 0 n)) 0.
Proof.
  intros Hij Hj Hw. set (f := fun k => (sid + N.of_nat k) mod TWO20).
  assert (Hn : forall k, (k < n)%nat -> nth k (map f (seq 0 n)) 0 = f k).
  { intros k Hk. rewrite (nth_indep (map f (seq 0 n)) 0 (f 0%nat)) by (rewrite map_length, seq_length; exact Hk).
    rewrite (map_nth f). rewrite seq_nth by exact Hk. reflexivity. }
  rewrite !Hn by lia. unfold f. apply mod_eq_window; unfold TWO20 in *; lia.
Qed.

Lemma P_C10_ids_seq : forall n a,
  P_C10_ids a (map (fun k => (a + N.of_nat k) mod TWO20) (seq 0 n)) = true.
Proof.
  induction n as [|n IH]; intros a; [reflexivity|].
  cbn [seq]. rewrite <- seq_shift. cbn [map P_C10_ids]. rewrite map_map. change (N.of_nat 0) with 0.
  rewrite N.add_0_r, N.eqb_refl. cbn [andb].
  rewrite <- (IH ((a + 1) mod TWO20)). f_equal. apply map_ext. intros k.
  unfold TWO20. rewrite N.add_mod_idemp_l by lia. f_equal. lia.
Qed.

(* ================================================================== what an instance lists *)
Section Listing.
  Variable fdt_npk : N -> nat.
  Variable fdt_ok : N -> bool.
  Variable divf : Z -> N -> option Z.

  (* (state level) the instance created by a successful publication carries the next id and lists
     exactly: FullFDT - every object of [files]; otherwise - the objects of [files] in transmission *)
  Lemma publish_lists now s : fdt_ok (fdtid s) = true ->
    instances (snd (publish fdt_npk fdt_ok now s)) = instances s ++ [(fdtid s, listed_tois s)]
    /\ last_publish (snd (publish fdt_npk fdt_ok now s)) = Some now
    /\ files (snd (publish fdt_npk fdt_ok now s)) = files s.
  Proof.
    intros Hok. destruct (publish_view fdt_npk fdt_ok now s) as [(_ & Hf & _ & _)|(Hno & _)]; [|congruence].
    rewrite !instances_fos, Hf, inst_of_fos_app. split; [reflexivity|].
    unfold publish. rewrite Hok. split; reflexivity.
  Qed.

  Lemma listed_tois_full s : full_fdt s = true -> listed_tois s = map (toi_of s) (files s).
  Proof. intros H. unfold listed_tois, listed_ids. rewrite H. reflexivity. Qed.

  Lemma listed_tois_bt s : full_fdt s = false ->
    listed_tois s = map (toi_of s) (filter (fun id => t_transferring (f_t (obj s id))) (files s)).
  Proof. intros H. unfold listed_tois, listed_ids. rewrite H. reflexivity. Qed.

  (* ---------- [files] = added - removed - finished, for every history ---------- *)
  Lemma nth_upd_nth_other {A} i j (g : A -> A) l d : i <> j -> nth j (upd_nth i g l) d = nth j l d.
  Proof.
    revert i j; induction l as [|x l IH]; intros [|i] [|j] H; cbn; try reflexivity; try congruence.
    apply IH. congruence.
  Qed.

  Lemma nth_upd_nth_same {A} i (g : A -> A) l d : (i < List.length l)%nat -> nth i (upd_nth i g l) d = g (nth i l d).
  Proof.
    revert i; induction l as [|x l IH]; intros [|i] H; cbn in *; try lia; [reflexivity|]. apply IH. lia.
  Qed.

  Lemma upd_nth_out {A} i (g : A -> A) l : (List.length l <= i)%nat -> upd_nth i g l = l.
  Proof.
    revert i; induction l as [|x l IH]; intros [|i] H; cbn in *; try reflexivity; try lia. rewrite IH by lia. reflexivity.
  Qed.

  Definition is_obj (s : st) (id : nat) : Prop :=
    (id < List.length (objs s))%nat /\ o_fdtid (f_o (obj s id)) = None.

  (* [rm] = the objects taken out by successful remove_object calls so far *)
  Record FilesInv (rm : list nat) (s : st) : Prop := {
    fi_fdt_toi : forall id, (id < List.length (objs s))%nat -> o_fdtid (f_o (obj s id)) <> None -> toi_of s id = 0;
    fi_obj_toi : forall id, is_obj s id -> toi_of s id <> 0;
    fi_unique : forall i j, is_obj s i -> is_obj s j -> toi_of s i = toi_of s j -> i = j;
    fi_files_obj : forall id, In id (files s) -> is_obj s id;
    fi_rm_range : forall id, In id rm -> (id < List.length (objs s))%nat;
    fi_exact : forall id, is_obj s id ->
      (In id (files s) <-> ~ In id rm /\ is_expired (obj s id) = false)
  }.

  (* a state change that leaves the objects' descriptions, their expiry status and [files] alone *)
  Definition same_view (s s' : st) : Prop :=
    files s' = files s /\ List.length (objs s') = List.length (objs s)
    /\ forall id, f_o (obj s' id) = f_o (obj s id) /\ is_expired (obj s' id) = is_expired (obj s id).

  Lemma same_view_refl s : same_view s s.
  Proof. repeat split. Qed.

  Lemma FilesInv_same rm s s' : same_view s s' -> FilesInv rm s -> FilesInv rm s'.
  Proof.
    intros (Hf & Hl & Ho) [A B C D E F].
    assert (Ht : forall id, toi_of s' id = toi_of s id) by (intros id; unfold toi_of; rewrite (proj1 (Ho id)); reflexivity).
    assert (Hio : forall id, is_obj s' id <-> is_obj s id).
    { intros id. unfold is_obj. rewrite Hl, (proj1 (Ho id)). tauto. }
    split.
    - intros id H1 H2. rewrite Ht. apply A; [rewrite <- Hl; exact H1|rewrite <- (proj1 (Ho id)); exact H2].
    - intros id H. rewrite Ht. apply B, Hio, H.
    - intros i j Hi Hj. rewrite !Ht. apply C; apply Hio; assumption.
    - intros id H. rewrite Hf in H. apply Hio, D, H.
    - intros id H. rewrite Hl. apply E, H.
    - intros id H. rewrite Hf, (proj2 (Ho id)). apply F, Hio, H.
  Qed.

  Lemma obj_upd_t_other s id g j : id <> j -> obj (upd_t s id g) j = obj s j.
  Proof. intros H. unfold obj, upd_t. cbn [objs set_objs]. apply nth_upd_nth_other, H. Qed.

  Lemma obj_upd_t_same s id g : (id < List.length (objs s))%nat ->
    obj (upd_t s id g) id = mk_fdesc (f_o (obj s id)) (f_pub (obj s id)) (g (f_t (obj s id))).
  Proof. intros H. unfold obj, upd_t. cbn [objs set_objs]. rewrite nth_upd_nth_same by exact H. reflexivity. Qed.

  Lemma upd_t_out s id g : (List.length (objs s) <= id)%nat -> upd_t s id g = s.
  Proof. intros H. unfold upd_t. rewrite upd_nth_out by exact H. destruct s; reflexivity. Qed.

  Lemma same_view_upd_t s id g :
    (t_count (g (f_t (obj s id))) = t_count (f_t (obj s id)) \/ car_some (o_car (f_o (obj s id))) = true) ->
    same_view s (upd_t s id g).
  Proof.
    intros Hg. destruct (Nat.lt_ge_cases id (List.length (objs s))) as [Hin|Hout];
      [|rewrite upd_t_out by exact Hout; apply same_view_refl].
    split; [reflexivity|]. split; [unfold upd_t; cbn; apply upd_nth_length|].
    intros j. destruct (Nat.eq_dec id j) as [<-|Hne]; [|rewrite obj_upd_t_other by exact Hne; split; reflexivity].
    rewrite obj_upd_t_same by exact Hin. split; [reflexivity|]. unfold is_expired. cbn [f_o f_t].
    destruct Hg as [Hc | Hc]; [rewrite Hc; reflexivity|]. rewrite Hc. cbn.
    destruct (_ <? _), (_ <? _); reflexivity.
  Qed.

  Lemma same_view_trans a b c : same_view a b -> same_view b c -> same_view a c.
  Proof.
    intros (F1 & L1 & O1) (F2 & L2 & O2). split; [congruence|]. split; [congruence|].
    intros id. destruct (O1 id), (O2 id). split; congruence.
  Qed.

  Lemma same_view_started id now s s' : transfer_started divf id now s = ROk _ s' -> same_view s s'.
  Proof.
    unfold transfer_started. destruct (t_init divf (f_o (obj s id)) now (f_t (obj s id))) as [t'|] eqn:E; intros H; inversion H; subst.
    apply same_view_upd_t. unfold t_init in E.
    destruct (match o_target (f_o (obj s id)) with TNone | TFast => Some None | _ => _ end) as [tk|]; [|discriminate].
    inversion E; subst. cbn [t_count].
    destruct ((t_count (f_t (obj s id)) =? o_max (f_o (obj s id))) && car_some (o_car (f_o (obj s id)))) eqn:Ec.
    - right. apply andb_true_iff in Ec. tauto.
    - left. reflexivity.
  Qed.

  (* publish: one FDT object appended, every object marked published *)
  Lemma obj_fold_set_pub l ob j :
    f_o (nth j (fold_left (fun ob fid => upd_nth fid set_pub ob) l ob) dummy_f) = f_o (nth j ob dummy_f)
    /\ f_t (nth j (fold_left (fun ob fid => upd_nth fid set_pub ob) l ob) dummy_f) = f_t (nth j ob dummy_f)
    /\ List.length (fold_left (fun ob fid => upd_nth fid set_pub ob) l ob) = List.length ob.
  Proof.
    revert ob; induction l as [|x l IH]; intros ob; cbn [fold_left]; [repeat split|].
    destruct (IH (upd_nth x set_pub ob)) as (A & B & C). rewrite A, B, C, upd_nth_length.
    destruct (Nat.eq_dec x j) as [->|Hne]; [|rewrite nth_upd_nth_other by exact Hne; repeat split].
    destruct (Nat.lt_ge_cases j (List.length ob)) as [Hin|Hout].
    - rewrite nth_upd_nth_same by exact Hin. repeat split.
    - rewrite upd_nth_out by exact Hout. repeat split.
  Qed.

  Lemma publish_objs now s : fdt_ok (fdtid s) = true ->
    let s' := snd (publish fdt_npk fdt_ok now s) in
    List.length (objs s') = S (List.length (objs s))
    /\ files s' = files s
    /\ (forall j, (j < List.length (objs s))%nat -> f_o (obj s' j) = f_o (obj s j) /\ f_t (obj s' j) = f_t (obj s j))
    /\ f_o (obj s' (List.length (objs s))) = fdt_odesc fdt_npk s.
  Proof.
    intros Hok. unfold publish. rewrite Hok. cbn [snd]. unfold obj. cbn [objs files].
    set (ob1 := objs s ++ [_]).
    split; [|split; [reflexivity|split]].
    - rewrite (proj2 (proj2 (obj_fold_set_pub (files s) ob1 0%nat))). unfold ob1. rewrite app_length. cbn. lia.
    - intros j Hj. destruct (obj_fold_set_pub (files s) ob1 j) as (A & B & _). rewrite A, B. unfold ob1.
      rewrite app_nth1 by exact Hj. split; reflexivity.
    - destruct (obj_fold_set_pub (files s) ob1 (List.length (objs s))) as (A & _ & _). rewrite A. unfold ob1.
      rewrite app_nth2 by lia. rewrite Nat.sub_diag. cbn [nth f_o].
      unfold fdt_odesc, listed_tois, listed_ids, toi_of, obj. destruct (full_fdt s); reflexivity.
  Qed.

  Lemma FilesInv_publish rm now s : FilesInv rm s -> FilesInv rm (snd (publish fdt_npk fdt_ok now s)).
  Proof.
    intros Hi. destruct (fdt_ok (fdtid s)) eqn:Hok; [|unfold publish; rewrite Hok; exact Hi].
    destruct (publish_objs now s Hok) as (Hl & Hf & Hold & Hnew).
    set (s' := snd (publish fdt_npk fdt_ok now s)) in *. destruct Hi as [A B C D E F].
    assert (Hio : forall id, is_obj s' id <-> is_obj s id).
    { intros id. unfold is_obj. rewrite Hl. split.
      - intros [H1 H2]. assert (id < List.length (objs s) \/ id = List.length (objs s))%nat as [H | ->] by lia.
        + rewrite (proj1 (Hold id H)) in H2. tauto.
        + rewrite Hnew in H2. discriminate.
      - intros [H1 H2]. rewrite (proj1 (Hold id H1)). split; [lia|exact H2]. }
    assert (Ht : forall id, (id < List.length (objs s))%nat -> toi_of s' id = toi_of s id)
      by (intros id H; unfold toi_of; rewrite (proj1 (Hold id H)); reflexivity).
    split.
    - intros id H1 H2. rewrite Hl in H1.
      assert (id < List.length (objs s) \/ id = List.length (objs s))%nat as [H | ->] by lia.
      + rewrite Ht by exact H. apply A; [exact H|]. rewrite <- (proj1 (Hold id H)). exact H2.
      + unfold toi_of. rewrite Hnew. reflexivity.
    - intros id H. apply Hio in H. rewrite Ht by apply H. apply B, H.
    - intros i j Hi Hj. apply Hio in Hi, Hj. rewrite !Ht by (apply Hi || apply Hj). apply C; assumption.
    - intros id H. rewrite Hf in H. apply Hio, D, H.
    - intros id H. rewrite Hl. specialize (E id H). lia.
    - intros id H. apply Hio in H. rewrite Hf. unfold is_expired.
      destruct (Hold id (proj1 H)) as [-> ->]. apply F, H.
  Qed.

  Lemma same_view_eq s s' : files s' = files s -> objs s' = objs s -> same_view s s'.
  Proof. intros Hf Ho. split; [exact Hf|]. split; [rewrite Ho; reflexivity|]. intros id. unfold obj. rewrite Ho. split; reflexivity. Qed.

  Lemma FilesInv_next_fdt rm now s o s' :
    FilesInv rm s -> get_next_fdt_transfer fdt_npk fdt_ok divf now s = ROk _ (o, s') -> FilesInv rm s'.
  Proof.
    intros Hi H. unfold get_next_fdt_transfer in H.
    destruct (match cur_fdt s with Some c => t_transferring (f_t (obj s c)) | None => false end);
      [inversion H; subst; exact Hi|].
    set (s1 := if current_fdt_will_expire now s then snd (publish fdt_npk fdt_ok now s) else s) in H.
    assert (H1 : FilesInv rm s1) by (unfold s1; destruct (current_fdt_will_expire now s); [apply FilesInv_publish|]; exact Hi).
    set (s2 := match fdtq s1 with [] => s1 | x :: r => set_cur_fdt (set_fdtq s1 r) (Some x) end) in H.
    assert (H2 : FilesInv rm s2) by (unfold s2; destruct (fdtq s1); [exact H1|apply (FilesInv_same rm s1); [apply same_view_eq; reflexivity|exact H1]]).
    destruct (cur_fdt s2) as [c|]; [|inversion H; subst; exact H2].
    destruct (should_transfer_now (obj s2 c) 0 (full_fdt s2) now); [|inversion H; subst; exact H2].
    destruct (transfer_started divf c now s2) as [s3|] eqn:E; inversion H; subst.
    eapply FilesInv_same; [eapply same_view_started; exact E|exact H2].
  Qed.

  Lemma FilesInv_next_file rm prio now s o s' :
    FilesInv rm s -> get_next_file_transfer fdt_npk fdt_ok divf prio now s = ROk _ (o, s') -> FilesInv rm s'.
  Proof.
    intros Hi H. unfold get_next_file_transfer in H.
    destruct (find_remove _ (queue s)) as [[id q']|]; [|inversion H; subst; exact Hi].
    destruct (transfer_started divf id now _) as [s2|] eqn:E; [|discriminate].
    assert (H2 : FilesInv rm s2).
    { eapply FilesInv_same; [eapply same_view_started; exact E|].
      apply (FilesInv_same rm s); [apply same_view_eq; reflexivity|exact Hi]. }
    inversion H; subst. destruct (full_fdt s2); [exact H2|apply FilesInv_publish, H2].
  Qed.

  Lemma in_remove_toi s toi l j : In j (remove_toi s toi l) <-> In j l /\ toi_of s j <> toi.
  Proof.
    unfold remove_toi. rewrite filter_In. split; intros [H1 H2]; split; try exact H1.
    - apply negb_true_iff, N.eqb_neq in H2. exact H2.
    - apply negb_true_iff, N.eqb_neq. exact H2.
  Qed.

  Lemma is_added_iff s toi : is_added s toi = true <-> exists j, In j (files s) /\ toi_of s j = toi.
  Proof.
    unfold is_added, find_file. destruct (find _ (files s)) as [j|] eqn:E; cbn.
    - apply find_some in E as [H1 H2]. apply N.eqb_eq in H2. split; [intros _; exists j; tauto|reflexivity].
    - split; [discriminate|]. intros (j & H1 & H2). pose proof (find_none _ _ E j H1) as H. cbn in H.
      apply N.eqb_neq in H. congruence.
  Qed.

  Lemma FilesInv_done rm id now s : FilesInv rm s -> FilesInv rm (transfer_done id now s).
  Proof.
    intros Hi. unfold transfer_done.
    destruct (Nat.lt_ge_cases id (List.length (objs s))) as [Hin|Hout].
    2:{ (* not an object of the state: nothing changes but the log *)
      rewrite upd_t_out by exact Hout.
      assert (Ht : toi_of s id = 0) by (unfold toi_of, obj; rewrite nth_overflow by exact Hout; reflexivity).
      unfold toi_of in Ht. rewrite Ht. change (0 =? 0) with true. cbv iota.
      destruct (is_expired (obj s id)); (eapply FilesInv_same; [|exact Hi]); apply same_view_eq; reflexivity. }
    set (s1 := upd_t s id (t_done now)).
    assert (Ho1 : forall j, f_o (obj s1 j) = f_o (obj s j)).
    { intros j. unfold s1. destruct (Nat.eq_dec id j) as [<-|Hne];
        [rewrite obj_upd_t_same by exact Hin; reflexivity|rewrite obj_upd_t_other by exact Hne; reflexivity]. }
    assert (Hl1 : List.length (objs s1) = List.length (objs s)) by (unfold s1, upd_t; cbn; apply upd_nth_length).
    assert (He1 : forall j, j <> id -> is_expired (obj s1 j) = is_expired (obj s j))
      by (intros j Hne; unfold s1; rewrite obj_upd_t_other by congruence; reflexivity).
    assert (Ht1 : forall j, toi_of s1 j = toi_of s j) by (intros j; unfold toi_of; rewrite Ho1; reflexivity).
    assert (Hio1 : forall j, is_obj s1 j <-> is_obj s j) by (intros j; unfold is_obj; rewrite Hl1, Ho1; tauto).
    (* expiry only ever turns on when a transfer ends *)
    assert (Hmono : is_expired (obj s id) = true -> is_expired (obj s1 id) = true).
    { unfold s1. rewrite obj_upd_t_same by exact Hin. unfold is_expired. cbn [f_o f_t t_done t_count].
      destruct (N.ltb_spec (t_count (f_t (obj s id))) (o_max (f_o (obj s id)))); [discriminate|].
      destruct (N.ltb_spec (t_count (f_t (obj s id)) + 1) (o_max (f_o (obj s id)))); [lia|]. auto. }
    destruct Hi as [A B C D E F].
    (* the generic part: s1 with [files] possibly cut down to the TOIs other than [id]'s *)
    assert (Hkeep : forall s2, files s2 = files s -> objs s2 = objs s1 ->
              (In id (files s) -> is_expired (obj s1 id) = false) -> FilesInv rm s2).
    { intros s2 Hf Hob Hex.
      assert (Ho2 : forall j, obj s2 j = obj s1 j) by (intros j; unfold obj; rewrite Hob; reflexivity).
      split.
      - intros j H1 H2. unfold toi_of. rewrite Ho2. fold (toi_of s1 j). rewrite Ht1. rewrite Hob, Hl1 in H1. rewrite Ho2, Ho1 in H2. apply A; assumption.
      - intros j H. unfold toi_of. rewrite Ho2. fold (toi_of s1 j). rewrite Ht1. apply B, Hio1. unfold is_obj in *. rewrite <- Hob, <- Ho2. exact H.
      - intros i j Hi Hj. unfold toi_of. rewrite !Ho2. fold (toi_of s1 i) (toi_of s1 j). rewrite !Ht1.
        apply C; apply Hio1; unfold is_obj in *; rewrite <- Hob, <- Ho2; assumption.
      - intros j H. rewrite Hf in H. unfold is_obj. rewrite Hob, Ho2. apply Hio1, D, H.
      - intros j H. rewrite Hob, Hl1. apply E, H.
      - intros j H. rewrite Hf, Ho2. assert (Hj : is_obj s j) by (apply Hio1; unfold is_obj in *; rewrite <- Hob, <- Ho2; exact H).
        destruct (Nat.eq_dec j id) as [->|Hne]; [|rewrite He1 by exact Hne; apply F, Hj].
        specialize (F id Hj). split.
        + intros Hin'. split; [apply F, Hin'|apply Hex, Hin'].
        + intros [Hr Hx]. apply F. split; [exact Hr|]. destruct (is_expired (obj s id)) eqn:Eo; [|reflexivity].
          rewrite (Hmono eq_refl) in Hx. discriminate. }
    fold s1. destruct (o_toi (f_o (obj s1 id)) =? 0) eqn:Ez.
    - (* an FDT instance *)
      apply N.eqb_eq in Ez. fold (toi_of s1 id) in Ez. rewrite Ht1 in Ez.
      assert (Hnf : ~ In id (files s)) by (intros Hc; apply (B id (D id Hc)), Ez).
      destruct (is_expired (obj s1 id)); apply Hkeep; try reflexivity; intros Hc; contradiction.
    - apply N.eqb_neq in Ez. fold (toi_of s1 id) in Ez. rewrite Ht1 in Ez.
      assert (Hobj : is_obj s id).
      { split; [exact Hin|]. destruct (o_fdtid (f_o (obj s id))) eqn:Ef; [|reflexivity].
        exfalso. apply Ez, A; [exact Hin|congruence]. }
      set (s2 := log_ev s1 (EvStop (o_toi (f_o (obj s1 id))))).
      assert (Ht2 : forall j, toi_of s2 j = toi_of s j) by (intros j; change (toi_of s2 j) with (toi_of s1 j); apply Ht1).
      assert (Hf2 : files s2 = files s) by reflexivity.
      assert (Eo2 : forall j, obj s2 j = obj s1 j) by reflexivity.
      assert (Hl2 : List.length (objs s2) = List.length (objs s)) by exact Hl1.
      assert (Hio2 : forall j, is_obj s2 j <-> is_obj s j) by exact Hio1.
      change (o_toi (f_o (obj s1 id))) with (toi_of s1 id). rewrite Ht1.
      assert (Hadd : is_added s2 (toi_of s id) = true <-> In id (files s)).
      { rewrite is_added_iff. rewrite Hf2. split.
        - intros (j & H1 & H2). rewrite Ht2 in H2.
          assert (j = id) by (apply C; [apply D, H1|exact Hobj|exact H2]). subst. exact H1.
        - intros H. exists id. split; [exact H|apply Ht2]. }
      destruct (is_added s2 (toi_of s id)) eqn:Ea; cbn [negb].
      + assert (Hidf : In id (files s)) by (apply Hadd; reflexivity).
        destruct (is_expired (obj s1 id)) eqn:Ex; cbn [negb].
        * (* last transfer done: the object leaves the FDT *)
          set (s3 := set_files s2 (remove_toi s2 (toi_of s id) (files s2))).
          assert (Ht3 : forall j, toi_of s3 j = toi_of s j) by (intros j; change (toi_of s3 j) with (toi_of s1 j); apply Ht1).
          assert (Eo3 : forall j, obj s3 j = obj s1 j) by reflexivity.
          assert (Hio3 : forall j, is_obj s3 j <-> is_obj s j) by exact Hio1.
          assert (Hf3 : forall j, In j (files s3) <-> In j (files s) /\ toi_of s j <> toi_of s id).
          { intros j. unfold s3. cbn [files set_files]. rewrite in_remove_toi, Hf2, Ht2. reflexivity. }
          split.
          -- intros j H1 H2. rewrite Ht3. apply A; [exact H1 || (rewrite <- Hl1; exact H1)|]. rewrite Eo3, Ho1 in H2. exact H2.
          -- intros j H. rewrite Ht3. apply B, Hio3, H.
          -- intros i j Hi Hj. rewrite !Ht3. apply C; apply Hio3; assumption.
          -- intros j H. apply Hf3 in H as [H _]. apply Hio3, D, H.
          -- intros j H. change (List.length (objs s3)) with (List.length (objs s1)). rewrite Hl1. apply E, H.
          -- intros j Hj. rewrite Hf3, Eo3. assert (Hj0 : is_obj s j) by (apply Hio3; exact Hj).
             destruct (Nat.eq_dec j id) as [->|Hne].
             ++ rewrite Ex. split; [intros [_ Hc]; congruence|intros [_ Hc]; discriminate].
             ++ rewrite He1 by exact Hne. specialize (F j Hj0). split.
                ** intros [H1 _]. apply F, H1.
                ** intros H. split; [apply F, H|]. intros Hc. apply Hne, C; assumption.
        * apply Hkeep; [reflexivity|reflexivity|intros _; first [exact Ex|reflexivity]].
      + apply Hkeep; [reflexivity|reflexivity|]. intros Hc. apply Hadd in Hc. congruence.
  Qed.

  (* ---------- operations ---------- *)
  Definition add_toi (o : SenderCtl.op) : list N := match o with OpAdd od _ _ => [o_toi od] | _ => [] end.

  (* an added object is not an FDT instance, has a non-zero TOI and is to be sent at least once *)
  Definition op_ok (o : SenderCtl.op) : Prop :=
    match o with OpAdd od _ _ => o_fdtid od = None /\ o_toi od <> 0 /\ 1 <= o_max od | _ => True end.

  (* the objects a remove_object call takes out of the FDT *)
  Definition rm_step (s : st) (o : SenderCtl.op) : list nat :=
    match o with OpRemove toi => filter (fun id => toi_of s id =? toi) (files s) | _ => [] end.

  Definition seen_ok (seen : list N) (s : st) : Prop := forall id, is_obj s id -> In (toi_of s id) seen.

  Lemma seen_ok_same seen s s' : same_view s s' -> seen_ok seen s -> seen_ok seen s'.
  Proof.
    intros (_ & Hl & Ho) H id [H1 H2]. unfold toi_of. rewrite (proj1 (Ho id)). apply H.
    split; [rewrite <- Hl; exact H1|rewrite <- (proj1 (Ho id)); exact H2].
  Qed.

  Lemma seen_ok_publish seen now s : seen_ok seen s -> seen_ok seen (snd (publish fdt_npk fdt_ok now s)).
  Proof.
    intros H. destruct (fdt_ok (fdtid s)) eqn:Hok; [|unfold publish; rewrite Hok; exact H].
    destruct (publish_objs now s Hok) as (Hl & _ & Hold & Hnew). intros id [H1 H2]. rewrite Hl in H1.
    assert (id < List.length (objs s) \/ id = List.length (objs s))%nat as [Hlt | ->] by lia.
    - unfold toi_of. rewrite (proj1 (Hold id Hlt)). apply H. split; [exact Hlt|]. rewrite <- (proj1 (Hold id Hlt)). exact H2.
    - rewrite Hnew in H2. discriminate.
  Qed.

  (* both invariants together, as one state predicate, through Sender::read *)
  Definition RInv (rm : list nat) (seen : list N) (s : st) : Prop := FilesInv rm s /\ seen_ok seen s.

  Lemma RInv_same rm seen s s' : same_view s s' -> RInv rm seen s -> RInv rm seen s'.
  Proof. intros Hv [A B]. split; [eapply FilesInv_same|eapply seen_ok_same]; eauto. Qed.

  Lemma RInv_publish rm seen now s : RInv rm seen s -> RInv rm seen (snd (publish fdt_npk fdt_ok now s)).
  Proof. intros [A B]. split; [apply FilesInv_publish|apply seen_ok_publish]; assumption. Qed.

  Lemma seen_ok_done seen id now s : seen_ok seen s -> seen_ok seen (transfer_done id now s).
  Proof.
    intros H j [H1 H2].
    assert (Hl : List.length (objs (transfer_done id now s)) = List.length (objs s)).
    { unfold transfer_done. repeat match goal with |- context [if ?c then _ else _] => destruct c end;
        cbn; apply upd_nth_length. }
    assert (Ho : f_o (obj (transfer_done id now s) j) = f_o (obj s j)).
    { assert (Hu : f_o (obj (upd_t s id (t_done now)) j) = f_o (obj s j)).
      { destruct (Nat.lt_ge_cases id (List.length (objs s))) as [Hin|Hout]; [|rewrite upd_t_out by exact Hout; reflexivity].
        destruct (Nat.eq_dec id j) as [<-|Hne];
          [rewrite obj_upd_t_same by exact Hin; reflexivity|rewrite obj_upd_t_other by exact Hne; reflexivity]. }
      unfold transfer_done. repeat match goal with |- context [if ?c then _ else _] => destruct c end; exact Hu. }
    unfold toi_of. rewrite Ho. apply H. split; [rewrite <- Hl; exact H1|rewrite <- Ho; exact H2].
  Qed.

  Lemma RInv_read rm seen now s o s' :
    RInv rm seen s -> sender_read fdt_npk fdt_ok divf now s = (o, s') -> RInv rm seen s'.
  Proof.
    intros Hi E. eapply (sender_read_I fdt_npk fdt_ok divf (RInv rm seen)); try exact E; try exact Hi.
    - (* get_next_fdt_transfer *)
      clear. intros now s o s' Hi H. unfold get_next_fdt_transfer in H.
      destruct (match cur_fdt s with Some c => t_transferring (f_t (obj s c)) | None => false end);
        [inversion H; subst; exact Hi|].
      set (s1 := if current_fdt_will_expire now s then snd (publish fdt_npk fdt_ok now s) else s) in H.
      assert (H1 : RInv rm seen s1) by (unfold s1; destruct (current_fdt_will_expire now s); [apply RInv_publish|]; exact Hi).
      set (s2 := match fdtq s1 with [] => s1 | x :: r => set_cur_fdt (set_fdtq s1 r) (Some x) end) in H.
      assert (H2 : RInv rm seen s2) by (unfold s2; destruct (fdtq s1); [exact H1|apply (RInv_same rm seen s1); [apply same_view_eq; reflexivity|exact H1]]).
      destruct (cur_fdt s2) as [c|]; [|inversion H; subst; exact H2].
      destruct (should_transfer_now (obj s2 c) 0 (full_fdt s2) now); [|inversion H; subst; exact H2].
      destruct (transfer_started divf c now s2) as [s3|] eqn:E; inversion H; subst.
      eapply RInv_same; [eapply same_view_started; exact E|exact H2].
    - (* get_next_file_transfer *)
      clear. intros prio now s o s' Hi H. unfold get_next_file_transfer in H.
      destruct (find_remove _ (queue s)) as [[id q']|]; [|inversion H; subst; exact Hi].
      destruct (transfer_started divf id now _) as [s2|] eqn:E; [|discriminate].
      assert (H2 : RInv rm seen s2).
      { eapply RInv_same; [eapply same_view_started; exact E|].
        apply (RInv_same rm seen s); [apply same_view_eq; reflexivity|exact Hi]. }
      inversion H; subst. destruct (full_fdt s2); [exact H2|apply RInv_publish, H2].
    - intros id now0 s0 [A B]. split; [apply FilesInv_done, A|apply seen_ok_done, B].
    - intros s0 id H. apply (RInv_same rm seen s0); [|exact H]. apply same_view_upd_t. left.
      unfold t_tickf. destruct (t_tick (f_t (obj s0 id))), (t_next_ts (f_t (obj s0 id))); reflexivity.
    - intros s0 x H. apply (RInv_same rm seen s0); [apply same_view_eq; reflexivity|exact H].
    - intros s0 x H. apply (RInv_same rm seen s0); [apply same_view_eq; reflexivity|exact H].
  Qed.

  Lemma FilesInv_rm_more rm rm' s : FilesInv rm s ->
    (forall id, In id rm' -> (id < List.length (objs s))%nat) ->
    (forall id, is_obj s id -> In id rm' -> ~ In id (files s) /\ True) ->
    (forall id, is_obj s id -> ~ In id rm' -> True) -> True.
  Proof. auto. Qed.

  Lemma RInv_step rm seen s o out s' :
    op_ok o -> (forall t, In t (add_toi o) -> ~ In t seen) ->
    RInv rm seen s -> step fdt_npk fdt_ok divf s o = (out, s') ->
    RInv (rm ++ rm_step s o) (seen ++ add_toi o) s'.
  Proof.
    intros Hw Hfresh [Hi Hs] H.
    assert (Hweak : forall s0, RInv rm seen s0 -> RInv (rm ++ []) (seen ++ add_toi o) s0).
    { intros s0 [A B]. rewrite app_nil_r. split; [exact A|]. intros id Hid. apply in_or_app. left. apply B, Hid. }
    destruct o as [od start acc|now|toi|toi ts| |now]; cbn [step rm_step] in *.
    - (* add *)
      destruct (negb (has_queue s (o_prio od))); [inversion H; subst; apply Hweak; split; assumption|].
      destruct (complete s); [inversion H; subst; apply Hweak; split; assumption|].
      destruct (negb acc); inversion H; subst; [apply Hweak; split; assumption|]. clear H.
      destruct Hw as (Hfd & Htz & Hmax). rewrite app_nil_r.
      set (n := List.length (objs s)).
      set (nf := mk_fdesc od false (mk_tinfo false 0 0 None None None None start)).
      set (s' := set_queue _ _).
      assert (Hl : List.length (objs s') = S n) by (unfold s'; cbn; rewrite app_length; cbn; lia).
      assert (Hold : forall j, (j < n)%nat -> obj s' j = obj s j)
        by (intros j Hj; unfold s', obj; cbn; rewrite app_nth1 by exact Hj; reflexivity).
      assert (Hnew : obj s' n = nf) by (unfold s', obj; cbn; rewrite app_nth2 by lia; rewrite Nat.sub_diag; reflexivity).
      assert (Hf : files s' = files s ++ [n]) by reflexivity.
      assert (Hio : forall j, is_obj s' j <-> (is_obj s j \/ j = n)).
      { intros j. unfold is_obj. rewrite Hl. split.
        - intros [H1 H2]. assert (j < n \/ j = n)%nat as [Hlt | ->] by lia; [left|right; reflexivity].
          rewrite Hold in H2 by exact Hlt. split; assumption.
        - intros [[H1 H2] | ->]; [rewrite Hold by exact H1; split; [lia|exact H2]|]. rewrite Hnew. split; [lia|exact Hfd]. }
      assert (Htn : toi_of s' n = o_toi od) by (unfold toi_of; rewrite Hnew; reflexivity).
      assert (Hto : forall j, (j < n)%nat -> toi_of s' j = toi_of s j) by (intros j Hj; unfold toi_of; rewrite Hold by exact Hj; reflexivity).
      assert (Hnotseen : forall j, is_obj s j -> toi_of s j <> o_toi od).
      { intros j Hj Heq. apply (Hfresh (o_toi od)); [left; reflexivity|]. rewrite <- Heq. apply Hs, Hj. }
      destruct Hi as [A B C D E F]. split; [split|].
      + intros j H1 H2. rewrite Hl in H1. assert (j < n \/ j = n)%nat as [Hlt | ->] by lia.
        * rewrite Hto by exact Hlt. apply A; [exact Hlt|]. rewrite <- (Hold j Hlt). exact H2.
        * rewrite Hnew in H2. cbn in H2. congruence.
      + intros j Hj. apply Hio in Hj as [Hj | ->]; [rewrite Hto by apply Hj; apply B, Hj|rewrite Htn; exact Htz].
      + intros i j Hi0 Hj0 Heq. apply Hio in Hi0, Hj0.
        destruct Hi0 as [Hi0 | ->], Hj0 as [Hj0 | ->]; try reflexivity.
        * rewrite !Hto in Heq by (apply Hi0 || apply Hj0). apply C; assumption.
        * rewrite (Hto i (proj1 Hi0)), Htn in Heq. exfalso. apply (Hnotseen i Hi0 Heq).
        * rewrite (Hto j (proj1 Hj0)), Htn in Heq. exfalso. apply (Hnotseen j Hj0). symmetry. exact Heq.
      + intros j Hj. rewrite Hf in Hj. apply Hio. apply in_app_or in Hj as [Hj | [<- | []]]; [left; apply D, Hj|right; reflexivity].
      + intros j Hj. rewrite Hl. specialize (E j Hj). fold n in E. lia.
      + intros j Hj. rewrite Hf. apply Hio in Hj as [Hj | ->].
        * rewrite Hold by apply Hj. specialize (F j Hj). split.
          -- intros Hin. apply in_app_or in Hin as [Hin | [<- | []]]; [apply F, Hin|]. destruct Hj as [Hj _]. fold n in Hj. lia.
          -- intros Hr. apply in_or_app. left. apply F, Hr.
        * rewrite Hnew. split.
          -- intros _. split; [intros Hc; specialize (E n Hc); fold n in E; lia|].
             unfold is_expired, nf. cbn. destruct (N.ltb_spec 0 (o_max od)); [reflexivity|lia].
          -- intros _. apply in_or_app. right. left. reflexivity.
      + intros j Hj. apply Hio in Hj as [Hj | ->]; apply in_or_app.
        * left. rewrite Hto by apply Hj. apply Hs, Hj.
        * right. rewrite Htn. left. reflexivity.
    - (* publish *)
      pose proof (RInv_publish rm seen now s (conj Hi Hs)) as Hp.
      destruct (publish fdt_npk fdt_ok now s) as [ok s1]. inversion H; subst. apply Hweak. exact Hp.
    - (* remove *)
      destruct (is_added s toi) eqn:Ea; injection H as _ Hs'; rewrite <- Hs'; clear Hs'.
      2:{ assert (Hnil : filter (fun id => toi_of s id =? toi) (files s) = []).
          { destruct (filter _ (files s)) as [|j l] eqn:Ef; [reflexivity|].
            assert (Hj : In j (filter (fun id => toi_of s id =? toi) (files s))) by (rewrite Ef; left; reflexivity).
            apply filter_In in Hj as [H1 H2]. apply N.eqb_eq in H2.
            assert (is_added s toi = true) by (apply is_added_iff; exists j; tauto). congruence. }
          rewrite Hnil. apply Hweak. split; assumption. }
      rewrite app_nil_r.
      set (s2 := set_queue _ _).
      assert (Hv : forall j, obj s2 j = obj s j) by reflexivity.
      assert (Hl : List.length (objs s2) = List.length (objs s)) by reflexivity.
      assert (Hf : forall j, In j (files s2) <-> In j (files s) /\ toi_of s j <> toi) by (intros j; apply in_remove_toi).
      destruct Hi as [A B C D E F]. split; [split|].
      + exact A.
      + exact B.
      + exact C.
      + intros j Hj. apply Hf in Hj as [Hj _]. apply D, Hj.
      + intros j Hj. apply in_app_or in Hj as [Hj | Hj]; [apply E, Hj|].
        apply filter_In in Hj as [Hj _]. apply D, Hj.
      + intros j Hj. change (is_obj s j) in Hj. rewrite Hf, Hv. specialize (F j Hj). split.
        * intros [H1 H2]. apply F in H1 as [H1 H3]. split; [|exact H3]. intros Hc. apply in_app_or in Hc as [Hc | Hc]; [contradiction|].
          apply filter_In in Hc as [_ Hc]. apply N.eqb_eq in Hc. contradiction.
        * intros [H1 H2]. assert (Hnr : ~ In j rm) by (intros Hc; apply H1, in_or_app; left; exact Hc).
          assert (Hjf : In j (files s)) by (apply F; split; assumption). split; [exact Hjf|].
          intros Hc. apply H1, in_or_app. right. apply filter_In. split; [exact Hjf|apply N.eqb_eq, Hc].
      + exact Hs.
    - (* trigger *)
      destruct (find_file s toi) as [id|]; [|inversion H; subst; apply Hweak; split; assumption].
      destruct (t_transferring _); inversion H; subst; apply Hweak; [split; assumption|].
      apply (RInv_same rm seen s); [|split; assumption]. apply same_view_upd_t. left. reflexivity.
    - inversion H; subst. apply Hweak. apply (RInv_same rm seen s); [apply same_view_eq; reflexivity|split; assumption].
    - destruct (sender_read fdt_npk fdt_ok divf now s) as [r s1] eqn:E. inversion H; subst.
      apply Hweak. eapply RInv_read; [|exact E]. split; assumption.
  Qed.

  (* the objects removed by remove_object along a run *)
  Fixpoint removed_ids (s : st) (ops : list SenderCtl.op) : list nat :=
    match ops with
    | [] => []
    | o :: r => rm_step s o ++ removed_ids (snd (step fdt_npk fdt_ok divf s o)) r
    end.

  Lemma RInv_run : forall ops rm seen s outs s',
    Forall op_ok ops -> NoDup (seen ++ flat_map add_toi ops) ->
    RInv rm seen s -> run_ops fdt_npk fdt_ok divf s ops = (outs, s') ->
    RInv (rm ++ removed_ids s ops) (seen ++ flat_map add_toi ops) s'.
  Proof.
    induction ops as [|o ops IH]; intros rm seen s outs s' Hw Hnd Hi H; cbn [run_ops removed_ids flat_map] in *.
    - inversion H; subst. rewrite !app_nil_r. exact Hi.
    - destruct (step fdt_npk fdt_ok divf s o) as [x s1] eqn:E1.
      destruct (run_ops fdt_npk fdt_ok divf s1 ops) as [xs s2] eqn:E2. inversion H; subst. cbn [snd].
      inversion Hw; subst. rewrite !app_assoc. rewrite app_assoc in Hnd.
      eapply IH; [eassumption|exact Hnd| |exact E2].
      eapply RInv_step; [eassumption| |exact Hi|exact E1].
      intros t Ht Hc. clear - Hnd Ht Hc.
      induction seen as [|y seen IHs]; [contradiction|]. cbn in Hnd. inversion Hnd; subst.
      destruct Hc as [-> | Hc]; [apply H1, in_or_app; left; apply in_or_app; right; exact Ht|apply IHs; assumption].
  Qed.

  Lemma RInv_init full dur car sid queues : RInv [] [] (init_st full dur car sid queues).
  Proof.
    split; [split|]; cbn; try (intros; lia); try (intros ? [H _]; cbn in H; lia); try contradiction;
      try (intros i j [H _]; cbn in H; lia).
  Qed.

  (* (fdt_lists_exactly_announced, history level) after ANY operation history with distinct non-zero
     TOIs, an object that was added is in the FDT ([files], which is what a publication lists) if and
     only if no remove_object call took it out and it has not finished - finished = its transfer
     count reached max_transfer_count and it is not a carousel object *)
  Theorem files_added_not_removed_not_finished full dur car sid queues ops outs s :
    Forall op_ok ops -> NoDup (flat_map add_toi ops) ->
    run_ops fdt_npk fdt_ok divf (init_st full dur car sid queues) ops = (outs, s) ->
    (forall id, In id (files s) -> is_obj s id)
    /\ forall id, is_obj s id ->
         (In id (files s) <-> ~ In id (removed_ids (init_st full dur car sid queues) ops) /\ is_expired (obj s id) = false).
  Proof.
    intros Hw Hnd H. destruct (RInv_run ops [] [] _ _ _ Hw Hnd (RInv_init full dur car sid queues) H) as [[A B C D E F] _].
    split; [exact D|exact F].
  Qed.
End Listing.

(* ================================================================== superseded before expiry *)
Section Supersede.
  Variable fdt_npk : N -> nat.
  Variable fdt_ok : N -> bool.
  Variable divf : Z -> N -> option Z.

  (* the republication test of fdt.rs, as arithmetic *)
  Lemma will_expire_false_bound t s lp :
    last_publish s = Some lp -> cur_fdt s <> None ->
    current_fdt_will_expire t s = false ->
    fdtq s <> [] \/ (Z.max 0 (t - lp) <= fdt_duration s - margin (fdt_duration s)
                     /\ (margin (fdt_duration s) = 0 -> Z.max 0 (t - lp) < fdt_duration s))%Z.
  Proof.
    intros Hlp Hcur H. unfold current_fdt_will_expire in H.
    destruct (fdtq s) as [|x q]; [|left; discriminate]. right.
    destruct (cur_fdt s) as [c|]; [|congruence]. rewrite Hlp in H. unfold margin.
    destruct (Z.ltb_spec 30000000000 (fdt_duration s)).
    - apply Z.ltb_ge in H. split; [lia|discriminate].
    - destruct (Z.ltb_spec 10000000000 (fdt_duration s)).
      + apply Z.ltb_ge in H. split; [lia|discriminate].
      + apply Z.leb_gt in H. split; [lia|intros _; exact H].
  Qed.

  (* once the whole validity has elapsed the test fires, whatever the margin *)
  Lemma will_expire_eventually t s lp :
    last_publish s = Some lp -> fdtq s = [] -> (lp + fdt_duration s <= t)%Z -> (0 < fdt_duration s)%Z ->
    current_fdt_will_expire t s = true.
  Proof.
    intros Hlp Hq Ht Hd. unfold current_fdt_will_expire. rewrite Hq, Hlp.
    destruct (cur_fdt s); [|reflexivity].
    destruct (Z.ltb_spec 30000000000 (fdt_duration s)); [apply Z.ltb_lt; lia|].
    destruct (Z.ltb_spec 10000000000 (fdt_duration s)); [apply Z.ltb_lt; lia|apply Z.leb_le; lia].
  Qed.

  (* when the test fires and the instance can be built, get_next_fdt_transfer creates the successor:
     next id, content of the current state, publication instant = now *)
  Lemma republish_mechanism now s o s' :
    fdt_ok (fdtid s) = true ->
    match cur_fdt s with Some c => t_transferring (f_t (obj s c)) = false | None => True end ->
    current_fdt_will_expire now s = true ->
    get_next_fdt_transfer fdt_npk fdt_ok divf now s = ROk _ (o, s') ->
    instances s' = instances s ++ [(fdtid s, listed_tois s)] /\ last_publish s' = Some now.
  Proof.
    intros Hok Htr Hw H. unfold get_next_fdt_transfer in H.
    assert (E0 : match cur_fdt s with Some c => t_transferring (f_t (obj s c)) | None => false end = false)
      by (destruct (cur_fdt s); [exact Htr|reflexivity]).
    rewrite E0, Hw in H. destruct (publish_lists fdt_npk fdt_ok now s Hok) as (Hi & Hlp & _).
    set (s1 := snd (publish fdt_npk fdt_ok now s)) in *.
    set (s2 := match fdtq s1 with [] => s1 | x :: r => set_cur_fdt (set_fdtq s1 r) (Some x) end) in H.
    assert (H2 : instances s2 = instances s1 /\ last_publish s2 = last_publish s1)
      by (unfold s2; destruct (fdtq s1); split; reflexivity).
    destruct H2 as [I2 L2].
    destruct (cur_fdt s2) as [c|]; [|inversion H; subst; rewrite I2, L2; split; assumption].
    destruct (should_transfer_now (obj s2 c) 0 (full_fdt s2) now); [|inversion H; subst; rewrite I2, L2; split; assumption].
    destruct (transfer_started divf c now s2) as [s3|] eqn:E; inversion H; subst.
    unfold transfer_started in E. destruct (t_init divf _ now _); inversion E; subst.
    rewrite !instances_fos, fos_upd_t, <- !instances_fos. cbn [last_publish upd_t set_objs]. rewrite I2, L2. split; assumption.
  Qed.

  (* (fdt_superseded_before_expiry) an instance published at [lp] with validity [d]; the sender is
     polled at [t_prev] (test does not fire yet, nothing queued) and next at [t].  Outside the class
     D22 - poll gap + sub-second part of lp + sub-second part of d below the margin - [t] is
     strictly before the instant the instance expires; so the successor, which the poll at or
     before [t] creates (republish_mechanism), is queued before Expires. *)
  Theorem superseded_before_expiry s x :
    last_publish s = Some (rp_lp x) -> fdt_duration s = rp_d x -> fdtq s = [] -> cur_fdt s <> None ->
    (0 <= rp_lp x)%Z -> (0 <= rp_d x)%Z -> (rp_prev x <= rp_t x)%Z ->
    current_fdt_will_expire (rp_prev x) s = false ->
    in_D22 x = false -> P_C10_superseded x = true.
  Proof.
    intros Hlp Hd Hq Hcur H0 Hd0 Hord Hprev Hcls.
    destruct (will_expire_false_bound _ _ _ Hlp Hcur Hprev) as [Hc|[Hb Hz]]; [congruence|].
    unfold in_D22 in Hcls. apply Z.leb_gt in Hcls. unfold P_C10_superseded, expiry_instant, subsec in *.
    apply Z.ltb_lt. rewrite Hd in *.
    pose proof (Z.div_mod (rp_lp x) 1000000000 ltac:(lia)) as E1.
    pose proof (Z.div_mod (rp_d x) 1000000000 ltac:(lia)) as E2.
    pose proof (Z.mod_pos_bound (rp_lp x) 1000000000 ltac:(lia)).
    pose proof (Z.mod_pos_bound (rp_d x) 1000000000 ltac:(lia)).
    set (ql := (rp_lp x / 1000000000)%Z) in *. set (rl := (rp_lp x mod 1000000000)%Z) in *.
    set (qd := (rp_d x / 1000000000)%Z) in *. set (rd := (rp_d x mod 1000000000)%Z) in *.
    clearbody ql rl qd rd. lia.
  Qed.
End Supersede.

(* ================================================================== window predicate on the id sequence *)
Lemma window_ok_seq sid : forall w n a b, (a < b)%nat -> N.of_nat (b - a) + N.of_nat w <= TWO20 ->
  window_ok w ((sid + N.of_nat a) mod TWO20) (map (fun k => (sid + N.of_nat k) mod TWO20) (seq b n)) = true.
Proof.
  induction w as [|w IH]; intros n a b Hab Hw; [reflexivity|].
  destruct n as [|n]; [reflexivity|]. cbn [seq map window_ok].
  apply andb_true_iff. split.
  - apply negb_true_iff, N.eqb_neq. apply mod_eq_window; unfold TWO20 in *; lia.
  - apply IH; unfold TWO20 in *; lia.
Qed.

Lemma P_C10_window_seq sid w : N.of_nat w < TWO20 -> forall n a,
  P_C10_window w (map (fun k => (sid + N.of_nat k) mod TWO20) (seq a n)) = true.
Proof.
  intros Hw. induction n as [|n IH]; intros a; [reflexivity|]. cbn [seq map P_C10_window].
  rewrite IH, andb_true_r. apply window_ok_seq; unfold TWO20 in *; lia.
Qed.

(* ================================================================== outside D38 flute's escaping is faithful *)
Lemma printable_chr n : 32 <= n -> n < 256 -> printable (chr n) = true.
Proof. intros H1 H2. unfold printable. rewrite code_chr by exact H2. apply N.leb_le. exact H1. Qed.

Lemma dec_printable n : str_ok printable (dec n) = true.
Proof.
  unfold dec, str_ok. pose proof (to_decimal_canonical n) as Hc. unfold canonical_dec in Hc.
  apply andb_true_iff in Hc as [Hd _]. rewrite forallb_forall in *. intros c Hc.
  apply in_map_iff in Hc as (d & <- & Hin). specialize (Hd d Hin). apply N.ltb_lt in Hd.
  apply printable_chr; lia.
Qed.

Lemma b64_char_printable v : printable (b64_char v) = true.
Proof.
  unfold b64_char.
  destruct (N.ltb_spec v 26); [apply printable_chr; lia|].
  destruct (N.ltb_spec v 52); [apply printable_chr; lia|].
  destruct (N.ltb_spec v 62); [apply printable_chr; lia|].
  destruct (v =? 62); reflexivity.
Qed.

Lemma b64_printable : forall n l, (List.length l <= n)%nat -> str_ok printable (b64 l) = true.
Proof.
  induction n as [|n IH]; intros l H.
  - destruct l; [reflexivity|cbn in H; lia].
  - destruct l as [|a [|b [|c r]]]; cbn [b64]; unfold str_ok; cbn [forallb]; rewrite ?b64_char_printable; try reflexivity.
    cbn [andb]. apply (IH r). cbn in H. lia.
Qed.

Lemma ostr_ok_scheme o : ostr_ok printable (scheme_info o) = true.
Proof.
  unfold scheme_info. destruct (fec_id o =? 2); [destruct (sch o); try reflexivity; apply (b64_printable 2); cbn; lia|].
  destruct (fec_id o =? 6); [destruct (sch o); try reflexivity; apply (b64_printable 4); cbn; lia|].
  destruct (fec_id o =? 1); [destruct (sch o); try reflexivity; apply (b64_printable 4); cbn; lia|reflexivity].
Qed.

Lemma get_attributes_ok o : xoti_ok printable (get_attributes o) = true.
Proof.
  unfold xoti_ok, get_attributes. cbn [xo_id xo_inst xo_b xo_e xo_maxn xo_ssi ostr_ok].
  rewrite !dec_printable, ostr_ok_scheme. reflexivity.
Qed.

Lemma clean_str_ok s : clean_str s = str_ok printable s. Proof. reflexivity. Qed.

Lemma clean_ostr_ok o : clean_ostr o = ostr_ok printable o. Proof. destruct o; reflexivity. Qed.

Lemma to_file_xml_ok used m now : clean_meta m = true -> xfile_ok printable (to_file_xml used m now) = true.
Proof.
  unfold clean_meta. intros H. repeat (apply andb_true_iff in H as [H ?]).
  unfold xfile_ok, to_file_xml.
  cbn [xf_loc xf_toi xf_clen xf_tlen xf_ctype xf_cenc xf_md5 xf_oti xf_etag xf_cache xf_groups ostr_ok].
  change (str_ok printable (m_loc m)) with (clean_str (m_loc m)).
  change (str_ok printable (m_ctype m)) with (clean_str (m_ctype m)).
  change (forallb (str_ok printable) (groups_list (m_groups m))) with (forallb clean_str (groups_list (m_groups m))).
  rewrite <- (clean_ostr_ok (m_md5 m)), <- (clean_ostr_ok (m_etag m)), <- (clean_ostr_ok (cenc_str (m_cenc m))).
  rewrite !dec_printable.
  repeat match goal with Hc : _ = true |- _ => rewrite Hc; clear Hc end. cbn [andb].
  assert (Hcenc : clean_ostr (cenc_str (m_cenc m)) = true).
  { unfold cenc_str. destruct (m_cenc m =? 0); [reflexivity|]. destruct (m_cenc m =? 1); [reflexivity|].
    destruct (m_cenc m =? 2); reflexivity. }
  rewrite Hcenc. cbn [andb].
  assert (Hoti : xoti_ok printable (if (fec_id used =? 6) || (fec_id used =? 1) then get_attributes used
                   else match m_oti m with Some o => get_attributes o | None => empty_xoti end) = true).
  { destruct ((fec_id used =? 6) || (fec_id used =? 1)); [apply get_attributes_ok|].
    destruct (m_oti m); [apply get_attributes_ok|reflexivity]. }
  rewrite Hoti. cbn [andb]. rewrite andb_true_r.
  destruct (m_cache m) as [[| |d|t]|]; cbn [cache_xml xcache_ok]; try reflexivity; apply dec_printable.
Qed.

Lemma instance_clean cfg complete now ms : in_D38 cfg ms = false ->
  xfdt_ok printable (get_fdt_instance cfg complete now ms) = true.
Proof.
  unfold in_D38. intros H. apply negb_false_iff in H. apply andb_true_iff in H as [Hg Hm].
  unfold xfdt_ok, get_fdt_instance, instance_gen.
  cbn [xi_expires xi_complete xi_full xi_oti xi_files xi_groups]. rewrite dec_printable.
  assert (H1 : ostr_ok printable (if complete then Some (lit "true") else None) = true) by (destruct complete; reflexivity).
  assert (H2 : ostr_ok printable (if c_full cfg then Some (lit "true") else None) = true) by (destruct (c_full cfg); reflexivity).
  assert (H3 : xoti_ok printable (if (fec_id (c_oti cfg) =? 6) || (fec_id (c_oti cfg) =? 1) then empty_xoti
                                  else get_attributes (c_oti cfg)) = true)
    by (destruct ((fec_id (c_oti cfg) =? 6) || (fec_id (c_oti cfg) =? 1)); [reflexivity|apply get_attributes_ok]).
  rewrite H1, H2, H3. cbn [andb]. change (forallb (str_ok printable)) with (forallb clean_str). rewrite Hg, andb_true_r.
  rewrite forallb_forall in *. intros f Hf. apply in_map_iff in Hf as (m & <- & Hin). apply to_file_xml_ok, Hm, Hin.
Qed.

(* outside D38, the instance written with flute's escaping is read by the independent parser as
   what the sender was given *)
Theorem spec_instance_holds_flute_escaping cfg complete now ms :
  in_D38 cfg ms = false -> time_in_era now -> Forall (meta_ok cfg now) ms ->
  P_C10_instance cfg complete now ms (print_fdt_with esc_raw (get_fdt_instance cfg complete now ms)) = true.
Proof.
  intros Hc Ht Hms. unfold P_C10_instance. rewrite xml_roundtrip_raw by (apply instance_clean, Hc).
  apply content_holds; assumption.
Qed.

(* ================================================================== statements as used by Properties/C10.v *)
Lemma publish_lists_exactly : forall fdt_npk fdt_ok now s,
  fdt_ok (fdtid s) = true ->
  instances (snd (publish fdt_npk fdt_ok now s)) = instances s ++ [(fdtid s, listed_tois s)]
  /\ last_publish (snd (publish fdt_npk fdt_ok now s)) = Some now
  /\ files (snd (publish fdt_npk fdt_ok now s)) = files s
  /\ (full_fdt s = true -> listed_tois s = map (toi_of s) (files s))
  /\ (full_fdt s = false ->
      listed_tois s = map (toi_of s) (filter (fun id => t_transferring (f_t (obj s id))) (files s))).
Proof.
  intros fdt_npk fdt_ok now s H. destruct (publish_lists fdt_npk fdt_ok now s H) as (A & B & C).
  repeat split; try assumption; [apply listed_tois_full|apply listed_tois_bt].
Qed.

Lemma spec_ids_holds : forall fdt_npk fdt_ok divf full dur car sid queues ops outs s w,
  sid < TWO20 -> Forall op_wf ops -> N.of_nat w < TWO20 ->
  run_ops fdt_npk fdt_ok divf (init_st full dur car sid queues) ops = (outs, s) ->
  P_C10_ids sid (map fst (instances s)) = true /\ P_C10_window w (map fst (instances s)) = true.
Proof.
  intros fdt_npk fdt_ok divf full dur car sid queues ops outs s w Hs Hw Hww H.
  destruct (fdt_id_sequence fdt_npk fdt_ok divf full dur car sid queues ops outs s Hs Hw H) as [E _].
  rewrite E. split; [apply P_C10_ids_seq|apply P_C10_window_seq, Hww].
Qed.

Lemma spec_instance_holds_outside_D38 : forall cfg complete now ms,
  ~ (in_D38 cfg ms = true) -> time_in_era now -> Forall (meta_ok cfg now) ms ->
  P_C10_instance cfg complete now ms (print_fdt_with esc_raw (get_fdt_instance cfg complete now ms)) = true.
Proof.
  intros cfg complete now ms Hk. apply spec_instance_holds_flute_escaping.
  destruct (in_D38 cfg ms); [exfalso; apply Hk; reflexivity|reflexivity].
Qed.

Lemma superseded_outside_D22 : forall s x,
  ~ (in_D22 x = true) ->
  last_publish s = Some (rp_lp x) -> fdt_duration s = rp_d x -> fdtq s = [] -> cur_fdt s <> None ->
  (0 <= rp_lp x)%Z -> (0 <= rp_d x)%Z -> (rp_prev x <= rp_t x)%Z ->
  current_fdt_will_expire (rp_prev x) s = false ->
  P_C10_superseded x = true.
Proof.
  intros s x Hk. intros. eapply superseded_before_expiry; eauto.
  destruct (in_D22 x); [exfalso; apply Hk; reflexivity|reflexivity].
Qed.

(* ================================================================== base64 *)
Lemma b64_val_char : forall v, v < 64 -> b64_val (b64_char v) = Some v /\ Ascii.eqb (b64_char v) "=" = false.
Proof.
  assert (H : forallb (fun k => let v := N.of_nat k in
                        match b64_val (b64_char v) with Some w => w =? v | None => false end
                        && negb (Ascii.eqb (b64_char v) "=")) (seq 0 64) = true) by (vm_compute; reflexivity).
  intros v Hv. rewrite forallb_forall in H. specialize (H (N.to_nat v)).
  rewrite N2Nat.id in H. cbv zeta in H.
  assert (Hin : In (N.to_nat v) (seq 0 64)) by (apply in_seq; lia). specialize (H Hin).
  apply andb_true_iff in H as [H1 H2]. destruct (b64_val (b64_char v)) as [w|]; [|discriminate].
  apply N.eqb_eq in H1. subst. split; [reflexivity|]. apply negb_true_iff in H2. exact H2.
Qed.

Lemma divmod_unique x d q r : r < d -> x = d * q + r -> x / d = q /\ x mod d = r.
Proof. intros Hr E. split; [symmetry; eapply N.div_unique; eauto|symmetry; eapply N.mod_unique; eauto]. Qed.

Lemma b64_roundtrip : forall n l, (List.length l <= n)%nat -> Forall (fun b => b < 256) l -> b64_decode (b64 l) = Some l.
Proof.
  induction n as [|n IH]; intros l Hl Hb.
  - destruct l; [reflexivity|cbn in Hl; lia].
  - destruct l as [|a [|b [|c r]]]; [reflexivity| | |].
    + (* one byte *)
      inversion Hb as [|? ? Ha _]; subst. cbn [b64].
      pose proof (N.div_mod a 4 ltac:(lia)) as Ea. pose proof (N.mod_lt a 4 ltac:(lia)) as Ra.
      assert (Qa : a / 4 < 64) by (apply N.div_lt_upper_bound; lia).
      destruct (b64_val_char (a / 4) Qa) as [V0 _].
      destruct (b64_val_char ((a mod 4) * 16) ltac:(lia)) as [V1 _].
      cbn [b64_decode]. rewrite V0, V1. change (Ascii.eqb "=" "=") with true. cbv iota.
      destruct (divmod_unique ((a mod 4) * 16) 16 (a mod 4) 0 ltac:(lia) ltac:(lia)) as [D M]. rewrite D, M.
      change (0 =? 0) with true. cbn [andb]. f_equal. f_equal. lia.
    + (* two bytes *)
      inversion Hb as [|? ? Ha Hb']; subst. inversion Hb' as [|? ? Hbb _]; subst. cbn [b64].
      pose proof (N.div_mod a 4 ltac:(lia)) as Ea. pose proof (N.mod_lt a 4 ltac:(lia)) as Ra.
      pose proof (N.div_mod b 16 ltac:(lia)) as Eb. pose proof (N.mod_lt b 16 ltac:(lia)) as Rb.
      assert (Qa : a / 4 < 64) by (apply N.div_lt_upper_bound; lia).
      assert (Qb : b / 16 < 16) by (apply N.div_lt_upper_bound; lia).
      destruct (b64_val_char (a / 4) Qa) as [V0 _].
      destruct (b64_val_char ((a mod 4) * 16 + b / 16) ltac:(lia)) as [V1 _].
      destruct (b64_val_char ((b mod 16) * 4) ltac:(lia)) as [V2 N2].
      cbn [b64_decode]. rewrite V0, V1, N2, V2. change (Ascii.eqb "=" "=") with true. cbv iota.
      destruct (divmod_unique ((a mod 4) * 16 + b / 16) 16 (a mod 4) (b / 16) Qb ltac:(lia)) as [D1 M1].
      destruct (divmod_unique ((b mod 16) * 4) 4 (b mod 16) 0 ltac:(lia) ltac:(lia)) as [D2 M2].
      rewrite D1, M1, D2, M2. change (0 =? 0) with true. cbn [andb]. f_equal. f_equal; [lia|f_equal; lia].
    + (* three bytes and the rest *)
      inversion Hb as [|? ? Ha Hb']; subst. inversion Hb' as [|? ? Hbb Hb'']; subst. inversion Hb'' as [|? ? Hc Hr]; subst.
      cbn [b64].
      pose proof (N.div_mod a 4 ltac:(lia)) as Ea. pose proof (N.mod_lt a 4 ltac:(lia)) as Ra.
      pose proof (N.div_mod b 16 ltac:(lia)) as Eb. pose proof (N.mod_lt b 16 ltac:(lia)) as Rb.
      pose proof (N.div_mod c 64 ltac:(lia)) as Ec. pose proof (N.mod_lt c 64 ltac:(lia)) as Rc.
      assert (Qa : a / 4 < 64) by (apply N.div_lt_upper_bound; lia).
      assert (Qb : b / 16 < 16) by (apply N.div_lt_upper_bound; lia).
      assert (Qc : c / 64 < 4) by (apply N.div_lt_upper_bound; lia).
      destruct (b64_val_char (a / 4) Qa) as [V0 _].
      destruct (b64_val_char ((a mod 4) * 16 + b / 16) ltac:(lia)) as [V1 _].
      destruct (b64_val_char ((b mod 16) * 4 + c / 64) ltac:(lia)) as [V2 N2].
      destruct (b64_val_char (c mod 64) Rc) as [V3 N3].
      cbn [b64_decode]. rewrite V0, V1, N2, V2, N3, V3.
      rewrite (IH r) by (cbn in Hl; lia || exact Hr).
      destruct (divmod_unique ((a mod 4) * 16 + b / 16) 16 (a mod 4) (b / 16) Qb ltac:(lia)) as [D1 M1].
      destruct (divmod_unique ((b mod 16) * 4 + c / 64) 4 (b mod 16) (c / 64) Qc ltac:(lia)) as [D2 M2].
      rewrite D1, M1, D2, M2. f_equal. f_equal; [lia|f_equal; [lia|f_equal; lia]].
Qed.

Lemma b64_decode_b64 l : Forall (fun b => b < 256) l -> b64_decode (b64 l) = Some l.
Proof. apply (b64_roundtrip (List.length l)). lia. Qed.

(* ================================================================== the receiver reads the metadata back *)
Section RecvProof.
  Variable b64_decode : str -> option (list N).
  Hypothesis b64_ok : forall l, Forall (fun b => b < 256) l -> b64_decode (b64 l) = Some l.

  (* an OTI as the constructors of oti.rs build it: known FEC id, fields within their Rust types,
     scheme element of the right kind *)
  Definition oti_wf (o : oti) : Prop :=
    valid_fec (fec_id o) = true /\ fec_inst o < 65536 /\ max_sbl o < 4294967296 /\ esl o < 65536
    /\ parity o < 4294967296
    /\ match sch o with
       | SchNone => fec_id o <> 6 /\ fec_id o <> 1
       | SchRS m g => fec_id o = 2 /\ m < 256 /\ g < 256
       | SchRaptorQ z n al => fec_id o = 6 /\ z < 256 /\ n < 65536 /\ al < 256
       | SchRaptor z n al => fec_id o = 1 /\ z < 65536 /\ n < 256 /\ al < 256
       end.

  Lemma num_attr_dec bound n : n < bound -> num_attr bound (Some (dec n)) = Some (Some n).
  Proof. intros H. unfold num_attr. rewrite parse_dec_dec. apply N.ltb_lt in H. rewrite H. reflexivity. Qed.

  Lemma valid_fec_lt id : valid_fec id = true -> id < 256.
  Proof.
    unfold valid_fec. intros H. repeat (apply orb_true_iff in H as [H|H]); apply N.eqb_eq in H; subst; reflexivity.
  Qed.

  Lemma scheme_from_info o : oti_wf o -> scheme_from b64_decode (fec_id o) (scheme_info o) = sch o.
  Proof.
    intros (Hv & _ & _ & _ & _ & Hs). unfold scheme_from, scheme_info.
    destruct (sch o) as [|m g|z n al|z n al].
    - destruct Hs as [H6 H1]. apply N.eqb_neq in H6, H1. rewrite H6, H1. destruct (fec_id o =? 2); reflexivity.
    - destruct Hs as (E & Hm & Hg). rewrite E. cbn [N.eqb]. change (2 =? 2) with true. cbv iota.
      rewrite b64_ok by (repeat constructor; assumption). reflexivity.
    - destruct Hs as (E & Hz & Hn & Hal). rewrite E. change (6 =? 2) with false. change (6 =? 6) with true. cbv iota.
      assert (n / 256 < 256) by (apply N.div_lt_upper_bound; lia).
      pose proof (N.mod_lt n 256 ltac:(lia)).
      rewrite b64_ok by (repeat constructor; assumption). f_equal.
      pose proof (N.div_mod n 256 ltac:(lia)). lia.
    - destruct Hs as (E & Hz & Hn & Hal). rewrite E. change (1 =? 2) with false. change (1 =? 6) with false.
      change (1 =? 1) with true. cbv iota.
      assert (z / 256 < 256) by (apply N.div_lt_upper_bound; lia).
      pose proof (N.mod_lt z 256 ltac:(lia)).
      rewrite b64_ok by (repeat constructor; assumption). f_equal.
      pose proof (N.div_mod z 256 ltac:(lia)). lia.
  Qed.

  Lemma get_oti_attributes o : oti_wf o ->
    exists n, de_oti (get_attributes o) = Some n /\ get_oti b64_decode n = OSome o.
  Proof.
    intros Hw. pose proof (scheme_from_info o Hw) as Hsch. destruct Hw as (Hv & Hi & Hb & He & Hp & Hs).
    pose proof (valid_fec_lt _ Hv) as Hid.
    unfold de_oti, get_attributes. cbn [xo_id xo_inst xo_b xo_e xo_maxn xo_ssi].
    rewrite !num_attr_dec by (unfold U64; lia). eexists. split; [reflexivity|].
    unfold get_oti. cbn [n_id n_inst n_b n_e n_maxn n_ssi]. rewrite Hv.
    destruct (N.ltb_spec (max_sbl o + parity o) (max_sbl o)); [lia|].
    rewrite Hsch. replace (max_sbl o + parity o - max_sbl o) with (parity o) by lia.
    rewrite !N.mod_small by lia. destruct o; reflexivity.
  Qed.

  Lemma de_oti_empty : de_oti empty_xoti = Some (mk_noti None None None None None None).
  Proof. reflexivity. Qed.

  Lemma cenc_of_str_cenc c : c <= 3 -> cenc_of_str (cenc_str c) = c.
  Proof.
    intros H. unfold cenc_str.
    destruct (N.eqb_spec c 0) as [->|H0]; [reflexivity|].
    destruct (N.eqb_spec c 1) as [->|H1]; [reflexivity|].
    destruct (N.eqb_spec c 2) as [->|H2]; [reflexivity|].
    assert (c = 3) by lia. subst. reflexivity.
  Qed.

  (* the OTI a FileDesc uses = the configured one with Z of the object: well-formed again *)
  Lemma filedesc_oti_spec session per tlen u :
    filedesc_oti session per tlen = Some u ->
    oti_wf (match per with Some x => x | None => session end) ->
    u = spec_oti (match per with Some x => x | None => session end) tlen /\ oti_wf u.
  Proof.
    set (o := match per with Some x => x | None => session end). unfold filedesc_oti. fold o.
    intros H (Hv & Hi & Hb & He & Hp & Hs). unfold spec_oti. rewrite <- (nb_blocks_spec o tlen).
    destruct (sch o) as [|m g|z n al|z n al] eqn:Es.
    - destruct Hs as [H6 H1]. apply N.eqb_neq in H6, H1. rewrite H6, H1 in H. inversion H; subst u.
      split; [destruct o; cbn in *; subst; reflexivity|]. repeat split; try assumption. rewrite Es.
      split; apply N.eqb_neq; assumption.
    - destruct Hs as (E & Hm & Hg). rewrite E in H. cbn in H. inversion H; subst u.
      split; [destruct o; cbn in *; subst; reflexivity|]. repeat split; try assumption. rewrite Es. repeat split; assumption.
    - destruct Hs as (E & Hz & Hn & Hal). rewrite E in H |- *. change (6 =? 6) with true in *. cbv iota in H.
      destruct (N.ltb_spec (nb_blocks o tlen) 256) as [Hlt|]; [|discriminate]. inversion H; subst u.
      split; [reflexivity|]. repeat split; cbn [fec_id fec_inst max_sbl esl parity sch]; try assumption;
        try (rewrite E; exact Hv).
    - destruct Hs as (E & Hz & Hn & Hal). rewrite E in H |- *. change (1 =? 6) with false in *.
      change (1 =? 1) with true in *. cbv iota in H.
      destruct (N.ltb_spec (nb_blocks o tlen) 65536) as [Hlt|]; [|discriminate]. inversion H; subst u.
      split; [reflexivity|]. repeat split; cbn [fec_id fec_inst max_sbl esl parity sch]; try assumption;
        try (rewrite E; exact Hv).
  Qed.

  Lemma oti_eqb_refl o : oti_eqb o o = true.
  Proof.
    unfold oti_eqb. rewrite !N.eqb_refl. cbn [andb]. destruct (sch o); cbn; rewrite ?N.eqb_refl; reflexivity.
  Qed.

  Lemma spec_oti_plain o tlen : oti_wf o -> (fec_id o =? 6) = false -> (fec_id o =? 1) = false -> spec_oti o tlen = o.
  Proof.
    intros (_ & _ & _ & _ & _ & Hs) H6 H1. unfold spec_oti.
    destruct (sch o) as [|m g|z n al|z n al] eqn:Es; try (destruct o; cbn in *; subst; reflexivity).
    - destruct Hs as (E & _). rewrite E in H6. discriminate.
    - destruct Hs as (E & _). rewrite E in H1. discriminate.
  Qed.

  (* (receiver_meta_from_fdt) flute's receiver, reading the instance the model emits, hands the
     writer builder exactly the metadata the sender was given for that object *)
  Theorem receiver_meta_from_fdt cfg complete now ms m :
    time_in_era now -> spec_expires now (c_dur cfg) < 4294967296 ->
    meta_ok cfg now m -> oti_wf (c_oti cfg) -> oti_wf (the_oti (c_oti cfg) m) ->
    m_clen m < U64 -> m_tlen m < U64 ->
    exists r, recv_meta b64_decode (get_fdt_instance cfg complete now ms) (to_file_xml (used_oti cfg m) m now) = MOk r
              /\ P_C10_meta cfg false now m r = true.
  Proof.
    intros Ht Hexp (Hacc & Hcenc & Hcache) Hws Hwo Hcl Htl.
    unfold recv_meta, get_fdt_instance, instance_gen, to_file_xml.
    cbn [xf_loc xf_toi xf_clen xf_tlen xf_ctype xf_cenc xf_md5 xf_oti xf_etag xf_cache xf_groups
         xi_expires xi_complete xi_full xi_oti xi_files xi_groups].
    rewrite !num_attr_dec by assumption.
    (* the two OTI attribute sets *)
    unfold used_oti. destruct (filedesc_oti (c_oti cfg) (m_oti m) (m_tlen m)) as [u|] eqn:Eu; [|congruence].
    destruct (filedesc_oti_spec _ _ _ _ Eu Hwo) as [Espec Hwu]. fold (the_oti (c_oti cfg) m) in Espec.
    assert (Hoti : exists fo io,
               de_oti (if (fec_id u =? 6) || (fec_id u =? 1) then get_attributes u
                       else match m_oti m with Some o => get_attributes o | None => empty_xoti end) = Some fo
               /\ de_oti (if (fec_id (c_oti cfg) =? 6) || (fec_id (c_oti cfg) =? 1) then empty_xoti
                          else get_attributes (c_oti cfg)) = Some io
               /\ match get_oti b64_decode fo with OSome o => OSome o | OPanic => OPanic | ONone => get_oti b64_decode io end
                  = OSome (spec_oti (the_oti (c_oti cfg) m) (m_tlen m))).
    { assert (Hio : exists io, de_oti (if (fec_id (c_oti cfg) =? 6) || (fec_id (c_oti cfg) =? 1) then empty_xoti
                                       else get_attributes (c_oti cfg)) = Some io
                     /\ ((fec_id (c_oti cfg) =? 6) || (fec_id (c_oti cfg) =? 1) = false -> get_oti b64_decode io = OSome (c_oti cfg))).
      { destruct ((fec_id (c_oti cfg) =? 6) || (fec_id (c_oti cfg) =? 1)).
        - eexists. split; [apply de_oti_empty|discriminate].
        - destruct (get_oti_attributes _ Hws) as (n & E1 & E2). exists n. split; [exact E1|intros _; exact E2]. }
      destruct Hio as (io & Eio & Hio).
      assert (Hid : fec_id u = fec_id (the_oti (c_oti cfg) m)) by (rewrite Espec; reflexivity).
      destruct ((fec_id u =? 6) || (fec_id u =? 1)) eqn:Ek.
      - destruct (get_oti_attributes _ Hwu) as (n & E1 & E2). exists n, io. repeat split; try assumption.
        rewrite E2, Espec. reflexivity.
      - apply orb_false_iff in Ek as [K6 K1]. rewrite Hid in K6, K1.
        unfold the_oti in *. destruct (m_oti m) as [o|].
        + destruct (get_oti_attributes _ Hwo) as (n & E1 & E2). exists n, io. repeat split; try assumption.
          rewrite E2. rewrite spec_oti_plain by assumption. reflexivity.
        + exists (mk_noti None None None None None None), io. split; [apply de_oti_empty|]. split; [exact Eio|]. cbn.
          rewrite Hio by (rewrite K6, K1; reflexivity). rewrite spec_oti_plain by assumption. reflexivity. }
    destruct Hoti as (fo & io & Efo & Eio & Eget). rewrite Efo, Eio.
    (* expiry of the instance and cache directive *)
    assert (Hexpus : expiration_us (dec (expires_value now (c_dur cfg)))
                     = Some (ntp_secs_to_us (spec_expires now (c_dur cfg)))).
    { unfold expiration_us. rewrite parse_dec_dec, expires_value_spec by exact Ht.
      assert (spec_expires now (c_dur cfg) <? U64 = true) as -> by (apply N.ltb_lt; unfold U64; lia).
      rewrite N.mod_small by exact Hexp.
      assert (2208988800 <= spec_expires now (c_dur cfg)) by (unfold spec_expires, spec_ntp_secs; lia).
      destruct (N.ltb_spec (spec_expires now (c_dur cfg)) 2208988800); [lia|]. reflexivity. }
    rewrite Hexpus.
    assert (Hc : exists rc, cache_of (match m_cache m with Some c => Some (cache_xml c now) | None => None end)
                                     (Some (ntp_secs_to_us (spec_expires now (c_dur cfg)))) = Some rc
                            /\ rcache_matches rc (m_cache m) now (c_dur cfg) = true).
    { assert (Hera : forall t, time_in_era t ->
                cache_of (Some (XExpires (dec (ntp_secs t mod 4294967296)))) (Some (ntp_secs_to_us (spec_expires now (c_dur cfg))))
                = Some (RExpiresAt (ntp_secs_to_us (spec_ntp_secs t mod 4294967296)))).
      { intros t Het. cbn [cache_of]. rewrite parse_dec_dec, ntp_secs_spec by exact Het.
        pose proof (ntp_secs_lt t Het). rewrite N.mod_small by assumption.
        assert (spec_ntp_secs t <? 4294967296 = true) as -> by (apply N.ltb_lt; assumption).
        assert (2208988800 <= spec_ntp_secs t) by (unfold spec_ntp_secs; lia).
        destruct (N.ltb_spec (spec_ntp_secs t) 2208988800); [lia|]. reflexivity. }
      destruct (m_cache m) as [[| |d|t]|]; cbn [cache_xml].
      - eexists. split; [reflexivity|reflexivity].
      - eexists. split; [reflexivity|reflexivity].
      - rewrite (Hera _ Hcache). eexists. split; [reflexivity|]. cbn. apply N.eqb_refl.
      - rewrite (Hera _ Hcache). eexists. split; [reflexivity|]. cbn. apply N.eqb_refl.
      - eexists. split; [reflexivity|]. cbn. apply N.eqb_refl. }
    destruct Hc as (rc & Erc & Hrc). rewrite Erc, Eget.
    eexists. split; [reflexivity|].
    unfold P_C10_meta. cbn [r_loc r_clen r_tlen r_ctype r_cache r_groups r_md5 r_oti r_cenc r_etag].
    rewrite str_eqb_refl, Hrc, strs_eqb_refl, !ostr_eqb_refl, oti_eqb_refl, (cenc_of_str_cenc _ Hcenc).
    unfold oN_is. rewrite !N.eqb_refl. reflexivity.
  Qed.
End RecvProof.
