(* C08, full statement: the packets of an uninterrupted transfer of a buffer source carry the
   right bytes.  Connects blocks_of_buffer (Block::new_from_buffer iterated by read_block_buffer)
   with the RFC 5052 partition (PartitionProofs) and with the window scheduler
   (BlockEncProofs.enc_run_complete_proof). *)
From FluteV Require Import Model.Partition Model.BlockEnc Spec.C07Spec Spec.C08Spec
  Proofs.PartitionProofs Proofs.BlockEncProofs.
From Coq Require Import Lia Arith PeanoNat FinFun.
Open Scope N_scope.

Arguments N.add : simpl never. Arguments N.mul : simpl never. Arguments N.sub : simpl never.
Arguments N.div : simpl never. Arguments N.modulo : simpl never. Arguments N.min : simpl never.
Arguments N.ltb : simpl never. Arguments N.leb : simpl never. Arguments N.eqb : simpl never.
Arguments N.of_nat : simpl never. Arguments N.to_nat : simpl never.

(* ================= 1. slice.chunks(e) ================= *)
Definition sumlen (l : list (list N)) : N := fold_right (fun d acc => lenN d + acc) 0 l.

Section Chunks.
  Variable en : nat.
  Hypothesis Hen : (0 < en)%nat.

  Lemma chunks_fuel_nth {A} : forall fuel (l : list A) i,
    (length l <= fuel)%nat -> (i * en < length l)%nat ->
    nth_error (chunks_fuel fuel en l) i = Some (firstn en (skipn (i * en) l)).
  Proof.
    induction fuel as [|f IH]; intros l i Hf Hi; [lia|].
    destruct l as [|x r]; [cbn [length] in Hi; lia|].
    cbn [chunks_fuel]. destruct i as [|j].
    - reflexivity.
    - cbn [nth_error]. rewrite IH.
      + rewrite skipn_skipn. replace (j * en + en)%nat with (S j * en)%nat by (cbn [Nat.mul]; lia). reflexivity.
      + rewrite skipn_length. cbn [length] in *. lia.
      + rewrite skipn_length. cbn [Nat.mul] in Hi. lia.
  Qed.

  Lemma chunks_fuel_length {A} : forall fuel (l : list A) m,
    (length l <= fuel)%nat -> (length l <= m * en)%nat -> (m = 0 \/ (m - 1) * en < length l)%nat ->
    length (chunks_fuel fuel en l) = m.
  Proof.
    induction fuel as [|f IH]; intros l m Hf Hm Hm'.
    - destruct l; [|cbn [length] in Hf; lia]. cbn [length] in *. destruct Hm'; [subst; reflexivity|lia].
    - destruct l as [|x r].
      + cbn [length] in *. destruct Hm'; [subst; reflexivity|lia].
      + cbn [chunks_fuel length]. destruct m as [|m']; [cbn [length] in Hm; lia|].
        f_equal. apply IH.
        * rewrite skipn_length. cbn [length] in *. lia.
        * rewrite skipn_length. cbn [Nat.mul] in Hm. lia.
        * rewrite skipn_length. destruct m' as [|m'']; [left; reflexivity|right].
          destruct Hm' as [Hm'|Hm']; [lia|].
          replace (S (S m'') - 1)%nat with (S m'') in Hm' by lia. cbn [Nat.mul] in Hm'.
          replace (S m'' - 1)%nat with m'' by lia. lia.
  Qed.

  Lemma chunks_fuel_le {A} : forall fuel (l : list A),
    Forall (fun ch => (length ch <= en)%nat) (chunks_fuel fuel en l).
  Proof.
    induction fuel as [|f IH]; intros l; [constructor|].
    destruct l as [|x r]; [constructor|]. cbn [chunks_fuel]. constructor; [|apply IH].
    rewrite firstn_length. lia.
  Qed.

  Lemma sumlen_chunks_fuel : forall fuel (l : list N), (length l <= fuel)%nat ->
    sumlen (chunks_fuel fuel en l) = lenN l.
  Proof.
    induction fuel as [|f IH]; intros l Hf.
    - destruct l; [reflexivity|cbn [length] in Hf; lia].
    - destruct l as [|x r]; [reflexivity|]. cbn [chunks_fuel sumlen fold_right].
      change (fold_right (fun d acc => lenN d + acc) 0 (chunks_fuel f en (skipn en (x :: r))))
        with (sumlen (chunks_fuel f en (skipn en (x :: r)))).
      rewrite IH by (rewrite skipn_length; cbn [length] in *; lia).
      unfold lenN. rewrite firstn_length, skipn_length. lia.
  Qed.

  Lemma sumlen_pad : forall (l : list (list N)), Forall (fun ch => (length ch <= en)%nat) l ->
    sumlen (map (pad en) l) = N.of_nat (length l) * N.of_nat en.
  Proof.
    induction l as [|d l IH]; intros H; [reflexivity|]. inversion H; subst.
    cbn [map sumlen fold_right length].
    change (fold_right (fun d acc => lenN d + acc) 0 (map (pad en) l)) with (sumlen (map (pad en) l)).
    rewrite IH by assumption. unfold pad, lenN. rewrite app_length, repeat_length. lia.
  Qed.
End Chunks.

(* number of chunks = div_ceil *)
Lemma chunks_length {A} (e : N) (l : list A) : 0 < e ->
  lenN (chunks (N.to_nat e) l) = div_ceil (lenN l) e.
Proof.
  intros He. destruct (div_ceil_qr (lenN l) e He) as (r & E & Lr).
  set (q := div_ceil (lenN l) e) in *. clearbody q.
  unfold lenN at 1. unfold chunks.
  rewrite (chunks_fuel_length (N.to_nat e) ltac:(lia) (length l) l (N.to_nat q)); [lia|lia| |].
  - rewrite <- N2Nat.inj_mul. unfold lenN in E. lia.
  - destruct (N.eq_dec q 0) as [->|NZ]; [left; reflexivity|right].
    replace (N.to_nat q - 1)%nat with (N.to_nat (q - 1)) by lia.
    rewrite <- N2Nat.inj_mul. unfold lenN in E.
    assert ((q - 1) * e + e = q * e) by (replace q with (q - 1 + 1) at 2 by lia; ring).
    lia.
Qed.

Lemma chunks_nth {A} (e : N) (l : list A) j d : 0 < e ->
  nth_error (chunks (N.to_nat e) l) j = Some d ->
  (j * N.to_nat e < length l)%nat /\ d = firstn (N.to_nat e) (skipn (j * N.to_nat e) l).
Proof.
  intros He H.
  assert (Hj : (j < length (chunks (N.to_nat e) l))%nat) by (apply nth_error_Some; congruence).
  pose proof (chunks_length e l He) as HL. unfold lenN at 1 in HL.
  destruct (div_ceil_qr (lenN l) e He) as (r & E & Lr).
  set (q := div_ceil (lenN l) e) in *. clearbody q.
  assert (Hlt : (j * N.to_nat e < length l)%nat).
  { assert (N.of_nat j + 1 <= q) by lia.
    assert ((N.of_nat j + 1) * e <= q * e) by (apply N.mul_le_mono_r; assumption).
    assert (N.of_nat j * e < lenN l) by lia.
    assert (N.to_nat (N.of_nat j * e) = (j * N.to_nat e)%nat) by (rewrite N2Nat.inj_mul, Nat2N.id; reflexivity).
    unfold lenN in *. lia. }
  split; [assumption|].
  unfold chunks in H. rewrite (chunks_fuel_nth (N.to_nat e) ltac:(lia)) in H by (lia || assumption).
  congruence.
Qed.

(* ================= 2. shards ================= *)
Lemma enumerate_from_app a l1 l2 :
  enumerate_from a (l1 ++ l2) = enumerate_from a l1 ++ enumerate_from (a + lenN l1) l2.
Proof.
  revert a; induction l1 as [|x l1 IH]; intros a.
  - cbn [app enumerate_from]. unfold lenN. cbn [length]. f_equal. lia.
  - cbn [app enumerate_from]. f_equal. rewrite IH. do 2 f_equal. unfold lenN. cbn [length]. lia.
Qed.

Lemma enumerate_from_length a l : length (enumerate_from a l) = length l.
Proof. revert a; induction l as [|x l IH]; intros a; [reflexivity|]. cbn [enumerate_from length]. f_equal. apply IH. Qed.

Lemma enumerate_from_range a l sh : In sh (enumerate_from a l) -> a <= sh_esi sh < a + lenN l.
Proof.
  revert a; induction l as [|x l IH]; intros a H; [destruct H|].
  cbn [enumerate_from In] in H. unfold lenN in *. cbn [length]. destruct H as [<-|H].
  - cbn [sh_esi]. lia.
  - apply IH in H. lia.
Qed.

Lemma enumerate_from_esis a l :
  map sh_esi (enumerate_from a l) = map (fun j => a + N.of_nat j) (seq 0 (length l)).
Proof.
  revert a; induction l as [|x l IH]; intros a; [reflexivity|].
  cbn [enumerate_from map length seq sh_esi]. f_equal; [lia|].
  rewrite IH, <- seq_shift, map_map. apply map_ext. intros j. lia.
Qed.

Lemma strictly_increasing_enum a l : strictly_increasing (map sh_esi (enumerate_from a l)) = true.
Proof.
  revert a; induction l as [|x l IH]; intros a; [reflexivity|].
  destruct l as [|y l']; [reflexivity|].
  specialize (IH (a + 1)). cbn [enumerate_from map sh_esi] in *.
  cbn [strictly_increasing]. cbn [strictly_increasing] in IH. rewrite IH.
  destruct (N.ltb_spec a (a + 1)); [reflexivity|lia].
Qed.

Lemma forallb_enum (G : N * list N -> bool) a l :
  (forall j d, nth_error l j = Some d -> G (a + N.of_nat j, d) = true) ->
  forallb G (map view_sh (enumerate_from a l)) = true.
Proof.
  revert a; induction l as [|x l IH]; intros a H; [reflexivity|].
  cbn [enumerate_from map forallb]. apply andb_true_iff. split.
  - unfold view_sh. cbn [sh_esi sh_data]. specialize (H 0%nat x eq_refl).
    replace (a + N.of_nat 0) with a in H by lia. exact H.
  - apply IH. intros j d Hj. specialize (H (S j) d Hj).
    replace (a + 1 + N.of_nat j) with (a + N.of_nat (S j)) by lia. exact H.
Qed.

(* source bytes accounted by the scheduler for a block *)
Definition src_fold (k : N) (l : list shard) : N :=
  fold_right (fun sh acc => (if sh_esi sh <? k then lenN (sh_data sh) else 0) + acc) 0 l.

Lemma src_fold_app k l1 l2 : src_fold k (l1 ++ l2) = src_fold k l1 + src_fold k l2.
Proof.
  induction l1 as [|x l1 IH]; [cbn [app]; change (src_fold k []) with 0; lia|].
  cbn [app]. unfold src_fold in *. cbn [fold_right]. rewrite IH. lia.
Qed.

Lemma src_fold_lt k : forall l a, a + lenN l <= k -> src_fold k (enumerate_from a l) = sumlen l.
Proof.
  induction l as [|x l IH]; intros a H; [reflexivity|].
  unfold lenN in H. cbn [length] in H.
  cbn [enumerate_from]. unfold src_fold, sumlen. cbn [fold_right sh_esi sh_data].
  destruct (N.ltb_spec a k); [|lia]. f_equal. apply IH. unfold lenN. lia.
Qed.

Lemma src_fold_ge k : forall l a, k <= a -> src_fold k (enumerate_from a l) = 0.
Proof.
  induction l as [|x l IH]; intros a H; [reflexivity|].
  cbn [enumerate_from]. unfold src_fold. cbn [fold_right sh_esi sh_data].
  destruct (N.ltb_spec a k); [lia|].
  change (fold_right (fun sh acc => (if sh_esi sh <? k then lenN (sh_data sh) else 0) + acc) 0 (enumerate_from (a + 1) l))
    with (src_fold k (enumerate_from (a + 1) l)).
  rewrite IH by lia. reflexivity.
Qed.

(* ================= 3. Block::new_from_buffer ================= *)
Definition padded (f : fec) : bool := match f with NoCode | Raptor => false | _ => true end.

Definition src_pl (c : ecfg) (buf : list N) : list (list N) :=
  if padded (c_fec c) then map (pad (N.to_nat (c_e c))) (chunks (N.to_nat (c_e c)) buf)
  else chunks (N.to_nat (c_e c)) buf.

Definition rep_pl (rep : fec -> N -> list N -> N -> N -> list (list N)) (c : ecfg) (sbn : N) (buf : list N)
  : list (list N) :=
  match c_fec c with
  | NoCode => []
  | f => rep f sbn buf (div_ceil (lenN buf) (c_e c)) (c_parity c)
  end.

Definition the_block rep (c : ecfg) (sbn : N) (buf : list N) : block :=
  let k := div_ceil (lenN buf) (c_e c) in
  mk_blk sbn k (enumerate_from 0 (src_pl c buf) ++ enumerate_from k (rep_pl rep c sbn buf)).

Lemma src_pl_length c buf : 0 < c_e c -> lenN (src_pl c buf) = div_ceil (lenN buf) (c_e c).
Proof.
  intros He. unfold src_pl. destruct (padded (c_fec c)).
  - unfold lenN at 1. rewrite map_length. apply (chunks_length (c_e c) buf He).
  - apply chunks_length. assumption.
Qed.

Lemma mk_block_eq rep rsrc c sbn buf :
  0 < c_e c ->
  (forall buf k, rsrc buf k = Some (chunks (N.to_nat (c_e c)) buf)) ->
  (match c_fec c with
   | RS28 | RS28US => rs_new_ok (div_ceil (lenN buf) (c_e c)) (c_parity c) = true
   | _ => True end) ->
  mk_block rep rsrc c sbn buf = Some (the_block rep c sbn buf).
Proof.
  intros He Hr Hrs. unfold mk_block, the_block, src_pl, rep_pl.
  destruct (N.eqb_spec (c_e c) 0) as [Z|_]; [lia|]. cbv zeta.
  destruct (c_fec c) eqn:Ef; cbn [padded].
  - cbn [enumerate_from]. rewrite app_nil_r. reflexivity.
  - rewrite Hrs. reflexivity.
  - rewrite Hrs. reflexivity.
  - reflexivity.
  - rewrite Hr. rewrite chunks_length by assumption. reflexivity.
Qed.

Lemma src_of_the_block rep c sbn buf : 0 < c_e c ->
  src_of_wb (to_wb (the_block rep c sbn buf)) =
    if padded (c_fec c) then div_ceil (lenN buf) (c_e c) * c_e c else lenN buf.
Proof.
  intros He. unfold src_of_wb, to_wb, the_block. cbn [wb_rest bk_shards wb_k bk_k is_src_of].
  unfold is_src_of. cbn [wb_k].
  change (fold_right _ 0 ?l) with (src_fold (div_ceil (lenN buf) (c_e c)) l).
  rewrite src_fold_app. rewrite (src_fold_ge _ (rep_pl rep c sbn buf)) by lia.
  rewrite src_fold_lt by (rewrite src_pl_length by assumption; lia).
  rewrite N.add_0_r. unfold src_pl. destruct (padded (c_fec c)).
  - rewrite (sumlen_pad (N.to_nat (c_e c)) ltac:(lia)) by (unfold chunks; apply chunks_fuel_le; lia).
    pose proof (chunks_length (c_e c) buf He) as HL. unfold lenN at 1 in HL. rewrite HL. lia.
  - unfold chunks. apply sumlen_chunks_fuel; lia.
Qed.

(* ================= 4. the blocks of a buffer are those of the RFC partition ================= *)
Section Part.
  Variables b T al as_ nal n l e r : N.
  Hypothesis P : partition_ok b T al as_ nal n.
  Hypothesis He : 0 < e.
  Hypothesis HT : l + r = T * e.
  Hypothesis Hr : r < e.

  Let off (s : N) := sym_off al as_ nal s * e.
  Let len (s : N) := block_len_closed al as_ nal l e s.
  Let nom (s : N) := nominal_syms al as_ nal s.

  Lemma nom_pos s : 0 < nom s.
  Proof. unfold nom, nominal_syms. destruct P. destruct (s <? nal); lia. Qed.

  Lemma blk_facts s : s < n ->
    off s + len s = N.min l (off (s + 1)) /\ 0 < len s /\ off s < l
    /\ len s <= nom s * e /\ nom s * e < len s + e
    /\ (s + 1 < n -> len s = nom s * e)
    /\ off (s + 1) = off s + nom s * e.
  Proof.
    intros Hs. unfold off, len, nom.
    destruct (closed_step _ _ _ _ _ _ _ _ _ s P He HT Hr Hs) as [Hstep Hpos].
    destruct (block_length_closed_form _ _ _ _ _ _ _ _ _ s P He HT Hr Hs) as [_ Hoff].
    assert (Hnext : sym_off al as_ nal (s + 1) * e = sym_off al as_ nal s * e + nominal_syms al as_ nal s * e)
      by (rewrite sym_off_succ; ring).
    assert (Hle : block_len_closed al as_ nal l e s <= nominal_syms al as_ nal s * e)
      by (unfold block_len_closed; apply N.le_min_l).
    assert (Hmono : sym_off al as_ nal (s + 1) <= sym_off al as_ nal n) by (apply sym_off_mono; lia).
    rewrite (sym_off_total _ _ _ _ _ _ P) in Hmono.
    assert (Hmono' : sym_off al as_ nal (s + 1) * e <= T * e) by (apply N.mul_le_mono_r; assumption).
    repeat split; try assumption.
    - lia.
    - intros Hs2.
      destruct (block_length_closed_form _ _ _ _ _ _ _ _ _ (s + 1) P He HT Hr Hs2) as [_ Hoff2]. lia.
  Qed.

  Lemma blk_k_nominal s : s < n -> div_ceil (len s) e = nom s.
  Proof.
    intros Hs. destruct (blk_facts s Hs) as (_ & Hpos & _ & Hle & Hlt & _).
    apply (is_ceil_unique (len s) e); [apply div_ceil_is_ceil; assumption|].
    split; [assumption|]. intros q' Hq.
    destruct (N.le_gt_cases (nom s) q') as [|G]; [assumption|exfalso].
    assert (q' + 1 <= nom s) by lia.
    assert ((q' + 1) * e <= nom s * e) by (apply N.mul_le_mono_r; assumption). lia.
  Qed.

  Section Buf.
    Variable rep : fec -> N -> list N -> N -> N -> list (list N).
    Variable rsrc : list N -> N -> option (list (list N)).
    Variable c : ecfg.
    Variable content : list N.
    Variable blockfn : N -> block.
    Hypothesis Hce : c_e c = e.
    Hypothesis Hl : lenN content = l.
    Hypothesis Hmk : forall s, s < n ->
      mk_block rep rsrc c s (sublist (off s) (off s + len s) content) = Some (blockfn s).

    Lemma blocks_buf_spec : forall k fuel s, s + N.of_nat k = n -> (0 < k)%nat -> (k <= fuel)%nat ->
      blocks_buf rep rsrc fuel c al as_ nal content s (off s)
      = map (fun i => blockfn (s + N.of_nat i)) (seq 0 k).
    Proof.
      induction k as [|k IH]; intros fuel s Hs Hk Hf; [lia|].
      destruct fuel as [|f]; [lia|].
      cbn [blocks_buf seq map]. rewrite N.add_0_r. rewrite Hce, Hl.
      assert (Hs' : s < n) by lia.
      destruct (blk_facts s Hs') as (Hstep & Hpos & Hoff & Hle & _ & Hfull & Hnext).
      fold (nominal_syms al as_ nal s). fold (nom s).
      assert (He1 : (if l <? off s + nom s * e then l else off s + nom s * e) = off s + len s).
      { rewrite Hstep, Hnext. destruct (N.ltb_spec l (off s + nom s * e)); lia. }
      rewrite He1, (Hmk s Hs'). f_equal.
      destruct k as [|k].
      - assert (s + 1 = n) by lia.
        assert (off s + len s = l).
        { rewrite Hstep. apply N.min_l. unfold off. rewrite H, (sym_off_total _ _ _ _ _ _ P). lia. }
        rewrite H0, N.eqb_refl. reflexivity.
      - assert (Hs2 : s + 1 < n) by lia.
        destruct (blk_facts (s + 1) ltac:(lia)) as (_ & _ & Hoff2 & _).
        rewrite (Hfull Hs2), <- Hnext.
        destruct (N.eqb_spec (off (s + 1)) l); [lia|].
        rewrite IH by lia. rewrite <- seq_shift, map_map. apply map_ext. intros i. f_equal. lia.
    Qed.
  End Buf.

  (* source bytes over all blocks: the transfer length plus the padding of the last symbol *)
  Lemma sum_src (g : N -> N) (x : N) :
    (forall s, s + 1 < n -> g s = len s) -> g (n - 1) = len (n - 1) + x ->
    forall k s, s + N.of_nat k = n -> (0 < k)%nat ->
      off s + sumN (map (fun i => g (s + N.of_nat i)) (seq 0 k)) = l + x.
  Proof.
    intros Hg Hlast. induction k as [|k IH]; intros s Hs Hk; [lia|].
    cbn [seq map sumN fold_right]. rewrite N.add_0_r.
    change (fold_right N.add 0 ?l0) with (sumN l0).
    assert (Hs' : s < n) by lia.
    destruct (blk_facts s Hs') as (Hstep & Hpos & Hoff & Hle & _ & Hfull & Hnext).
    destruct k as [|k].
    - assert (s = n - 1) by lia. subst s. cbn [seq map sumN fold_right]. rewrite Hlast.
      assert (off (n - 1) + len (n - 1) = l).
      { rewrite Hstep. apply N.min_l. unfold off. replace (n - 1 + 1) with n by lia.
        rewrite (sym_off_total _ _ _ _ _ _ P). lia. }
      lia.
    - assert (Hs2 : s + 1 < n) by lia. rewrite (Hg s Hs2).
      specialize (IH (s + 1) ltac:(lia) ltac:(lia)).
      rewrite <- seq_shift, map_map.
      rewrite <- IH. rewrite Hnext, <- (Hfull Hs2).
      rewrite (map_ext (fun i => g (s + N.of_nat (S i))) (fun i => g (s + 1 + N.of_nat i)))
        by (intros i; f_equal; lia).
      lia.
  Qed.
End Part.

(* ================= 5. the scheduler copies SBN and K of the block into each packet ================= *)
Definition hdr_in (s : est) (sbn k : N) : Prop :=
  exists wb, In wb (all_wbs s) /\ wb_sbn wb = sbn /\ wb_k wb = k.

Lemma in_remove_nth {A} (x : A) : forall l i, In x (remove_nth i l) -> In x l.
Proof.
  induction l as [|y l IH]; intros i H; [destruct i; exact H|].
  destruct i as [|j]; cbn [remove_nth] in H; [right; exact H|].
  destruct H as [->|H]; [left; reflexivity|right; eapply IH; exact H].
Qed.

Lemma in_replace_nth {A} (x y : A) : forall l i, In x (replace_nth i y l) -> x = y \/ In x l.
Proof.
  induction l as [|z l IH]; intros i H; [destruct i; destruct H|].
  destruct i as [|j]; cbn [replace_nth] in H.
  - destruct H as [<-|H]; [left; reflexivity|right; right; exact H].
  - destruct H as [<-|H]; [right; left; reflexivity|].
    apply IH in H. destruct H; [left; assumption|right; right; assumption].
Qed.

Lemma tot_of_remove_empty l1 l2 wb : wb_rest wb = [] -> tot_of (l1 ++ wb :: l2) = tot_of (l1 ++ l2).
Proof. intros H. rewrite !tot_of_app, tot_of_cons, H. reflexivity. Qed.

Lemma read_loop_hdr c force : (1 <= c_window c)%nat -> forall fuel s o s',
  read_loop fuel c force s = (o, s') ->
  (forall sbn k, hdr_in s' sbn k -> hdr_in s sbn k) /\
  (forall p, o = OPkt p ->
     (p = lone_pkt /\ tot s = 0%nat)
     \/ (hdr_in s (p_sbn p) (p_k p) /\ p_src p = (p_esi p <? p_k p))).
Proof.
  intros Hw. induction fuel as [|f IH]; intros s o s' H; cbn [read_loop] in H.
  - inversion H; subst. split; [intros; assumption|intros; discriminate].
  - destruct (refill (c_window c) (s_window s) (s_future s) (S (length (s_future s)))) as [win fut] eqn:Er.
    apply refill_spec in Er. destruct Er as [Eall Eempty].
    fold (all_wbs s) in Eall.
    destruct win as [|w0 wr].
    + assert (fut = []) by (apply Eempty; [lia|assumption|reflexivity]). subst fut.
      cbn [app map] in Eall.
      assert (Hsame : forall s'', s_window s'' = [] -> s_future s'' = [] ->
                forall sbn k, hdr_in s'' sbn k -> hdr_in s sbn k).
      { intros s'' E1 E2 sbn k (wb & Hin & _). unfold all_wbs in Hin. rewrite E1, E2 in Hin. destruct Hin. }
      assert (Htot : tot s = 0%nat) by (unfold tot; rewrite <- Eall; reflexivity).
      destruct (s_nb_sent s =? 0).
      * destruct (c_debug c && negb (c_tlen c =? 0)); inversion H; subst.
        -- split; [apply Hsame; reflexivity|intros; discriminate].
        -- split; [apply Hsame; reflexivity|]. intros p Hp. inversion Hp; subst. left. split; [reflexivity|assumption].
      * inversion H; subst. split; [apply Hsame; reflexivity|intros; discriminate].
    + cbv iota in H. set (win := w0 :: wr) in *. clearbody win.
      set (idx := if Nat.leb (length win) (s_idx s) then 0%nat else s_idx s) in *.
      destruct (nth_error win idx) as [wb|] eqn:En.
      2:{ inversion H; subst. split; [intros; assumption|intros; discriminate]. }
      pose proof (nth_error_In _ _ En) as Hwb.
      destruct (wb_rest wb) as [|sh rest] eqn:Erest.
      * apply IH in H. destruct H as [H1 H2].
        assert (Hsub : forall sbn k,
                  hdr_in (mk_est (remove_nth idx win) fut idx (s_src_sent s) (s_nb_sent s) (s_stopped s)) sbn k
                  -> hdr_in s sbn k).
        { intros sbn k (x & Hin & Hx). exists x. split; [|exact Hx]. rewrite <- Eall.
          unfold all_wbs in Hin. cbn [s_window s_future] in Hin.
          apply in_app_or in Hin. apply in_or_app. destruct Hin as [Hin|Hin]; [left|right; exact Hin].
          eapply in_remove_nth; exact Hin. }
        assert (Htot : tot (mk_est (remove_nth idx win) fut idx (s_src_sent s) (s_nb_sent s) (s_stopped s)) = tot s).
        { destruct (nth_error_split' _ _ _ En) as (l1 & l2 & Esplit & Hl1).
          unfold tot at 2. rewrite <- Eall. unfold tot, all_wbs. cbn [s_window s_future].
          rewrite Esplit, <- Hl1, remove_nth_app, <- !app_assoc. cbn [app].
          symmetry. apply tot_of_remove_empty. exact Erest. }
        split.
        -- intros sbn k Hh. apply Hsub, H1, Hh.
        -- intros p Hp. destruct (H2 p Hp) as [[E Z]|[Hh Hs]].
           ++ left. split; [exact E|]. rewrite <- Htot. exact Z.
           ++ right. split; [apply Hsub; exact Hh|exact Hs].
      * inversion H; subst o s'. clear H. split.
        -- intros sbn k (x & Hin & Hx1 & Hx2). unfold all_wbs in Hin. cbn [s_window s_future] in Hin.
           apply in_app_or in Hin. destruct Hin as [Hin|Hin].
           ++ apply in_replace_nth in Hin. destruct Hin as [->|Hin].
              ** cbn [wb_sbn wb_k] in Hx1, Hx2. exists wb. split; [|split; assumption].
                 rewrite <- Eall. apply in_or_app. left. exact Hwb.
              ** exists x. split; [|split; assumption]. rewrite <- Eall. apply in_or_app. left. exact Hin.
           ++ exists x. split; [|split; assumption]. rewrite <- Eall. apply in_or_app. right. exact Hin.
        -- intros p Hp. inversion Hp; subst p. clear Hp. right. cbn [p_sbn p_k p_src p_esi]. split; [|reflexivity].
           exists wb. split; [|split; reflexivity]. rewrite <- Eall. apply in_or_app. left. exact Hwb.
Qed.

Lemma enc_run_hdr c : (1 <= c_window c)%nat -> forall fuel s,
  s_stopped s = false -> NoDup (map wb_sbn (all_wbs s)) -> ((0 < tot s)%nat \/ s_nb_sent s <> 0) ->
  forall p, In p (pkts_of (enc_run fuel c [] s)) ->
    hdr_in s (p_sbn p) (p_k p) /\ p_src p = (p_esi p <? p_k p).
Proof.
  intros Hw. induction fuel as [|f IH]; intros s Hst Hnd Hne p Hp; [destruct Hp|].
  cbn [enc_run] in Hp. rewrite (enc_read_noforce c s Hst) in Hp.
  destruct (read_loop (S (S (length (s_window s) + length (s_future s)))) c false s) as [o s'] eqn:E.
  pose proof (read_loop_hdr c false Hw _ _ _ _ E) as [Hh1 Hh2].
  apply read_loop_spec in E; [|rewrite all_wbs_length; lia|assumption|assumption].
  destruct E as (Nd' & St' & _ & _ & Q).
  destruct o as [p0| | |]; cbn [pkts_of In] in Hp; try (destruct Hp; fail).
  cbn [step_post] in Q. destruct Hp as [<-|Hp].
  - destruct (Hh2 p0 eq_refl) as [[_ Z]|G]; [|exact G].
    destruct Q as [(sh & _ & _ & _ & Q4 & _)|(_ & _ & Q3 & _)]; [lia|].
    exfalso. destruct Hne; [lia|congruence].
  - destruct Q as [(sh & _ & _ & _ & Q4 & Q5 & _)|(Q1 & _ & Q3 & _)]; [|exfalso; destruct Hne; [lia|congruence]].
    destruct (IH s' ltac:(congruence) Nd' ltac:(right; lia) p Hp) as [G1 G2].
    split; [apply Hh1; exact G1|exact G2].
Qed.

(* ================= 6. from shards to the executable predicate ================= *)
Lemma map_filter_view {A B} (v : A -> B) (f : B -> bool) l :
  map v (filter (fun x => f (v x)) l) = filter f (map v l).
Proof.
  induction l as [|x l IH]; [reflexivity|]. cbn [filter map].
  destruct (f (v x)); cbn [map]; rewrite IH; reflexivity.
Qed.

Lemma forallb_map {A B} (v : A -> B) (G : B -> bool) l :
  forallb (fun x => G (v x)) l = forallb G (map v l).
Proof. induction l as [|x l IH]; [reflexivity|]. cbn [forallb map]. rewrite IH. reflexivity. Qed.

Lemma filter_all {A} (f : A -> bool) l : (forall x, In x l -> f x = true) -> filter f l = l.
Proof.
  induction l as [|x l IH]; intros H; [reflexivity|]. cbn [filter].
  rewrite (H x (or_introl eq_refl)). f_equal. apply IH. intros y Hy. apply H. right. exact Hy.
Qed.

Lemma filter_none {A} (f : A -> bool) l : (forall x, In x l -> f x = false) -> filter f l = [].
Proof.
  induction l as [|x l IH]; intros H; [reflexivity|]. cbn [filter].
  rewrite (H x (or_introl eq_refl)). apply IH. intros y Hy. apply H. right. exact Hy.
Qed.

Lemma eqb_listN_refl l : eqb_listN l l = true.
Proof. induction l as [|x l IH]; [reflexivity|]. cbn [eqb_listN]. rewrite N.eqb_refl, IH. reflexivity. Qed.

Lemma last_opt_app {A} (l : list A) x : last_opt (l ++ [x]) = Some x.
Proof.
  induction l as [|y l IH]; [reflexivity|]. cbn [app last_opt].
  destruct (l ++ [x]) eqn:E; [destruct l; discriminate|]. exact IH.
Qed.

Lemma firstn_length_app {A} (l r : list A) : firstn (length l) (l ++ r) = l.
Proof. induction l as [|x l IH]; [reflexivity|]. cbn [length app firstn]. f_equal. exact IH. Qed.
Lemma skipn_length_app {A} (l r : list A) : skipn (length l) (l ++ r) = r.
Proof. induction l as [|x l IH]; [reflexivity|]. cbn [length app skipn]. exact IH. Qed.

Lemma payload_ok_plain e sl : payload_ok e sl sl = true.
Proof.
  unfold payload_ok. rewrite firstn_all, skipn_all, eqb_listN_refl, N.eqb_refl. reflexivity.
Qed.

Lemma payload_ok_pad e sl : lenN sl <= e -> payload_ok e sl (pad (N.to_nat e) sl) = true.
Proof.
  intros H. unfold payload_ok, pad. rewrite firstn_length_app, skipn_length_app, eqb_listN_refl.
  assert (Z : forall k, forallb (fun x => x =? 0) (repeat 0 k) = true)
    by (induction k as [|k IH]; [reflexivity|cbn [repeat forallb]; rewrite IH; reflexivity]).
  rewrite Z. cbn [andb]. apply orb_true_iff. right. apply N.eqb_eq.
  unfold lenN in *. rewrite app_length, repeat_length. lia.
Qed.

Lemma lenN_sublist {A} a b (l : list A) : a <= b -> b <= lenN l -> lenN (sublist a b l) = b - a.
Proof. intros H1 H2. unfold sublist, lenN in *. rewrite firstn_length, skipn_length. lia. Qed.

Lemma lenN_sublist_le {A} a b (l : list A) : lenN (sublist a b l) <= b - a.
Proof. unfold sublist, lenN. rewrite firstn_length. lia. Qed.

Lemma chunk_is_slice {A} (content : list A) off len e j :
  firstn (N.to_nat e) (skipn (j * N.to_nat e) (sublist off (off + len) content))
  = sublist (off + N.of_nat j * e) (N.min (off + (N.of_nat j + 1) * e) (off + len)) content.
Proof.
  unfold sublist. rewrite skipn_firstn_comm, firstn_firstn, skipn_skipn.
  assert (E : N.to_nat (N.of_nat j * e) = (j * N.to_nat e)%nat) by (rewrite N2Nat.inj_mul, Nat2N.id; reflexivity).
  replace ((N.of_nat j + 1) * e) with (N.of_nat j * e + e) by ring.
  set (X := N.of_nat j * e) in *. set (Y := (j * N.to_nat e)%nat) in *. clearbody X Y.
  f_equal; [|f_equal]; lia.
Qed.

Lemma block_ok_core (k par e : N) (slice : N -> list N) (mine : list pkt) srcs reps :
  map view_p mine = map view_sh (enumerate_from 0 srcs ++ enumerate_from k reps) ->
  lenN srcs = k -> lenN reps <= par ->
  (forall p, In p mine -> p_k p = k /\ p_src p = (p_esi p <? k)) ->
  (forall j d, nth_error srcs j = Some d -> payload_ok e (slice (N.of_nat j)) d = true) ->
  strictly_increasing (map p_esi mine)
  && forallb (fun p => p_k p =? k) mine
  && forallb (fun p => Bool.eqb (p_src p) (p_esi p <? k)) mine
  && eqb_listN (map p_esi (filter (fun p => p_esi p <? k) mine)) (seqN k)
  && forallb (fun p => payload_ok e (slice (p_esi p)) (p_payload p)) (filter (fun p => p_esi p <? k) mine)
  && (N.of_nat (length mine - length (filter (fun p => p_esi p <? k) mine)) <=? par) = true.
Proof.
  intros Hview Hk Hrep Hpk Hpay.
  assert (Hesi : map p_esi mine = map sh_esi (enumerate_from 0 (srcs ++ reps))).
  { rewrite enumerate_from_app, N.add_0_l, Hk.
    transitivity (map fst (map view_p mine)); [rewrite map_map; reflexivity|].
    rewrite Hview, map_map. reflexivity. }
  set (src := filter (fun p => p_esi p <? k) mine).
  assert (Hsrc : map view_p src = map view_sh (enumerate_from 0 srcs)).
  { unfold src.
    assert (Ef : forall l0, map view_p (filter (fun p => p_esi p <? k) l0) = filter (fun v => fst v <? k) (map view_p l0))
      by (intros; apply (map_filter_view view_p (fun v => fst v <? k))).
    assert (Eg : forall l0, filter (fun v => fst v <? k) (map view_sh l0) = map view_sh (filter (fun sh => sh_esi sh <? k) l0))
      by (intros; symmetry; apply (map_filter_view view_sh (fun v => fst v <? k))).
    rewrite Ef, Hview, Eg. f_equal.
    rewrite filter_app, filter_all, filter_none, app_nil_r; [reflexivity| |].
    - intros sh Hin. apply enumerate_from_range in Hin. cbn [view_sh fst]. apply N.ltb_ge. lia.
    - intros sh Hin. apply enumerate_from_range in Hin. cbn [view_sh fst]. apply N.ltb_lt. lia. }
  repeat (apply andb_true_iff; split).
  - rewrite Hesi. apply strictly_increasing_enum.
  - apply forallb_forall. intros p Hp. apply N.eqb_eq. apply (Hpk p Hp).
  - apply forallb_forall. intros p Hp. destruct (Hpk p Hp) as [_ ->]. apply eqb_reflx.
  - transitivity (eqb_listN (map fst (map view_p src)) (seqN k)); [rewrite map_map; reflexivity|].
    rewrite Hsrc, map_map.
    change (map (fun x => fst (view_sh x)) ?l) with (map sh_esi l).
    rewrite enumerate_from_esis. unfold seqN. rewrite <- Hk. unfold lenN. rewrite Nat2N.id.
    rewrite (map_ext (fun j => 0 + N.of_nat j) N.of_nat) by (intros; lia). apply eqb_listN_refl.
  - transitivity (forallb (fun v => payload_ok e (slice (fst v)) (snd v)) (map view_p src));
      [apply (forallb_map view_p (fun v => payload_ok e (slice (fst v)) (snd v)) src)|].
    rewrite Hsrc.
    apply forallb_enum. intros j d Hj. cbn [fst snd]. rewrite N.add_0_l. apply Hpay. exact Hj.
  - apply N.leb_le.
    assert (L1 : length mine = (length srcs + length reps)%nat).
    { rewrite <- (map_length view_p), Hview, map_length, app_length, !enumerate_from_length. reflexivity. }
    assert (L2 : length src = length srcs).
    { rewrite <- (map_length view_p), Hsrc, map_length, enumerate_from_length. reflexivity. }
    unfold lenN in Hrep. lia.
Qed.

(* ---------- the initial state of the scheduler over an explicit block list ---------- *)
Lemma total_shards_tot bl : total_shards bl = tot (est_init bl).
Proof.
  unfold tot, all_wbs, est_init. cbn [s_window s_future app].
  induction bl as [|b bl IH]; [reflexivity|]. cbn [total_shards fold_right map].
  rewrite tot_of_cons. cbn [to_wb wb_rest]. unfold total_shards in IH. rewrite IH. reflexivity.
Qed.

Lemma src_total_of_map {I} (F : I -> block) (l : list I) :
  src_total_of (map to_wb (map F l)) = sumN (map (fun i => src_of_wb (to_wb (F i))) l).
Proof.
  induction l as [|i l IH]; [reflexivity|]. cbn [map]. rewrite src_total_of_cons, IH. reflexivity.
Qed.

Section Init.
  Variable F : N -> block.
  Hypothesis Fsbn : forall s, bk_sbn (F s) = s.

  Lemma sbn_in_seq a k sbn :
    In sbn (map wb_sbn (map to_wb (map (fun i => F (N.of_nat i)) (seq a k)))) ->
    exists i, sbn = N.of_nat i /\ (a <= i < a + k)%nat.
  Proof.
    rewrite !map_map. intros H. apply in_map_iff in H. destruct H as (i & E & Hi).
    cbn [to_wb wb_sbn] in E. rewrite Fsbn in E. apply in_seq in Hi. exists i. split; [congruence|lia].
  Qed.

  Lemma pend_of_seq j : forall k a, (a <= j < a + k)%nat ->
    pend_of (N.of_nat j) (map to_wb (map (fun i => F (N.of_nat i)) (seq a k))) = bk_shards (F (N.of_nat j)).
  Proof.
    induction k as [|k IH]; intros a H; [lia|].
    cbn [seq map]. rewrite pend_of_cons. cbn [to_wb wb_sbn wb_rest]. rewrite Fsbn.
    destruct (N.eqb_spec (N.of_nat a) (N.of_nat j)) as [E|NE].
    - apply Nat2N.inj in E. subst a. rewrite pend_of_notin; [apply app_nil_r|].
      intros Hin. apply sbn_in_seq in Hin. destruct Hin as (i & E & Hi). apply Nat2N.inj in E. lia.
    - cbn [app]. apply IH. assert (a <> j) by congruence. lia.
  Qed.

  Lemma nodup_seq k : NoDup (map wb_sbn (map to_wb (map (fun i => F (N.of_nat i)) (seq 0 k)))).
  Proof.
    rewrite !map_map. cbn [to_wb wb_sbn].
    rewrite (map_ext _ N.of_nat) by (intros; apply Fsbn).
    apply Injective_map_NoDup; [intros x y; apply Nat2N.inj|apply seq_NoDup].
  Qed.
End Init.

(* ================= 7. the theorem ================= *)
Lemma accepts_pos c : filedesc_accepts c = true -> 0 < c_tlen c -> 0 < c_e c /\ 0 < c_b c.
Proof.
  intros H Hl. unfold filedesc_accepts in H.
  apply andb_true_iff in H. destruct H as [H _]. apply andb_true_iff in H. destruct H as [H _].
  apply N.leb_le in H. unfold max_transfer_length in H.
  set (m := max_source_blocks_number (c_fec c)) in *. clearbody m.
  assert (H' : c_tlen c <= c_e c * c_b c * m) by lia.
  destruct (N.eq_dec (c_e c) 0) as [E|]; [rewrite E in H'; lia|].
  destruct (N.eq_dec (c_b c) 0) as [E|]; [rewrite E in H'; lia|]. lia.
Qed.

Lemma accepts_encodable c al as_ nal n :
  filedesc_accepts c = true -> 0 < c_tlen c ->
  block_partitioning (c_b c) (c_tlen c) (c_e c) = (al, as_, nal, n) -> nal < n ->
  forall s, encodable (c_fec c) (nominal_syms al as_ nal s) (c_parity c) = true.
Proof.
  intros H Hl Ebp Hnal s. unfold filedesc_accepts in H. rewrite Ebp in H.
  apply andb_true_iff in H. destruct H as [H _]. apply andb_true_iff in H. destruct H as [_ H].
  destruct (N.ltb_spec 0 (c_tlen c)); [|lia].
  apply andb_true_iff in H. destruct H as [H H3]. apply andb_true_iff in H. destruct H as [_ H2].
  unfold nominal_syms. destruct (N.ltb_spec s nal) as [Hs|Hs].
  - apply orb_true_iff in H2. destruct H2 as [H2|H2]; [apply N.eqb_eq in H2; lia|exact H2].
  - apply orb_true_iff in H3. destruct H3 as [H3|H3]; [|exact H3].
    apply negb_true_iff, N.ltb_ge in H3. lia.
Qed.

(* [known_D30 c = false] is not needed once the Raptor oracle is assumed to cut E-byte symbols *)
Theorem C08_transfer_strong : forall rep raptor_src c content,
  filedesc_accepts c = true -> c_tlen c = lenN content ->
  (c_debug c && negb (c_tlen c =? 0)) = false -> (1 <= c_window c)%nat ->
  (forall buf k, raptor_src buf k = Some (chunks (N.to_nat (c_e c)) buf)) ->
  (forall f sbn buf k p, length (rep f sbn buf k p) = N.to_nat p) ->
  let blocks := blocks_of_buffer rep raptor_src c content in
  P_C08_transfer c content None (pkts_of (enc_run (S (S (total_shards blocks))) c [] (est_init blocks))) = true.
Proof.
  intros rep rsrc c content Hacc Hlen Hdbg Hw Hrs Hrep blocks.
  destruct (N.eq_dec (c_tlen c) 0) as [Z|NZ].
  - (* empty object *)
    assert (content = []) by (destruct content; [reflexivity|unfold lenN in Hlen; cbn [length] in Hlen; lia]).
    subst content.
    assert (Eb : blocks = []).
    { unfold blocks, blocks_of_buffer. destruct (block_partitioning _ _ _) as [[[? ?] ?] ?]. reflexivity. }
    rewrite Eb. change (total_shards []) with 0%nat.
    rewrite (empty_object_lone_packet c 0 (est_init [])); try reflexivity; try assumption; [|constructor].
    unfold P_C08_transfer. destruct (rfc_partition _ _ _) as [[[? ?] ?] ?]. rewrite Z. reflexivity.
  - assert (Hl : 0 < c_tlen c) by lia.
    destruct (accepts_pos c Hacc Hl) as [He Hb].
    pose proof (partition_covers_proof (c_b c) (c_tlen c) (c_e c) Hb He Hl) as P.
    destruct (block_partitioning (c_b c) (c_tlen c) (c_e c)) as [[[al as_] nal] n] eqn:Ebp.
    destruct P as [P _].
    assert (Eb0 : blocks = blocks_buf rep rsrc (S (length content)) c al as_ nal content 0 0).
    { unfold blocks, blocks_of_buffer. rewrite Ebp.
      destruct content; [unfold lenN in Hlen; cbn [length] in Hlen; lia|reflexivity]. }
    destruct (ceil_witness (c_tlen c) (c_e c) He) as (r & HT & Hr).
    set (T := div_ceil (c_tlen c) (c_e c)) in *.
    set (e := c_e c) in *. set (l := c_tlen c) in *.
    pose proof P as [C Lb Ls Ll Lt Ln Lp Ev Od].
    pose proof (accepts_encodable c al as_ nal n Hacc Hl Ebp Lt) as Henc.
    set (off := fun s => sym_off al as_ nal s * e).
    set (len := fun s => block_len_closed al as_ nal l e s).
    set (nom := fun s => nominal_syms al as_ nal s).
    set (buf := fun s => sublist (off s) (off s + len s) content).
    set (blockfn := fun s => the_block rep c s (buf s)).
    pose proof (blk_facts _ _ _ _ _ _ _ _ _ P He HT Hr) as BF. fold off len nom in BF.
    pose proof (blk_k_nominal _ _ _ _ _ _ _ _ _ P He HT Hr) as BK. fold len nom in BK.
    pose proof (nom_pos _ _ _ _ _ _ l e r P He HT Hr) as NP. fold nom in NP.
    assert (Hbuflen : forall s, s < n -> lenN (buf s) = len s).
    { intros s Hs. destruct (BF s Hs) as (Hstep & _). unfold buf.
      rewrite lenN_sublist; [lia|lia|]. rewrite Hstep. fold l in Hlen. lia. }
    assert (Hmk : forall s, s < n -> mk_block rep rsrc c s (buf s) = Some (blockfn s)).
    { intros s Hs. apply mk_block_eq; [exact He|exact Hrs|].
      fold e. rewrite (Hbuflen s Hs), (BK s Hs).
      specialize (Henc s). fold nom in Henc. specialize (NP s).
      destruct (c_fec c); try exact I; cbn [encodable] in Henc; unfold rs_new_ok;
        (destruct (N.ltb_spec 0 (nom s)); [exact Henc|lia]). }
    set (nn := N.to_nat n).
    assert (Hnl : (nn <= length content)%nat).
    { assert (nal * 1 <= nal * al) by (apply N.mul_le_mono_l; lia).
      assert ((n - nal) * 1 <= (n - nal) * as_) by (apply N.mul_le_mono_l; lia).
      pose proof (div_ceil_le l e He). fold T in H1. unfold lenN in Hlen. lia. }
    assert (Eblocks : blocks = map (fun i => blockfn (N.of_nat i)) (seq 0 nn)).
    { rewrite Eb0.
      pose proof (blocks_buf_spec _ _ _ _ _ _ l e r P He HT Hr rep rsrc c content blockfn eq_refl (eq_sym Hlen) Hmk
                    nn (S (length content)) 0 ltac:(lia) ltac:(lia) ltac:(lia)) as S0.
      cbv beta in S0. rewrite sym_off_0, N.mul_0_l in S0. rewrite S0. apply map_ext. intros i. reflexivity. }
    clear Eb0. clearbody blocks. subst blocks.
    set (BL := map (fun i => blockfn (N.of_nat i)) (seq 0 nn)).
    set (s0 := est_init BL).
    assert (Fsbn : forall s, bk_sbn (blockfn s) = s) by reflexivity.
    assert (Eall : all_wbs s0 = map to_wb BL) by reflexivity.
    (* source bytes *)
    set (x := if padded (c_fec c) then nom (n - 1) * e - len (n - 1) else 0).
    set (g := fun s => src_of_wb (to_wb (blockfn s))).
    assert (Hg : forall s, s < n -> g s = if padded (c_fec c) then nom s * e else len s).
    { intros s Hs. unfold g, blockfn. rewrite src_of_the_block by exact He. fold e.
      rewrite (Hbuflen s Hs), (BK s Hs). reflexivity. }
    assert (HSRC : src_total s0 = l + x).
    { unfold src_total. rewrite Eall. unfold BL. rewrite src_total_of_map.
      pose proof (sum_src _ _ _ _ _ _ l e r P He HT Hr g x) as S1. fold len in S1.
      rewrite (map_ext (fun i => src_of_wb (to_wb (blockfn (N.of_nat i)))) (fun i => g (0 + N.of_nat i)))
        by (intros i; unfold g; do 3 f_equal; lia).
      rewrite <- (S1) with (k := nn) (s := 0); [rewrite sym_off_0; lia| | |lia|lia].
      - intros s Hs. rewrite Hg by lia. destruct (BF s ltac:(lia)) as (_ & _ & _ & _ & _ & Hfull & _).
        rewrite (Hfull Hs). destruct (padded (c_fec c)); reflexivity.
      - rewrite Hg by lia. destruct (BF (n - 1) ltac:(lia)) as (_ & _ & _ & Hle & _).
        unfold x. destruct (padded (c_fec c)); lia. }
    assert (Hx : forall s, s < n -> x < g s).
    { intros s Hs. rewrite (Hg s Hs). unfold x.
      destruct (BF s Hs) as (_ & Hpos & _). destruct (BF (n - 1) ltac:(lia)) as (_ & _ & _ & _ & Hlt & _).
      specialize (NP s).
      assert (1 * e <= nom s * e) by (apply N.mul_le_mono_r; lia).
      destruct (padded (c_fec c)); lia. }
    assert (W : wf c (src_total s0) s0).
    { apply wf_init.
      - pose proof (nodup_seq blockfn Fsbn nn) as ND. rewrite map_map in ND. exact ND.
      - fold s0. rewrite HSRC. fold l. lia.
      - intros b0 Hb0. fold s0. rewrite HSRC. fold l. unfold BL in Hb0. apply in_map_iff in Hb0.
        destruct Hb0 as (i & <- & Hi). apply in_seq in Hi.
        pose proof (Hx (N.of_nat i) ltac:(lia)) as Hxi. unfold g in Hxi. lia. }
    assert (Htot : (0 < tot s0)%nat).
    { destruct (Nat.eq_dec (tot s0) 0) as [Z|]; [|lia]. apply src_zero_of_tot in Z.
      fold (src_total s0) in Z. pose proof (Hx 0 Ln). lia. }
    rewrite total_shards_tot. fold s0.
    destruct (enc_run_complete_proof c (src_total s0) Hw (S (S (tot s0))) s0 W ltac:(lia) (or_introl Htot))
      as (_ & _ & R3 & R4).
    pose proof (enc_run_hdr c Hw (S (S (tot s0))) s0 eq_refl (wf_nodup _ _ _ W) (or_introl Htot)) as R5.
    set (ps := pkts_of (enc_run (S (S (tot s0))) c [] s0)) in *. clearbody ps.
    assert (Hhdr : forall sbn k, hdr_in s0 sbn k ->
              exists i, (i < nn)%nat /\ sbn = N.of_nat i /\ k = div_ceil (len sbn) e).
    { intros sbn k (wb & Hin & E1 & E2). rewrite Eall in Hin. unfold BL in Hin. rewrite map_map in Hin.
      apply in_map_iff in Hin. destruct Hin as (i & <- & Hi). apply in_seq in Hi.
      exists i. split; [lia|]. cbn [to_wb wb_sbn wb_k blockfn the_block bk_sbn bk_k] in E1, E2. subst sbn.
      split; [reflexivity|]. rewrite <- E2. fold e. rewrite Hbuflen by lia. reflexivity. }
    unfold P_C08_transfer. cbv zeta. fold e l. rewrite (rfc_partition_eq _ _ _ Hb He), Ebp.
    destruct (N.eqb_spec l 0) as [|_]; [lia|].
    apply andb_true_iff; split; [|apply andb_true_iff; split].
    + apply forallb_forall. intros p Hp. apply N.ltb_lt.
      destruct (R5 p Hp) as [Hh _]. destruct (Hhdr _ _ Hh) as (i & Hi & E & _). lia.
    + apply forallb_forall. intros s Hs. unfold seqN in Hs. apply in_map_iff in Hs.
      destruct Hs as (i & <- & Hi). apply in_seq in Hi.
      assert (Hs : N.of_nat i < n) by lia. set (s := N.of_nat i) in *.
      unfold block_ok. cbv zeta.
      fold e l.
      assert (Ek : blk_k al as_ nal l e s = div_ceil (len s) e)
        by (unfold blk_k, blk_len; apply rfc_ceil_eq; exact He).
      rewrite Ek.
      apply (block_ok_core (div_ceil (len s) e) (c_parity c) e
               (fun j => sublist (blk_off al as_ nal e s + j * e)
                           (N.min (blk_off al as_ nal e s + (j + 1) * e)
                                  (blk_off al as_ nal e s + blk_len al as_ nal l e s)) content)
               (of_block s ps) (src_pl c (buf s)) (rep_pl rep c s (buf s))).
      * unfold of_block. rewrite (R3 s). f_equal. unfold pend. rewrite Eall. unfold BL, s.
        rewrite (pend_of_seq blockfn Fsbn i nn 0) by lia.
        cbn [blockfn the_block bk_shards]. fold e. fold s. rewrite (Hbuflen s Hs). reflexivity.
      * rewrite src_pl_length by exact He. fold e. rewrite (Hbuflen s Hs). reflexivity.
      * unfold rep_pl, lenN. destruct (c_fec c); [cbn [length]; lia|..]; rewrite Hrep; lia.
      * intros p Hp. unfold of_block in Hp. apply filter_In in Hp. destruct Hp as [Hp Hsb].
        apply N.eqb_eq in Hsb. destruct (R5 p Hp) as [Hh Hsrc].
        destruct (Hhdr _ _ Hh) as (i' & _ & _ & Ek'). rewrite Hsb in Ek'.
        split; [exact Ek'|]. rewrite Hsrc, Ek'. reflexivity.
      * intros j d Hj. unfold blk_off, blk_len. fold l. fold (off s) (len s).
        unfold src_pl in Hj. fold e in Hj.
        assert (Hsl : forall d0, nth_error (chunks (N.to_nat e) (buf s)) j = Some d0 ->
                  d0 = sublist (off s + N.of_nat j * e) (N.min (off s + (N.of_nat j + 1) * e) (off s + len s)) content).
        { intros d0 Hd0. apply chunks_nth in Hd0; [|exact He]. destruct Hd0 as [_ ->].
          unfold buf. apply chunk_is_slice. }
        destruct (padded (c_fec c)).
        -- rewrite nth_error_map in Hj. destruct (nth_error (chunks (N.to_nat e) (buf s)) j) as [d0|] eqn:Ed0; [|discriminate].
           cbn [option_map] in Hj. inversion Hj; subst d. rewrite (Hsl d0 eq_refl).
           apply payload_ok_pad. etransitivity; [apply lenN_sublist_le|]. lia.
        -- rewrite (Hsl d Hj). apply payload_ok_plain.
    + destruct (R4 Htot) as (body & lst & Eps & Fb & Cl). rewrite Eps.
      unfold close_ok_complete. rewrite removelast_last, last_opt_app.
      apply andb_true_iff. split.
      * apply forallb_forall. intros p Hp. rewrite Forall_forall in Fb. rewrite (Fb p Hp). reflexivity.
      * rewrite Cl. apply eqb_reflx.
Qed.

Theorem C08_transfer_full_proof : forall rep raptor_src c content,
  filedesc_accepts c = true -> c_tlen c = lenN content -> known_D30 c = false ->
  (c_debug c && negb (c_tlen c =? 0)) = false -> (1 <= c_window c)%nat ->
  (forall buf k, raptor_src buf k = Some (chunks (N.to_nat (c_e c)) buf)) ->
  (forall f sbn buf k p, length (rep f sbn buf k p) = N.to_nat p) ->
  let blocks := blocks_of_buffer rep raptor_src c content in
  P_C08_transfer c content None (pkts_of (enc_run (S (S (total_shards blocks))) c [] (est_init blocks))) = true.
Proof. intros rep rsrc c content Hacc Hlen _. apply C08_transfer_strong; assumption. Qed.
