(* C20, last clause: every repeated transfer re-reads the source from its start. *)
From FluteV Require Import Model.Partition Model.BlockEnc Model.StreamPos Proofs.BlockEncProofs.
Open Scope N_scope.

Section C20T.
  Variable rep : fec -> N -> list N -> N -> N -> list (list N).
  Variable raptor_src : list N -> N -> option (list (list N)).

  Lemma transfer_seek_is_stream c bytes pos reads :
    transfer_blocks rep raptor_src true c (mk_ss bytes pos) reads
    = blocks_of_stream rep raptor_src c bytes reads.
  Proof.
    unfold transfer_blocks, blocks_from_pos, blocks_of_stream, ss_seek0, ss_rest.
    cbn [ss_bytes ss_pos]. change (N.to_nat 0) with O. cbn [skipn]. reflexivity.
  Qed.

  Theorem every_transfer_rereads_proof c bytes tr :
    0 < c_e c -> 0 < c_b c -> c_tlen c = lenN bytes ->
    Forall (fun pr => Forall (fun r => 0 < r) (snd pr)) tr ->
    transfers_blocks rep raptor_src true c bytes tr
    = repeat (blocks_of_buffer rep raptor_src c bytes) (length tr).
  Proof.
    intros He Hb Hl Hr. unfold transfers_blocks.
    induction tr as [|[pos reads] tr IH]; [reflexivity|].
    inversion Hr as [|? ? Hr1 Hr2]; subst.
    cbn [map length repeat fst snd]. rewrite transfer_seek_is_stream.
    rewrite (chunking_independent_proof rep raptor_src c bytes reads He Hb Hl Hr1).
    f_equal. apply IH. exact Hr2.
  Qed.

  (* the position the stream is found at is irrelevant: two runs of m transfers that find the
     stream at different positions and read it with different schedules give the same blocks *)
  Corollary transfers_position_independent c bytes tr1 tr2 :
    0 < c_e c -> 0 < c_b c -> c_tlen c = lenN bytes ->
    Forall (fun pr => Forall (fun r => 0 < r) (snd pr)) tr1 ->
    Forall (fun pr => Forall (fun r => 0 < r) (snd pr)) tr2 ->
    length tr1 = length tr2 ->
    transfers_blocks rep raptor_src true c bytes tr1 = transfers_blocks rep raptor_src true c bytes tr2.
  Proof.
    intros He Hb Hl H1 H2 L.
    rewrite !every_transfer_rereads_proof by assumption. rewrite L. reflexivity.
  Qed.
End C20T.
