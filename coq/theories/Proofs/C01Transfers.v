(* C01, "exactly one copy (one per transfer when receive-once is disabled)": m >= 1 consecutive transfers of one
   No-Code object pushed through the receiver model (Model/Recv.v), FDT packets (duplicates of the instance or newer
   instances listing the object) before / between / after the transfers.
   A. the object plane below init_writer neither reads the builder counters nor the log: [cshift];
   B. an object cannot complete before every source symbol has been pushed (black box: flip one byte of the missing
      symbol, the same packets are genuine for the other content, the log cannot spell both);
   C. one transfer on a receiver that holds a current instance listing the object and no object: writer (toi, k);
   D. the session: the exact log after m transfers, for every setting of cf_once and of the no-cache flag. *)
From FluteV Require Import Proofs.D48Step Model.BlockEnc Spec.C08Spec Proofs.BlockEncProofs Proofs.C08Full Proofs.C01Full Proofs.C01Esi.
From FluteV Require Import Model.Partition Spec.C07Spec Proofs.PartitionProofs Model.ObjRecv Model.Recv
  Spec.RecvSpec Spec.SessionSpec Proofs.RecvProofs Proofs.SessionProofs Proofs.C02Full Proofs.C09Full Proofs.C02Session.
From Coq Require Import Lia.
Open Scope N_scope.

Arguments N.add : simpl never. Arguments N.mul : simpl never. Arguments N.sub : simpl never.
Arguments N.eqb : simpl never. Arguments N.ltb : simpl never. Arguments N.leb : simpl never.
Arguments N.div : simpl never. Arguments N.modulo : simpl never. Arguments N.min : simpl never.

Ltac prj := cbn [r_state r_toi r_oti r_cache r_cache_size r_max r_blocks r_off r_tlen r_cenc r_md5 r_md5chk
                 r_al r_as r_nal r_writer r_bw r_fdt_id r_nb_alloc r_alloc_size r_clen r_nocache] in *.

(* ================= A. the log is write-only, the builder counters are untouched below init_writer ================= *)
Definition cshift (b : list wev) (nx : list (N * nat)) (c : ctx) : ctx :=
  mk_ctx nx (c_wcount c) (b ++ c_log c) (c_panic c).

Lemma cs_logc b nx c e : logc (cshift b nx c) e = cshift b nx (logc c e).
Proof. unfold logc, cshift. cbn [c_next c_wcount c_log c_panic]. rewrite app_assoc. reflexivity. Qed.
Lemma cs_incw b nx c w : inc_wcount (cshift b nx c) w = cshift b nx (inc_wcount c w).
Proof. reflexivity. Qed.
Lemma cs_panic b nx c : panicc (cshift b nx c) = cshift b nx (panicc c).
Proof. reflexivity. Qed.
Lemma cs_wcount b nx c w : wcount (cshift b nx c) w = wcount c w.
Proof. reflexivity. Qed.
Lemma cs_id c : cshift [] (c_next c) c = c.
Proof. destruct c. reflexivity. Qed.

Section Shift.
  Variable E : env.
  Variable b : list wev.
  Variable nx : list (N * nat).
  Notation sh := (cshift b nx).

  Definition Sh {X} (f : ctx -> X * ctx) : Prop := forall c, f (sh c) = (fst (f c), sh (snd (f c))).

  Lemma sh_ret {X} (x : X) : Sh (fun c => (x, c)).
  Proof. intros c. reflexivity. Qed.

  Lemma sh_complete o : Sh (complete o).
  Proof. intros c. unfold complete. destruct (r_writer o) as [[w ws]|]; cbn [fst snd]; rewrite ?cs_logc; reflexivity. Qed.
  Lemma sh_error o i : Sh (error o i).
  Proof. intros c. unfold error. destruct (r_writer o) as [[w ws]|]; cbn [fst snd]; rewrite ?cs_logc; reflexivity. Qed.
  Lemma sh_do_write w data : Sh (do_write E w data).
  Proof. intros c. unfold do_write. rewrite cs_wcount, cs_logc, cs_incw. reflexivity. Qed.

  Lemma sh_bw_write w sbn bd bw : Sh (bw_write E w sbn bd bw).
  Proof.
    intros c. unfold bw_write.
    destruct (negb (bw_sbn bw =? sbn)); [reflexivity|].
    destruct (bd_data bd) as [data0|]; [|reflexivity].
    set (data := if lenN_ data0 <? bw_left bw then data0 else firstn (N.to_nat (bw_left bw)) data0).
    destruct (bw_cenc bw).
    - rewrite sh_do_write. destruct (do_write E w data c) as [ok c1]. cbn [fst snd]. destruct ok; reflexivity.
    - destruct (bw_dead bw && negb (lenN_ data =? 0)); [reflexivity|].
      destruct (e_inflate E CZlib (bw_acc bw) false) as [before|]; [|reflexivity].
      destruct (e_inflate E CZlib (bw_acc bw ++ data) (bw_left bw - lenN_ data =? 0)) as [after|]; [|reflexivity].
      destruct (skipn (length before) after) as [|x fresh]; [reflexivity|].
      rewrite sh_do_write. destruct (do_write E w (x :: fresh) c) as [ok c1]. cbn [fst snd]. destruct ok; reflexivity.
    - destruct (bw_dead bw && negb (lenN_ data =? 0)); [reflexivity|].
      destruct (e_inflate E CDeflate (bw_acc bw) false) as [before|]; [|reflexivity].
      destruct (e_inflate E CDeflate (bw_acc bw ++ data) (bw_left bw - lenN_ data =? 0)) as [after|]; [|reflexivity].
      destruct (skipn (length before) after) as [|x fresh]; [reflexivity|].
      rewrite sh_do_write. destruct (do_write E w (x :: fresh) c) as [ok c1]. cbn [fst snd]. destruct ok; reflexivity.
    - destruct (bw_dead bw && negb (lenN_ data =? 0)); [reflexivity|].
      destruct (e_inflate E CGzip (bw_acc bw) false) as [before|]; [|reflexivity].
      destruct (e_inflate E CGzip (bw_acc bw ++ data) (bw_left bw - lenN_ data =? 0)) as [after|]; [|reflexivity].
      destruct (skipn (length before) after) as [|x fresh]; [reflexivity|].
      rewrite sh_do_write. destruct (do_write E w (x :: fresh) c) as [ok c1]. cbn [fst snd]. destruct ok; reflexivity.
  Qed.

  Lemma sh_write_blocks : forall fuel sbn o, Sh (write_blocks E fuel sbn o).
  Proof.
    induction fuel as [|f IH]; intros sbn o c; cbn [write_blocks]; [reflexivity|].
    destruct (r_writer o) as [[w ws]|]; [|reflexivity].
    destruct ws; try reflexivity.
    destruct (r_bw o) as [bw|]; [|reflexivity].
    destruct ((r_off o <=? sbn) && (sbn - r_off o <? N.of_nat (length (r_blocks o)))); [|reflexivity].
    destruct (negb (bd_completed (nth (N.to_nat (sbn - r_off o)) (r_blocks o) bdec_new))); [reflexivity|].
    rewrite sh_bw_write.
    destruct (bw_write E w sbn (nth (N.to_nat (sbn - r_off o)) (r_blocks o) bdec_new) bw c) as [x c1]. cbn [fst snd].
    destruct x as [|bw'| |]; try reflexivity.
    destruct (Nat.eqb (N.to_nat (sbn - r_off o)) 0); cbv zeta beta iota;
    match goal with |- context [set_blocks o ?a1 ?a2 ?a3 ?a4 ?a5] => set (o1 := set_blocks o a1 a2 a3 a4 a5) end;
    (destruct (bw_left bw' =? 0); [|apply IH]);
    (destruct (match r_md5 o1, bw_md5 bw' with Some want, Some got => eqb_bytes want got | _, _ => true end);
     [rewrite sh_complete; destruct (complete o1 c1) as [o2 c2]
     |rewrite sh_error; destruct (error o1 false c1) as [o2 c2]]); reflexivity.
  Qed.

  Lemma sh_push_to_block2 p o : Sh (push_to_block2 E p o).
  Proof.
    intros c. unfold push_to_block2.
    destruct (r_oti o) as [oti|]; [|reflexivity].
    destruct (r_tlen o) as [tlen|]; [|reflexivity].
    destruct (a_pid_with (ro_fec oti) p) as [[[sbn esi] sbl]|]; [|reflexivity].
    destruct (tlen =? 0).
    { destruct (r_writer o); [|reflexivity]. rewrite sh_complete. destruct (complete o c) as [o2 c2]. reflexivity. }
    destruct (sbn <? r_off o); [reflexivity|].
    destruct (match sbl with None => nb_blocks_of oti tlen <=? sbn | Some _ => false end); [reflexivity|].
    destruct ((N.of_nat (length (r_blocks o)) <=? sbn - r_off o) && (4096 <? sbn - r_off o)); [reflexivity|].
    cbv zeta.
    match goal with |- context [bd_completed ?x] => destruct (bd_completed x) end; [reflexivity|].
    match goal with |- context [match ?x with None => _ | Some _ => _ end] =>
      destruct x as [[[[b1 nb] sz]|]|] end; try reflexivity.
    destruct (bd_push E (r_toi o) oti sbn esi (a_payload p) b1) as [b2 pan].
    destruct (bd_completed b2).
    - destruct pan; [rewrite cs_panic|]; apply sh_write_blocks.
    - destruct pan; reflexivity.
  Qed.

  Lemma sh_push_to_block p o : Sh (push_to_block E p o).
  Proof.
    intros c. unfold push_to_block. rewrite sh_push_to_block2.
    destruct (push_to_block2 E p o c) as [x c1]. cbn [fst snd].
    destruct x as [o1|o1]; [|reflexivity].
    destruct (a_close_obj p); [|reflexivity].
    destruct (r_state o1); try reflexivity.
    destruct (r_writer o1); [|reflexivity].
    rewrite sh_error. destruct (error o1 true c1) as [o2 c2]. reflexivity.
  Qed.

  Lemma sh_or_drop o c : or_drop o (sh c) = sh (or_drop o c).
  Proof.
    unfold or_drop. destruct (r_writer o) as [[w ws]|]; [|reflexivity].
    destruct ws; try reflexivity; rewrite sh_error; reflexivity.
  Qed.
End Shift.

(* ================= B. no completion before every source symbol has been pushed ================= *)
Fixpoint flip (pos : nat) (l : list N) : list N :=
  match l, pos with
  | [], _ => []
  | x :: r, O => (x + 1) :: r
  | x :: r, S p => x :: flip p r
  end.

Lemma flip_length pos : forall l, length (flip pos l) = length l.
Proof. induction pos as [|p IH]; intros [|x r]; cbn [flip length]; try reflexivity. rewrite IH. reflexivity. Qed.

Lemma flip_neq pos : forall l, (pos < length l)%nat -> flip pos l <> l.
Proof.
  induction pos as [|p IH]; intros [|x r] H; cbn [flip length] in *; try lia.
  - intros Eq. inversion Eq. lia.
  - intros Eq. inversion Eq as [Eq']. apply (IH r); [lia|exact Eq'].
Qed.

Lemma flip_window : forall l pos a len, (pos < a \/ a + len <= pos)%nat ->
  firstn len (skipn a (flip pos l)) = firstn len (skipn a l).
Proof.
  induction l as [|x r IH]; intros pos a len H; [destruct pos; reflexivity|].
  destruct pos as [|p]; cbn [flip].
  - destruct a as [|a']; cbn [skipn]; [|reflexivity].
    destruct len as [|len']; [reflexivity|lia].
  - destruct a as [|a']; cbn [skipn].
    + destruct len as [|len']; [reflexivity|]. cbn [firstn]. f_equal.
      apply (IH p 0%nat len'). lia.
    + apply IH. lia.
Qed.

Lemma pid_eq_dec (x y : N * N) : {x = y} + {x <> y}.
Proof. decide equality; apply N.eq_dec. Qed.

Section NoEarly.
  Variable E : env.
  Variable oti : roti.
  Variable content : list N.
  Variable w : wid.
  Variable toi : N.
  Variable md5 : option (list N).
  Variable max : N.
  Variables al as_ nal n : N.
  Hypothesis Hfec : ro_fec oti = FNoCode.
  Hypothesis He : 0 < ro_e oti.
  Hypothesis Hb : 0 < ro_b oti.
  Hypothesis HL : 0 < lenN_ content.
  Hypothesis Hu64 : lenN_ content + ro_e oti < U64.
  Hypothesis Hpart : block_partitioning (ro_b oti) (lenN_ content) (ro_e oti) = (al, as_, nal, n).
  Notation kof := (k_of al as_ nal).
  Notation sof := (soff al as_ nal).
  Notation e := (ro_e oti).

  Lemma soff_next s s' : s < s' -> sof s + kof s <= sof s'.
  Proof.
    intros H. unfold soff, k_of. rewrite <- (sym_off_succ al as_ nal s). apply sym_off_mono. lia.
  Qed.

  Lemma sym_index_inj s i s' i' : i < kof s -> i' < kof s' -> sof s + i = sof s' + i' -> s = s' /\ i = i'.
  Proof.
    intros Hi Hi' Eq. destruct (N.lt_trichotomy s s') as [H|[H|H]].
    - pose proof (soff_next s s' H). lia.
    - subst s'. split; [reflexivity|lia].
    - pose proof (soff_next s' s H). lia.
  Qed.

  Lemma sym_index_lt s i : s < n -> i < kof s -> (sof s + i) * e < lenN_ content.
  Proof.
    intros Hs Hi.
    destruct (part_ok (ro_b oti) e (lenN_ content) al as_ nal n Hb He HL Hpart) as (T & r & P & HT & Hr).
    pose proof (sym_off_total _ _ _ _ _ _ P) as Tt.
    pose proof (sym_off_mono al as_ nal (s + 1) n ltac:(lia)) as M.
    pose proof (sym_off_succ al as_ nal s) as Sc. rewrite Sc, Tt in M.
    apply (syms_lt (lenN_ content) e T r (sof s + i) HT Hr). unfold soff, k_of in *. lia.
  Qed.

  Definition flipped (s i : N) : list N := flip (N.to_nat ((sof s + i) * e)) content.

  Lemma flipped_len s i : lenN_ (flipped s i) = lenN_ content.
  Proof. unfold lenN_, flipped. rewrite flip_length. reflexivity. Qed.

  Lemma flipped_neq s i : s < n -> i < kof s -> flipped s i <> content.
  Proof.
    intros Hs Hi. apply flip_neq. pose proof (sym_index_lt s i Hs Hi) as H. unfold lenN_ in H. lia.
  Qed.

  Lemma flipped_sym s i j : j <> sof s + i -> sym_bytes oti (flipped s i) j = sym_bytes oti content j.
  Proof.
    intros Hj. unfold sym_bytes, take, drop, flipped. apply flip_window.
    destruct (N.lt_ge_cases j (sof s + i)) as [G|G].
    - right. assert (j * e + e <= (sof s + i) * e) by nia. lia.
    - left. assert ((sof s + i) * e < j * e) by nia. lia.
  Qed.

  Lemma genuine_flipped s i p : i < kof s ->
    genuine oti content al as_ nal n p -> pid_of p <> (s, i) -> genuine oti (flipped s i) al as_ nal n p.
  Proof.
    intros Hi (G1 & G2 & G3 & G4) Hne. unfold genuine, genuine_at.
    split; [exact G1|]. split; [exact G2|]. split; [exact G3|].
    rewrite G4. symmetry. apply flipped_sym. intros Eq.
    destruct (sym_index_inj _ _ _ _ G3 Hi Eq) as [A B]. apply Hne.
    destruct (pid_of p) as [x y]. cbn [fst snd] in *. congruence.
  Qed.

  (* an object that is a fresh Struct for every content of this length: what or_attach makes of or_new *)
  Definition FreshStruct (o0 : objrecv) (c0 : ctx) : Prop :=
    forall content', lenN_ content' = lenN_ content -> Struct oti content' w toi md5 max al as_ nal n o0 c0.

  Lemma shape_done_unique c c1 c2 : ShapeDone c1 w toi c -> ShapeDone c2 w toi c -> c1 = c2.
  Proof.
    intros (e1 & L1 & _ & D1) (e2 & L2 & _ & D2). rewrite L1 in L2.
    apply app_inv_head in L2. apply app_inv_tail in L2. congruence.
  Qed.

  Lemma no_early o0 c0 pre : FreshStruct o0 c0 -> Forall (genuine oti content al as_ nal n) pre ->
    r_state (fst (run E pre (o0, c0))) = Completed -> covered al as_ nal n (map pid_of pre).
  Proof.
    intros F0 G Hc s i Hs Hi.
    destruct (in_dec pid_eq_dec (s, i) (map pid_of pre)) as [Hin|Hnin]; [exact Hin|exfalso].
    set (c' := flipped s i).
    assert (Hlen : lenN_ c' = lenN_ content) by apply flipped_len.
    assert (G' : Forall (genuine oti c' al as_ nal n) pre).
    { rewrite Forall_forall in *. intros p Hp. apply genuine_flipped; [exact Hi|exact (G p Hp)|].
      intros Eq. apply Hnin. rewrite <- Eq. apply in_map. exact Hp. }
    pose proof (run_safe E oti content w toi md5 max al as_ nal n Hfec He Hb HL Hu64 Hpart pre o0 c0 (F0 content eq_refl) G) as R1.
    assert (HL' : 0 < lenN_ c') by (rewrite Hlen; exact HL).
    assert (Hu' : lenN_ c' + e < U64) by (rewrite Hlen; exact Hu64).
    assert (Hp' : block_partitioning (ro_b oti) (lenN_ c') e = (al, as_, nal, n)) by (rewrite Hlen; exact Hpart).
    pose proof (run_safe E oti c' w toi md5 max al as_ nal n Hfec He Hb HL' Hu' Hp' pre o0 c0 (F0 c' Hlen) G') as R2.
    destruct (run E pre (o0, c0)) as [o1 c1]. cbn [fst] in Hc. cbn [RunOut] in R1, R2.
    assert (D1 : ShapeDone content w toi c1).
    { destruct R1 as [(St & _)|[(_ & D)|([B|B] & _)]]; [|exact D| |]; exfalso.
      - rewrite (st_state _ _ _ _ _ _ _ _ _ St) in Hc. discriminate.
      - congruence.
      - congruence. }
    assert (D2 : ShapeDone c' w toi c1).
    { destruct R2 as [(St & _)|[(_ & D)|([B|B] & _)]]; [|exact D| |]; exfalso.
      - rewrite (st_state _ _ _ _ _ _ _ _ _ St) in Hc. discriminate.
      - congruence.
      - congruence. }
    apply (flipped_neq s i Hs Hi). symmetry. exact (shape_done_unique c1 _ _ D1 D2).
  Qed.
End NoEarly.

(* ================= C. one transfer ================= *)
Section Xfer.
  Variable E : env.
  Variable cfg : rconfig.
  Variable oti : roti.
  Variable content : list N.
  Variable toi : N.
  Variable md5 : option (list N).
  Variables al as_ nal n : N.
  Variable now : Z.
  Variable nc : bool.
  Hypothesis Hfec : ro_fec oti = FNoCode.
  Hypothesis He : 0 < ro_e oti.
  Hypothesis Hb : 0 < ro_b oti.
  Hypothesis HL : 0 < lenN_ content.
  Hypothesis Hu64 : lenN_ content + ro_e oti < U64.
  Hypothesis Hpart : block_partitioning (ro_b oti) (lenN_ content) (ro_e oti) = (al, as_, nal, n).
  Hypothesis Htoi : toi <> 0.
  Notation max := (cf_max_cache cfg).
  Notation L := (lenN_ content).
  Notation PF lem := (lem (ro_b oti) (ro_e oti) L al as_ nal n Hb He HL Hpart) (only parsing).

  (* the entry of the object in an FDT instance *)
  Definition EntryOk (inst : fdtinst) (f : fdtfile) : Prop :=
    find (fun f => ff_toi f =? toi) (fi_files inst) = Some f /\ ff_cenc f = CNull
    /\ match ff_oti f with Some x => Some x | None => fi_oti inst end = Some oti
    /\ ff_tlen f = L /\ ff_md5 f = md5 /\ ff_nocache f = nc.

  (* what create_obj + attach_fdt make of a new object when the builder has been called k times for the TOI *)
  Definition md5chk : bool := match md5 with Some _ => e_md5_enabled E | None => false end.
  Definition att_obj (fid : N) (f : fdtfile) (k : nat) : objrecv :=
    mk_or Receiving toi (Some oti) [] 0 max (repeat bdec_new (N.to_nat (N.min n 2048))) 0 (Some L) (Some CNull)
          md5 md5chk al as_ nal (Some ((toi, k), WOpened)) (Some (bw_new L (ff_clen f) CNull md5chk)) (Some fid)
          0 0 (ff_clen f) (ff_nocache f).
  Definition att_ctx (c : ctx) (k : nat) : ctx :=
    logc (inc_calls (logc c (EvBuilder toi WStore)) toi) (EvOpen (toi, k) true).

  Lemma att_nb fid f k : 0 < nb_block (att_obj fid f k).
  Proof. unfold nb_block, att_obj. prj. rewrite repeat_length. pose proof (PF n_pos). lia. Qed.

  Lemma attach_at fid inst f c k :
    ncalls c toi = k -> EntryOk inst f -> e_builder E toi k = WStore -> e_open_ok E (toi, k) = true ->
    or_attach E fid (fi_files inst) (fi_oti inst) (or_new toi max) c = (true, att_obj fid f k, att_ctx c k).
  Proof.
    intros Hnc (Hfind & Hce & Hoti & Htl & Hmd5 & _) Hbld Hopen.
    unfold or_attach, or_new. prj. rewrite Hfind, Hoti, Htl, Hce, Hmd5. cbv iota beta.
    unfold init_partition at 1. unfold nb_block at 1. prj.
    change (0 <? 0 + N.of_nat (length (@nil bdec))) with false. cbv iota beta. rewrite Hpart. cbv iota beta.
    unfold init_writer. prj. rewrite Hnc, Hbld. cbv iota beta zeta.
    rewrite Hopen. cbn [negb]. destruct (N.eqb_spec L 0) as [G|HL0]; [lia|]. prj.
    try (d48_skip HL0).
    match goal with |- context [push_from_cache E ?x ?y] => set (o3 := x); set (c3 := y) end.
    pose proof (PF n_pos) as Hn.
    set (m := N.to_nat (N.min n 2048)) in *.
    assert (Hm : (0 < m)%nat) by (unfold m; lia).
    assert (Hlen : length (r_blocks o3) = m) by (unfold o3; prj; apply repeat_length).
    assert (Hnb : 0 < nb_block o3) by (unfold nb_block; rewrite Hlen; unfold o3; prj; lia).
    assert (I3 : push_from_cache E o3 c3 = (o3, c3)).
    { unfold push_from_cache, cache_replay_blocked. change (r_oti o3) with (Some oti). cbv iota beta.
      destruct (N.eqb_spec (nb_block o3) 0) as [G|_]; [lia|]. reflexivity. }
    assert (Hn0 : nth 0 (r_blocks o3) bdec_new = bdec_new) by (unfold o3; prj; apply nth_repeat).
    assert (I4 : write_blocks E (S (length (r_blocks o3))) 0 o3 c3 = (ROk o3, c3)).
    { cbn [write_blocks]. change (r_writer o3) with (Some ((toi, k), WOpened)). cbv iota beta.
      change (r_bw o3) with (Some (bw_new L (ff_clen f) CNull md5chk)).
      cbv iota beta. change (r_off o3) with 0.
      destruct (N.leb_spec 0 0) as [_|G]; [|lia]. replace (0 - 0) with 0 by lia.
      destruct (N.ltb_spec 0 (N.of_nat (length (r_blocks o3)))) as [_|G]; [|lia]. cbn [andb].
      change (N.to_nat 0) with 0%nat. rewrite Hn0. reflexivity. }
    rewrite I3, I4. cbv iota beta. rewrite I3. reflexivity.
  Qed.

  Lemma att_struct fid f k c content' : lenN_ content' = L -> c_log c = [] ->
    Struct oti content' (toi, k) toi md5 max al as_ nal n (att_obj fid f k) (att_ctx c k).
  Proof.
    intros Hl Hlg.
    assert (HL' : 0 < lenN_ content') by (rewrite Hl; exact HL).
    assert (Hp' : block_partitioning (ro_b oti) (lenN_ content') (ro_e oti) = (al, as_, nal, n)) by (rewrite Hl; exact Hpart).
    pose proof (PF n_pos) as Hn.
    pose proof (boff_0 (ro_b oti) (ro_e oti) (lenN_ content') al as_ nal n Hb He HL' Hp') as B0.
    split; [|split].
    - constructor; unfold att_obj; prj; try reflexivity; [rewrite Hl; reflexivity|discriminate].
    - constructor; unfold att_obj; prj.
      + eexists. split; [reflexivity|]. constructor; cbn [bw_new bw_sbn bw_left bw_cenc bw_acc bw_md5]; try reflexivity.
        * rewrite B0, Hl. lia.
        * rewrite B0. reflexivity.
      + exact Hn.
      + rewrite repeat_length. lia.
      + intros i. rewrite nth_repeat. apply blockok_new.
      + lia.
      + exists []. split; [unfold att_ctx, hdr; cbn [logc inc_calls c_log]; rewrite Hlg; reflexivity|]. split; [reflexivity|].
        rewrite B0. reflexivity.
    - unfold Flushed, att_obj. prj. rewrite nth_repeat. reflexivity.
  Qed.

  (* ---------- object level: the trajectory of the new object over one transfer ---------- *)
  Notation gen := (genuine oti content al as_ nal n).
  Notation cov := (covered al as_ nal n).

  Lemma run_app pre post oc : run E (pre ++ post) oc = run E post (run E pre oc).
  Proof. unfold run. apply fold_left_app. Qed.
  Lemma run_snoc pre p oc : run E (pre ++ [p]) oc = or_push E p (fst (run E pre oc)) (snd (run E pre oc)).
  Proof. rewrite run_app. reflexivity. Qed.

  Section OneK.
    Variable k : nat.
    Notation w := (toi, k).
    Notation StructK := (Struct oti content w toi md5 max al as_ nal n).
    Hypothesis Hnice : Nice2 E content w md5 max n.

    Lemma sh_or_push_struct bb nx o c p : StructK o c ->
      or_push E p o (cshift bb nx c) = (fst (or_push E p o c), cshift bb nx (snd (or_push E p o c))).
    Proof.
      intros (St & Dy & _).
      rewrite !(or_push_static E oti content w md5 max al as_ nal He Hb HL Hu64 o _ p St (dy_nb _ _ _ _ _ _ _ _ _ _ Dy)).
      rewrite sh_push_to_block. destruct (push_to_block E p o c) as [[o1|o1] c1]; cbn [fst snd]; [reflexivity|].
      rewrite sh_error. destruct (error o1 false c1) as [o2 c2]. reflexivity.
    Qed.

    Lemma step_cases o c p : StructK o c -> gen p ->
      StructK (fst (or_push E p o c)) (snd (or_push E p o c)) \/ r_state (fst (or_push E p o c)) <> Receiving.
    Proof.
      intros S0 G. pose proof (step E oti content w toi md5 max al as_ nal n Hfec He Hb HL Hu64 Hpart o c p _ _ S0 G) as H.
      destruct (or_push E p o c) as [o1 c1]. cbn [StepOut fst snd] in *.
      destruct H as [(S1 & _)|[(H1 & _)|([H1|H1] & _)]]; [left; exact S1|right; congruence..].
    Qed.

    Lemma sh_run bb nx : forall pkts o c, StructK o c -> Forall gen pkts ->
      run E pkts (o, cshift bb nx c) = (fst (run E pkts (o, c)), cshift bb nx (snd (run E pkts (o, c)))).
    Proof.
      induction pkts as [|p pkts IH]; intros o c S0 G; [reflexivity|].
      inversion G as [|? ? Gp Gr]; subst. unfold run. cbn [fold_left fst snd].
      rewrite (sh_or_push_struct bb nx o c p S0).
      destruct (step_cases o c p S0 Gp) as [S1|Hc]; destruct (or_push E p o c) as [o1 c1]; cbn [fst snd] in *.
      - apply IH; assumption.
      - fold (run E pkts (o1, cshift bb nx c1)). fold (run E pkts (o1, c1)).
        rewrite !(run_closed E pkts o1 _ Hc). reflexivity.
    Qed.

    Lemma run_next pkts o c : StructK o c -> Forall gen pkts -> c_next (snd (run E pkts (o, c))) = c_next c.
    Proof.
      intros S0 G. pose proof (sh_run [] (c_next c) pkts o c S0 G) as H. rewrite cs_id in H.
      destruct (run E pkts (o, c)) as [o1 c1]. cbn [fst snd] in *. inversion H as [H1]. rewrite H1 at 1. reflexivity.
    Qed.

    Lemma nc_run : forall pkts o c, StructK o c -> Forall gen pkts -> r_nocache (fst (run E pkts (o, c))) = r_nocache o.
    Proof.
      induction pkts as [|p pkts IH]; intros o c S0 G; [reflexivity|].
      inversion G as [|? ? Gp Gr]; subst. unfold run. cbn [fold_left fst snd].
      assert (NC : r_nocache (fst (or_push E p o c)) = r_nocache o).
      { pose proof S0 as (St & Dy & _).
        rewrite (or_push_static E oti content w md5 max al as_ nal He Hb HL Hu64 o c p St (dy_nb _ _ _ _ _ _ _ _ _ _ Dy)).
        pose proof (nc_push_to_block E p o c) as K. destruct (push_to_block E p o c) as [[o1|o1] c1]; cbn [fst res_obj] in *; [exact K|].
        rewrite nc_error. exact K. }
      destruct (step_cases o c p S0 Gp) as [S1|Hc]; destruct (or_push E p o c) as [o1 c1]; cbn [fst snd] in *.
      - fold (run E pkts (o1, c1)). rewrite (IH o1 c1 S1 Gr). exact NC.
      - fold (run E pkts (o1, c1)). rewrite (run_closed E pkts o1 c1 Hc). exact NC.
    Qed.

    Lemma pre_run : forall pkts o c, C09Full.Pre o c ->
      C09Full.Pre (fst (run E pkts (o, c))) (snd (run E pkts (o, c)))
      /\ forall x ws, r_writer o = Some (x, ws) -> exists ws', r_writer (fst (run E pkts (o, c))) = Some (x, ws').
    Proof.
      induction pkts as [|p pkts IH]; intros o c P; [split; [exact P|intros x ws H; exists ws; exact H]|].
      unfold run. cbn [fold_left fst snd]. pose proof (or_push_ext E p o c P) as X. unfold ExtP in X.
      destruct (or_push E p o c) as [o1 c1]. cbn [fst snd] in X. fold (run E pkts (o1, c1)).
      destruct (IH o1 c1 (e_pre _ _ _ _ X)) as [P1 W1]. split; [exact P1|].
      intros x ws H. destruct (e_stable _ _ _ _ X _ _ H) as [ws1 H1]. exact (W1 _ _ H1).
    Qed.

    Lemma drop_done o c ws : C09Full.Pre o c -> r_writer o = Some (w, ws) -> ShapeDone content w toi c -> or_drop o c = c.
    Proof.
      intros (_ & W & _) Hw Sh. rewrite Hw in W. cbn [WInv] in W. destruct W as (_ & _ & ph & Rn & K).
      rewrite (done_runw content w toi c Sh) in Rn. inversion Rn; subst ph.
      unfold or_drop. rewrite Hw. destruct ws; cbn [phase_ok] in K; try contradiction; reflexivity.
    Qed.

    (* a transfer: genuine packets of the object, the close flag only once everything has been sent, every source
       symbol, and none of them missing before the last packet *)
    Definition no_early_cover (T : list apkt) : Prop :=
      forall pre post, T = pre ++ post -> post <> [] -> ~ cov (map pid_of pre).
    Definition xfer_ok (T : list apkt) : Prop :=
      Forall gen T /\ Forall (fun p => a_toi p = toi) T /\ close_ok al as_ nal n [] T /\ cov (map pid_of T) /\ no_early_cover T.

    Variables (fid : N) (f : fdtfile).
    Notation o0 := (att_obj fid f k).

    Lemma fresh0 c : c_log c = [] -> FreshStruct oti content w toi md5 max al as_ nal n o0 (att_ctx c k).
    Proof. intros Hl content' Hlen. apply att_struct; assumption. Qed.

    Lemma close_ok_prefix T pre post : T = pre ++ post -> close_ok al as_ nal n [] T -> close_ok al as_ nal n [] pre.
    Proof.
      intros -> Cl pre' p post' Eq Hp. apply (Cl pre' p (post' ++ post)); [|exact Hp].
      rewrite Eq, <- app_assoc. reflexivity.
    Qed.

    (* shadow context (empty log): the object is receiving at every proper prefix, completed at the end *)
    Lemma traj_shadow T c : xfer_ok T -> c_log c = [] -> forall pre post, T = pre ++ post ->
      let oc := run E pre (o0, att_ctx c k) in
      (post <> [] -> StructK (fst oc) (snd oc))
      /\ (post = [] -> r_state (fst oc) = Completed /\ ShapeDone content w toi (snd oc)).
    Proof.
      intros (G & _ & Cl & Cv & Ne) Hl pre post Eq. cbv zeta.
      assert (Gp : Forall gen pre) by (rewrite Eq in G; apply Forall_app in G; apply G).
      pose proof (att_struct fid f k c content eq_refl Hl) as S0.
      split.
      - intros Hpost.
        pose proof (run_live E oti content w toi md5 max al as_ nal n Hfec He Hb HL Hu64 Hpart pre o0 (att_ctx c k) []
                      S0 (fun s i H => match H with end) Hnice Gp (close_ok_prefix T pre post Eq Cl)) as R.
        pose proof (no_early E oti content w toi md5 max al as_ nal n Hfec He Hb HL Hu64 Hpart o0 (att_ctx c k) pre (fresh0 c Hl) Gp) as NE.
        destruct (run E pre (o0, att_ctx c k)) as [o1 c1]. cbn [fst snd] in *.
        destruct R as [(S1 & _)|(Hc & _)]; [exact S1|]. exfalso. exact (Ne pre post Eq Hpost (NE Hc)).
      - intros ->. rewrite app_nil_r in Eq. subst pre.
        pose proof (deliver E oti content w toi md5 max al as_ nal n Hfec He Hb HL Hu64 Hpart T o0 (att_ctx c k) S0 Hnice G Cl Cv) as D.
        destruct (run E T (o0, att_ctx c k)) as [o1 c1]. exact D.
    Qed.

    (* ---------- the same trajectory in any context in which the builder has been called k times ---------- *)
    Variable inst : fdtinst.
    Hypothesis Hentry : EntryOk inst f.
    Hypothesis Hbld : e_builder E toi k = WStore.
    Hypothesis Hopen : e_open_ok E w = true.

    Definition blank (c : ctx) : ctx := mk_ctx (c_next c) (c_wcount c) [] (c_panic c).
    Notation nx1 c := (c_next (att_ctx (blank c) k)).

    Lemma att_ctx_shift c : att_ctx c k = cshift (c_log c) (nx1 c) (att_ctx (blank c) k).
    Proof. destruct c as [nx wc lg pn]. unfold att_ctx, logc, inc_calls, cshift, blank, ncalls. cbn [c_next c_wcount c_log c_panic app].
      rewrite <- app_assoc. reflexivity. Qed.

    Lemma pre_att c : ncalls c toi = k -> c_log c = [] -> C09Full.Pre o0 (att_ctx c k).
    Proof.
      intros Hn Hl.
      assert (P0 : C09Full.Pre (or_new toi max) c).
      { split; [left; exact I|]. split; [exact I|]. intros x _. rewrite Hl. reflexivity. }
      pose proof (or_attach_ext E fid (fi_files inst) (fi_oti inst) _ c P0) as X.
      rewrite (attach_at fid inst f c k Hn Hentry Hbld Hopen) in X. unfold ExtA in X. cbn [fst snd] in X.
      exact (e_pre _ _ _ _ X).
    Qed.

    Definition TrajOk (T : list apkt) (c0 : ctx) : Prop :=
      forall pre post, T = pre ++ post ->
        let oc := run E pre (o0, c0) in
        r_nocache (fst oc) = nc
        /\ (post <> [] -> r_state (fst oc) = Receiving)
        /\ (post = [] -> r_state (fst oc) = Completed /\ or_drop (fst oc) (snd oc) = snd oc).

    Lemma traj_real T c : xfer_ok T -> ncalls c toi = k ->
      TrajOk T (att_ctx c k)
      /\ exists cs, snd (run E T (o0, att_ctx c k)) = cshift (c_log c) (nx1 c) cs
                    /\ ShapeDone content w toi cs /\ c_next cs = nx1 c.
    Proof.
      intros X Hn. pose proof X as (G & _).
      assert (Hbl : c_log (blank c) = []) by reflexivity.
      assert (Hnb : ncalls (blank c) toi = k) by exact Hn.
      pose proof (att_struct fid f k (blank c) content eq_refl Hbl) as S0.
      rewrite att_ctx_shift. split.
      - intros pre post Eq. cbv zeta.
        assert (Gp : Forall gen pre) by (rewrite Eq in G; apply Forall_app in G; apply G).
        rewrite (sh_run (c_log c) (nx1 c) pre o0 _ S0 Gp). cbn [fst snd].
        destruct (traj_shadow T (blank c) X Hbl pre post Eq) as [T1 T2]. cbv zeta in T1, T2.
        split; [|split].
        + rewrite (nc_run pre o0 _ S0 Gp). destruct Hentry as (_ & _ & _ & _ & _ & Hnc). exact Hnc.
        + intros Hp. destruct (T1 Hp) as (St & _). exact (st_state _ _ _ _ _ _ _ _ _ St).
        + intros Hp. destruct (T2 Hp) as [Hc Sh]. split; [exact Hc|]. rewrite sh_or_drop. f_equal.
          destruct (pre_run pre o0 _ (pre_att (blank c) Hnb Hbl)) as [P1 W1].
          destruct (W1 w WOpened eq_refl) as [ws Hw].
          exact (drop_done _ _ ws P1 Hw Sh).
      - rewrite (sh_run (c_log c) (nx1 c) T o0 _ S0 G). cbn [snd].
        exists (snd (run E T (o0, att_ctx (blank c) k))). split; [reflexivity|].
        destruct (traj_shadow T (blank c) X Hbl T [] (eq_sym (app_nil_r T))) as [_ T2]. cbv zeta in T2.
        split; [exact (proj2 (T2 eq_refl))|]. apply (run_next T o0 _ S0 G).
    Qed.

    (* ---------- receiver level ---------- *)
    Variable parse_fdt : list N -> option fdtinst.
    Notation push := (fun p => RvPush p now).
    Notation closed_of p r :=
      (if a_close_sess p
       then mk_recv (rv_objects r) (rv_completed r) (rv_error r) (rv_fdt_receivers r) (rv_fdt_current r) true
       else r).
    Notation inb t l := (existsb (N.eqb t) l).

    Lemma step_push_obj r c p : a_toi p = toi ->
      recv_step E parse_fdt cfg r (RvPush p now) c = push_obj E cfg p now (closed_of p r) c.
    Proof. intros Ht. cbn [recv_step]. rewrite Ht. destruct (N.eqb_spec toi 0) as [G|_]; [contradiction|reflexivity]. Qed.

    (* a packet of the object while the object is in the map *)
    Lemma push_obj_mid r o c p o2 c4 :
      rv_objects r = [(toi, o)] -> inb toi (rv_completed r) = false -> rv_error r = [] -> a_toi p = toi ->
      or_push E p o c = (o2, c4) ->
      (r_state o2 = Receiving -> push_obj E cfg p now r c = (POk, set_objects r [(toi, o2)], c4))
      /\ (r_state o2 = Completed ->
          push_obj E cfg p now r c =
          (POk, mk_recv [] (if r_nocache o2 then rv_completed r else rv_completed r ++ [toi]) [] (rv_fdt_receivers r)
                        (rv_fdt_current r) (rv_closed r), or_drop o2 c4)).
    Proof.
      intros Hobjs Hcomp Herr Ht Hpush.
      assert (Eq : push_obj E cfg p now r c =
                   (let (r5, c5) := check_state cfg toi (set_objects r [(toi, o2)]) c4 in (POk, r5, c5))).
      { unfold push_obj. cbv zeta. rewrite Ht, Hcomp. cbv iota beta. rewrite Herr. cbn [existsb]. cbv iota beta.
        unfold get_obj. rewrite Hobjs. cbn [find fst]. rewrite N.eqb_refl. cbn [snd]. rewrite Hpush.
        unfold put_obj. rewrite Hobjs. cbn [existsb fst map]. rewrite N.eqb_refl. cbn [orb]. reflexivity. }
      rewrite Eq. unfold check_state, get_obj. cbn [set_objects rv_objects find fst]. rewrite N.eqb_refl. cbn [snd].
      split; intros Hst; rewrite Hst; [reflexivity|].
      cbn [set_objects rv_objects rv_completed rv_error rv_fdt_receivers rv_fdt_current rv_closed]. rewrite Hcomp.
      unfold remove_obj, get_obj. cbn [rv_objects find fst]. rewrite N.eqb_refl. cbn [snd].
      cbn [set_objects rv_objects rv_completed rv_error rv_fdt_receivers rv_fdt_current rv_closed del_obj filter fst].
      rewrite N.eqb_refl. cbn [negb]. rewrite Herr. reflexivity.
    Qed.

    (* the first packet when the object is not in the map and a complete, unexpired instance listing it is current *)
    Lemma push_obj_idle r c p F rest :
      rv_objects r = [] -> inb toi (rv_completed r) = false -> rv_error r = [] -> rv_fdt_current r = F :: rest ->
      fr_update_expired F now = F -> fr_state F = FComplete -> fr_inst F = Some inst -> fr_id F = fid ->
      ncalls c toi = k -> a_toi p = toi ->
      push_obj E cfg p now r c = push_obj E cfg p now (set_objects r [(toi, o0)]) (att_ctx c k).
    Proof.
      intros Hobjs Hcomp Herr Hcur Hup Hst Hin Hid Hn Ht.
      set (r1 := set_objects r [(toi, o0)]).
      assert (A1 : rv_objects r1 = [(toi, o0)]) by reflexivity.
      assert (A2 : rv_completed r1 = rv_completed r) by reflexivity.
      assert (A3 : rv_error r1 = rv_error r) by reflexivity.
      unfold push_obj, get_obj. cbv zeta. rewrite Ht, A2, Hcomp. cbv iota beta. rewrite A3, Herr. cbn [existsb]. cbv iota beta.
      rewrite A1, Hobjs. cbn [find fst]. rewrite N.eqb_refl. cbn [snd].
      rewrite Hcur. cbn [create_attach]. rewrite Hup, Hst, Hin, Hid.
      rewrite (attach_at fid inst f c k Hn Hentry Hbld Hopen). cbv iota beta.
      replace (mk_recv ([] ++ [(toi, o0)]) (rv_completed r) (rv_error r) (rv_fdt_receivers r) (F :: rest) (rv_closed r)) with r1;
        [reflexivity|].
      unfold r1, set_objects. rewrite Hcur. reflexivity.
    Qed.

    (* the packets of the transfer once the object is in the map *)
    Lemma xfer_tail T c0 : TrajOk T c0 -> forall post pre r o c,
      T = pre ++ post -> post <> [] -> run E pre (o0, c0) = (o, c) ->
      rv_objects r = [(toi, o)] -> inb toi (rv_completed r) = false -> rv_error r = [] ->
      Forall (fun p => a_toi p = toi) post ->
      exists xs r', recv_run E parse_fdt cfg r (map push post) c = (xs, r', snd (run E T (o0, c0)))
        /\ Forall (fun x => x = POk) xs
        /\ rv_objects r' = [] /\ rv_completed r' = (if nc then rv_completed r else rv_completed r ++ [toi])
        /\ rv_error r' = [] /\ rv_fdt_receivers r' = rv_fdt_receivers r /\ rv_fdt_current r' = rv_fdt_current r.
    Proof.
      intros TJ. induction post as [|p post IH]; intros pre r o c Eq Hne Hrun Hobjs Hcomp Herr Ht; [congruence|].
      pose proof (Forall_inv Ht) as Tp. pose proof (Forall_inv_tail Ht) as Tr. cbn beta in Tp.
      cbn [map recv_run]. rewrite (step_push_obj r c p Tp).
      set (r0 := closed_of p r).
      assert (B1 : rv_objects r0 = [(toi, o)]) by (unfold r0; destruct (a_close_sess p); exact Hobjs).
      assert (B2 : rv_completed r0 = rv_completed r) by (unfold r0; destruct (a_close_sess p); reflexivity).
      assert (B3 : rv_error r0 = []) by (unfold r0; destruct (a_close_sess p); exact Herr).
      assert (B4 : rv_fdt_receivers r0 = rv_fdt_receivers r) by (unfold r0; destruct (a_close_sess p); reflexivity).
      assert (B5 : rv_fdt_current r0 = rv_fdt_current r) by (unfold r0; destruct (a_close_sess p); reflexivity).
      clearbody r0.
      assert (Eq' : T = (pre ++ [p]) ++ post) by (rewrite <- app_assoc; exact Eq).
      pose proof (TJ (pre ++ [p]) post Eq') as K. cbv zeta in K.
      assert (Hrun' : run E (pre ++ [p]) (o0, c0) = or_push E p o c) by (rewrite run_snoc, Hrun; reflexivity).
      rewrite Hrun' in K.
      destruct (or_push E p o c) as [o2 c4] eqn:Hp. cbn [fst snd] in K. destruct K as (Knc & K1 & K2).
      assert (Hcomp0 : inb toi (rv_completed r0) = false) by (rewrite B2; exact Hcomp).
      destruct (push_obj_mid r0 o c p o2 c4 B1 Hcomp0 B3 Tp Hp) as [M1 M2].
      destruct post as [|q post'].
      - destruct (K2 eq_refl) as [Hc Hd]. rewrite (M2 Hc), Hd. cbn [map recv_run].
        eexists [POk], _. split; [|split; [repeat constructor|]].
        + rewrite Eq', app_nil_r, Hrun'. reflexivity.
        + cbn [rv_objects rv_completed rv_error rv_fdt_receivers rv_fdt_current]. rewrite Knc, B2.
          repeat split; assumption.
      - rewrite (M1 (K1 ltac:(discriminate))).
        destruct (IH (pre ++ [p]) (set_objects r0 [(toi, o2)]) o2 c4 Eq' ltac:(discriminate) Hrun' eq_refl Hcomp0 B3 Tr)
          as (xs & r' & R & Fx & R1 & R2 & R3 & R4 & R5).
        rewrite R. exists (POk :: xs), r'. split; [reflexivity|]. split; [constructor; [reflexivity|exact Fx]|].
        cbn [set_objects rv_objects rv_completed rv_error rv_fdt_receivers rv_fdt_current] in R2, R4, R5.
        rewrite B2 in R2. rewrite B4 in R4. rewrite B5 in R5. repeat split; assumption.
    Qed.

    (* one whole transfer on a receiver that holds no object, does not list the TOI as completed or failed, and has a
       complete, unexpired instance listing the object at the front of fdt_current *)
    Lemma xfer_recv T r c F rest :
      xfer_ok T -> rv_objects r = [] -> inb toi (rv_completed r) = false -> rv_error r = [] -> rv_fdt_current r = F :: rest ->
      fr_update_expired F now = F -> fr_state F = FComplete -> fr_inst F = Some inst -> fr_id F = fid ->
      ncalls c toi = k ->
      exists xs r' c', recv_run E parse_fdt cfg r (map push T) c = (xs, r', c')
        /\ Forall (fun x => x = POk) xs
        /\ rv_objects r' = [] /\ rv_completed r' = (if nc then rv_completed r else rv_completed r ++ [toi])
        /\ rv_error r' = [] /\ rv_fdt_receivers r' = rv_fdt_receivers r /\ rv_fdt_current r' = rv_fdt_current r
        /\ ncalls c' toi = S k
        /\ exists evs, c_log c' = c_log c ++ hdr w toi ++ evs ++ [EvComplete w]
                       /\ forallb (is_write w) evs = true /\ wdata evs = content.
    Proof.
      intros X Hobjs Hcomp Herr Hcur Hup Hst Hin Hid Hn.
      destruct (traj_real T c X Hn) as (TJ & cs & Hcs & Sh & Hnx).
      pose proof X as (_ & Tt & _ & Cv & _).
      destruct T as [|p T'].
      { exfalso. pose proof (PF n_pos) as Hn0. pose proof (PF k_pos 0) as Hk. exact (Cv 0 0 Hn0 Hk). }
      assert (Tp : a_toi p = toi) by exact (Forall_inv Tt).
      assert (First : recv_run E parse_fdt cfg r (map push (p :: T')) c
                      = recv_run E parse_fdt cfg (set_objects r [(toi, o0)]) (map push (p :: T')) (att_ctx c k)).
      { cbn [map recv_run]. rewrite !(step_push_obj _ _ p Tp).
        rewrite (push_obj_idle (closed_of p r) c p F rest); try assumption; try (destruct (a_close_sess p); assumption).
        destruct (a_close_sess p); reflexivity. }
      rewrite First.
      destruct (xfer_tail (p :: T') (att_ctx c k) TJ (p :: T') [] (set_objects r [(toi, o0)]) o0 (att_ctx c k)
                  eq_refl ltac:(discriminate) eq_refl eq_refl Hcomp Herr Tt)
        as (xs & r' & R & Fx & R1 & R2 & R3 & R4 & R5).
      rewrite R. exists xs, r', (snd (run E (p :: T') (o0, att_ctx c k))).
      split; [reflexivity|]. split; [exact Fx|].
      cbn [set_objects rv_objects rv_completed rv_error rv_fdt_receivers rv_fdt_current] in R2, R4, R5.
      split; [exact R1|]. split; [exact R2|]. split; [exact R3|]. split; [exact R4|]. split; [exact R5|].
      rewrite Hcs. split.
      - unfold ncalls. cbn [cshift c_next]. fold (ncalls (att_ctx (blank c) k) toi).
        unfold att_ctx. rewrite ncalls_logc, ncalls_inc_same, ncalls_logc. exact (f_equal S Hn).
      - destruct Sh as (evs & H1 & H2 & H3). exists evs. cbn [cshift c_log]. rewrite H1.
        split; [reflexivity|split; assumption].
    Qed.
  End OneK.

  (* ================= D. the session ================= *)
  Variable parse_fdt : list N -> option fdtinst.
  Notation push := (fun p => RvPush p now).
  Notation closed_of p r :=
    (if a_close_sess p
     then mk_recv (rv_objects r) (rv_completed r) (rv_error r) (rv_fdt_receivers r) (rv_fdt_current r) true
     else r).
  Notation inb t l := (existsb (N.eqb t) l).

  (* an FDT packet that carries a whole, live instance listing the object (a duplicate of the first one, or a newer one) *)
  Definition GoodFdtPkt (pf : apkt) : Prop :=
    exists id foti d inst f, fdt_pkt_ok pf id foti d /\ parse_fdt d = Some inst /\ fdt_live cfg inst pf now /\ EntryOk inst f.
  Definition GoodF (F : fdtrecv) : Prop :=
    fr_update_expired F now = F /\ fr_state F = FComplete /\ exists inst f, fr_inst F = Some inst /\ EntryOk inst f.

  (* the environment accepts the first [bound] writers of the TOI *)
  Definition EnvOk (bound : nat) : Prop :=
    forall k, (k < bound)%nat ->
      e_builder E toi k = WStore /\ e_open_ok E (toi, k) = true /\ Nice2 E content (toi, k) md5 max n.

  (* the log of j deliveries in a row, by the writers (toi,0) .. (toi,j-1): nothing else *)
  Inductive XLog : nat -> list wev -> Prop :=
  | XL0 : XLog 0 []
  | XLS k l evs : XLog k l -> forallb (is_write (toi, k)) evs = true -> wdata evs = content ->
                  XLog (S k) (l ++ hdr (toi, k) toi ++ evs ++ [EvComplete (toi, k)]).

  Definition comp_of (j : nat) : list N := if nc then [] else if Nat.eqb j 0 then [] else [toi].

  Definition IdleCore (j : nat) (r : recv) (c : ctx) : Prop :=
    rv_objects r = [] /\ rv_error r = [] /\ rv_fdt_receivers r = [] /\ rv_completed r = comp_of j
    /\ ncalls c toi = j /\ XLog j (c_log c).
  Definition Idle (j : nat) (r : recv) (c : ctx) : Prop :=
    IdleCore j r c /\ exists F rest, rv_fdt_current r = F :: rest /\ GoodF F.

  Lemma idle_closed j r c b : Idle j r c ->
    Idle j (mk_recv (rv_objects r) (rv_completed r) (rv_error r) (rv_fdt_receivers r) (rv_fdt_current r) b) c.
  Proof. intros H. exact H. Qed.

  Lemma find_existsb {A} (P : A -> bool) l x : find P l = Some x -> existsb P l = true.
  Proof. intros H. apply find_some in H. apply existsb_exists. exists x. exact H. Qed.

  Lemma comp_kept inst f j : EntryOk inst f ->
    match fi_files inst with
    | [] => comp_of j
    | _ => filter (fun t => existsb (fun f => ff_toi f =? t) (fi_files inst)) (comp_of j)
    end = comp_of j.
  Proof.
    intros (Hf & _). apply find_existsb in Hf. destruct (fi_files inst) as [|x l]; [reflexivity|].
    unfold comp_of. destruct nc; [reflexivity|]. destruct (Nat.eqb j 0); [reflexivity|].
    cbn [filter]. rewrite Hf. reflexivity.
  Qed.

  (* an FDT packet while no object is being received *)
  Lemma push_fdt_idle pf id foti d inst r c :
    fdt_pkt_ok pf id foti d -> parse_fdt d = Some inst -> fdt_live cfg inst pf now ->
    rv_objects r = [] -> rv_fdt_receivers r = [] ->
    cf_once cfg && existsb (fun f => fr_id f =? id) (rv_fdt_current r) = false ->
    exists c0, (c0 = c \/ c0 = panicc c) /\
      push_fdt_obj E parse_fdt cfg pf now r c =
      (POk, mk_recv [] (match fi_files inst with
                        | [] => rv_completed r
                        | _ => filter (fun t => existsb (fun f => ff_toi f =? t) (fi_files inst)) (rv_completed r)
                        end) (rv_error r) [] (firstn 10 (fdt_done cfg id d inst pf now :: rv_fdt_current r)) (rv_closed r), c0).
  Proof.
    intros Hpf Hparse Hlive Hobjs Hrcv Hsc.
    destruct (fr_push_single E parse_fdt cfg pf id foti d inst now Hpf Hparse) as (pan & Hpush).
    exists (if pan then panicc c else c). split; [destruct pan; [right|left]; reflexivity|].
    unfold push_fdt_obj. destruct Hpf as (_ & Hfid & _). rewrite Hfid, Hsc, Hrcv.
    cbn [existsb find]. cbn [fr_state fr_new]. rewrite Hpush.
    cbn [fr_state fdt_done]. fold (fdt_done cfg id d inst pf now). rewrite (live_update _ _ _ _ _ _ Hlive).
    cbn [fr_state fr_inst fdt_done filter]. rewrite Hobjs. cbn [map attach_all check_all].
    cbn [rv_objects rv_completed rv_error rv_fdt_receivers rv_fdt_current rv_closed]. reflexivity.
  Qed.

  Lemma ncalls_or c c0 t : c0 = c \/ c0 = panicc c -> ncalls c0 t = ncalls c t /\ c_log c0 = c_log c.
  Proof. intros [->| ->]; split; reflexivity. Qed.

  Lemma fdt_step pf j r c : GoodFdtPkt pf -> IdleCore j r c ->
    (rv_fdt_current r = [] \/ exists F rest, rv_fdt_current r = F :: rest /\ GoodF F) ->
    exists r' c', recv_step E parse_fdt cfg r (RvPush pf now) c = (POk, r', c') /\ Idle j r' c'.
  Proof.
    intros (id & foti & d & inst & f & Hpf & Hparse & Hlive & Hen) (I1 & I2 & I3 & I4 & I5 & I6) Hcur.
    cbn [recv_step]. pose proof Hpf as (Hz & _). rewrite Hz, N.eqb_refl.
    set (r0 := closed_of pf r).
    assert (B1 : rv_objects r0 = []) by (unfold r0; destruct (a_close_sess pf); exact I1).
    assert (B2 : rv_error r0 = []) by (unfold r0; destruct (a_close_sess pf); exact I2).
    assert (B3 : rv_fdt_receivers r0 = []) by (unfold r0; destruct (a_close_sess pf); exact I3).
    assert (B4 : rv_completed r0 = comp_of j) by (unfold r0; destruct (a_close_sess pf); exact I4).
    assert (B5 : rv_fdt_current r0 = rv_fdt_current r) by (unfold r0; destruct (a_close_sess pf); reflexivity).
    clearbody r0.
    destruct (cf_once cfg && existsb (fun f => fr_id f =? id) (rv_fdt_current r0)) eqn:Hsc.
    - (* receive-once and the instance id is already current: ignored *)
      exists r0, c. split.
      + unfold push_fdt_obj. destruct Hpf as (_ & Hfid & _). rewrite Hfid, Hsc. reflexivity.
      + split; [repeat split; assumption|]. rewrite B5. destruct Hcur as [Hc|Hc]; [|exact Hc].
        rewrite B5, Hc in Hsc. cbn [existsb] in Hsc. rewrite andb_false_r in Hsc. discriminate.
    - destruct (push_fdt_idle pf id foti d inst r0 c Hpf Hparse Hlive B1 B3 Hsc) as (c0 & Hc0 & Eq).
      rewrite Eq. eexists _, c0. split; [reflexivity|].
      destruct (ncalls_or c c0 toi Hc0) as [N1 N2].
      split.
      + unfold IdleCore. cbn [rv_objects rv_completed rv_error rv_fdt_receivers].
        rewrite B4, (comp_kept inst f j Hen), B2, N1, N2. repeat split; assumption.
      + cbn [rv_fdt_current firstn]. eexists _, _. split; [reflexivity|].
        split; [apply live_update; exact Hlive|]. split; [reflexivity|]. exists inst, f. split; [reflexivity|exact Hen].
  Qed.

  (* ---------- packets of the TOI on an idle receiver that lists it as completed ---------- *)
  Lemma push_obj_ignored r c p : a_toi p = toi -> rv_completed r = [toi] -> cf_once cfg = true ->
    push_obj E cfg p now r c = (POk, r, c).
  Proof.
    intros Ht Hc Ho. unfold push_obj. cbv zeta. rewrite Ht, Hc. cbn [existsb]. rewrite N.eqb_refl. cbn [orb].
    rewrite Ho. reflexivity.
  Qed.

  Lemma push_obj_restart r c p : a_toi p = toi -> rv_completed r = [toi] -> cf_once cfg = false ->
    is_first_symbol p = Some true ->
    push_obj E cfg p now r c =
    push_obj E cfg p now (mk_recv (rv_objects r) [] (rv_error r) (rv_fdt_receivers r) (rv_fdt_current r) (rv_closed r)) c.
  Proof.
    intros Ht Hc Ho Hf. unfold push_obj. cbv zeta. rewrite Ht, Hc. cbn [existsb rv_completed]. rewrite N.eqb_refl. cbn [orb].
    rewrite Ho, Hf. cbn [filter]. rewrite N.eqb_refl. cbn [negb]. reflexivity.
  Qed.

  Lemma xfer_ignored : forall T r c j, Forall (fun p => a_toi p = toi) T -> cf_once cfg = true ->
    Idle j r c -> comp_of j = [toi] ->
    exists xs r', recv_run E parse_fdt cfg r (map push T) c = (xs, r', c) /\ Forall (fun x => x = POk) xs /\ Idle j r' c.
  Proof.
    induction T as [|p T IH]; intros r c j Tt Ho Id Hc; [exists [], r; repeat split; [constructor|apply Id..]|].
    pose proof (Forall_inv Tt) as Tp. pose proof (Forall_inv_tail Tt) as Tr. cbn beta in Tp.
    cbn [map recv_run]. rewrite (step_push_obj parse_fdt r c p Tp).
    assert (Id0 : Idle j (closed_of p r) c) by (destruct (a_close_sess p); exact Id).
    assert (C0 : rv_completed (closed_of p r) = [toi]).
    { destruct Id0 as ((_ & _ & _ & I4 & _) & _). rewrite I4. exact Hc. }
    rewrite (push_obj_ignored _ c p Tp C0 Ho).
    destruct (IH _ c j Tr Ho Id0 Hc) as (xs & r' & R & Fx & Id').
    rewrite R. exists (POk :: xs), r'. split; [reflexivity|]. split; [constructor; [reflexivity|exact Fx]|exact Id'].
  Qed.

  (* the first packet of a transfer is the first source symbol of the object (what the sender emits first) *)
  Definition starts_first (T : list apkt) : Prop :=
    match T with p :: _ => is_first_symbol p = Some true | [] => False end.

  (* is a new copy made by the next transfer when j copies exist? *)
  Definition next_copies (j : nat) : nat := if cf_once cfg && negb nc && negb (Nat.eqb j 0) then j else S j.

  Lemma xfer_step T j r c :
    xfer_ok T -> (cf_once cfg = false -> nc = false -> starts_first T) ->
    Idle j r c -> EnvOk (next_copies j) ->
    exists xs r' c', recv_run E parse_fdt cfg r (map push T) c = (xs, r', c')
      /\ Forall (fun x => x = POk) xs /\ Idle (next_copies j) r' c'.
  Proof.
    intros X Hsf Id Env. pose proof X as (_ & Tt & _).
    unfold next_copies in *.
    destruct (cf_once cfg && negb nc && negb (Nat.eqb j 0)) eqn:Hcase.
    - (* receive-once, cacheable, already delivered: every packet is ignored *)
      apply andb_true_iff in Hcase. destruct Hcase as [Hcase Hj]. apply andb_true_iff in Hcase. destruct Hcase as [Ho Hn].
      assert (Hnc : nc = false) by (destruct nc; [discriminate Hn|reflexivity]).
      assert (Hc : comp_of j = [toi]) by (unfold comp_of; rewrite Hnc; destruct (Nat.eqb j 0); [discriminate|reflexivity]).
      destruct (xfer_ignored T r c j Tt Ho Id Hc) as (xs & r' & R & Fx & Id').
      exists xs, r', c. repeat split; assumption || apply Id'.
    - destruct (Env j (Nat.lt_succ_diag_r j)) as (Hbld & Hopen & Hnice).
      pose proof Id as ((I1 & I2 & I3 & I4 & I5 & I6) & F & rest & Hcur & Hup & Hst & inst & f & Hin & Hen).
      assert (Core : forall r1, rv_objects r1 = [] -> rv_completed r1 = [] -> rv_error r1 = [] -> rv_fdt_receivers r1 = [] ->
                rv_fdt_current r1 = F :: rest ->
                exists xs r' c', recv_run E parse_fdt cfg r1 (map push T) c = (xs, r', c')
                  /\ Forall (fun x => x = POk) xs /\ Idle (S j) r' c').
      { intros r1 A1 A2 A3 A4 A5.
        assert (A2' : inb toi (rv_completed r1) = false) by (rewrite A2; reflexivity).
        destruct (xfer_recv j Hnice (fr_id F) f inst Hen Hbld Hopen parse_fdt T r1 c F rest X A1 A2' A3 A5 Hup Hst Hin eq_refl I5)
          as (xs & r' & c' & R & Fx & R1 & R2 & R3 & R4 & R5 & Nx & evs & L1 & L2 & L3).
        exists xs, r', c'. split; [exact R|]. split; [exact Fx|].
        split.
        - unfold IdleCore. rewrite R1, R2, R3, R4, A2, A4, Nx, L1. repeat split; try reflexivity.
          constructor; assumption.
        - exists F, rest. rewrite R5. split; [exact A5|]. split; [exact Hup|]. split; [exact Hst|]. exists inst, f. split; assumption. }
      unfold comp_of in I4. destruct nc eqn:Hnc; [apply (Core r); assumption|].
      destruct (Nat.eqb j 0) eqn:Hj; [apply (Core r); assumption|].
      (* receive-once disabled, cacheable, already delivered: the first source symbol restarts the object *)
      cbn [negb] in Hcase. rewrite andb_true_r, andb_true_r in Hcase.
      specialize (Hsf Hcase eq_refl). destruct T as [|p T']; [contradiction|]. cbn [starts_first] in Hsf.
      pose proof (Forall_inv Tt) as Tp. cbn beta in Tp.
      set (r1 := mk_recv (rv_objects r) [] (rv_error r) (rv_fdt_receivers r) (rv_fdt_current r) (rv_closed r)).
      assert (Restart : recv_run E parse_fdt cfg r (map push (p :: T')) c = recv_run E parse_fdt cfg r1 (map push (p :: T')) c).
      { cbn [map recv_run]. rewrite !(step_push_obj parse_fdt _ c p Tp).
        rewrite (push_obj_restart (closed_of p r) c p Tp); [|destruct (a_close_sess p); exact I4|exact Hcase|exact Hsf].
        unfold r1. destruct (a_close_sess p); reflexivity. }
      rewrite Restart. apply (Core r1); try assumption; reflexivity.
  Qed.

  (* ---------- the schedule: FDT packets and whole transfers, in any alternation ---------- *)
  Inductive item := IFdt (pf : apkt) | IXfer (T : list apkt).
  Definition item_pkts (it : item) : list apkt := match it with IFdt pf => [pf] | IXfer T => T end.
  Definition flatten (items : list item) : list apkt := flat_map item_pkts items.
  Definition ItemOk (it : item) : Prop :=
    match it with
    | IFdt pf => GoodFdtPkt pf
    | IXfer T => xfer_ok T /\ (cf_once cfg = false -> nc = false -> starts_first T)
    end.
  Fixpoint copies_from (j : nat) (items : list item) : nat :=
    match items with
    | [] => j
    | IFdt _ :: rest => copies_from j rest
    | IXfer _ :: rest => copies_from (next_copies j) rest
    end.
  Definition nxfers (items : list item) : nat := length (filter (fun it => match it with IXfer _ => true | _ => false end) items).

  Lemma copies_mono items : forall j, (j <= copies_from j items)%nat.
  Proof.
    induction items as [|[pf|T] rest IH]; intros j; cbn [copies_from]; [lia|apply IH|].
    specialize (IH (next_copies j)). unfold next_copies in *. destruct (cf_once cfg && negb nc && negb (Nat.eqb j 0)); lia.
  Qed.

  Lemma env_le a b : (a <= b)%nat -> EnvOk b -> EnvOk a.
  Proof. intros H Env k Hk. apply Env. lia. Qed.

  Lemma items_run : forall items j r c, Idle j r c -> Forall ItemOk items -> EnvOk (copies_from j items) ->
    exists xs r' c', recv_run E parse_fdt cfg r (map push (flatten items)) c = (xs, r', c')
      /\ Forall (fun x => x = POk) xs /\ Idle (copies_from j items) r' c'.
  Proof.
    induction items as [|it rest IH]; intros j r c Id Ok Env.
    { exists [], r, c. split; [reflexivity|]. split; [constructor|exact Id]. }
    pose proof (Forall_inv Ok) as Ok1. pose proof (Forall_inv_tail Ok) as Okr.
    cbn [flatten flat_map]. fold (flatten rest). rewrite map_app, recv_run_app.
    destruct it as [pf|T]; cbn [item_pkts copies_from ItemOk] in *.
    - destruct Id as [Ic Hcur].
      destruct (fdt_step pf j r c Ok1 Ic (or_intror Hcur)) as (r1 & c1 & R1 & Id1).
      cbn [map recv_run]. rewrite R1.
      destruct (IH j r1 c1 Id1 Okr Env) as (xs & r2 & c2 & R2 & Fx & Id2).
      rewrite R2. exists ([POk] ++ xs), r2, c2. split; [reflexivity|]. split; [constructor; [reflexivity|exact Fx]|exact Id2].
    - destruct Ok1 as [X Hsf].
      destruct (xfer_step T j r c X Hsf Id (env_le _ _ (copies_mono rest (next_copies j)) Env)) as (xs1 & r1 & c1 & R1 & F1 & Id1).
      rewrite R1.
      destruct (IH (next_copies j) r1 c1 Id1 Okr Env) as (xs & r2 & c2 & R2 & Fx & Id2).
      rewrite R2. exists (xs1 ++ xs), r2, c2. split; [reflexivity|]. split; [apply Forall_app; split; assumption|exact Id2].
  Qed.

  (* G1: the FDT packet first, then any alternation of whole transfers and FDT packets *)
  Theorem transfers_run pf0 items : GoodFdtPkt pf0 -> Forall ItemOk items -> EnvOk (copies_from 0 items) ->
    exists xs r c, recv_run E parse_fdt cfg recv0 (map push (pf0 :: flatten items)) ctx0 = (xs, r, c)
      /\ Forall (fun x => x = POk) xs /\ Idle (copies_from 0 items) r c.
  Proof.
    intros G0 Ok Env.
    assert (I0 : IdleCore 0 recv0 ctx0).
    { unfold IdleCore, comp_of. cbn [recv0 rv_objects rv_error rv_fdt_receivers rv_completed ctx0 c_log Nat.eqb].
      repeat split; [destruct nc; reflexivity|constructor]. }
    destruct (fdt_step pf0 0 recv0 ctx0 G0 I0 (or_introl eq_refl)) as (r1 & c1 & R1 & Id1).
    cbn [map recv_run]. rewrite R1.
    destruct (items_run items 0 r1 c1 Id1 Ok Env) as (xs & r2 & c2 & R2 & Fx & Id2).
    rewrite R2. exists (POk :: xs), r2, c2. split; [reflexivity|]. split; [constructor; [reflexivity|exact Fx]|exact Id2].
  Qed.
End Xfer.

(* ================= E. what the exact log says, in the vocabulary of Spec/RecvSpec and Spec/SessionSpec ================= *)
Lemma calls_writes_other (w w' : wid) evs : w' <> w -> forallb (is_write w) evs = true -> calls_of w' evs = [].
Proof.
  intros Hne. induction evs as [|ev evs IH]; intros H; [reflexivity|].
  cbn [forallb] in H. apply andb_true_iff in H. destruct H as [H1 H2].
  destruct ev as [| |w'' dat ok| | |]; cbn [is_write] in H1; try discriminate.
  apply C02Full.wid_eqb_eq in H1. subst w''.
  change (EvWrite w dat ok :: evs) with ([EvWrite w dat ok] ++ evs). rewrite calls_of_app, (IH H2).
  cbn [calls_of flat_map]. rewrite (wid_eqb_neq w' w Hne). reflexivity.
Qed.

Lemma block_calls_other (w w' : wid) toi evs : w' <> w -> forallb (is_write w) evs = true ->
  calls_of w' (hdr w toi ++ evs ++ [EvComplete w]) = [].
Proof.
  intros Hne H. rewrite !calls_of_app, (calls_writes_other w w' evs Hne H). unfold hdr. cbn [calls_of flat_map].
  rewrite (wid_eqb_neq w' w Hne). reflexivity.
Qed.

Lemma block_calls_same content (w : wid) toi evs : forallb (is_write w) evs = true -> wdata evs = content ->
  delivered_calls content (calls_of w (hdr w toi ++ evs ++ [EvComplete w])).
Proof.
  intros H1 H2. apply (done_calls content w toi (mk_ctx [] [] (hdr w toi ++ evs ++ [EvComplete w]) false)).
  exists evs. split; [reflexivity|split; assumption].
Qed.

Lemma xlog_calls content toi : forall m l, XLog content toi m l ->
  (forall j, (j < m)%nat -> delivered_calls content (calls_of (toi, j) l))
  /\ (forall j, (m <= j)%nat -> calls_of (toi, j) l = [])
  /\ (forall t j, t <> toi -> calls_of (t, j) l = []).
Proof.
  intros m l X. induction X as [|k l evs X (IH1 & IH2 & IH3) Hw Hd].
  - split; [intros j Hj; lia|]. split; reflexivity.
  - split; [|split].
    + intros j Hj. rewrite calls_of_app. destruct (Nat.eq_dec j k) as [->|Hne].
      * rewrite (IH2 k (le_n k)). cbn [app]. apply block_calls_same; assumption.
      * rewrite block_calls_other; [|intros Eq; inversion Eq; contradiction|exact Hw].
        rewrite app_nil_r. apply IH1. lia.
    + intros j Hj. rewrite calls_of_app, (IH2 j ltac:(lia)).
      rewrite block_calls_other; [reflexivity|intros Eq; inversion Eq; lia|exact Hw].
    + intros t j Ht. rewrite calls_of_app, (IH3 t j Ht).
      rewrite block_calls_other; [reflexivity|intros Eq; inversion Eq; contradiction|exact Hw].
Qed.

Lemma p_c01_copies mt content : forall ws, Forall (fun w => fst w = mt /\ complete_exact content w = true) ws ->
  P_C01_object mt content (N.of_nat (length ws)) ws = true.
Proof.
  intros ws F.
  assert (A : filter (fun w : ometa * list wcall => completed (snd w)) ws = ws
              /\ forallb (fun w : ometa * list wcall => negb (failed (snd w))) ws = true
              /\ forallb (fun w : ometa * list wcall => negb (completed (snd w)) || (complete_exact content w && meta_eqb mt (fst w))) ws = true).
  { induction F as [|w ws [Hm Hc] F IH]; [repeat split|]. destruct IH as (I1 & I2 & I3).
    pose proof Hc as Hc'. unfold complete_exact in Hc'. apply andb_true_iff in Hc'. destruct Hc' as [Hc' _].
    apply andb_true_iff in Hc'. destruct Hc' as [C1 C2].
    cbn [filter forallb]. rewrite C1, C2, Hc, Hm, C01Full.meta_eqb_refl, I1, I2, I3. repeat split. }
  destruct A as (A1 & A2 & A3). unfold P_C01_object. rewrite A1, A2, A3, N.eqb_refl. reflexivity.
Qed.

(* the statement about the log, unfolded *)
Theorem xlog_statement content toi m l : XLog content toi m l ->
  (forall j, (j < m)%nat -> delivered_calls content (calls_of (toi, j) l)
                            /\ forall mt, complete_exact content (mt, calls_of (toi, j) l) = true)
  /\ (forall j, (m <= j)%nat -> calls_of (toi, j) l = [])
  /\ (forall t j, t <> toi -> calls_of (t, j) l = [])
  /\ (forall mt, P_C01_object mt content (N.of_nat m) (map (fun j => (mt, calls_of (toi, j) l)) (seq 0 m)) = true)
  /\ (m = 1%nat -> ShapeDone content (toi, 0%nat) toi (mk_ctx [] [] l false)).
Proof.
  intros X. destruct (xlog_calls content toi m l X) as (H1 & H2 & H3).
  split; [|split; [exact H2|split; [exact H3|split]]].
  - intros j Hj. split; [apply H1; exact Hj|]. intros mt. apply delivered_exact. apply H1. exact Hj.
  - intros mt. pose proof (p_c01_copies mt content (map (fun j => (mt, calls_of (toi, j) l)) (seq 0 m))) as P.
    rewrite map_length, seq_length in P. apply P. apply Forall_forall. intros w Hw.
    apply in_map_iff in Hw. destruct Hw as (j & <- & Hj). apply in_seq in Hj.
    split; [reflexivity|]. apply delivered_exact. apply H1. lia.
  - intros Hm. remember m as m' eqn:Em in X. destruct X as [|k l0 evs X0 Hw Hd]; [lia|].
    assert (k = 0%nat) by lia. subst k. inversion X0 as [E0 E1|]. subst l0.
    exists evs. split; [reflexivity|split; assumption].
Qed.

(* ================= F. the statement with the executable premises of C02Full ================= *)
(* one transfer as it arrives: packets of the TOI, genuine for (oti, content), the close-object flag only on a
   packet at which the object is recoverable, every source symbol present, no payload id twice *)
Definition xfer_wire_ok (oti : roti) (content : list N) (toi : N) (T : list apkt) : Prop :=
  Forall (fun p => a_toi p = toi) T
  /\ Forall (fun p => genuine_pkt oti content p = true) T
  /\ close_flag_ok oti (lenN_ content) T
  /\ recoverable oti (lenN_ content) T = true
  /\ NoDup (map pid_of T).

Definition item_wire_ok (cfg : rconfig) (parse_fdt : list N -> option fdtinst) (oti : roti) (content : list N) (toi : N)
  (md5 : option (list N)) (nc : bool) (now : Z) (it : item) : Prop :=
  match it with
  | IFdt pf => GoodFdtPkt cfg oti content toi md5 now nc parse_fdt pf
  | IXfer T => xfer_wire_ok oti content toi T /\ (cf_once cfg = false -> nc = false -> starts_first T)
  end.

(* completed copies after m transfers *)
Definition copies (cfg : rconfig) (nc : bool) (m : nat) : nat := if cf_once cfg && negb nc then Nat.min 1 m else m.

Lemma copies_from_closed cfg nc items : copies_from cfg nc 0 items = copies cfg nc (nxfers items).
Proof.
  unfold copies, nxfers.
  assert (G : forall items j,
    copies_from cfg nc j items =
    if cf_once cfg && negb nc
    then (if Nat.eqb j 0 then Nat.min 1 (length (filter (fun it => match it with IXfer _ => true | _ => false end) items)) else j)
    else (j + length (filter (fun it => match it with IXfer _ => true | _ => false end) items))%nat).
  { clear items. induction items as [|[pf|T] rest IH]; intros j; cbn [copies_from filter length].
    - destruct (cf_once cfg && negb nc); [destruct (Nat.eqb j 0) eqn:Ej; [apply Nat.eqb_eq in Ej; lia|reflexivity]|lia].
    - apply IH.
    - rewrite IH. unfold next_copies. destruct (cf_once cfg && negb nc); cbn [andb].
      + destruct (Nat.eqb j 0) eqn:Ej; cbn [negb Nat.eqb]; [apply Nat.eqb_eq in Ej; lia|rewrite Ej; reflexivity].
      + lia. }
  rewrite G. cbn [Nat.eqb]. destruct (cf_once cfg && negb nc); reflexivity.
Qed.

Lemma nodup_no_early oti content al as_ nal n T :
  Forall (genuine oti content al as_ nal n) T -> NoDup (map pid_of T) -> no_early_cover al as_ nal n T.
Proof.
  intros G ND pre post Eq Hpost Cv. destruct post as [|q post']; [congruence|]. subst T.
  apply Forall_app in G. destruct G as [_ G]. pose proof (Forall_inv G) as (_ & Gs & Gi & _).
  rewrite map_app in ND. cbn [map] in ND. apply NoDup_remove_2 in ND. apply ND. apply in_or_app. left.
  destruct (pid_of q) as [s i] eqn:Eq. cbn [fst snd] in *. apply Cv; assumption.
Qed.

Theorem transfers_exact E parse_fdt cfg oti content toi md5 nc now pf0 items :
  let L := lenN_ content in
  nocode_ok oti L -> toi <> 0 ->
  GoodFdtPkt cfg oti content toi md5 now nc parse_fdt pf0 ->
  Forall (item_wire_ok cfg parse_fdt oti content toi md5 nc now) items ->
  let cnt := copies cfg nc (nxfers items) in
  (forall k, (k < cnt)%nat ->
     e_builder E toi k = WStore /\ e_open_ok E (toi, k) = true /\ forall i, e_write_ok E (toi, k) i = true) ->
  md5_good E content md5 -> L <= cf_max_cache cfg -> nb_blocks_of oti L <= 4097 ->
  let '(xs, r, c) := recv_run E parse_fdt cfg recv0 (map (fun p => RvPush p now) (pf0 :: flatten items)) ctx0 in
  Forall (fun x => x = POk) xs
  /\ XLog content toi cnt (c_log c)
  /\ rv_objects r = [] /\ rv_error r = [] /\ rv_completed r = (if nc then [] else if Nat.eqb cnt 0 then [] else [toi]).
Proof.
  intros L (Hfec & He & Hb & HL & Hu) Htoi G0 Ok cnt Env Hmd5 Hmax Hn.
  destruct (partition_of oti L) as [[[al as_] nal] n] eqn:Hpart. unfold partition_of in Hpart.
  assert (Hnb : nb_blocks_of oti L = n) by (unfold nb_blocks_of; rewrite Hpart; reflexivity).
  assert (Cov : forall l, recoverable oti L l = true -> covered al as_ nal n (map pid_of l)).
  { intros l H. apply recoverable_covered. unfold recoverable, source_ks, partition_of in H. rewrite Hpart in H. exact H. }
  assert (Ok' : Forall (ItemOk cfg oti content toi md5 al as_ nal n now nc parse_fdt) items).
  { eapply Forall_impl; [|exact Ok]. intros [pf|T]; cbn [item_wire_ok ItemOk]; [tauto|].
    intros ((Tt & G & Cl & Rec & ND) & Hsf). split; [|exact Hsf].
    pose proof (genuine_pkt_spec _ _ _ _ _ _ _ Hpart G) as G'.
    split; [exact G'|]. split; [exact Tt|]. split; [|split; [apply Cov; exact Rec|apply (nodup_no_early oti content); assumption]].
    intros pre p post Eq Hp. rewrite app_nil_r. apply Cov. apply (Cl pre p post Eq Hp). }
  assert (Env' : EnvOk E cfg content toi md5 n (copies_from cfg nc 0 items)).
  { rewrite copies_from_closed. intros k Hk. destruct (Env k Hk) as (A1 & A2 & A3).
    split; [exact A1|]. split; [exact A2|]. split; [split; [exact A3|exact Hmd5]|]. split; [exact Hmax|]. rewrite <- Hnb. exact Hn. }
  destruct (transfers_run E cfg oti content toi md5 al as_ nal n now nc Hfec He Hb HL Hu Hpart Htoi parse_fdt pf0 items G0 Ok' Env')
    as (xs & r & c & R & Fx & ((I1 & I2 & I3 & I4 & I5 & I6) & _)).
  rewrite R. rewrite copies_from_closed in I4, I6. fold cnt in I4, I6.
  split; [exact Fx|]. split; [exact I6|]. split; [exact I1|]. split; [exact I2|exact I4].
Qed.
Print Assumptions transfers_exact.
Print Assumptions xlog_statement.

(* ================= G. the transfers the sender model emits ================= *)
Lemma refill_head w : forall fuel x win fut, exists win', fst (refill w (x :: win) fut fuel) = x :: win'.
Proof.
  induction fuel as [|f IH]; intros x win fut; cbn [refill]; [exists win; reflexivity|].
  destruct (Nat.ltb (length (x :: win)) w); [|exists win; reflexivity].
  destruct fut as [|b r]; [exists win; reflexivity|]. cbn [app]. apply IH.
Qed.

Lemma refill_first w fuel b0 bs : (1 <= w)%nat ->
  exists win' fut', refill w [] (b0 :: bs) (S fuel) = (mk_wb (bk_sbn b0) (bk_k b0) (bk_shards b0) :: win', fut').
Proof.
  intros Hw. cbn [refill length]. destruct (Nat.ltb_spec 0 w) as [_|G]; [|lia]. cbn [app].
  destruct (refill_head w fuel (mk_wb (bk_sbn b0) (bk_k b0) (bk_shards b0)) [] bs) as (win' & Hr).
  destruct (refill w [mk_wb (bk_sbn b0) (bk_k b0) (bk_shards b0)] bs fuel) as [win fut].
  cbn [fst] in Hr. subst win. exists win', fut. reflexivity.
Qed.

(* the first read of a fresh encoder takes the first shard of the first block *)
Lemma first_read c b0 bs sh shs : (1 <= c_window c)%nat -> bk_shards b0 = sh :: shs ->
  exists p s', enc_read c false (est_init (b0 :: bs)) = (OPkt p, s') /\ p_sbn p = bk_sbn b0 /\ p_esi p = sh_esi sh.
Proof.
  intros Hw Hsh. rewrite enc_read_noforce by reflexivity.
  unfold est_init. cbn [s_window s_future length Nat.add]. cbn [read_loop s_window s_future s_idx s_nb_sent].
  destruct (refill_first (c_window c) (length (b0 :: bs)) b0 bs Hw) as (win' & fut' & Hr). rewrite Hr.
  assert (Hidx : (if Nat.leb (length (mk_wb (bk_sbn b0) (bk_k b0) (bk_shards b0) :: win')) 0 then 0%nat else 0%nat) = 0%nat)
    by (destruct (Nat.leb _ 0); reflexivity).
  rewrite Hidx. cbn [nth_error wb_rest]. rewrite Hsh. eexists _, _. split; [reflexivity|]. split; reflexivity.
Qed.

(* the first block of a non-empty No-Code object is block 0 and its first shard is symbol 0 *)
Lemma first_block rep rsrc c content : c_fec c = NoCode -> filedesc_accepts c = true ->
  c_tlen c = lenN content -> 0 < c_tlen c ->
  exists b0 bs sh shs, blocks_of_buffer rep rsrc c content = b0 :: bs /\ bk_sbn b0 = 0 /\ bk_shards b0 = sh :: shs /\ sh_esi sh = 0.
Proof.
  intros Hfec Hacc Hlen Hl. destruct (accepts_pos c Hacc Hl) as [He Hb].
  unfold blocks_of_buffer.
  destruct (block_partitioning (c_b c) (c_tlen c) (c_e c)) as [[[al as_] nal] n] eqn:Ebp.
  pose proof (partition_covers_proof (c_b c) (c_tlen c) (c_e c) Hb He Hl) as P. rewrite Ebp in P. destruct P as [P _].
  destruct content as [|x l]; [unfold lenN in Hlen; cbn [length] in Hlen; lia|].
  cbn [blocks_buf].
  set (bl := if 0 <? nal then al else as_).
  assert (Hbl : 0 < bl) by (unfold bl; destruct P; destruct (0 <? nal); lia).
  set (e1 := if lenN (x :: l) <? 0 + bl * c_e c then lenN (x :: l) else 0 + bl * c_e c).
  assert (He1 : 0 < e1).
  { unfold e1. destruct (lenN (x :: l) <? 0 + bl * c_e c); [rewrite <- Hlen; exact Hl|nia]. }
  unfold mk_block. destruct (N.eqb_spec (c_e c) 0) as [G|_]; [lia|]. rewrite Hfec.
  assert (Hbuf : exists y buf', sublist 0 e1 (x :: l) = y :: buf').
  { unfold sublist. cbn [N.to_nat skipn]. replace (N.to_nat (e1 - 0)) with (S (N.to_nat (e1 - 1))) by lia.
    cbn [firstn]. eexists _, _. reflexivity. }
  destruct Hbuf as (y & buf' & ->).
  unfold chunks. cbn [length chunks_fuel enumerate_from].
  eexists _, _, _, _. split; [reflexivity|]. split; [reflexivity|]. split; reflexivity.
Qed.

Lemma si_tail x l : strictly_increasing (x :: l) = true -> strictly_increasing l = true.
Proof. destruct l as [|y r]; [reflexivity|]. cbn [strictly_increasing]. intros H. apply andb_true_iff in H. apply H. Qed.

Lemma si_head : forall l x, strictly_increasing (x :: l) = true -> Forall (fun y => x < y) l.
Proof.
  induction l as [|y r IH]; intros x H; [constructor|].
  cbn [strictly_increasing] in H. apply andb_true_iff in H. destruct H as [H1 H2]. apply N.ltb_lt in H1.
  constructor; [exact H1|]. eapply Forall_impl; [|exact (IH y H2)]. cbn beta. intros z Hz. lia.
Qed.

Lemma blocks_nodup : forall ps, (forall s, strictly_increasing (map p_esi (of_block s ps)) = true) ->
  NoDup (map (fun p => (p_sbn p, p_esi p)) ps).
Proof.
  induction ps as [|p rest IH]; intros H; [constructor|]. cbn [map]. constructor.
  - intros Hin. apply in_map_iff in Hin. destruct Hin as (q & Eq & Hq). inversion Eq as [[E1 E2]].
    specialize (H (p_sbn p)). unfold of_block in H. cbn [filter] in H. rewrite N.eqb_refl in H. cbn [map] in H.
    pose proof (si_head _ _ H) as F. rewrite Forall_forall in F.
    assert (Hi : In (p_esi q) (map p_esi (filter (fun p0 => p_sbn p0 =? p_sbn p) rest))).
    { apply in_map. apply filter_In. split; [exact Hq|]. apply N.eqb_eq. exact E1. }
    specialize (F _ Hi). lia.
  - apply IH. intros s. specialize (H s). unfold of_block in *. cbn [filter] in H.
    destruct (p_sbn p =? s); [cbn [map] in H; exact (si_tail _ _ H)|exact H].
Qed.

Lemma transfer_nodup c content ps : filedesc_accepts c = true -> 0 < c_tlen c ->
  P_C08_transfer c content None ps = true -> NoDup (map (fun p => (p_sbn p, p_esi p)) ps).
Proof.
  intros Hacc Hl H. destruct (accepts_pos c Hacc Hl) as [He Hb]. apply blocks_nodup. intros s.
  unfold P_C08_transfer in H. cbv zeta in H. rewrite (rfc_partition_eq _ _ _ Hb He) in H.
  destruct (block_partitioning (c_b c) (c_tlen c) (c_e c)) as [[[al as_] nal] n] eqn:Ebp.
  destruct (N.eqb_spec (c_tlen c) 0) as [|_]; [lia|].
  apply andb_true_iff in H. destruct H as [Hsb H]. apply andb_true_iff in H. destruct H as [H _].
  destruct (N.lt_ge_cases s n) as [Hs|Hs].
  - rewrite forallb_forall in H.
    assert (Hin : In s (seqN n)).
    { unfold seqN. apply in_map_iff. exists (N.to_nat s). split; [lia|]. apply in_seq. lia. }
    specialize (H s Hin). unfold block_ok in H. cbv zeta in H.
    repeat (apply andb_true_iff in H; destruct H as [H ?]). exact H.
  - assert (Hnil : of_block s ps = []).
    { unfold of_block. rewrite forallb_forall in Hsb. clear H.
      induction ps as [|p ps IH]; [reflexivity|]. cbn [filter].
      pose proof (Hsb p (or_introl eq_refl)) as Hp. apply N.ltb_lt in Hp.
      destruct (N.eqb_spec (p_sbn p) s) as [G|_]; [lia|]. apply IH. intros q Hq. apply Hsb. right. exact Hq. }
    rewrite Hnil. reflexivity.
Qed.

(* one uninterrupted transfer of the sender model, on the wire, is a transfer in the sense of xfer_wire_ok, and its first
   packet is the first source symbol *)
Theorem wire_transfer_ok rep rsrc c content oti toi :
  c_fec c = NoCode -> filedesc_accepts c = true -> c_tlen c = lenN content -> 0 < c_tlen c ->
  (1 <= c_window c)%nat -> oti_matches c oti ->
  xfer_wire_ok oti content toi (wire_pkts rep rsrc c content toi) /\ starts_first (wire_pkts rep rsrc c content toi).
Proof.
  intros Hfec Hacc Hlen Hl Hw Hoti.
  pose proof (accepts_esi_fits c Hfec Hacc Hl) as Hesi.
  destruct (wire_facts rep rsrc c content oti toi Hfec Hacc Hlen Hl Hw Hesi Hoti) as (G & Rec & body & lst & Ew & Fb & _).
  assert (RecAll : recoverable oti (lenN_ content) (wire_pkts rep rsrc c content toi) = true) by (apply Rec, incl_refl).
  split; [split; [|split; [exact G|split; [|split; [exact RecAll|]]]]|].
  - unfold wire_pkts. apply Forall_forall. intros q Hq. apply in_map_iff in Hq. destruct Hq as (p & <- & _). reflexivity.
  - rewrite Ew. apply close_flag_ok_last; [exact Fb|rewrite <- Ew; exact RecAll].
  - destruct (block_partitioning (c_b c) (c_tlen c) (c_e c)) as [[[al as_] nal] n] eqn:Ebp.
    destruct (nocode_transfer_full rep rsrc c content Hfec Hl Hacc Hlen Hw) as [H8 Hex].
    fold (transfer_pkts rep rsrc c content) in H8, Hex.
    destruct (bridge_all c content oti toi al as_ nal n Hfec Hacc Hlen Hl Hoti Hesi Ebp _ Hex) as (_ & Epid & _).
    unfold wire_pkts. rewrite Epid. apply (transfer_nodup c content _ Hacc Hl H8).
  - unfold wire_pkts, transfer_pkts.
    destruct (first_block rep rsrc c content Hfec Hacc Hlen Hl) as (b0 & bs & sh & shs & Eb & Hs0 & Hsh & Hi0).
    rewrite Eb. cbn [enc_run].
    destruct (first_read c b0 bs sh shs Hw Hsh) as (p & s' & Hr & Hs & Hi). rewrite Hr.
    cbn [pkts_of map starts_first].
    unfold is_first_symbol, a_pid_inline, to_apkt, src_pkt. cbn [a_cp a_pidbytes]. rewrite Hs, Hi, Hs0, Hi0. reflexivity.
Qed.
Print Assumptions wire_transfer_ok.

(* the schedule of a sender: FDT packets, and whole transfers of the object by the sender model (any window >= 1, last
   transfer or not, either build profile) *)
Definition sender_item_ok rep rsrc (cfg : rconfig) (parse_fdt : list N -> option fdtinst) (oti : roti) (content : list N)
  (toi : N) (md5 : option (list N)) (nc : bool) (now : Z) (it : item) : Prop :=
  match it with
  | IFdt pf => GoodFdtPkt cfg oti content toi md5 now nc parse_fdt pf
  | IXfer T => exists c, c_fec c = NoCode /\ filedesc_accepts c = true /\ c_tlen c = lenN content /\ 0 < c_tlen c
                         /\ (1 <= c_window c)%nat /\ oti_matches c oti /\ T = wire_pkts rep rsrc c content toi
  end.

Lemma sender_item_wire rep rsrc cfg parse_fdt oti content toi md5 nc now it :
  sender_item_ok rep rsrc cfg parse_fdt oti content toi md5 nc now it ->
  item_wire_ok cfg parse_fdt oti content toi md5 nc now it.
Proof.
  destruct it as [pf|T]; cbn [sender_item_ok item_wire_ok]; [tauto|].
  intros (c & H1 & H2 & H3 & H4 & H5 & H6 & ->).
  destruct (wire_transfer_ok rep rsrc c content oti toi H1 H2 H3 H4 H5 H6) as [A B]. split; [exact A|intros _ _; exact B].
Qed.

Theorem transfers_sender_exact rep rsrc E parse_fdt cfg oti content toi md5 nc now pf0 items :
  let L := lenN_ content in
  nocode_ok oti L -> toi <> 0 ->
  GoodFdtPkt cfg oti content toi md5 now nc parse_fdt pf0 ->
  Forall (sender_item_ok rep rsrc cfg parse_fdt oti content toi md5 nc now) items ->
  let cnt := copies cfg nc (nxfers items) in
  (forall k, (k < cnt)%nat ->
     e_builder E toi k = WStore /\ e_open_ok E (toi, k) = true /\ forall i, e_write_ok E (toi, k) i = true) ->
  md5_good E content md5 -> L <= cf_max_cache cfg -> nb_blocks_of oti L <= 4097 ->
  let '(xs, r, c) := recv_run E parse_fdt cfg recv0 (map (fun p => RvPush p now) (pf0 :: flatten items)) ctx0 in
  Forall (fun x => x = POk) xs
  /\ XLog content toi cnt (c_log c)
  /\ rv_objects r = [] /\ rv_error r = [] /\ rv_completed r = (if nc then [] else if Nat.eqb cnt 0 then [] else [toi]).
Proof.
  intros L H1 H2 H3 H4. apply (transfers_exact E parse_fdt cfg oti content toi md5 nc now pf0 items H1 H2 H3).
  eapply Forall_impl; [|exact H4]. apply sender_item_wire.
Qed.
Print Assumptions transfers_sender_exact.

(* ================= H. non-vacuity and what the premises exclude ================= *)
(* the toy session of Proofs/C02Session.v (document "<>", instance listing TOI 7 = the 5-byte object, E = 2, B = 2) and the
   transfers of Proofs/C01Full.v (two interleaved blocks, debug profile): three transfers, the last one with the
   close-object flag, the FDT packet re-sent between them (same instance id 1, and a newer instance id 2 with the same
   document) and after them *)
Definition x3_T (cl : bool) : list apkt := wire_pkts no_rep no_rsrc (ex_cfg cl) ex_content 7.
Definition tx_fdt_id2 : apkt := mk_apkt 0 false false (Some 2) (Some (tx_foti, 2)) None None 0 (mk_pid 0 0) tx_doc 2.
Definition x3_items : list item :=
  [IXfer (x3_T false); IFdt (tx_fdt None); IXfer (x3_T false); IFdt tx_fdt_id2; IFdt (tx_fdt None); IXfer (x3_T true);
   IFdt (tx_fdt None)].
Definition copy_log (k : nat) : list wev :=
  [EvBuilder 7 WStore; EvOpen (7, k) true; EvWrite (7, k) [1; 2; 3; 4] true; EvWrite (7, k) [5] true; EvComplete (7, k)].

Example x3_computed :
  map (fun q => (pid_of q, a_close_obj q)) (x3_T true) = [((0, 0), false); ((1, 0), false); ((0, 1), true)]
  (* receive-once: one copy *)
  /\ sess (tx_parse false None) (tx_cfg true false) (tx_fdt None :: flatten x3_items) = (repeat POk 14, [], [7], [], copy_log 0)
  (* receive-once disabled: one copy per transfer *)
  /\ sess (tx_parse false None) (tx_cfg false false) (tx_fdt None :: flatten x3_items)
     = (repeat POk 14, [], [7], [], copy_log 0 ++ copy_log 1 ++ copy_log 2)
  (* Cache-Control: no-cache, receive-once disabled: one copy per transfer *)
  /\ sess (tx_parse true None) (tx_cfg false false) (tx_fdt None :: flatten x3_items)
     = (repeat POk 14, [], [], [], copy_log 0 ++ copy_log 1 ++ copy_log 2).
Proof. vm_compute. repeat split. Qed.

(* REFUTATION of "exactly one copy" under receive-once: an object whose FDT entry says Cache-Control: no-cache is not
   recorded in rv_completed, so receive-once does not apply to it: every transfer is delivered again, by a new writer *)
Example once_nocache_refuted :
  sess (tx_parse true None) (tx_cfg true false) (tx_fdt None :: flatten x3_items)
  = (repeat POk 14, [], [], [], copy_log 0 ++ copy_log 1 ++ copy_log 2).
Proof. vm_compute. reflexivity. Qed.

(* REFUTATION of "one per transfer" when a transfer does not begin with the source symbol (0,0) (receive-once disabled,
   cacheable object): the same three packets in the order (1,0) (0,0) (0,1), three times: the packets before (0,0) are
   ignored, the restarted object misses them; after three complete transfers two copies are completed and a third writer
   is left open with the object still in the map *)
Definition x3_perm : list apkt := match x3_T false with [a; b; c] => [b; a; c] | l => l end.
Example restart_needs_first_symbol_refuted :
  map pid_of x3_perm = [(1, 0); (0, 0); (0, 1)]
  /\ sess (tx_parse false None) (tx_cfg false false) (tx_fdt None :: x3_perm ++ x3_perm ++ x3_perm)
     = (repeat POk 10, [7], [], [],
        copy_log 0 ++ copy_log 1 ++ [EvBuilder 7 WStore; EvOpen (7, 2%nat) true; EvWrite (7, 2%nat) [1; 2; 3; 4] true]).
Proof. vm_compute. split; reflexivity. Qed.

(* REFUTATION of "exactly one copy" under receive-once when a newer FDT instance that does NOT list the object arrives
   between two transfers: gc_object_completed forgets the TOI, the older instance (still in fdt_current) is attached to
   the re-created object, and the second transfer is delivered again.  Without that instance: one copy. *)
Definition x3_doc2 : list N := [60; 63].
Definition x3_inst2 : fdtinst := mk_fi [mk_ff 9 CNull (Some ex_oti) 5 None None false] None None.
Definition x3_parse2 (d : list N) : option fdtinst :=
  if eqb_bytes d tx_doc then Some (tx_inst false None) else if eqb_bytes d x3_doc2 then Some x3_inst2 else None.
Definition x3_fdt2 : apkt := mk_apkt 0 false false (Some 2) (Some (tx_foti, 2)) None None 0 (mk_pid 0 0) x3_doc2 2.
Example once_newer_instance_without_object_refuted :
  sess x3_parse2 (tx_cfg true false) (tx_fdt None :: x3_T false ++ [x3_fdt2] ++ x3_T false)
  = (repeat POk 8, [], [7], [], copy_log 0 ++ copy_log 1)
  /\ sess x3_parse2 (tx_cfg true false) (tx_fdt None :: x3_T false ++ x3_T false) = (repeat POk 7, [], [7], [], copy_log 0).
Proof. vm_compute. split; reflexivity. Qed.

(* the premises of the theorem are satisfiable: the three-transfer session above, every setting *)
Lemma tx_fdt_id2_ok : fdt_pkt_ok tx_fdt_id2 2 tx_foti tx_doc.
Proof.
  unfold fdt_pkt_ok. split; [reflexivity|]. split; [reflexivity|]. split; [reflexivity|]. split; [left; reflexivity|].
  split; [repeat split; vm_compute; reflexivity|]. split; [vm_compute; discriminate|]. split; vm_compute; reflexivity.
Qed.

Lemma x3_good_fdt once nc pf id : fdt_pkt_ok pf id tx_foti tx_doc ->
  GoodFdtPkt (tx_cfg once false) ex_oti ex_content 7 None 100%Z nc (tx_parse nc None) pf.
Proof.
  intros H. exists id, tx_foti, tx_doc, (tx_inst nc None), (mk_ff 7 CNull (Some ex_oti) 5 None None nc).
  split; [exact H|]. split; [reflexivity|]. split; [left; reflexivity|]. repeat split.
Qed.

Lemma x3_items_ok once nc :
  Forall (sender_item_ok no_rep no_rsrc (tx_cfg once false) (tx_parse nc None) ex_oti ex_content 7 None nc 100%Z) x3_items.
Proof.
  assert (X : forall cl, sender_item_ok no_rep no_rsrc (tx_cfg once false) (tx_parse nc None) ex_oti ex_content 7 None nc 100%Z
                           (IXfer (x3_T cl))).
  { intros cl. destruct (C01Full.ex_premises cl) as (H1 & H2 & H3 & H4 & H5 & _ & _ & H8 & _).
    exists (ex_cfg cl). repeat split; assumption || reflexivity || apply H8. }
  assert (F1 := x3_good_fdt once nc (tx_fdt None) 1 (tx_fdt_ok None)).
  assert (F2 := x3_good_fdt once nc tx_fdt_id2 2 tx_fdt_id2_ok).
  unfold x3_items. repeat constructor; (apply X || exact F1 || exact F2).
Qed.

Example x3_by_theorem once nc :
  let '(xs, r, c) := recv_run env_ok (tx_parse nc None) (tx_cfg once false) recv0
                       (map (fun p => RvPush p 100%Z) (tx_fdt None :: flatten x3_items)) ctx0 in
  Forall (fun x => x = POk) xs
  /\ XLog ex_content 7 (if once && negb nc then 1 else 3)%nat (c_log c)
  /\ rv_objects r = [] /\ rv_error r = [] /\ rv_completed r = (if nc then [] else [7]).
Proof.
  pose proof (transfers_sender_exact no_rep no_rsrc env_ok (tx_parse nc None) (tx_cfg once false) ex_oti ex_content 7 None nc
                100%Z (tx_fdt None) x3_items) as T. cbv zeta in T.
  assert (Hc : copies (tx_cfg once false) nc (nxfers x3_items) = (if once && negb nc then 1 else 3)%nat).
  { unfold copies. cbn [tx_cfg cf_once]. destruct (once && negb nc); reflexivity. }
  rewrite Hc in T.
  assert (T' := T ltac:(repeat split; vm_compute; reflexivity) ltac:(discriminate)
                  (x3_good_fdt once nc (tx_fdt None) 1 (tx_fdt_ok None)) (x3_items_ok once nc)
                  ltac:(intros k _; split; [reflexivity|split; [reflexivity|intros i; reflexivity]])
                  I ltac:(vm_compute; discriminate) ltac:(vm_compute; discriminate)).
  destruct (recv_run env_ok (tx_parse nc None) (tx_cfg once false) recv0
              (map (fun p => RvPush p 100%Z) (tx_fdt None :: flatten x3_items)) ctx0) as [[xs r] c].
  destruct T' as (A & B & C & D & F). split; [exact A|]. split; [exact B|]. split; [exact C|]. split; [exact D|].
  rewrite F. destruct nc; [reflexivity|]. destruct (once && negb false); reflexivity.
Qed.

(* ================= I. the two headline cases, the vocabulary, the object-level helper ================= *)
(* G2: once complete() has run, the object ignores every packet: nothing is called, nothing changes *)
Lemma after_complete_ignores E o c p : or_push E p (fst (complete o c)) (snd (complete o c)) = complete o c.
Proof.
  destruct (complete_log o c) as [_ Hst]. rewrite closed_object_ignores_packets by congruence.
  destruct (complete o c); reflexivity.
Qed.

(* receive-once, cacheable object, at least one transfer: exactly one writer, (toi,0) *)
Corollary transfers_once rep rsrc E parse_fdt cfg oti content toi md5 now pf0 items :
  let L := lenN_ content in
  nocode_ok oti L -> toi <> 0 -> cf_once cfg = true -> (1 <= nxfers items)%nat ->
  GoodFdtPkt cfg oti content toi md5 now false parse_fdt pf0 ->
  Forall (sender_item_ok rep rsrc cfg parse_fdt oti content toi md5 false now) items ->
  e_builder E toi 0 = WStore -> e_open_ok E (toi, 0%nat) = true -> (forall i, e_write_ok E (toi, 0%nat) i = true) ->
  md5_good E content md5 -> L <= cf_max_cache cfg -> nb_blocks_of oti L <= 4097 ->
  let '(xs, r, c) := recv_run E parse_fdt cfg recv0 (map (fun p => RvPush p now) (pf0 :: flatten items)) ctx0 in
  Forall (fun x => x = POk) xs
  /\ ShapeDone content (toi, 0%nat) toi (mk_ctx [] [] (c_log c) false)
  /\ delivered_calls content (calls_of (toi, 0%nat) (c_log c))
  /\ (forall j, (1 <= j)%nat -> calls_of (toi, j) (c_log c) = [])
  /\ (forall mt, P_C01_object mt content 1 [(mt, calls_of (toi, 0%nat) (c_log c))] = true)
  /\ rv_objects r = [] /\ rv_error r = [] /\ rv_completed r = [toi].
Proof.
  intros L H1 H2 Ho Hm H3 H4 B1 B2 B3 H5 H6 H7.
  pose proof (transfers_sender_exact rep rsrc E parse_fdt cfg oti content toi md5 false now pf0 items H1 H2 H3 H4) as T.
  cbv zeta in T.
  assert (Hc : copies cfg false (nxfers items) = 1%nat) by (unfold copies; rewrite Ho; cbn [negb andb]; lia).
  rewrite Hc in T.
  assert (T' := T ltac:(intros k Hk; assert (k = 0%nat) by lia; subst k; repeat split; assumption) H5 H6 H7).
  destruct (recv_run E parse_fdt cfg recv0 (map (fun p => RvPush p now) (pf0 :: flatten items)) ctx0) as [[xs r] c].
  destruct T' as (A & X & C & D & F). destruct (xlog_statement content toi 1 (c_log c) X) as (S1 & S2 & _ & S4 & S5).
  split; [exact A|]. split; [exact (S5 eq_refl)|]. split; [exact (proj1 (S1 0%nat (le_n 1)))|]. split; [exact S2|].
  split; [exact S4|]. split; [exact C|]. split; [exact D|exact F].
Qed.

(* receive-once disabled: one writer per transfer, (toi,0) .. (toi,m-1), whatever the cache directive *)
Corollary transfers_each rep rsrc E parse_fdt cfg oti content toi md5 nc now pf0 items :
  let L := lenN_ content in
  let m := nxfers items in
  nocode_ok oti L -> toi <> 0 -> cf_once cfg = false ->
  GoodFdtPkt cfg oti content toi md5 now nc parse_fdt pf0 ->
  Forall (sender_item_ok rep rsrc cfg parse_fdt oti content toi md5 nc now) items ->
  (forall k, (k < m)%nat ->
     e_builder E toi k = WStore /\ e_open_ok E (toi, k) = true /\ forall i, e_write_ok E (toi, k) i = true) ->
  md5_good E content md5 -> L <= cf_max_cache cfg -> nb_blocks_of oti L <= 4097 ->
  let '(xs, r, c) := recv_run E parse_fdt cfg recv0 (map (fun p => RvPush p now) (pf0 :: flatten items)) ctx0 in
  Forall (fun x => x = POk) xs
  /\ XLog content toi m (c_log c)
  /\ (forall j, (j < m)%nat -> delivered_calls content (calls_of (toi, j) (c_log c)))
  /\ (forall j, (m <= j)%nat -> calls_of (toi, j) (c_log c) = [])
  /\ (forall mt, P_C01_object mt content (N.of_nat m) (map (fun j => (mt, calls_of (toi, j) (c_log c))) (seq 0 m)) = true)
  /\ rv_objects r = [] /\ rv_error r = [].
Proof.
  intros L m H1 H2 Ho H3 H4 Env H5 H6 H7.
  pose proof (transfers_sender_exact rep rsrc E parse_fdt cfg oti content toi md5 nc now pf0 items H1 H2 H3 H4) as T.
  cbv zeta in T.
  assert (Hc : copies cfg nc (nxfers items) = m) by (unfold copies; rewrite Ho; reflexivity).
  rewrite Hc in T. assert (T' := T Env H5 H6 H7).
  destruct (recv_run E parse_fdt cfg recv0 (map (fun p => RvPush p now) (pf0 :: flatten items)) ctx0) as [[xs r] c].
  destruct T' as (A & X & C & D & _). destruct (xlog_statement content toi m (c_log c) X) as (S1 & S2 & _ & S4 & _).
  split; [exact A|]. split; [exact X|]. split; [intros j Hj; exact (proj1 (S1 j Hj))|]. split; [exact S2|].
  split; [exact S4|]. split; [exact C|exact D].
Qed.

(* the vocabulary of the theorems, unfolded once *)
Lemma transfers_vocabulary rep rsrc cfg parse_fdt oti content toi md5 nc now pf T m k l :
  (GoodFdtPkt cfg oti content toi md5 now nc parse_fdt pf <->
   exists id foti d inst f,
     fdt_pkt_ok pf id foti d /\ parse_fdt d = Some inst /\ fdt_live cfg inst pf now
     /\ find (fun f => ff_toi f =? toi) (fi_files inst) = Some f /\ ff_cenc f = CNull
     /\ match ff_oti f with Some x => Some x | None => fi_oti inst end = Some oti
     /\ ff_tlen f = lenN_ content /\ ff_md5 f = md5 /\ ff_nocache f = nc)
  /\ (sender_item_ok rep rsrc cfg parse_fdt oti content toi md5 nc now (IXfer T) <->
      exists c, c_fec c = NoCode /\ filedesc_accepts c = true /\ c_tlen c = lenN content /\ 0 < c_tlen c
                /\ (1 <= c_window c)%nat /\ oti_matches c oti /\ T = wire_pkts rep rsrc c content toi)
  /\ (sender_item_ok rep rsrc cfg parse_fdt oti content toi md5 nc now (IFdt pf) <->
      GoodFdtPkt cfg oti content toi md5 now nc parse_fdt pf)
  /\ (item_wire_ok cfg parse_fdt oti content toi md5 nc now (IXfer T) <->
      (Forall (fun p => a_toi p = toi) T /\ Forall (fun p => genuine_pkt oti content p = true) T
       /\ close_flag_ok oti (lenN_ content) T /\ recoverable oti (lenN_ content) T = true /\ NoDup (map pid_of T))
      /\ (cf_once cfg = false -> nc = false ->
          match T with p :: _ => is_first_symbol p = Some true | [] => False end))
  /\ copies cfg nc m = (if cf_once cfg && negb nc then Nat.min 1 m else m)
  /\ (XLog content toi 0 l <-> l = [])
  /\ (XLog content toi (S k) l <->
      exists l0 evs, l = l0 ++ [EvBuilder toi WStore; EvOpen (toi, k) true] ++ evs ++ [EvComplete (toi, k)]
                     /\ XLog content toi k l0 /\ forallb (is_write (toi, k)) evs = true /\ wdata evs = content).
Proof.
  split; [reflexivity|]. split; [reflexivity|]. split; [reflexivity|]. split; [reflexivity|]. split; [reflexivity|].
  split; [split; [intros X; inversion X; reflexivity|intros ->; constructor]|].
  split.
  - intros X. inversion X as [|k0 l0 evs X0 Hw Hd]; subst. exists l0, evs. repeat split; assumption.
  - intros (l0 & evs & -> & X0 & Hw & Hd). apply (XLS content toi k l0 evs X0 Hw Hd).
Qed.
