From FluteV Require Import Model.ObjRecv Model.Recv Spec.RecvSpec Spec.SessionSpec.
From Coq Require Import Lia.
Open Scope N_scope.

Arguments N.add : simpl never. Arguments N.mul : simpl never. Arguments N.sub : simpl never.
Arguments N.eqb : simpl never. Arguments N.ltb : simpl never. Arguments N.leb : simpl never.

(* ---------- the No-Code block decoder: first copy wins, completion means reassembly ---------- *)
Section NoCode.
  Variable E : env.
  Variable oti : roti.
  Hypothesis Hfec : ro_fec oti = FNoCode.

  Lemma get_esi_app_keep esi sh x :
    has_esi esi sh = true -> get_esi esi (sh ++ [x]) = get_esi esi sh.
  Proof.
    unfold has_esi, get_esi. induction sh as [|y sh IH]; cbn [existsb find app]; [discriminate|].
    destruct (fst y =? esi); [reflexivity|]. cbn [orb]. exact IH.
  Qed.

  Lemma get_esi_app_new esi sh x :
    has_esi esi sh = false -> fst x = esi -> get_esi esi (sh ++ [x]) = Some (snd x).
  Proof.
    unfold has_esi, get_esi. intros H Hx. induction sh as [|y sh IH]; cbn [existsb find app] in *.
    - rewrite Hx, N.eqb_refl. reflexivity.
    - destruct (fst y =? esi); [discriminate|]. cbn [orb] in H. apply IH. exact H.
  Qed.

  Lemma get_esi_app_other esi sh x :
    fst x <> esi -> get_esi esi (sh ++ [x]) = get_esi esi sh.
  Proof.
    unfold get_esi. intros Hx. induction sh as [|y sh IH]; cbn [find app].
    - destruct (N.eqb_spec (fst x) esi); [contradiction|reflexivity].
    - destruct (fst y =? esi); [reflexivity|exact IH].
  Qed.

  (* first copy wins: a symbol that is stored is never replaced, whatever is pushed later *)
  Theorem nocode_first_copy_wins toi sbn esi payload b i d :
    get_esi i (bd_shards b) = Some d ->
    get_esi i (bd_shards (fst (bd_push E toi oti sbn esi payload b))) = Some d.
  Proof.
    intros H. unfold bd_push. destruct (bd_completed b); [exact H|].
    destruct (bd_alloc b); cbn [negb]; [|exact H].
    destruct (ro_e oti <? lenN_ payload); [exact H|]. rewrite Hfec. cbn [fst bd_shards].
    destruct ((esi <? bd_k b) && negb (has_esi esi (bd_shards b)) && negb false) eqn:C; [|exact H].
    apply andb_true_iff in C. destruct C as [C _]. apply andb_true_iff in C. destruct C as [_ C].
    apply negb_true_iff in C.
    destruct (N.eq_dec esi i) as [->|Ne].
    - unfold has_esi, get_esi in *. exfalso.
      destruct (find (fun p => fst p =? i) (bd_shards b)) as [p|] eqn:F; [|discriminate].
      apply find_some in F. destruct F as [F1 F2].
      assert (existsb (fun p => fst p =? i) (bd_shards b) = true) by (apply existsb_exists; exists p; auto).
      congruence.
    - rewrite get_esi_app_other by (cbn; congruence). exact H.
  Qed.

  (* when the decoder completes, the block is the concatenation of the stored symbols 0..k-1 *)
  Theorem nocode_complete_is_concat toi sbn esi payload b :
    bd_completed b = false -> bd_data b = None ->
    let b' := fst (bd_push E toi oti sbn esi payload b) in
    bd_completed b' = true ->
    bd_data b' = concat_src (N.to_nat (bd_k b)) 0 (bd_shards b') /\ bd_data b' <> None.
  Proof.
    intros Hc Hd. unfold bd_push. rewrite Hc. destruct (bd_alloc b); cbn [negb fst].
    - destruct (ro_e oti <? lenN_ payload); [cbn [fst]; rewrite Hc; discriminate|].
      rewrite Hfec, Hd. cbn [fst bd_completed bd_data bd_shards].
      match goal with |- context [count_lt (bd_k b) ?x] => set (sh := x) end.
      destruct (count_lt (bd_k b) sh =? bd_k b); [|cbn [is_some_b]; discriminate].
      intros H. split; [reflexivity|]. destruct (concat_src _ 0 sh); [discriminate|cbn in H; discriminate].
    - rewrite Hc. discriminate.
  Qed.

  (* concat_src succeeds exactly when every symbol 0..n-1 (from i) is stored, and then it is the
     concatenation of those symbols in ESI order *)
  Lemma concat_src_spec sh : forall n i,
    (forall j, i <= j < i + N.of_nat n -> has_esi j sh = true) <-> concat_src n i sh <> None.
  Proof.
    induction n as [|n IH]; intros i; cbn [concat_src].
    - split; [discriminate|intros _ j Hj; lia].
    - split.
      + intros H. assert (H0 : has_esi i sh = true) by (apply H; lia).
        unfold has_esi, get_esi in *.
        destruct (find (fun p => fst p =? i) sh) as [p|] eqn:F.
        * assert (R : concat_src n (i + 1) sh <> None) by (apply IH; intros j Hj; apply H; lia).
          destruct (concat_src n (i + 1) sh); [discriminate|congruence].
        * exfalso. apply existsb_exists in H0. destruct H0 as (p & P1 & P2).
          pose proof (find_none _ _ F p P1). congruence.
      + intros H j Hj.
        destruct (get_esi i sh) as [d|] eqn:G; [|congruence].
        destruct (concat_src n (i + 1) sh) eqn:C; [|congruence].
        destruct (N.eq_dec j i) as [->|Ne].
        * unfold get_esi, has_esi in *. destruct (find (fun p => fst p =? i) sh) as [p|] eqn:F; [|discriminate].
          apply find_some in F. apply existsb_exists. exists p. exact F.
        * apply (proj2 (IH (i + 1))); [rewrite C; discriminate|lia].
  Qed.
End NoCode.
