From FluteV Require Import Model.SenderCtl Spec.SenderSpec.
From Coq Require Import Lia.
Open Scope N_scope.

Arguments N.add : simpl never. Arguments N.mul : simpl never. Arguments N.sub : simpl never.
Arguments N.eqb : simpl never. Arguments N.ltb : simpl never. Arguments N.leb : simpl never.
Arguments Z.add : simpl never. Arguments Z.sub : simpl never. Arguments Z.mul : simpl never.
Arguments Z.ltb : simpl never. Arguments Z.leb : simpl never. Arguments Z.max : simpl never.

Section S.
  Variable fdt_npk : N -> nat.
  Variable fdt_ok : N -> bool.
  Variable divf : Z -> N -> option Z.

  Notation session_run := (session_run fdt_npk fdt_ok divf).
  Notation get_next := (get_next fdt_npk fdt_ok divf).
  Notation get_next_file_transfer := (get_next_file_transfer fdt_npk fdt_ok divf).
  Notation sender_read := (sender_read fdt_npk fdt_ok divf).
  Notation run_fdt_session := (run_fdt_session fdt_npk fdt_ok divf).
  Notation publish := (publish fdt_npk fdt_ok).
  Notation step := (step fdt_npk fdt_ok divf).

  (* ---------- small facts about record updates ---------- *)
  Lemma upd_nth_length {A} i (f : A -> A) l : length (upd_nth i f l) = length l.
  Proof. revert i; induction l as [|x l IH]; intros [|i]; cbn; auto. Qed.

  Lemma fdtq_upd_t s id g : fdtq (upd_t s id g) = fdtq s.
  Proof. reflexivity. Qed.

  (* ================= C11 building blocks ================= *)

  (* a file session never emits an object packet while an FDT instance is queued *)
  Lemma file_session_blocked_by_pending_fdt : forall fuel ss now s o ss' s',
    ss_fdt_only ss = false ->
    session_run fuel ss now s = (o, ss', s') ->
    (forall toi c, o = RObj toi c -> fdtq s' = []) /\ ss_fdt_only ss' = false.
  Proof.
    induction fuel as [|f IH]; intros ss now s o ss' s' Hfo H; cbn [SenderCtl.session_run] in H.
    - inversion H; subst. split; [intros; discriminate|assumption].
    - set (r := match ss_enc ss with None => get_next ss now s | Some _ => _ end) in H.
      assert (Hr : forall ss1 s1, r = ROk _ (ss1, s1) -> ss_fdt_only ss1 = false).
      { intros ss1 s1 E. unfold r in E. destruct (ss_enc ss).
        - inversion E; subst. assumption.
        - unfold SenderCtl.get_next in E. rewrite Hfo in E.
          destruct (get_next_file_transfer (ss_prio ss) now s) as [[[id|] s2]|]; inversion E; subst; reflexivity. }
      destruct r as [[ss1 s1]|] eqn:Er; [|inversion H; subst; split; [intros; discriminate|assumption]].
      specialize (Hr ss1 s1 eq_refl). rewrite Hr in H. cbn [negb andb] in H.
      destruct (Nat.eqb (length (fdtq s1)) 0) eqn:Eq; cbn [negb] in H;
        [|inversion H; subst; split; [intros; discriminate|assumption]].
      apply Nat.eqb_eq in Eq. assert (Hq : fdtq s1 = []) by (destruct (fdtq s1); [reflexivity|discriminate]).
      destruct (ss_enc ss1) as [e|]; [|inversion H; subst; split; [intros; discriminate|assumption]].
      destruct (ss_file ss1) as [id|]; [|inversion H; subst; split; [intros; discriminate|assumption]].
      destruct (match t_next_ts (f_t (obj s1 id)) with Some ts => (now <? ts)%Z | None => false end);
        [inversion H; subst; split; [intros; discriminate|assumption]|].
      destruct (enc_read _ e) as [[close|] e'].
      + inversion H; subst. split; [|reflexivity]. intros toi c _. rewrite fdtq_upd_t. exact Hq.
      + apply IH in H; [exact H|reflexivity].
  Qed.

  (* full-FDT mode: an object that was added but not published is never started *)
  Lemma find_remove_sat p l x l' : find_remove p l = Some (x, l') -> p x = true /\ In x l.
  Proof.
    revert x l'; induction l as [|y l IH]; intros x l' H; cbn in H; [discriminate|].
    destruct (p y) eqn:E.
    - inversion H; subst. split; [assumption|left; reflexivity].
    - destruct (find_remove p l) as [[z r]|]; [|discriminate]. inversion H; subst.
      destruct (IH _ _ eq_refl). split; [assumption|right; assumption].
  Qed.

  Lemma find_remove_first p l x l' : find_remove p l = Some (x, l') ->
    exists ahead rest, l = ahead ++ x :: rest /\ l' = ahead ++ rest
                       /\ p x = true /\ forall y, In y ahead -> p y = false.
  Proof.
    revert x l'; induction l as [|y l IH]; intros x l' H; cbn in H; [discriminate|].
    destruct (p y) eqn:E.
    - inversion H; subst. exists [], l'. repeat split; [assumption|intros z []].
    - destruct (find_remove p l) as [[z r]|]; [|discriminate]. inversion H; subst.
      destruct (IH _ _ eq_refl) as (a & b & -> & -> & Px & Pa).
      exists (y :: a), b. repeat split; [assumption|].
      intros w [<-|Hw]; [assumption|apply Pa; assumption].
  Qed.

  (* FIFO admission: the object a queue starts is the first ready one of the waiting list; every
     object ahead of it (added or re-queued earlier) is not ready for this queue now, and the
     waiting list keeps its order *)
  Lemma fifo_admission prio now s id s' :
    get_next_file_transfer prio now s = ROk _ (Some id, s') ->
    exists ahead rest,
      queue s = ahead ++ id :: rest /\ queue s' = ahead ++ rest
      /\ should_transfer_now (obj s id) prio (full_fdt s) now = true
      /\ forall y, In y ahead -> should_transfer_now (obj s y) prio (full_fdt s) now = false.
  Proof.
    unfold SenderCtl.get_next_file_transfer. intros H.
    destruct (find_remove _ (queue s)) as [[x q']|] eqn:E; [|inversion H].
    apply find_remove_first in E. destruct E as (a & b & Ea & Eb & Px & Pa).
    destruct (transfer_started divf x now _) as [s2|] eqn:T; [|discriminate].
    inversion H; subst id. exists a, b. split; [assumption|]. split; [|split; assumption].
    assert (Q2 : queue s2 = q').
    { unfold SenderCtl.transfer_started in T.
      destruct (t_init _ _ _ _); [|discriminate]. inversion T; subst s2. reflexivity. }
    destruct (full_fdt s2); subst s'; [congruence|].
    unfold SenderCtl.publish. destruct (fdt_ok (fdtid s2)); cbn; congruence.
  Qed.

  Lemma unpublished_never_started prio now s id s' :
    get_next_file_transfer prio now s = ROk _ (Some id, s') ->
    In id (queue s)
    /\ should_transfer_now (obj s id) prio (full_fdt s) now = true
    /\ (full_fdt s = true -> f_pub (obj s id) = true).
  Proof.
    unfold SenderCtl.get_next_file_transfer. intros H.
    destruct (find_remove _ (queue s)) as [[x q']|] eqn:E; [|inversion H].
    apply find_remove_sat in E. destruct E as [E1 E2].
    destruct (transfer_started divf x now _) as [s2|]; [|discriminate].
    inversion H; subst. split; [assumption|]. split; [assumption|].
    intros Hf. unfold should_transfer_now in E1. rewrite Hf in E1.
    destruct (negb (o_prio (f_o (obj s id)) =? prio)); [discriminate|].
    destruct (f_pub (obj s id)); [reflexivity|discriminate].
  Qed.

  (* Sender::read serves the FDT session first *)
  Lemma read_serves_fdt_first now s o s1 :
    run_fdt_session now s = (o, s1) -> o <> RNothing -> sender_read now s = (o, s1).
  Proof.
    intros H Hn. unfold SenderCtl.sender_read. rewrite H. destruct o; try reflexivity. congruence.
  Qed.

  (* ================= C14 building blocks ================= *)
  Lemma eligible_implies_start_time_reached f prio full now :
    should_transfer_now f prio full now = true ->
    match t_start_time (f_t f) with Some stt => (stt <= now)%Z | None => True end.
  Proof.
    unfold should_transfer_now. intros H.
    destruct (negb (o_prio (f_o f) =? prio)); [discriminate|].
    destruct (full && negb (f_pub f)); [discriminate|].
    destruct (t_start_time (f_t f)) as [stt|]; [|exact I].
    destruct (Z.ltb_spec now stt); [discriminate|lia].
  Qed.

  (* when the transfer-count budget is used up, a carousel object restarts only after the gap *)
  Lemma eligible_implies_carousel_gap f prio full now :
    should_transfer_now f prio full now = true ->
    o_max (f_o f) <= t_count (f_t f) ->
    match o_car (f_o f) with CDelay d | CInterval d => (0 <= d)%Z | CNone => True end ->
    match o_car (f_o f), t_last_end (f_t f), t_last_start (f_t f) with
    | CDelay d, Some le, Some _ => (d < now - le)%Z
    | CInterval d, Some _, Some ls => (d < now - ls)%Z
    | _, _, _ => True
    end.
  Proof.
    unfold should_transfer_now. intros H Hc Hd.
    destruct (negb (o_prio (f_o f) =? prio)); [discriminate|].
    destruct (full && negb (f_pub f)); [discriminate|].
    destruct (match t_start_time (f_t f) with Some stt => (now <? stt)%Z | None => false end); [discriminate|].
    destruct (t_transferring (f_t f)); [discriminate|].
    destruct (N.ltb_spec (t_count (f_t f)) (o_max (f_o f))); [lia|].
    destruct (o_car (f_o f)) as [|d|d]; [exact I| |];
      destruct (t_last_end (f_t f)) as [le|]; try exact I;
      destruct (t_last_start (f_t f)) as [ls|]; try exact I;
      apply Z.ltb_lt in H; lia.
  Qed.

  (* no packet of an object is emitted before its pacing timestamp *)
  Lemma packet_respects_pacing_gate : forall fuel ss now s o ss' s',
    session_run fuel ss now s = (o, ss', s') ->
    match o with
    | RObj _ _ | RFdt _ _ =>
      exists id s1, ss_file ss' = Some id
        /\ s' = upd_t s1 id t_tickf
        /\ match t_next_ts (f_t (obj s1 id)) with Some ts => (ts <= now)%Z | None => True end
    | _ => True
    end.
  Proof.
    induction fuel as [|f IH]; intros ss now s o ss' s' H; cbn [SenderCtl.session_run] in H.
    - inversion H; subst. exact I.
    - destruct (match ss_enc ss with None => get_next ss now s | Some _ => ROk _ (ss, s) end) as [[ss1 s1]|];
        [|inversion H; subst; exact I].
      destruct (negb (ss_fdt_only ss1) && negb (Nat.eqb (length (fdtq s1)) 0)); [inversion H; subst; exact I|].
      destruct (ss_enc ss1) as [e|]; [|inversion H; subst; exact I].
      destruct (ss_file ss1) as [id|]; [|inversion H; subst; exact I].
      destruct (t_next_ts (f_t (obj s1 id))) as [ts|] eqn:Ets.
      + destruct (Z.ltb_spec now ts); [inversion H; subst; exact I|].
        destruct (enc_read _ e) as [[close|] e'].
        * inversion H; subst. destruct (o_fdtid (f_o (obj s1 id))); exists id, s1; rewrite Ets; repeat split; lia.
        * apply IH in H. exact H.
      + destruct (enc_read _ e) as [[close|] e'].
        * inversion H; subst. destruct (o_fdtid (f_o (obj s1 id))); exists id, s1; rewrite Ets; repeat split.
        * apply IH in H. exact H.
  Qed.

  (* degenerate inputs: starting a transfer never panics when div_f64 is defined for >= 1 packet *)
  Lemma t_init_total o now t :
    (forall d n, 1 <= n -> divf d n <> None) -> t_init divf o now t <> None.
  Proof.
    intros Hd. unfold t_init.
    destruct (o_target o) as [| |d|tm]; try discriminate.
    - destruct (divf d (N.max 1 (o_nsrc o))) eqn:E; [discriminate|]. exfalso. apply (Hd d (N.max 1 (o_nsrc o))); [lia|assumption].
    - destruct (divf (Z.max 0 (tm - now)) (N.max 1 (o_nsrc o))) eqn:E; [discriminate|].
      exfalso. apply (Hd (Z.max 0 (tm - now)) (N.max 1 (o_nsrc o))); [lia|assumption].
  Qed.

  (* ================= C12 building blocks ================= *)
  (* the abstract encoder: from a fresh state, exactly max(1, n) packets, flag on the last iff closable *)
  Fixpoint drain (fuel : nat) (e : enc) : list bool :=
    match fuel with
    | O => []
    | S f => match enc_read false e with
             | (Some c, e') => c :: drain f e'
             | (None, _) => []
             end
    end.

  Lemma drain_running : forall n sent closable fuel, (n < fuel)%nat -> 0 < sent ->
    drain fuel (mk_enc n sent false closable) =
    match n with O => [] | S m => repeat false m ++ [closable] end.
  Proof.
    induction n as [|n IH]; intros sent closable fuel Hf Hs; destruct fuel as [|fuel]; try lia.
    - cbn [drain enc_read e_stopped e_left e_sent]. destruct (N.eqb_spec sent 0); [lia|]. reflexivity.
    - cbn [drain enc_read e_stopped e_left e_sent e_closable orb].
      rewrite IH by lia. destruct n as [|n]; cbn [Nat.eqb repeat app].
      + rewrite andb_true_r. reflexivity.
      + rewrite andb_false_r. reflexivity.
  Qed.

  Lemma drain_fresh n closable fuel : (S n < fuel)%nat ->
    drain fuel (mk_enc n 0 false closable) =
    match n with O => [true] | S m => repeat false m ++ [closable] end.
  Proof.
    intros Hf. destruct fuel as [|fuel]; [lia|]. destruct n as [|n].
    - cbn [drain enc_read e_stopped e_left e_sent]. change (0 =? 0) with true. cbv iota.
      destruct fuel as [|fuel]; [lia|]. cbn [drain enc_read e_stopped e_left e_sent]. change (1 =? 0) with false. reflexivity.
    - cbn [drain enc_read e_stopped e_left e_sent e_closable orb].
      rewrite drain_running by lia. destruct n as [|n]; cbn [Nat.eqb repeat app].
      + rewrite andb_true_r. reflexivity.
      + rewrite andb_false_r. reflexivity.
  Qed.

  (* a forced read emits at most one packet, flagged, and silences the encoder *)
  Lemma forced_read_once e : e_stopped e = false ->
    match enc_read true e with
    | (Some c, e') => c = true /\ enc_read true e' = (None, e') /\ enc_read false e' = (None, e')
    | (None, e') => e_stopped e' = true
    end.
  Proof.
    intros H. unfold enc_read. rewrite H. destruct (e_left e) as [|l].
    - destruct (e_sent e =? 0); cbn [e_stopped]; auto.
    - cbn [orb e_stopped]. auto.
  Qed.

  (* lifecycle decision at the end of a transfer *)
  Lemma done_counts now t : t_count (t_done now t) = t_count t + 1 /\ t_total (t_done now t) = t_total t + 1
                            /\ t_transferring (t_done now t) = false.
  Proof. repeat split. Qed.

  Lemma expired_iff f : is_expired f = true <-> (o_max (f_o f) <= t_count (f_t f) /\ o_car (f_o f) = CNone).
  Proof.
    unfold is_expired. destruct (N.ltb_spec (t_count (f_t f)) (o_max (f_o f))).
    - split; [discriminate|]. intros [? _]. lia.
    - destruct (o_car (f_o f)); cbn; split; intros; try discriminate; try (split; [lia|reflexivity]); auto;
        destruct H0; discriminate.
  Qed.

  (* ================= C13 building blocks ================= *)
  (* the number of transmission slots of every queue never changes: at most max(1, multiplex_files)
     objects of a queue are in transmission *)
  Definition slots (s : st) : list (N * nat) := map (fun q => (q_prio q, length (q_sessions q))) (squeues s).

  Lemma rr_loop_slots : forall n q orig now s o q' s',
    rr_loop fdt_npk fdt_ok divf n q orig now s = (o, q', s') ->
    q_prio q' = q_prio q /\ length (q_sessions q') = length (q_sessions q).
  Proof.
    induction n as [|n IH]; intros q orig now s o q' s' H; cbn [rr_loop] in H.
    - inversion H; subst. auto.
    - destruct (nth_error (q_sessions q) (q_index q)) as [ss|]; [|inversion H; subst; auto].
      destruct (session_run 4 ss now s) as [[o1 ss1] s1].
      set (q1 := mk_squeue _ _ _) in H.
      assert (Hq1 : q_prio q1 = q_prio q /\ length (q_sessions q1) = length (q_sessions q))
        by (unfold q1; cbn [q_prio q_sessions]; rewrite upd_nth_length; auto).
      destruct o1; try (inversion H; subst; exact Hq1).
      destruct (Nat.eqb _ orig); [inversion H; subst; exact Hq1|].
      apply IH in H. destruct H, Hq1. split; congruence.
  Qed.

  Lemma read_queues_slots : forall todo done now s o qs s',
    read_queues fdt_npk fdt_ok divf done todo now s = (o, qs, s') ->
    map (fun q => (q_prio q, length (q_sessions q))) qs
    = map (fun q => (q_prio q, length (q_sessions q))) (done ++ todo).
  Proof.
    induction todo as [|q r IH]; intros done now s o qs s' H; cbn [read_queues] in H.
    - inversion H; subst. rewrite app_nil_r. reflexivity.
    - destruct (read_priority_queue fdt_npk fdt_ok divf q now s) as [[o1 q1] s1] eqn:E.
      unfold read_priority_queue in E. apply rr_loop_slots in E. destruct E as [E1 E2].
      assert (Hq : (q_prio q1, length (q_sessions q1)) = (q_prio q, length (q_sessions q))) by congruence.
      destruct o1; try (inversion H; subst; rewrite !map_app; cbn [map]; rewrite Hq; reflexivity).
      apply IH in H. rewrite H, <- app_assoc, !map_app. cbn [map app]. rewrite Hq. reflexivity.
  Qed.

  (* queues are served in ascending key order: the first queue that has something wins *)
  Lemma read_queues_first_wins q r done now s o q1 s1 :
    read_priority_queue fdt_npk fdt_ok divf q now s = (o, q1, s1) -> o <> RNothing ->
    read_queues fdt_npk fdt_ok divf done (q :: r) now s = (o, done ++ q1 :: r, s1).
  Proof. intros H Hn. cbn [read_queues]. rewrite H. destruct o; try reflexivity. congruence. Qed.
End S.
