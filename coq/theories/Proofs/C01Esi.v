(* C01 / C16: the premise nocode_esi_fits of Proofs/C01Full.v is redundant since the fix D39: FileDesc::new
   (filedesc_accepts, Model/BlockEnc.v) refuses a No-Code object one of whose EXISTING blocks has more than
   65536 symbols; when no large block exists (nb_a_large = 0) the partition has a_large = a_small, so the
   bound on a_small is the bound on a_large.  The theorems of C01Full are wrapped without the premise. *)
From FluteV Require Import Model.Partition Model.BlockEnc Spec.C07Spec Spec.C08Spec
  Proofs.PartitionProofs Proofs.BlockEncProofs Proofs.C08Full
  Model.ObjRecv Spec.RecvSpec Spec.SessionSpec Proofs.SessionProofs Proofs.C02Full Proofs.C01Full.
From Coq Require Import Lia Arith PeanoNat.
Open Scope N_scope.

Arguments N.add : simpl never. Arguments N.mul : simpl never. Arguments N.sub : simpl never.
Arguments N.div : simpl never. Arguments N.modulo : simpl never. Arguments N.min : simpl never.
Arguments N.ltb : simpl never. Arguments N.leb : simpl never. Arguments N.eqb : simpl never.

(* the partition itself: without large blocks, a_large = a_small; a_small <= a_large always *)
Lemma partition_no_large_eq b l e al as_ nal n :
  block_partitioning b l e = (al, as_, nal, n) -> nal = 0 -> al = as_.
Proof.
  unfold block_partitioning. intros H Hn.
  destruct (b =? 0); [inversion H; reflexivity|].
  destruct (e =? 0); [inversion H; reflexivity|].
  cbv zeta in H.
  destruct (N.eqb_spec (div_ceil (div_ceil l e) b) 0) as [Z|NZ]; [inversion H; reflexivity|].
  set (t := div_ceil l e) in *. set (m := div_ceil t b) in *.
  inversion H. subst al as_ nal n. clear H.
  unfold div_ceil, div_floor in *. fold t in NZ. fold m in NZ.
  pose proof (N.div_mod t m NZ) as D.
  destruct (N.eqb_spec (t mod m) 0) as [_|NM]; [reflexivity|exfalso].
  apply NM. set (q := t / m) in *. clearbody q. set (r := t mod m) in *. clearbody r. lia.
Qed.

Lemma accepts_esi_fits c :
  c_fec c = NoCode -> filedesc_accepts c = true -> 0 < c_tlen c -> nocode_esi_fits c = true.
Proof.
  intros Hfec Hacc Hl. unfold nocode_esi_fits.
  unfold filedesc_accepts in Hacc. apply andb_true_iff in Hacc. destruct Hacc as [Hacc _].
  apply andb_true_iff in Hacc. destruct Hacc as [_ Hacc].
  apply N.ltb_lt in Hl. rewrite Hl in Hacc.
  destruct (block_partitioning (c_b c) (c_tlen c) (c_e c)) as [[[al as_] nal] n] eqn:Ebp.
  apply andb_true_iff in Hacc. destruct Hacc as [Hacc Hs].
  apply andb_true_iff in Hacc. destruct Hacc as [Hn Hlg].
  rewrite Hfec in Hlg, Hs. cbn [encodable] in Hlg, Hs.
  apply negb_true_iff in Hn. apply N.eqb_neq in Hn.
  destruct (N.eqb_spec nal 0) as [Z|NZ].
  - rewrite (partition_no_large_eq _ _ _ _ _ _ _ Ebp Z).
    assert (Hlt : nal <? n = true) by (apply N.ltb_lt; lia).
    rewrite Hlt in Hs. cbn [negb orb] in Hs. exact Hs.
  - cbn [orb] in Hlg. exact Hlg.
Qed.

(* ---------- the theorems of C01Full without the premise ---------- *)
Section Wrap.
  Variable rep : fec -> N -> list N -> N -> N -> list (list N).
  Variable raptor_src : list N -> N -> option (list (list N)).
  Variable c : ecfg.
  Variable content : list N.
  Variable oti : roti.
  Variable E : env.
  Variables toi max fid : N.
  Variable files : list fdtfile.
  Variable inst : option roti.
  Variable md5 : option (list N).
  Hypothesis Hfec : c_fec c = NoCode.
  Hypothesis Hacc : filedesc_accepts c = true.
  Hypothesis Hlen : c_tlen c = lenN content.
  Hypothesis Hl : 0 < c_tlen c.
  Hypothesis Hw : (1 <= c_window c)%nat.
  Hypothesis He16 : c_e c < 65536.
  Hypothesis Hoti : oti_matches c oti.
  Hypothesis Hfdt : fdt_entry_for files inst toi oti (c_tlen c) md5.
  Hypothesis Hwa : writer_accepts E toi.
  Hypothesis Hws : writes_succeed E toi.
  Hypothesis Hmd5 : md5_good E content md5.
  Hypothesis Hmax : c_tlen c <= max.
  Hypothesis Hnb : nb_blocks_of oti (c_tlen c) <= 4097.

  Let Hesi : nocode_esi_fits c = true := accepts_esi_fits c Hfec Hacc Hl.

  Theorem clean_channel_delivered' :
    delivered E fid files inst toi max content (wire_pkts rep raptor_src c content toi).
  Proof.
    exact (clean_channel_delivered rep raptor_src c content oti E toi max fid files inst md5
             Hfec Hacc Hlen Hl Hw He16 Hesi Hoti Hfdt Hwa Hws Hmd5 Hmax Hnb).
  Qed.

  Theorem prefix_then_transfer_delivered' : forall pre,
    Forall (fun q => genuine_pkt oti content q = true) pre ->
    Forall (fun q => a_close_obj q = false) pre ->
    delivered E fid files inst toi max content (pre ++ wire_pkts rep raptor_src c content toi).
  Proof.
    exact (prefix_then_transfer_delivered rep raptor_src c content oti E toi max fid files inst md5
             Hfec Hacc Hlen Hl Hw He16 Hesi Hoti Hfdt Hwa Hws Hmd5 Hmax Hnb).
  Qed.

  Theorem superset_delivered' : forall l,
    Forall (fun q => genuine_pkt oti content q = true) l ->
    Forall (fun q => a_close_obj q = false) l ->
    incl (wire_pkts rep raptor_src c content toi) l ->
    delivered E fid files inst toi max content l.
  Proof.
    exact (superset_delivered rep raptor_src c content oti E toi max fid files inst md5
             Hfec Hacc Hlen Hl Hw He16 Hesi Hoti Hfdt Hwa Hws Hmd5 Hmax Hnb).
  Qed.

  Theorem late_join_delivered' : c_closable c = false ->
    forall j : nat,
    delivered E fid files inst toi max content
      (skipn j (wire_pkts rep raptor_src c content toi) ++ wire_pkts rep raptor_src c content toi).
  Proof.
    exact (late_join_delivered rep raptor_src c content oti E toi max fid files inst md5
             Hfec Hacc Hlen Hl Hw He16 Hesi Hoti Hfdt Hwa Hws Hmd5 Hmax Hnb).
  Qed.
End Wrap.

Theorem wire_bridge' : forall c content oti toi al as_ nal n,
  c_fec c = NoCode -> filedesc_accepts c = true -> c_tlen c = lenN content -> 0 < c_tlen c ->
  oti_matches c oti ->
  block_partitioning (c_b c) (c_tlen c) (c_e c) = (al, as_, nal, n) ->
  forall ps, P_C08_transfer c content None ps = true -> P_C08_nocode_exact c content ps = true ->
  (Forall (fun q => genuine_pkt oti content q = true) (map (to_apkt toi) ps)
   /\ map pid_of (map (to_apkt toi) ps) = map (fun p => (p_sbn p, p_esi p)) ps
   /\ map a_close_obj (map (to_apkt toi) ps) = map p_close ps)
  /\ (forall s i, s < n -> i < nominal_syms al as_ nal s -> In (s, i) (map (fun p => (p_sbn p, p_esi p)) ps))
  /\ exists body lst, ps = body ++ [lst] /\ Forall (fun p => p_close p = false) body /\ p_close lst = c_closable c.
Proof.
  intros c content oti toi al as_ nal n Hfec Hacc Hlen Hl Hoti.
  exact (wire_bridge c content oti toi al as_ nal n Hfec Hacc Hlen Hl Hoti (accepts_esi_fits c Hfec Hacc Hl)).
Qed.

Print Assumptions accepts_esi_fits.
Print Assumptions clean_channel_delivered'.
Print Assumptions prefix_then_transfer_delivered'.
Print Assumptions superset_delivered'.
Print Assumptions late_join_delivered'.
Print Assumptions wire_bridge'.
