(* Lemmas about big-endian byte strings, bit-field packing and shift/or arithmetic. *)
From FluteV Require Import Model.Bytes.
Open Scope N_scope.
Arguments N.add : simpl never. Arguments N.mul : simpl never. Arguments N.sub : simpl never.
Arguments N.div : simpl never. Arguments N.modulo : simpl never. Arguments N.pow : simpl never.

(* ---------- powers ---------- *)
Lemma pow256 k : 256 ^ k = 2 ^ (8 * k).
Proof. change 256 with (2 ^ 8). rewrite <- N.pow_mul_r. reflexivity. Qed.

Lemma pow2_pos k : 0 < 2 ^ k.
Proof. apply N.neq_0_lt_0. apply N.pow_nonzero. lia. Qed.

Lemma pow256_pos k : 0 < 256 ^ k.
Proof. apply N.neq_0_lt_0. apply N.pow_nonzero. lia. Qed.

Lemma pow2_split a b : a <= b -> 2 ^ b = 2 ^ (b - a) * 2 ^ a.
Proof. intros H. rewrite <- N.pow_add_r. f_equal. lia. Qed.

(* ---------- shift / or / and as arithmetic ---------- *)
Lemma land_shift_small a k b : b < 2 ^ k -> N.land (a * 2 ^ k) b = 0.
Proof.
  intros Hb. apply N.bits_inj; intros n. rewrite N.land_spec, N.bits_0.
  destruct (N.ltb_spec n k) as [Hn|Hn].
  - rewrite N.mul_pow2_bits_low by assumption. reflexivity.
  - rewrite <- (N.mod_small b (2 ^ k)) by assumption.
    rewrite N.mod_pow2_bits_high by assumption. apply andb_false_r.
Qed.

Lemma lor_mul_add a k b : b < 2 ^ k -> N.lor (a * 2 ^ k) b = a * 2 ^ k + b.
Proof.
  intros Hb. pose proof (land_shift_small a k b Hb) as L.
  rewrite <- N.lxor_lor by assumption. symmetry. apply N.add_nocarry_lxor. assumption.
Qed.

Lemma lor_shiftl_add a k b : b < 2 ^ k -> N.lor (N.shiftl a k) b = a * 2 ^ k + b.
Proof. intros Hb. rewrite N.shiftl_mul_pow2. apply lor_mul_add. assumption. Qed.

Lemma lor_add_shiftl b a k : b < 2 ^ k -> N.lor b (N.shiftl a k) = b + a * 2 ^ k.
Proof. intros Hb. rewrite N.lor_comm, lor_shiftl_add by assumption. lia. Qed.

Lemma land_ones_mod a k : N.land a (2 ^ k - 1) = a mod 2 ^ k.
Proof. rewrite <- N.land_ones. f_equal. rewrite N.ones_equiv. lia. Qed.

Lemma shiftr_div a k : N.shiftr a k = a / 2 ^ k.
Proof. apply N.shiftr_div_pow2. Qed.

(* (x & (0xFFFF << k)) = 0  <->  bits k..k+15 of x are 0 *)
Lemma land_mask_zero x w k :
  N.land x (N.shiftl (N.ones w) k) = 0 <-> (x / 2 ^ k) mod 2 ^ w = 0.
Proof.
  assert (E : N.land x (N.shiftl (N.ones w) k) = N.shiftl (N.land (N.shiftr x k) (N.ones w)) k).
  { apply N.bits_inj; intros n. rewrite N.land_spec.
    destruct (N.ltb_spec n k) as [Hn|Hn].
    - rewrite !N.shiftl_spec_low by assumption. apply andb_false_r.
    - rewrite !N.shiftl_spec_high' by assumption. rewrite N.land_spec, N.shiftr_spec'.
      replace (n - k + k) with n by lia. reflexivity. }
  rewrite E, N.land_ones, N.shiftr_div_pow2, N.shiftl_mul_pow2.
  split; intros H.
  - apply N.eq_mul_0 in H. destruct H as [H|H]; [assumption|].
    pose proof (pow2_pos k). lia.
  - rewrite H. reflexivity.
Qed.

Lemma high_group_zero x k w : x < 2 ^ (k + w) -> (x / 2 ^ k) mod 2 ^ w = 0 -> x < 2 ^ k.
Proof.
  intros Hx Hz.
  assert (Hq : x / 2 ^ k < 2 ^ w).
  { apply N.div_lt_upper_bound. pose proof (pow2_pos k); lia. rewrite <- N.pow_add_r. assumption. }
  rewrite N.mod_small in Hz by assumption.
  pose proof (N.div_mod x (2 ^ k)) as D. pose proof (pow2_pos k).
  pose proof (N.mod_lt x (2 ^ k)). rewrite Hz in D. lia.
Qed.

Lemma high_group_nonzero x k w : (x / 2 ^ k) mod 2 ^ w <> 0 -> 2 ^ k <= x.
Proof.
  intros Hz. destruct (N.le_gt_cases (2 ^ k) x) as [H|H]; [assumption|].
  rewrite N.div_small in Hz by assumption. rewrite N.mod_0_l in Hz. congruence.
  pose proof (pow2_pos w); lia.
Qed.

(* ---------- big-endian ---------- *)
Lemma be_encode_length k v : length (be_encode k v) = k.
Proof. revert v; induction k; intros; cbn [be_encode length]; auto. Qed.

Lemma be_decode_app l1 l2 :
  be_decode (l1 ++ l2) = be_decode l1 * 256 ^ N.of_nat (length l2) + be_decode l2.
Proof.
  unfold be_decode. rewrite fold_left_app.
  generalize (fold_left (fun acc b => acc * 256 + b) l1 0) as a.
  induction l2 as [|x l2 IH] using rev_ind; intros a.
  - cbn. rewrite N.pow_0_r. lia.
  - rewrite !fold_left_app. cbn [fold_left]. rewrite IH.
    rewrite app_length. cbn [length]. rewrite Nat.add_1_r, Nat2N.inj_succ, N.pow_succ_r'.
    set (p := 256 ^ N.of_nat (length l2)).
    set (d := fold_left (fun acc b => acc * 256 + b) l2 0). lia.
Qed.

Lemma be_decode_cons x l : be_decode (x :: l) = x * 256 ^ N.of_nat (length l) + be_decode l.
Proof.
  change (x :: l) with ([x] ++ l). rewrite be_decode_app. unfold be_decode at 1. cbn [fold_left]. lia.
Qed.

Lemma be_decode_nil : be_decode [] = 0.
Proof. reflexivity. Qed.

Lemma be_roundtrip k v : be_decode (be_encode k v) = v mod 256 ^ N.of_nat k.
Proof.
  revert v. induction k as [|k IH]; intros v.
  - cbn. rewrite N.pow_0_r, N.mod_1_r. reflexivity.
  - cbn [be_encode]. rewrite be_decode_cons, IH, be_encode_length.
    rewrite Nat2N.inj_succ, N.pow_succ_r'.
    set (p := 256 ^ N.of_nat k). assert (Hp: p <> 0) by (apply N.pow_nonzero; lia).
    rewrite (N.mul_comm 256 p), N.mod_mul_r by lia.
    lia.
Qed.

Lemma be_roundtrip_small k v : v < 256 ^ N.of_nat k -> be_decode (be_encode k v) = v.
Proof. intros H. rewrite be_roundtrip. apply N.mod_small. assumption. Qed.

Lemma be_decode_lt l : Forall (fun b => b < 256) l -> be_decode l < 256 ^ N.of_nat (length l).
Proof.
  induction l as [|x l IH]; intros H.
  - cbn. lia.
  - inversion H; subst. rewrite be_decode_cons. cbn [length].
    rewrite Nat2N.inj_succ, N.pow_succ_r'. specialize (IH H3).
    set (p := 256 ^ N.of_nat (length l)) in *. nia.
Qed.

Lemma be_encode_bytes k v : Forall (fun b => b < 256) (be_encode k v).
Proof.
  revert v; induction k; intros v; cbn [be_encode]; constructor; auto.
  apply N.mod_lt. lia.
Qed.

Lemma be_encode_mod k v : be_encode k (v mod 256 ^ N.of_nat k) = be_encode k v.
Proof.
  assert (G : forall j k v, (j <= k)%nat -> be_encode j (v mod 256 ^ N.of_nat k) = be_encode j v).
  { clear. induction j as [|j IH]; intros k v Hj; cbn [be_encode]; [reflexivity|].
    rewrite IH by lia. f_equal.
    assert (E : 256 ^ N.of_nat k = 256 ^ N.of_nat j * 256 * 256 ^ N.of_nat (k - S j)).
    { replace (256 ^ N.of_nat j * 256) with (256 ^ (N.of_nat j + 1)) by (rewrite N.pow_add_r, N.pow_1_r; reflexivity).
      rewrite <- N.pow_add_r. f_equal. lia. }
    rewrite E. set (p := 256 ^ N.of_nat j). set (q := 256 ^ N.of_nat (k - S j)).
    assert (Hp : p <> 0) by (apply N.pow_nonzero; lia).
    assert (Hq : q <> 0) by (apply N.pow_nonzero; lia).
    rewrite <- N.mul_assoc. rewrite N.mod_mul_r by lia.
    rewrite (N.mul_comm p), N.div_add by assumption.
    rewrite N.div_small by (apply N.mod_lt; assumption). rewrite N.add_0_l.
    rewrite N.mod_mul_r by lia.
    rewrite N.mul_comm, N.mod_add by lia. rewrite N.mod_mod by lia. reflexivity. }
  apply G. lia.
Qed.

Lemma be_encode_app k1 k2 a b : b < 256 ^ N.of_nat k2 ->
  be_encode (k1 + k2) (a * 256 ^ N.of_nat k2 + b) = be_encode k1 a ++ be_encode k2 b.
Proof.
  intros Hb. induction k1 as [|k1 IH].
  - cbn [Nat.add app be_encode].
    rewrite <- (be_encode_mod k2 (a * _ + b)).
    rewrite N.add_comm, N.mod_add by (apply N.pow_nonzero; lia).
    rewrite N.mod_small by assumption. reflexivity.
  - cbn [Nat.add be_encode app]. rewrite IH. f_equal. f_equal.
    rewrite Nat2N.inj_add, N.pow_add_r.
    set (p := 256 ^ N.of_nat k1). set (q := 256 ^ N.of_nat k2) in *.
    assert (Hp : p <> 0) by (apply N.pow_nonzero; lia).
    assert (Hq : q <> 0) by (apply N.pow_nonzero; lia).
    rewrite (N.mul_comm p q). rewrite <- N.div_div by assumption.
    rewrite N.div_add_l by assumption. rewrite (N.div_small b q) by assumption.
    rewrite N.add_0_r. reflexivity.
Qed.

Lemma skipn_be_encode d n v : skipn d (be_encode (d + n) v) = be_encode n v.
Proof. induction d as [|d IH]; [reflexivity|]. cbn [Nat.add be_encode skipn]. assumption. Qed.

Lemma skipn_be_encode' k n v : (n <= k)%nat -> skipn (k - n) (be_encode k v) = be_encode n v.
Proof. intros H. replace k with ((k - n) + n)%nat at 2 by lia. apply skipn_be_encode. Qed.

Lemma be_decode_zeros k l : be_decode (repeat 0 k ++ l) = be_decode l.
Proof.
  induction k as [|k IH]; [reflexivity|].
  cbn [repeat app]. rewrite be_decode_cons, IH. lia.
Qed.

Lemma be_encode_1 v : v < 256 -> be_encode 1 v = [v].
Proof.
  intros H. cbn [be_encode]. cbn [N.of_nat]. rewrite N.pow_0_r, N.div_1_r, N.mod_small by assumption.
  reflexivity.
Qed.

Lemma be_encode_decode l : Forall (fun b => b < 256) l -> be_encode (length l) (be_decode l) = l.
Proof.
  induction l as [|x l IH]; intros H; [reflexivity|].
  inversion H; subst. rewrite be_decode_cons.
  change (length (x :: l)) with (1 + length l)%nat.
  rewrite be_encode_app by (apply be_decode_lt; assumption).
  rewrite be_encode_1, IH by assumption. reflexivity.
Qed.

(* ---------- slices ---------- *)
Lemma slice_app_mid (a b c : list N) :
  slice (a ++ b ++ c) (length a) (length a + length b) = b.
Proof.
  unfold slice. rewrite skipn_app, skipn_all, Nat.sub_diag. cbn [app skipn].
  replace (length a + length b - length a)%nat with (length b) by lia.
  rewrite firstn_app, firstn_all, Nat.sub_diag. cbn [firstn]. apply app_nil_r.
Qed.

Lemma slice_0 (a b : list N) : slice (a ++ b) 0 (length a) = a.
Proof.
  unfold slice. cbn [skipn]. rewrite Nat.sub_0_r, firstn_app, firstn_all, Nat.sub_diag.
  cbn [firstn]. apply app_nil_r.
Qed.

(* ---------- pack / unpack ---------- *)
Lemma bits_of_app f1 f2 : bits_of (f1 ++ f2) = bits_of f1 + bits_of f2.
Proof. induction f1 as [|[v w] r IH]; cbn [bits_of app]; lia. Qed.

Lemma pack_num_lt fs : pack_num fs < 2 ^ bits_of fs.
Proof.
  induction fs as [|[v w] r IH]; cbn [pack_num bits_of].
  - rewrite N.pow_0_r. lia.
  - rewrite N.pow_add_r. pose proof (N.mod_lt v (2 ^ w)) as M.
    pose proof (pow2_pos w). set (m := v mod 2 ^ w) in *. set (p := 2 ^ bits_of r) in *.
    assert (m * p + p <= 2 ^ w * p) by nia. lia.
Qed.

Lemma pack_num_app f1 f2 : pack_num (f1 ++ f2) = pack_num f1 * 2 ^ bits_of f2 + pack_num f2.
Proof.
  induction f1 as [|[v w] r IH]; cbn [pack_num app]; [lia|].
  rewrite IH, bits_of_app, N.pow_add_r. lia.
Qed.

Lemma sum_widths_map fs : sum_widths (map snd fs) = bits_of fs.
Proof. induction fs as [|[v w] r IH]; cbn [map sum_widths bits_of snd]; congruence. Qed.

(* reading a field only looks at the bits below the field's top *)
Lemma unpack_num_low ws x y : unpack_num ws (y * 2 ^ sum_widths ws + x) = unpack_num ws x.
Proof.
  revert y. induction ws as [|w r IH]; intros y; cbn [unpack_num sum_widths]; [reflexivity|].
  f_equal.
  - rewrite N.pow_add_r.
    pose proof (pow2_pos w). pose proof (pow2_pos (sum_widths r)).
    replace (y * (2 ^ w * 2 ^ sum_widths r) + x) with (x + (y * 2 ^ w) * 2 ^ sum_widths r) by lia.
    rewrite N.div_add by lia. rewrite N.mod_add by lia. reflexivity.
  - rewrite N.pow_add_r. replace (y * (2 ^ w * 2 ^ sum_widths r)) with ((y * 2 ^ w) * 2 ^ sum_widths r) by lia.
    apply IH.
Qed.

Lemma unpack_pack_num fs : all_fit fs = true -> unpack_num (map snd fs) (pack_num fs) = map fst fs.
Proof.
  induction fs as [|[v w] r IH]; intros H; [reflexivity|].
  cbn [all_fit forallb] in H. apply andb_true_iff in H as [Hv Hr].
  unfold fits in Hv. cbn [fst snd] in Hv. apply N.ltb_lt in Hv.
  cbn [map unpack_num pack_num fst snd]. rewrite sum_widths_map. f_equal.
  - rewrite (N.mod_small v) by assumption.
    pose proof (pack_num_lt r). pose proof (pow2_pos (bits_of r)).
    rewrite N.add_comm, N.div_add by lia. rewrite N.div_small by assumption.
    rewrite N.add_0_l. apply N.mod_small. assumption.
  - rewrite <- sum_widths_map. rewrite unpack_num_low. apply IH. exact Hr.
Qed.

(* round trip of the generic figure interpreter *)
Lemma unpack_pack fs : all_fit fs = true -> bits_of fs mod 8 = 0 ->
  unpack (map snd fs) (pack fs) = map fst fs.
Proof.
  intros Hf Ha. unfold unpack, pack. rewrite be_roundtrip_small.
  - apply unpack_pack_num. assumption.
  - rewrite N2Nat.id, pow256.
    pose proof (N.div_mod (bits_of fs) 8). rewrite Ha in H.
    replace (8 * (bits_of fs / 8)) with (bits_of fs) by lia. apply pack_num_lt.
Qed.

Lemma pack_length fs : length (pack fs) = N.to_nat (bits_of fs / 8).
Proof. apply be_encode_length. Qed.

(* a figure splits at any byte boundary *)
Lemma pack_app f1 f2 : bits_of f1 mod 8 = 0 -> bits_of f2 mod 8 = 0 ->
  pack (f1 ++ f2) = pack f1 ++ pack f2.
Proof.
  intros H1 H2. unfold pack. rewrite bits_of_app, pack_num_app.
  pose proof (N.div_mod (bits_of f1) 8 ltac:(lia)) as D1.
  pose proof (N.div_mod (bits_of f2) 8 ltac:(lia)) as D2.
  rewrite H1 in D1. rewrite H2 in D2.
  set (k1 := bits_of f1 / 8) in *. set (k2 := bits_of f2 / 8) in *.
  replace ((bits_of f1 + bits_of f2) / 8) with (k1 + k2).
  2:{ replace (bits_of f1 + bits_of f2) with ((k1 + k2) * 8) by lia.
      rewrite N.div_mul by lia. reflexivity. }
  rewrite N2Nat.inj_add.
  replace (2 ^ bits_of f2) with (256 ^ N.of_nat (N.to_nat k2)).
  2:{ rewrite N2Nat.id, pow256. f_equal. lia. }
  apply be_encode_app.
  rewrite N2Nat.id, pow256. replace (8 * k2) with (bits_of f2) by lia. apply pack_num_lt.
Qed.

(* a whole-byte field is just its big-endian encoding *)
Lemma pack_bytes_field v k : pack [(v, 8 * N.of_nat k)] = be_encode k v.
Proof.
  unfold pack. cbn [bits_of pack_num]. rewrite N.add_0_r, N.pow_0_r, N.mul_1_r, N.add_0_r.
  rewrite N.mul_comm, N.div_mul by lia. rewrite Nat2N.id.
  rewrite (N.mul_comm (N.of_nat k) 8), <- pow256. apply be_encode_mod.
Qed.

Lemma pack_byte v : v < 256 -> pack [(v, 8)] = [v].
Proof.
  intros H. change 8 with (8 * N.of_nat 1). rewrite pack_bytes_field. apply be_encode_1. assumption.
Qed.

Lemma pack_cons_bytes v k fs : bits_of fs mod 8 = 0 ->
  pack ((v, 8 * N.of_nat k) :: fs) = be_encode k v ++ pack fs.
Proof.
  intros H. change ((v, 8 * N.of_nat k) :: fs) with ([(v, 8 * N.of_nat k)] ++ fs).
  rewrite pack_app, pack_bytes_field; [reflexivity| |assumption].
  cbn [bits_of]. rewrite N.add_0_r, N.mul_comm. apply N.mod_mul. lia.
Qed.

Lemma pack_bytes l : Forall (fun b => b < 256) l -> pack (map (fun b => (b, 8)) l) = l.
Proof.
  induction l as [|x l IH]; intros H; [reflexivity|]. inversion H; subst.
  cbn [map]. change 8 with (8 * N.of_nat 1) at 1.
  assert (A : bits_of (map (fun b : N => (b, 8)) l) mod 8 = 0).
  { clear. induction l as [|y l IH]; [reflexivity|]. cbn [map bits_of].
    rewrite N.add_comm. change 8 with (1 * 8) at 2. rewrite N.mod_add by lia. assumption. }
  rewrite pack_cons_bytes by assumption. rewrite be_encode_1, IH by assumption. reflexivity.
Qed.

Lemma eq_listN_true a b : eq_listN a b = true <-> a = b.
Proof.
  revert b. induction a as [|x a IH]; intros [|y b]; cbn [eq_listN]; split; intros H;
    try reflexivity; try discriminate.
  - apply andb_true_iff in H as [H1 H2]. apply N.eqb_eq in H1. apply IH in H2. congruence.
  - inversion H; subst. rewrite N.eqb_refl. apply IH. reflexivity.
Qed.

(* ---------- a small calculus of bit ranges: bitsN X a w = bits a .. a+w-1 of X ---------- *)
Definition bitsN (X a w : N) : N := (X / 2 ^ a) mod 2 ^ w.

Lemma bitsN_spec X a w i : N.testbit (bitsN X a w) i = (i <? w) && N.testbit X (i + a).
Proof.
  unfold bitsN. destruct (N.ltb_spec i w) as [L|L].
  - rewrite N.mod_pow2_bits_low by assumption. rewrite N.div_pow2_bits. reflexivity.
  - rewrite N.mod_pow2_bits_high by assumption. reflexivity.
Qed.

Ltac bits_solve :=
  apply N.bits_inj; intros i; rewrite ?bitsN_spec, ?N.shiftr_spec', ?N.land_spec, ?bitsN_spec;
  repeat match goal with
         | |- context [?x <? ?y] => destruct (N.ltb_spec x y)
         end; cbn [andb]; try reflexivity; try (f_equal; lia); try lia.

Lemma bits_shiftr X a w k : N.shiftr (bitsN X a w) k = bitsN X (a + k) (w - k).
Proof.
  apply N.bits_inj; intros i. rewrite N.shiftr_spec', !bitsN_spec.
  destruct (N.ltb_spec (i + k) w); destruct (N.ltb_spec i (w - k)); cbn [andb]; try reflexivity; try lia.
  f_equal. lia.
Qed.

Lemma bits_div X a w k : bitsN X a w / 2 ^ k = bitsN X (a + k) (w - k).
Proof. rewrite <- N.shiftr_div_pow2. apply bits_shiftr. Qed.

Lemma bits_mod X a w k : bitsN X a w mod 2 ^ k = bitsN X a (N.min w k).
Proof.
  apply N.bits_inj; intros i. rewrite bitsN_spec.
  destruct (N.ltb_spec i k).
  - rewrite N.mod_pow2_bits_low by assumption. rewrite bitsN_spec.
    destruct (N.ltb_spec i w); destruct (N.ltb_spec i (N.min w k)); cbn [andb]; try reflexivity; lia.
  - rewrite N.mod_pow2_bits_high by assumption.
    destruct (N.ltb_spec i (N.min w k)); cbn [andb]; try reflexivity; lia.
Qed.

Lemma bits_land_mask X a w k : N.land (bitsN X a w) (2 ^ k - 1) = bitsN X a (N.min w k).
Proof. rewrite land_ones_mod. apply bits_mod. Qed.

Lemma bits_of_mod X n a w : bitsN (X mod 2 ^ n) a w = bitsN X a (N.min w (n - a)).
Proof.
  apply N.bits_inj; intros i. rewrite !bitsN_spec.
  destruct (N.ltb_spec (i + a) n).
  - rewrite N.mod_pow2_bits_low by assumption.
    destruct (N.ltb_spec i w); destruct (N.ltb_spec i (N.min w (n - a))); cbn [andb]; try reflexivity; lia.
  - rewrite N.mod_pow2_bits_high by assumption. rewrite andb_false_r.
    destruct (N.ltb_spec i (N.min w (n - a))); cbn [andb]; try reflexivity; lia.
Qed.

Lemma bits_of_bits X a w b v : bitsN (bitsN X a w) b v = bitsN X (a + b) (N.min v (w - b)).
Proof.
  apply N.bits_inj; intros i. rewrite !bitsN_spec.
  destruct (N.ltb_spec i v); destruct (N.ltb_spec (i + b) w);
    destruct (N.ltb_spec i (N.min v (w - b))); cbn [andb]; try reflexivity; try lia.
  f_equal. lia.
Qed.

Lemma bits_whole X n : X < 2 ^ n -> bitsN X 0 n = X.
Proof. intros H. unfold bitsN. rewrite N.pow_0_r, N.div_1_r. apply N.mod_small. assumption. Qed.

Lemma bits_lt X a w : bitsN X a w < 2 ^ w.
Proof. unfold bitsN. apply N.mod_lt. apply N.pow_nonzero. lia. Qed.

(* two adjacent ranges glued by shift/or *)
Lemma bits_glue X a w1 w2 :
  N.lor (N.shiftl (bitsN X (a + w2) w1) w2) (bitsN X a w2) = bitsN X a (w1 + w2).
Proof.
  apply N.bits_inj; intros i. rewrite N.lor_spec, !bitsN_spec.
  destruct (N.ltb_spec i w2).
  - rewrite N.shiftl_spec_low by assumption. cbn [orb].
    destruct (N.ltb_spec i (w1 + w2)); cbn [andb]; try reflexivity; lia.
  - rewrite N.shiftl_spec_high' by assumption. rewrite bitsN_spec. cbn [andb]. rewrite orb_false_r.
    destruct (N.ltb_spec (i - w2) w1); destruct (N.ltb_spec i (w1 + w2)); cbn [andb]; try reflexivity; try lia.
    f_equal. lia.
Qed.

(* ---------- slices of a big-endian string are bit ranges ---------- *)
Lemma firstn_be_encode k d X : firstn k (be_encode (k + d) X) = be_encode k (X / 256 ^ N.of_nat d).
Proof.
  pose proof (pow256_pos (N.of_nat d)) as P.
  rewrite (N.div_mod X (256 ^ N.of_nat d)) at 1 by lia.
  rewrite (N.mul_comm (256 ^ N.of_nat d)).
  rewrite be_encode_app by (apply N.mod_lt; lia).
  rewrite firstn_app, be_encode_length, Nat.sub_diag. cbn [firstn]. rewrite app_nil_r.
  rewrite <- (be_encode_length k (X / 256 ^ N.of_nat d)) at 1. apply firstn_all.
Qed.

Lemma be_decode_slice n X i j : (i <= j)%nat -> (j <= n)%nat ->
  be_decode (slice (be_encode n X) i j) = bitsN X (8 * N.of_nat (n - j)) (8 * N.of_nat (j - i)).
Proof.
  intros Hij Hjn. unfold slice.
  replace n with (i + (n - i))%nat at 1 by lia. rewrite skipn_be_encode.
  replace (n - i)%nat with ((j - i) + (n - j))%nat by lia. rewrite firstn_be_encode.
  rewrite be_roundtrip. unfold bitsN. rewrite !pow256. reflexivity.
Qed.

Lemma nth_be_encode n X i : (i < n)%nat ->
  nth i (be_encode n X) 0 = bitsN X (8 * N.of_nat (n - 1 - i)) 8.
Proof.
  intros H.
  assert (E : nth i (be_encode n X) 0 = be_decode (slice (be_encode n X) i (S i))).
  { unfold slice. replace (S i - i)%nat with 1%nat by lia.
    replace n with (i + (n - i))%nat at 1 2 by lia. rewrite skipn_be_encode.
    rewrite <- (Nat.add_0_r i) at 1. 
    assert (G : forall (l : list N) k, nth (k + 0) l 0 = nth 0 (skipn k l) 0).
    { clear. intros l k. revert l. induction k; intros l; cbn [Nat.add skipn]; [reflexivity|].
      destruct l; [destruct k; reflexivity|]. cbn [nth]. apply IHk. }
    rewrite G, skipn_be_encode.
    destruct (n - i)%nat as [|m] eqn:Em; [lia|]. cbn [be_encode firstn nth].
    unfold be_decode. cbn [fold_left]. lia. }
  rewrite E, be_decode_slice by lia.
  replace (n - S i)%nat with (n - 1 - i)%nat by lia. replace (S i - i)%nat with 1%nat by lia. reflexivity.
Qed.

(* every byte string is the big-endian encoding of its value *)
Lemma as_be_encode l : Forall (fun b => b < 256) l -> l = be_encode (length l) (be_decode l).
Proof. intros H. symmetry. apply be_encode_decode. assumption. Qed.

(* equality of byte strings through their values *)
Lemma be_inj (a b : list N) :
  Forall (fun x => x < 256) a -> Forall (fun x => x < 256) b ->
  length a = length b -> be_decode a = be_decode b -> a = b.
Proof.
  intros Ha Hb L E. rewrite (as_be_encode a Ha), (as_be_encode b Hb), L, E. reflexivity.
Qed.
