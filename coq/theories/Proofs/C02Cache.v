(* C02 / C16 when the FEC OTI is carried ONLY by the FDT: the packets of an object that arrive before the FDT
   instance carry no EXT_FTI; the object receiver caches them (ObjectReceiver::cache, bounded by
   max_size_allocated = cf_max_cache) and replays them, in arrival order (D43), when the FDT entry is attached
   (push_from_cache in attach_fdt).
   Part A (any FEC scheme): the cache fields are a frame of the block plane (push_to_block reads neither r_cache
   nor r_cache_size), hence attaching the FDT entry to an object that cached [pre] is the same as attaching it to a
   fresh object and then pushing pre.
   Part B: No-Code at the object level.  Part C: the receiver level over the interface of C02SessionRS.
   Part D: instances (No-Code, Reed-Solomon / RaptorQ / Raptor), statements, examples. *)
From FluteV Require Import Model.Partition Spec.C07Spec Proofs.PartitionProofs Model.ObjRecv Model.Recv
  Spec.RecvSpec Spec.SessionSpec Proofs.RecvProofs Proofs.SessionProofs Proofs.C02Full Proofs.C09Full
  Proofs.C02Session Proofs.C02RS Proofs.C02SessionRS Proofs.C02MultiFdt.
From Coq Require Import Lia.
Open Scope N_scope.

Arguments N.add : simpl never. Arguments N.mul : simpl never. Arguments N.sub : simpl never.
Arguments N.eqb : simpl never. Arguments N.ltb : simpl never. Arguments N.leb : simpl never.
Arguments N.div : simpl never. Arguments N.modulo : simpl never. Arguments N.min : simpl never.

Ltac prj := cbn [r_state r_toi r_oti r_cache r_cache_size r_max r_blocks r_off r_tlen r_cenc r_md5 r_md5chk
                 r_al r_as r_nal r_writer r_bw r_fdt_id r_nb_alloc r_alloc_size r_clen r_nocache] in *.

(* ================= A. the cache is a frame of the block plane ================= *)
(* the object with other cache fields *)
Definition wc (ch : list apkt) (sz : N) (o : objrecv) : objrecv :=
  mk_or (r_state o) (r_toi o) (r_oti o) ch sz (r_max o) (r_blocks o) (r_off o) (r_tlen o) (r_cenc o)
        (r_md5 o) (r_md5chk o) (r_al o) (r_as o) (r_nal o) (r_writer o) (r_bw o) (r_fdt_id o) (r_nb_alloc o)
        (r_alloc_size o) (r_clen o) (r_nocache o).
Definition rcv (s : ostate) : bool := match s with Receiving => true | _ => false end.
Definition closedw (o : objrecv) : Prop := match r_writer o with Some (_, WOpened) => False | _ => True end.
(* what complete() / error() leave behind *)
Definition Closed (o : objrecv) : Prop :=
  r_state o <> Receiving /\ r_cache o = [] /\ r_cache_size o = 0 /\ closedw o.
Definition rmap (ch : list apkt) (sz : N) (r : res) : res :=
  match r with
  | ROk o1 => ROk (if rcv (r_state o1) then wc ch sz o1 else o1)
  | RErr o1 => RErr (wc ch sz o1)
  end.
Definition OkClosed (r : res) : Prop :=
  match r with ROk o1 => r_state o1 = Receiving \/ Closed o1 | RErr _ => True end.

Lemma wc_id o : wc (r_cache o) (r_cache_size o) o = o.
Proof. destruct o. reflexivity. Qed.
Lemma wc_id' o a b : r_cache o = a -> r_cache_size o = b -> wc a b o = o.
Proof. intros <- <-. apply wc_id. Qed.
Lemma wc_wc a b a' b' o : wc a b (wc a' b' o) = wc a b o.
Proof. reflexivity. Qed.

Section Frame.
  Variable E : env.

  Lemma complete_closed o c : Closed (fst (complete o c)).
  Proof.
    unfold complete, Closed, closedw. destruct (r_writer o) as [[w ws]|] eqn:Ew; cbn [fst]; unfold clear_bufs, set_wstate, set_state; prj;
      rewrite ?Ew; (split; [discriminate|]); repeat split.
  Qed.
  Lemma error_closed o i c : Closed (fst (error o i c)).
  Proof.
    unfold error, Closed, closedw. destruct (r_writer o) as [[w ws]|] eqn:Ew; cbn [fst]; unfold clear_bufs, set_wstate, set_state; prj;
      rewrite ?Ew; (split; [destruct i; discriminate|]); repeat split.
  Qed.
  Lemma complete_wc ch sz o c : complete (wc ch sz o) c = complete o c.
  Proof. reflexivity. Qed.
  Lemma error_wc ch sz o i c : error (wc ch sz o) i c = error o i c.
  Proof. reflexivity. Qed.

  Definition FrameOk (ch : list apkt) (sz : N) (a b : res * ctx) : Prop :=
    a = (rmap ch sz (fst b), snd b) /\ OkClosed (fst b).

  Lemma frame_ret_ok ch sz o c : r_state o = Receiving -> FrameOk ch sz (ROk (wc ch sz o), c) (ROk o, c).
  Proof. intros H. split; [cbn [fst snd rmap]; rewrite H; reflexivity|left; exact H]. Qed.
  Lemma frame_ret_err ch sz o c : FrameOk ch sz (RErr (wc ch sz o), c) (RErr o, c).
  Proof. split; [reflexivity|exact I]. Qed.
  Lemma frame_closed ch sz o c : Closed o -> FrameOk ch sz (ROk o, c) (ROk o, c).
  Proof.
    intros H. split; [|right; exact H]. cbn [fst snd rmap]. destruct H as [H _].
    destruct (r_state o); [congruence|reflexivity|reflexivity|reflexivity].
  Qed.

  Lemma wb_frame ch sz : forall fuel sbn o c, r_state o = Receiving ->
    FrameOk ch sz (write_blocks E fuel sbn (wc ch sz o) c) (write_blocks E fuel sbn o c).
  Proof.
    induction fuel as [|f IH]; intros sbn o c Hst; cbn [write_blocks]; [apply frame_ret_ok; exact Hst|].
    change (r_writer (wc ch sz o)) with (r_writer o). change (r_bw (wc ch sz o)) with (r_bw o).
    change (r_off (wc ch sz o)) with (r_off o). change (r_blocks (wc ch sz o)) with (r_blocks o).
    change (r_alloc_size (wc ch sz o)) with (r_alloc_size o). change (r_nb_alloc (wc ch sz o)) with (r_nb_alloc o).
    destruct (r_writer o) as [[w ws]|]; [|apply frame_ret_ok; exact Hst].
    destruct ws; try (apply frame_ret_ok; exact Hst).
    destruct (r_bw o) as [bw|]; [|apply frame_ret_ok; exact Hst].
    destruct ((r_off o <=? sbn) && (sbn - r_off o <? N.of_nat (length (r_blocks o)))); [|apply frame_ret_ok; exact Hst].
    destruct (negb (bd_completed (nth (N.to_nat (sbn - r_off o)) (r_blocks o) bdec_new))); [apply frame_ret_ok; exact Hst|].
    destruct (bw_write E w sbn (nth (N.to_nat (sbn - r_off o)) (r_blocks o) bdec_new) bw c) as [x c1].
    destruct x as [|bw'| |]; try (apply frame_ret_ok; exact Hst); try apply frame_ret_err.
    destruct (Nat.eqb (N.to_nat (sbn - r_off o)) 0); cbv zeta beta iota;
    match goal with |- context [set_blocks o ?a ?b ?d ?e ?g] =>
      set (o1 := set_blocks o a b d e g); change (set_blocks (wc ch sz o) a b d e g) with (wc ch sz o1) end;
    (destruct (bw_left bw' =? 0); [|apply IH; exact Hst]);
    change (r_md5 (wc ch sz o1)) with (r_md5 o1);
    (destruct (match r_md5 o1, bw_md5 bw' with Some want, Some got => eqb_bytes want got | _, _ => true end);
     [rewrite complete_wc; pose proof (complete_closed o1 c1) as K; destruct (complete o1 c1) as [o2 c2]
     |rewrite error_wc; pose proof (error_closed o1 false c1) as K; destruct (error o1 false c1) as [o2 c2]]);
    apply frame_closed; exact K.
  Qed.

  Lemma p2b_frame ch sz p o c : r_state o = Receiving ->
    FrameOk ch sz (push_to_block2 E p (wc ch sz o) c) (push_to_block2 E p o c).
  Proof.
    intros Hst. destruct o as [st toi oti ch0 sz0 mx bl off tl ce md5 mc al as_ nal wr bw fid nb asz cl nc].
    cbn [r_state] in Hst. subst st. unfold push_to_block2, wc. prj.
    assert (FE : forall o c, FrameOk ch sz (RErr (wc ch sz o), c) (RErr o, c)) by (intros; apply frame_ret_err).
    assert (FO : forall o c, r_state o = Receiving -> FrameOk ch sz (ROk (wc ch sz o), c) (ROk o, c)) by (intros; apply frame_ret_ok; assumption).
    destruct oti as [oti|]; [|match goal with |- FrameOk _ _ _ (RErr ?o, ?c) => exact (FE o c) end].
    destruct tl as [tlen|]; [|match goal with |- FrameOk _ _ _ (RErr ?o, ?c) => exact (FE o c) end].
    destruct (a_pid_with (ro_fec oti) p) as [[[sbn esi] sbl]|]; [|match goal with |- FrameOk _ _ _ (RErr ?o, ?c) => exact (FE o c) end].
    destruct (tlen =? 0).
    { destruct wr; [|match goal with |- FrameOk _ _ _ (ROk ?o, ?c) => exact (FO o c eq_refl) end].
      match goal with |- FrameOk _ _ _ (let (_, _) := complete ?o ?c in _) =>
        change (FrameOk ch sz (let (o1, c1) := complete (wc ch sz o) c in (ROk o1, c1)) (let (o1, c1) := complete o c in (ROk o1, c1)));
        rewrite complete_wc; pose proof (complete_closed o c) as K; destruct (complete o c) as [o2 c2] end.
      apply frame_closed; exact K. }
    destruct (sbn <? off); [match goal with |- FrameOk _ _ _ (ROk ?o, ?c) => exact (FO o c eq_refl) end|].
    destruct (match sbl with None => nb_blocks_of oti tlen <=? sbn | Some _ => false end);
      [match goal with |- FrameOk _ _ _ (RErr ?o, ?c) => exact (FE o c) end|].
    destruct ((N.of_nat (length bl) <=? sbn - off) && (4096 <? sbn - off)).
    { unfold set_state. prj. match goal with |- FrameOk _ _ _ (RErr ?o, ?c) => exact (FE o c) end. }
    cbv zeta. unfold set_blocks, set_state. prj.
    match goal with |- context [bd_completed ?b] => destruct (bd_completed b) end.
    { match goal with |- FrameOk _ _ _ (ROk ?o, ?c) => exact (FO o c eq_refl) end. }
    match goal with |- context [match ?x with None => _ | Some _ => _ end] =>
      destruct x as [[[[b1 nb'] sz']|]|] end.
    - destruct (bd_push E toi oti sbn esi (a_payload p) b1) as [b2 pan]. prj.
      destruct (bd_completed b2).
      + match goal with |- FrameOk _ _ _ (write_blocks E ?f ?s ?o1 ?c1) => exact (wb_frame ch sz f s o1 c1 eq_refl) end.
      + match goal with |- FrameOk _ _ _ (ROk ?o, ?c) => exact (FO o c eq_refl) end.
    - match goal with |- FrameOk _ _ _ (RErr ?o, ?c) => exact (FE o c) end.
    - match goal with |- FrameOk _ _ _ (RErr ?o, ?c) => exact (FE o c) end.
  Qed.

  Lemma ptb_frame ch sz p o c : r_state o = Receiving ->
    FrameOk ch sz (push_to_block E p (wc ch sz o) c) (push_to_block E p o c).
  Proof.
    intros Hst. unfold push_to_block. destruct (p2b_frame ch sz p o c Hst) as [Eq K]. rewrite Eq.
    destruct (push_to_block2 E p o c) as [[o1|o1] c1]; cbn [fst snd rmap] in *; [|split; [reflexivity|exact I]].
    destruct (a_close_obj p); [|split; [reflexivity|exact K]].
    destruct K as [K|K].
    - rewrite K. cbn [rcv]. change (r_state (wc ch sz o1)) with (r_state o1). rewrite K.
      change (r_writer (wc ch sz o1)) with (r_writer o1).
      destruct (r_writer o1) as [wr1|]; [|apply frame_ret_ok; exact K].
      rewrite error_wc. pose proof (error_closed o1 true c1) as K2. destruct (error o1 true c1) as [o2 c2].
      apply frame_closed. exact K2.
    - pose proof K as (K1 & _). destruct (r_state o1) eqn:S1; [congruence| | |]; cbn [rcv]; rewrite S1; apply frame_closed; exact K.
  Qed.
End Frame.

(* ---------- replaying the cache = pushing the cached packets, in arrival order ---------- *)
Definition pbstep (E : env) (p : apkt) (o : objrecv) (c : ctx) : objrecv * ctx :=
  match push_to_block E p o c with
  | (ROk o5, c5) => (o5, c5)
  | (RErr o5, c5) => error o5 false c5
  end.

Lemma pfc_nil E o c : r_cache o = [] -> r_cache_size o = 0 -> push_from_cache E o c = (o, c).
Proof.
  intros H1 H2. destruct o. prj. subst. unfold push_from_cache. prj.
  match goal with |- (if ?b then _ else _) = _ => destruct b end; reflexivity.
Qed.

Section Sim.
  Variable E : env.
  Variable Inv : objrecv -> ctx -> Prop.     (* attached, writer open, receiving, cache empty *)
  Variable good : apkt -> Prop.
  Hypothesis Inv_state : forall o c, Inv o c -> r_state o = Receiving.
  Hypothesis Inv_push : forall o c p, Inv o c -> or_push E p o c = pbstep E p o c.
  Hypothesis Inv_step : forall o c p, Inv o c -> good p ->
    let (o2, c2) := or_push E p o c in Inv o2 c2 \/ r_state o2 <> Receiving.

  Lemma drain_sim sz : forall l os c, Inv os c -> Forall good l ->
    let (o', c') := drain_cache E l (wc l sz os) c in
    let (o'', c'') := C02Full.run E l (os, c) in
    c' = c'' /\ (if rcv (r_state o'') then o' = wc [] sz o'' /\ Inv o'' c'' else o' = o'' /\ Closed o'').
  Proof.
    induction l as [|p rest IH]; intros os c HI G.
    - cbn [drain_cache C02Full.run fold_left]. rewrite (Inv_state _ _ HI). cbn [rcv]. repeat split. exact HI.
    - pose proof (Forall_inv G) as Gp. pose proof (Forall_inv_tail G) as Gr. pose proof (Inv_state _ _ HI) as Hst.
      cbn [drain_cache].
      match goal with |- context [push_to_block E p ?x c] => change x with (wc rest sz os) end.
      destruct (ptb_frame E rest sz p os c Hst) as [Eq K]. rewrite Eq.
      unfold C02Full.run. cbn [fold_left fst snd].
      match goal with |- context [fold_left ?f rest ?x] => change (fold_left f rest x) with (C02Full.run E rest x) end.
      pose proof (Inv_step os c p HI Gp) as St. rewrite (Inv_push _ _ _ HI) in *. unfold pbstep in *.
      destruct (push_to_block E p os c) as [[o1|o1] c1]; cbn [fst snd rmap] in *.
      + destruct K as [K|K].
        * rewrite K. cbn [rcv]. change (r_cache (wc rest sz o1)) with rest.
          assert (HI1 : Inv o1 c1) by (destruct St as [St|St]; [exact St|congruence]).
          assert (R : match rest with
                      | [] => (wc rest sz o1, c1)
                      | _ :: _ => drain_cache E rest (wc rest sz o1) c1
                      end = drain_cache E rest (wc rest sz o1) c1).
          { destruct rest; reflexivity. }
          rewrite R. apply IH; assumption.
        * pose proof K as (K1 & K2 & K3 & K4).
          assert (R : (if rcv (r_state o1) then wc rest sz o1 else o1) = o1)
            by (destruct (r_state o1); [congruence|reflexivity|reflexivity|reflexivity]).
          rewrite R, K2. rewrite (C02Full.run_closed E rest o1 c1 K1).
          split; [reflexivity|]. destruct (r_state o1); [congruence| | |]; cbn [rcv]; (split; [reflexivity|exact K]).
      + rewrite error_wc. pose proof (error_closed o1 false c1) as K2. destruct (error o1 false c1) as [o2 c2]. cbn [fst] in K2.
        pose proof K2 as (K1 & _). rewrite (C02Full.run_closed E rest o2 c2 K1).
        split; [reflexivity|]. destruct (r_state o2); [congruence| | |]; cbn [rcv]; (split; [reflexivity|exact K2]).
  Qed.
End Sim.

(* ---------- ObjectReceiver::attach_fdt on an object that has only cached packets ---------- *)
(* the object receiver after it has cached [ch] (counter [sz]): no OTI, no transfer length, no content encoding *)
Definition Ocache (toi max : N) (ch : list apkt) (sz : N) : objrecv :=
  mk_or Receiving toi None ch sz max [] 0 None None None false 0 0 0 None None None 0 0 None false.

Lemma wb_closedw E f sbn o c : closedw o -> write_blocks E f sbn o c = (ROk o, c).
Proof.
  intros H. destruct f as [|f]; [reflexivity|]. cbn [write_blocks]. unfold closedw in H.
  destruct (r_writer o) as [[w ws]|]; [|reflexivity]. destruct ws; try reflexivity. contradiction.
Qed.
Lemma wb0_new E f o c : r_off o = 0 -> nth 0 (r_blocks o) bdec_new = bdec_new -> write_blocks E (S f) 0 o c = (ROk o, c).
Proof.
  intros H0 Hn. cbn [write_blocks]. destruct (r_writer o) as [[w ws]|]; [|reflexivity]. destruct ws; try reflexivity.
  destruct (r_bw o) as [bw|]; [|reflexivity]. rewrite H0. change (0 - 0) with 0. change (N.to_nat 0) with 0%nat. rewrite Hn.
  destruct ((0 <=? 0) && (0 <? N.of_nat (length (r_blocks o)))); reflexivity.
Qed.

Section Attach.
  Variable E : env.
  Variables (fid : N) (files : list fdtfile) (ioti : option roti) (f : fdtfile) (toi max : N) (oti : roti).
  Variables al as_ nal n : N.
  Variable c : ctx.
  Hypothesis Hfind : find (fun f => ff_toi f =? toi) files = Some f.
  Hypothesis Hoti : match ff_oti f with Some x => Some x | None => ioti end = Some oti.
  Hypothesis Hpart : block_partitioning (ro_b oti) (ff_tlen f) (ro_e oti) = (al, as_, nal, n).
  Hypothesis Hbld : e_builder E toi (ncalls c toi) = WStore.
  Hypothesis Hopen : e_open_ok E (toi, ncalls c toi) = true.

  Definition att_w : wid := (toi, ncalls c toi).
  Definition att_md5chk : bool := match ff_md5 f with Some _ => e_md5_enabled E | None => false end.
  (* the object right after init_object_writer, with whatever cache it had *)
  Definition att_obj (ch : list apkt) (sz : N) : objrecv :=
    mk_or Receiving toi (Some oti) ch sz max (repeat bdec_new (N.to_nat (N.min n 2048))) 0 (Some (ff_tlen f))
          (Some (ff_cenc f)) (ff_md5 f) att_md5chk al as_ nal (Some (att_w, WOpened))
          (if ff_tlen f =? 0 then None else Some (bw_new (ff_tlen f) (ff_clen f) (ff_cenc f) att_md5chk))
          (Some fid) 0 0 (ff_clen f) (ff_nocache f).
  Definition att_ctx : ctx := logc (inc_calls (logc c (EvBuilder toi WStore)) toi) (EvOpen att_w true).

  (* D48: an empty object is completed by the attach itself, whatever it had cached *)
  Lemma attach_empty ch sz : ff_tlen f = 0 ->
    or_attach E fid files ioti (Ocache toi max ch sz) c = (true, fst (complete (att_obj [] 0) att_ctx), snd (complete (att_obj [] 0) att_ctx)).
  Proof.
    intros Hz.
    unfold or_attach, Ocache. prj. rewrite Hfind, Hoti. cbv iota beta.
    unfold init_partition at 1. unfold nb_block at 1. prj.
    change (0 <? 0 + N.of_nat (length (@nil bdec))) with false. cbv iota beta. rewrite Hpart. cbv iota beta.
    unfold init_writer. prj. rewrite Hbld. cbv iota beta zeta. rewrite Hopen. cbn [negb]. prj.
    rewrite Hz. cbv iota beta.
    match goal with |- context [complete ?x ?y] => set (o3 := x); set (c3 := y) end.
    assert (Ec : complete o3 c3 = complete (att_obj [] 0) att_ctx).
    { unfold complete, o3, c3, att_obj, att_ctx, att_w, att_md5chk. prj. rewrite Hz. reflexivity. }
    rewrite Ec.
    pose proof (complete_closed (att_obj [] 0) att_ctx) as K.
    destruct (complete (att_obj [] 0) att_ctx) as [o4 c4]. cbn [fst snd] in *.
    destruct K as (K1 & K2 & K3 & K4).
    assert (P : push_from_cache E o4 c4 = (o4, c4)) by (apply pfc_nil; assumption).
    rewrite P. rewrite (wb_closedw E _ 0 o4 c4 K4). rewrite P. reflexivity.
  Qed.

  (* from here on: the object is not empty *)
  Hypothesis Hne : ff_tlen f <> 0.

  Lemma attach_unfold ch sz :
    or_attach E fid files ioti (Ocache toi max ch sz) c =
    (let (o4, c4) := push_from_cache E (att_obj ch sz) att_ctx in
     let '(o5, c5) := match write_blocks E (S (length (r_blocks o4))) 0 o4 c4 with
                      | (ROk x, cx) => (x, cx)
                      | (RErr x, cx) => error x false cx
                      end in
     let (o6, c6) := push_from_cache E o5 c5 in (true, o6, c6)).
  Proof.
    unfold or_attach, Ocache. prj. rewrite Hfind, Hoti. cbv iota beta.
    unfold init_partition at 1. unfold nb_block at 1. prj.
    change (0 <? 0 + N.of_nat (length (@nil bdec))) with false. cbv iota beta. rewrite Hpart. cbv iota beta.
    unfold init_writer. prj. rewrite Hbld. cbv iota beta zeta. rewrite Hopen. cbn [negb]. prj.
    d48_skip Hne. reflexivity.
  Qed.

  Lemma att_obj_wc ch sz : att_obj ch sz = wc ch sz (att_obj [] 0).
  Proof. reflexivity. Qed.

  (* the fresh object: the FDT entry attached first *)
  Lemma attach_fresh : or_attach E fid files ioti (or_new toi max) c = (true, att_obj [] 0, att_ctx).
  Proof.
    change (or_new toi max) with (Ocache toi max [] 0). rewrite attach_unfold.
    rewrite (pfc_nil E (att_obj [] 0) att_ctx eq_refl eq_refl).
    rewrite (wb0_new E _ (att_obj [] 0) att_ctx eq_refl); [|unfold att_obj; prj; apply nth_repeat].
    rewrite (pfc_nil E (att_obj [] 0) att_ctx eq_refl eq_refl). reflexivity.
  Qed.

  Variable Inv : objrecv -> ctx -> Prop.
  Variable good : apkt -> Prop.
  Hypothesis Inv_state : forall o c, Inv o c -> r_state o = Receiving.
  Hypothesis Inv_push : forall o c p, Inv o c -> or_push E p o c = pbstep E p o c.
  Hypothesis Inv_step : forall o c p, Inv o c -> good p ->
    let (o2, c2) := or_push E p o c in Inv o2 c2 \/ r_state o2 <> Receiving.
  Hypothesis Inv_cache : forall o c, Inv o c -> r_cache o = [] /\ r_cache_size o = 0.
  Hypothesis Inv_wb0 : forall o c, Inv o c -> write_blocks E (S (length (r_blocks o))) 0 o c = (ROk o, c).
  Hypothesis Inv0 : Inv (att_obj [] 0) att_ctx.
  Hypothesis Hunblocked : 0 < n \/ ff_tlen f = 0.

  (* the cached object: attaching = attaching first, then pushing the cached packets, in arrival order *)
  Theorem attach_cached pre sz : Forall good pre ->
    or_attach E fid files ioti (Ocache toi max pre sz) c =
    (true, fst (C02Full.run E pre (att_obj [] 0, att_ctx)), snd (C02Full.run E pre (att_obj [] 0, att_ctx))).
  Proof.
    intros G. rewrite attach_unfold.
    assert (Hb : cache_replay_blocked (att_obj pre sz) = false).
    { unfold cache_replay_blocked, att_obj, nb_block. prj. rewrite repeat_length.
      destruct Hunblocked as [H|H].
      - destruct (N.eqb_spec (0 + N.of_nat (N.to_nat (N.min n 2048))) 0) as [Z|_]; [lia|reflexivity].
      - rewrite H. cbn [negb]. apply andb_false_r. }
    unfold push_from_cache at 1. rewrite Hb.
    change (r_cache (att_obj pre sz)) with pre.
    rewrite att_obj_wc.
    pose proof (drain_sim E Inv good Inv_state Inv_push Inv_step sz pre (att_obj [] 0) att_ctx Inv0 G) as D.
    destruct (drain_cache E pre (wc pre sz (att_obj [] 0)) att_ctx) as [o' c'].
    destruct (C02Full.run E pre (att_obj [] 0, att_ctx)) as [o'' c'']. destruct D as [-> D]. cbn [fst snd].
    match goal with |- context [write_blocks E _ 0 ?x c''] => set (o4 := x) end.
    assert (H4 : o4 = o'' /\ (Inv o'' c'' \/ Closed o'')).
    { unfold o4. destruct (rcv (r_state o'')).
      - destruct D as [-> HI]. split; [|left; exact HI]. destruct (Inv_cache _ _ HI) as [K1 K2].
        change (wc [] 0 o'' = o''). apply wc_id'; assumption.
      - destruct D as [-> K]. split; [|right; exact K]. destruct K as (_ & K1 & K2 & _).
        change (wc (r_cache o'') 0 o'' = o''). apply wc_id'; [reflexivity|exact K2]. }
    destruct H4 as [-> H4].
    assert (W : write_blocks E (S (length (r_blocks o''))) 0 o'' c'' = (ROk o'', c'')).
    { destruct H4 as [HI|K]; [apply Inv_wb0; exact HI|apply wb_closedw; apply K]. }
    rewrite W.
    assert (P : push_from_cache E o'' c'' = (o'', c'')).
    { apply pfc_nil; destruct H4 as [HI|K]; try apply (Inv_cache _ _ HI); apply K. }
    rewrite P. reflexivity.
  Qed.
End Attach.

(* ---------- the caching phase: ObjectReceiver::push without OTI ---------- *)
(* a packet that is cached: no EXT_FTI, no EXT_CENC (and it is not an FDT packet) *)
Definition cacheable (p : apkt) : Prop := a_oti p = None /\ a_cenc p = None /\ (a_toi p <> 0 \/ a_fdt_id p = None).
Fixpoint sumlen (l : list apkt) : N := match l with [] => 0 | p :: r => a_datalen p + sumlen r end.
(* ObjectReceiver::cache accepts a packet iff the counter (sum of pkt.data.len() of the packets cached so far) is
   still BELOW the limit; the packet itself may overshoot it *)
Fixpoint cache_fits (max sz : N) (l : list apkt) : bool :=
  match l with
  | [] => true
  | p :: r => (sz <? max) && cache_fits max (sz + a_datalen p) r
  end.

Lemma sumlen_app a b : sumlen (a ++ b) = sumlen a + sumlen b.
Proof. induction a as [|x a IH]; cbn [app sumlen]; [lia|]. rewrite IH. lia. Qed.

Lemma cache_fits_spec max l : forall sz,
  cache_fits max sz l = true <-> (forall l1 p l2, l = l1 ++ p :: l2 -> sz + sumlen l1 < max).
Proof.
  induction l as [|q l IH]; intros sz; cbn [cache_fits].
  - split; [intros _ l1 p l2 H; destruct l1; discriminate|reflexivity].
  - rewrite andb_true_iff, N.ltb_lt, IH. split.
    + intros [H1 H2] l1 p l2 Eq. destruct l1 as [|x l1]; cbn [app] in Eq; inversion Eq; subst.
      * cbn [sumlen]. lia.
      * specialize (H2 l1 p l2 eq_refl). cbn [sumlen]. lia.
    + intros H. split.
      * specialize (H [] q l eq_refl). cbn [sumlen] in H. lia.
      * intros l1 p l2 Eq. specialize (H (q :: l1) p l2). cbn [app] in H. rewrite Eq in H. specialize (H eq_refl).
        cbn [sumlen] in H. lia.
Qed.

Section Caching.
  Variable E : env.
  Variables toi max : N.
  Hypothesis Htoi : toi <> 0.

  Lemma or_push_cache ch sz c p : cacheable p -> sz < max ->
    or_push E p (Ocache toi max ch sz) c = (Ocache toi max (ch ++ [p]) (sz + a_datalen p), c).
  Proof.
    intros (H1 & H2 & H3) Hlt. unfold or_push, Ocache. prj. rewrite H1, H2.
    assert (F : (if a_toi p =? 0 then a_fdt_id p else None) = None).
    { destruct H3 as [H3|H3]; [destruct (N.eqb_spec (a_toi p) 0); [contradiction|reflexivity]|rewrite H3; destruct (a_toi p =? 0); reflexivity]. }
    rewrite F. destruct (N.eqb_spec toi 0) as [Z|_]; [contradiction|]. cbv iota beta.
    unfold init_partition, nb_block. prj. change (0 <? 0 + N.of_nat (length (@nil bdec))) with false. cbv iota beta.
    unfold init_writer. prj. cbv iota beta.
    unfold push_from_cache, cache_replay_blocked. prj. cbv iota beta.
    destruct (N.leb_spec max sz) as [G|_]; [lia|]. reflexivity.
  Qed.

  (* the cache is full: the object is abandoned (no writer yet: nothing is logged) *)
  Lemma or_push_cache_full ch sz c p : cacheable p -> max <= sz ->
    or_push E p (Ocache toi max ch sz) c =
    (mk_or Errored toi None [] 0 max [] 0 None None None false 0 0 0 None None None 0 0 None false, c).
  Proof.
    intros (H1 & H2 & H3) Hlt. unfold or_push, Ocache. prj. rewrite H1, H2.
    assert (F : (if a_toi p =? 0 then a_fdt_id p else None) = None).
    { destruct H3 as [H3|H3]; [destruct (N.eqb_spec (a_toi p) 0); [contradiction|reflexivity]|rewrite H3; destruct (a_toi p =? 0); reflexivity]. }
    rewrite F. destruct (N.eqb_spec toi 0) as [Z|_]; [contradiction|]. cbv iota beta.
    unfold init_partition, nb_block. prj. change (0 <? 0 + N.of_nat (length (@nil bdec))) with false. cbv iota beta.
    unfold init_writer. prj. cbv iota beta.
    unfold push_from_cache, cache_replay_blocked. prj. cbv iota beta.
    destruct (N.leb_spec max sz) as [_|G]; [|lia]. reflexivity.
  Qed.

  Lemma run_cache pre : forall ch sz c, Forall cacheable pre -> cache_fits max sz pre = true ->
    C02Full.run E pre (Ocache toi max ch sz, c) = (Ocache toi max (ch ++ pre) (sz + sumlen pre), c).
  Proof.
    induction pre as [|p pre IH]; intros ch sz c F Hf.
    - cbn [C02Full.run fold_left sumlen]. rewrite app_nil_r. replace (sz + 0) with sz by lia. reflexivity.
    - cbn [cache_fits] in Hf. apply andb_true_iff in Hf. destruct Hf as [H1 H2]. apply N.ltb_lt in H1.
      unfold C02Full.run. cbn [fold_left fst snd]. rewrite (or_push_cache ch sz c p (Forall_inv F) H1).
      match goal with |- context [fold_left ?f pre ?x] => change (fold_left f pre x) with (C02Full.run E pre x) end.
      rewrite (IH _ _ c (Forall_inv_tail F) H2). cbn [sumlen].
      rewrite <- app_assoc. cbn [app]. f_equal. f_equal. lia.
  Qed.
End Caching.

Lemma run_app E a b x : C02Full.run E (a ++ b) x = C02Full.run E b (C02Full.run E a x).
Proof. unfold C02Full.run. apply fold_left_app. Qed.

Lemma partition_empty b e : block_partitioning b 0 e = (0, 0, 0, 0).
Proof.
  unfold block_partitioning. destruct (b =? 0); [reflexivity|]. destruct (N.eqb_spec e 0) as [|He]; [reflexivity|].
  unfold div_ceil at 2. rewrite N.mod_0_l by exact He. rewrite N.div_0_l by exact He. cbn [N.eqb].
  change (0 =? 0) with true. cbv iota.
  destruct (N.eqb_spec b 0) as [->|Hb]; [reflexivity|]. unfold div_ceil at 1.
  rewrite N.mod_0_l by exact Hb. rewrite N.div_0_l by exact Hb. reflexivity.
Qed.

(* ================= B. No-Code, the object level ================= *)
(* a fresh object receiver is pushed [pre] (cached), gets its FDT entry attached, is pushed [post] *)
Definition receive_cached (E : env) (fid : N) (files : list fdtfile) (inst : option roti) (toi max : N)
  (pre post : list apkt) : objrecv * ctx :=
  let (o1, c1) := C02Full.run E pre (or_new toi max, ctx0) in
  let '(_, o2, c2) := or_attach E fid files inst o1 c1 in
  C02Full.run E post (o2, c2).

Section NoCodeObj.
  Variable E : env.
  Variable oti : roti.
  Variable content : list N.
  Variable toi : N.
  Variable md5 : option (list N).
  Variable max : N.
  Variables al as_ nal n : N.
  Hypothesis Hfec : ro_fec oti = FNoCode.
  Hypothesis He : 0 < ro_e oti.
  Hypothesis Hb : 0 < ro_b oti.
  Hypothesis HL : 0 < lenN_ content.
  Hypothesis Hu64 : lenN_ content + ro_e oti < U64.
  Hypothesis Hpart : block_partitioning (ro_b oti) (lenN_ content) (ro_e oti) = (al, as_, nal, n).
  Notation w := (toi, 0%nat).
  Notation StructN := (C02Full.Struct oti content w toi md5 max al as_ nal n).
  Notation genn := (C02Full.genuine oti content al as_ nal n).

  Lemma nc_inv_state o c : StructN o c -> r_state o = Receiving.
  Proof. intros (St & _). exact (C02Full.st_state _ _ _ _ _ _ _ _ _ St). Qed.
  Lemma nc_inv_push o c p : StructN o c -> or_push E p o c = pbstep E p o c.
  Proof.
    intros (St & Dy & _).
    apply (C02Full.or_push_static E oti content w md5 max al as_ nal He Hb HL Hu64 o c p St).
    unfold nb_block. exact (C02Full.dy_nb _ _ _ _ _ _ _ _ _ _ Dy).
  Qed.
  Lemma nc_inv_step o c p : StructN o c -> genn p ->
    let (o2, c2) := or_push E p o c in StructN o2 c2 \/ r_state o2 <> Receiving.
  Proof.
    intros S0 G.
    pose proof (C02Full.step E oti content w toi md5 max al as_ nal n Hfec He Hb HL Hu64 Hpart o c p _ _ S0 G) as H.
    destruct (or_push E p o c) as [o2 c2]. cbn [C02Full.StepOut] in H.
    destruct H as [(S1 & _)|[(H1 & _)|([H1|H1] & _)]]; [left; exact S1|right; congruence|right; congruence|right; congruence].
  Qed.
  Lemma nc_inv_cache o c : StructN o c -> r_cache o = [] /\ r_cache_size o = 0.
  Proof. intros (St & _). split; [exact (C02Full.st_cache _ _ _ _ _ _ _ _ _ St)|exact (C02Full.st_csz _ _ _ _ _ _ _ _ _ St)]. Qed.
  Lemma nc_inv_oti o c : StructN o c -> r_oti o <> None.
  Proof. intros (St & _). rewrite (C02Full.st_oti _ _ _ _ _ _ _ _ _ St). discriminate. Qed.
  Lemma nc_inv_wb0 o c : StructN o c -> write_blocks E (S (length (r_blocks o))) 0 o c = (ROk o, c).
  Proof.
    intros (St & Dy & Fl). cbn [write_blocks]. rewrite (C02Full.st_writer _ _ _ _ _ _ _ _ _ St).
    destruct (C02Full.dy_bw _ _ _ _ _ _ _ _ _ _ Dy) as (bw & Hbw & _). rewrite Hbw.
    destruct (N.leb_spec (r_off o) 0) as [G|G]; [|reflexivity].
    assert (Z : r_off o = 0) by lia. rewrite Z. change (0 - 0) with 0. change (N.to_nat 0) with 0%nat.
    unfold C02Full.Flushed in Fl. rewrite Fl. cbn [negb].
    destruct (true && (0 <? N.of_nat (length (r_blocks o)))); reflexivity.
  Qed.

  Variables (fid : N) (files : list fdtfile) (inst : option roti) (f : fdtfile).
  Hypothesis Hfind : find (fun f => ff_toi f =? toi) files = Some f.
  Hypothesis Hce : ff_cenc f = CNull.
  Hypothesis Hfo : match ff_oti f with Some x => Some x | None => inst end = Some oti.
  Hypothesis Htl : ff_tlen f = lenN_ content.
  Hypothesis Hmd5 : ff_md5 f = md5.
  Hypothesis Htoi : toi <> 0.

  (* O1: with a Blank context (nothing logged, no builder call yet) *)
  Lemma nc_attach_cached c pre sz : Blank c ->
    e_builder E toi 0%nat = WStore -> e_open_ok E w = true -> Forall genn pre ->
    exists o0 c0, or_attach E fid files inst (or_new toi max) c = (true, o0, c0) /\ StructN o0 c0
      /\ r_nocache o0 = ff_nocache f
      /\ or_attach E fid files inst (Ocache toi max pre sz) c
         = (true, fst (C02Full.run E pre (o0, c0)), snd (C02Full.run E pre (o0, c0))).
  Proof.
    intros Bl A1 A2 G.
    destruct (attach_struct_blank E oti content toi md5 max al as_ nal n He Hb HL Hu64 Hpart fid files inst f c
                Bl Hfind Hce Hfo Htl Hmd5 A1 A2) as (o0 & c0 & Hat & S0 & Hnc).
    assert (Hn0 : ncalls c toi = 0%nat) by (unfold ncalls; destruct Bl as [-> _]; reflexivity).
    assert (Hp' : block_partitioning (ro_b oti) (ff_tlen f) (ro_e oti) = (al, as_, nal, n)) by (rewrite Htl; exact Hpart).
    assert (A1' : e_builder E toi (ncalls c toi) = WStore) by (rewrite Hn0; exact A1).
    assert (A2' : e_open_ok E (toi, ncalls c toi) = true) by (rewrite Hn0; exact A2).
    assert (Hne : ff_tlen f <> 0) by (rewrite Htl; lia).
    pose proof (attach_fresh E fid files inst f toi max oti al as_ nal n c Hfind Hfo Hp' A1' A2' Hne) as Fr.
    rewrite Hat in Fr. injection Fr as -> ->.
    exists (att_obj E fid f toi max oti al as_ nal n c [] 0), (att_ctx toi c).
    split; [exact Hat|]. split; [exact S0|]. split; [exact Hnc|].
    apply (attach_cached E fid files inst f toi max oti al as_ nal n c Hfind Hfo Hp' A1' A2' Hne
             StructN genn nc_inv_state nc_inv_push nc_inv_step nc_inv_cache nc_inv_wb0 S0).
    - left. exact (C02Full.n_pos _ _ _ _ _ _ _ Hb He HL Hpart).
    - exact G.
  Qed.

  (* O2: the whole reception with a cache phase IS the reception of pre ++ post after the FDT entry *)
  Theorem nc_receive_cached_eq pre post :
    e_builder E toi 0%nat = WStore -> e_open_ok E w = true ->
    Forall cacheable pre -> cache_fits max 0 pre = true -> Forall genn pre ->
    receive_cached E fid files inst toi max pre post = receive E fid files inst toi max (pre ++ post).
  Proof.
    intros A1 A2 Fc Hf G. unfold receive_cached, receive.
    change (or_new toi max) with (Ocache toi max [] 0) at 1.
    rewrite (run_cache E toi max Htoi pre [] 0 ctx0 Fc Hf). cbn [app].
    destruct (nc_attach_cached ctx0 pre (0 + sumlen pre) (conj eq_refl eq_refl) A1 A2 G) as (o0 & c0 & Hat & _ & _ & Hc).
    rewrite Hc, Hat, run_app. destruct (C02Full.run E pre (o0, c0)) as [o1 c1]. reflexivity.
  Qed.
End NoCodeObj.

(* ---------- the object-level statements (G1) ---------- *)
(* the reception with a cache phase is, state for state and log for log, the reception of the same packets, in the same
   order, after the FDT entry *)
Theorem nocode_cached_is_fifo_replay E oti content toi max fid files inst md5 pre post :
  let L := lenN_ content in
  nocode_ok oti L -> toi <> 0 -> fdt_entry_for files inst toi oti L md5 -> writer_accepts E toi ->
  Forall cacheable pre -> cache_fits max 0 pre = true ->
  Forall (fun p => genuine_pkt oti content p = true) pre ->
  receive_cached E fid files inst toi max pre post = receive E fid files inst toi max (pre ++ post).
Proof.
  intros L (Hfec & He & Hb & HL & Hu) Htoi (f & F1 & F2 & F3 & F4 & F5) (A1 & A2) Fc Hf G.
  destruct (partition_of oti L) as [[[al as_] nal] n] eqn:Hpart. unfold partition_of in Hpart.
  apply (nc_receive_cached_eq E oti content toi md5 max al as_ nal n Hfec He Hb HL Hu Hpart fid files inst f F1 F2 F3 F4 F5 Htoi
           pre post A1 A2 Fc Hf).
  apply (genuine_pkt_spec _ _ _ _ _ _ _ Hpart G).
Qed.

Theorem nocode_cached_recoverable_delivers E oti content toi max fid files inst md5 pre post :
  let L := lenN_ content in
  nocode_ok oti L -> toi <> 0 -> fdt_entry_for files inst toi oti L md5 ->
  writer_accepts E toi -> writes_succeed E toi -> md5_good E content md5 ->
  L <= max -> nb_blocks_of oti L <= 4097 ->
  Forall cacheable pre -> cache_fits max 0 pre = true ->
  Forall (fun p => genuine_pkt oti content p = true) (pre ++ post) ->
  close_flag_ok oti L (pre ++ post) ->
  recoverable oti L (pre ++ post) = true ->
  let (o, c) := receive_cached E fid files inst toi max pre post in
  r_state o = Completed
  /\ ShapeDone content (toi, 0%nat) toi c
  /\ forall m, complete_exact content (m, calls_of (toi, 0%nat) (c_log c)) = true
                /\ P_C02_object (recoverable oti L (pre ++ post)) content [(m, calls_of (toi, 0%nat) (c_log c))] = true.
Proof.
  intros L Hok Htoi Hent Hacc Hwr Hmd5 Hmax Hn Fc Hf G Cl Rec.
  pose proof (proj1 (proj1 (Forall_app _ _ _) G)) as G1.
  rewrite (nocode_cached_is_fifo_replay E oti content toi max fid files inst md5 pre post Hok Htoi Hent Hacc Fc Hf G1).
  exact (nocode_recoverable_delivers E oti content toi max fid files inst md5 (pre ++ post) Hok Hent Hacc Hwr Hmd5 Hmax Hn G Cl Rec).
Qed.

(* ---------- the empty object (transfer length 0), any FEC scheme ---------- *)
Section EmptyObj.
  Variable E : env.
  Variables (fid : N) (files : list fdtfile) (inst : option roti) (f : fdtfile) (toi max : N) (oti : roti).
  Hypothesis Hfind : find (fun f => ff_toi f =? toi) files = Some f.
  Hypothesis Hfo : match ff_oti f with Some x => Some x | None => inst end = Some oti.
  Hypothesis Htl : ff_tlen f = 0.
  Hypothesis Htoi : toi <> 0.
  Hypothesis Hbld : e_builder E toi 0%nat = WStore.
  Hypothesis Hopen : e_open_ok E (toi, 0%nat) = true.
  Notation w := (toi, 0%nat).
  Notation A0 := (att_obj E fid f toi max oti 0 0 0 0 ctx0 [] 0).
  Notation C0 := (att_ctx toi ctx0).
  Definition InvE (o : objrecv) (c : ctx) : Prop := o = A0 /\ c = C0.
  Definition goodE (p : apkt) : Prop := a_pid_with (ro_fec oti) p <> None.

  Lemma e_part : block_partitioning (ro_b oti) (ff_tlen f) (ro_e oti) = (0, 0, 0, 0).
  Proof. rewrite Htl. apply partition_empty. Qed.

  (* D48: the attach completes the empty object at once, whatever was cached; no packet is needed any more,
     and a packet that follows finds the object closed *)
  Lemma e_attach ch sz :
    or_attach E fid files inst (Ocache toi max ch sz) ctx0 =
    (true, fst (complete A0 C0), logc C0 (EvComplete w)) /\ r_state (fst (complete A0 C0)) = Completed.
  Proof.
    rewrite (attach_empty E fid files inst f toi max oti 0 0 0 0 ctx0 Hfind Hfo e_part Hbld Hopen ch sz Htl).
    split; reflexivity.
  Qed.

  (* stronger than before the repair: no hypothesis on the packets after the cached ones, none needed at all *)
  Theorem empty_cached_delivers_d48 pre post :
    Forall cacheable pre -> cache_fits max 0 pre = true ->
    let (o, c) := receive_cached E fid files inst toi max pre post in
    r_state o = Completed /\ c_log c = [EvBuilder toi WStore; EvOpen w true; EvComplete w].
  Proof.
    intros Fc Hf.
    unfold receive_cached. change (or_new toi max) with (Ocache toi max [] 0) at 1.
    rewrite (run_cache E toi max Htoi pre [] 0 ctx0 Fc Hf). cbn [app].
    destruct (e_attach pre (0 + sumlen pre)) as [-> Hs].
    rewrite C02Full.run_closed by (rewrite Hs; discriminate). split; [exact Hs|reflexivity].
  Qed.

  Theorem empty_cached_delivers pre post :
    Forall cacheable pre -> cache_fits max 0 pre = true -> Forall goodE (pre ++ post) -> pre ++ post <> [] ->
    let (o, c) := receive_cached E fid files inst toi max pre post in
    r_state o = Completed /\ c_log c = [EvBuilder toi WStore; EvOpen w true; EvComplete w].
  Proof. intros Fc Hf _ _. apply empty_cached_delivers_d48; assumption. Qed.
End EmptyObj.

(* ================= C. the receiver level, over the object-level interface of C02SessionRS ================= *)
Section CacheIface.
  Variable E : env.
  Variable parse_fdt : list N -> option fdtinst.
  Variable cfg : rconfig.
  Variable content : list N.
  Variable toi : N.
  Variable now : Z.
  Hypothesis Htoi : toi <> 0.
  Notation max := (cf_max_cache cfg).
  Notation w := (toi, 0%nat).
  Variables (id : N) (inst : fdtinst) (f : fdtfile).
  Hypothesis Hfind : find (fun f => ff_toi f =? toi) (fi_files inst) = Some f.

  (* the interface of SessIface *)
  Variable SP : objrecv -> ctx -> Prop.
  Variable LV : list (N * N) -> objrecv -> Prop.
  Variable gen : apkt -> Prop.
  Variable pid : apkt -> N * N.
  Variable cov : list (N * N) -> Prop.
  Hypothesis I_state : forall o c, SP o c -> r_state o = Receiving.
  Hypothesis I_writer : forall o c, SP o c -> r_writer o = Some (w, WOpened).
  Hypothesis I_nc : forall o c p, SP o c -> r_nocache (fst (or_push E p o c)) = r_nocache o.
  Hypothesis I_step : forall o c seen p, SP o c -> LV seen o -> gen p ->
    (a_close_obj p = true -> cov (pid p :: seen)) ->
    let (o2, c2) := or_push E p o c in
    (SP o2 c2 /\ LV (pid p :: seen) o2) \/ (r_state o2 = Completed /\ ShapeDone content w toi c2).
  Hypothesis I_notcov : forall o c seen, SP o c -> LV seen o -> cov seen -> False.
  Hypothesis I_cov_incl : forall l l', cov l -> incl l l' -> cov l'.
  Hypothesis I_attach : forall fid c, Blank c ->
    exists o0 c0, or_attach E fid (fi_files inst) (fi_oti inst) (or_new toi max) c = (true, o0, c0)
                  /\ SP o0 c0 /\ LV [] o0 /\ r_nocache o0 = ff_nocache f.
  (* what the cache replay needs in addition: the attached object has an empty cache, pushes straight to its blocks,
     and has nothing to flush at block 0 *)
  Hypothesis K_push : forall o c p, SP o c -> or_push E p o c = pbstep E p o c.
  Hypothesis K_cache : forall o c, SP o c -> r_cache o = [] /\ r_cache_size o = 0.
  Hypothesis K_wb0 : forall o c, SP o c -> write_blocks E (S (length (r_blocks o))) 0 o c = (ROk o, c).
  Hypothesis K_oti : forall o c, SP o c -> r_oti o <> None.
  (* a genuine packet, whatever its flags, leaves the object attached and receiving, or closes it *)
  Hypothesis K_step : forall o c p, SP o c -> gen p ->
    let (o2, c2) := or_push E p o c in SP o2 c2 \/ r_state o2 <> Receiving.
  Variable oti : roti.
  Variables al as_ nal n : N.
  Hypothesis Hfo : match ff_oti f with Some x => Some x | None => fi_oti inst end = Some oti.
  Hypothesis Hpart : block_partitioning (ro_b oti) (ff_tlen f) (ro_e oti) = (al, as_, nal, n).
  Hypothesis Hn : 0 < n.
  Hypothesis Hacc : writer_accepts E toi.

  Notation push := (fun p => RvPush p now).
  Notation SessD := (SessDone cfg content toi f).
  Notation closed_of p r :=
    (if a_close_sess p
     then mk_recv (rv_objects r) (rv_completed r) (rv_error r) (rv_fdt_receivers r) (rv_fdt_current r) true
     else r).

  (* a packet of the object that is cached: no EXT_FTI, no EXT_CENC (the close-object flag is not looked at when caching) *)
  Definition pktc (p : apkt) : Prop := a_toi p = toi /\ cacheable p /\ gen p.
  (* liveness: for the caching object, the symbols seen are those of the cache *)
  Definition LVc (seen : list (N * N)) (o : objrecv) : Prop :=
    match r_oti o with None => seen = List.rev (map pid (r_cache o)) | Some _ => LV seen o end.
  Definition PSc (pre : list apkt) (o : objrecv) : Prop := o = Ocache toi max pre (sumlen pre).

  Lemma lvc_sp o c seen : SP o c -> (LVc seen o <-> LV seen o).
  Proof. intros HS. unfold LVc. pose proof (K_oti _ _ HS) as H. destruct (r_oti o); [tauto|congruence]. Qed.

  Lemma c_step o c seen p : SP o c -> LVc seen o -> gen p ->
    (a_close_obj p = true -> cov (pid p :: seen)) ->
    let (o2, c2) := or_push E p o c in
    (SP o2 c2 /\ LVc (pid p :: seen) o2) \/ (r_state o2 = Completed /\ ShapeDone content w toi c2).
  Proof.
    intros HS Lv Gp Cl. apply (lvc_sp o c seen HS) in Lv. pose proof (I_step o c seen p HS Lv Gp Cl) as H.
    destruct (or_push E p o c) as [o2 c2]. destruct H as [[S2 L2]|H]; [left|right; exact H].
    split; [exact S2|]. apply (lvc_sp o2 c2 _ S2). exact L2.
  Qed.
  Lemma c_notcov o c seen : SP o c -> LVc seen o -> cov seen -> False.
  Proof. intros HS Lv. apply (lvc_sp o c seen HS) in Lv. exact (I_notcov o c seen HS Lv). Qed.
  Lemma c_attach0 fid c : Blank c ->
    exists o0 c0, or_attach E fid (fi_files inst) (fi_oti inst) (or_new toi max) c = (true, o0, c0)
                  /\ SP o0 c0 /\ LVc [] o0 /\ r_nocache o0 = ff_nocache f.
  Proof.
    intros Bl. destruct (I_attach fid c Bl) as (o0 & c0 & Hat & S0 & L0 & Hnc). exists o0, c0.
    split; [exact Hat|]. split; [exact S0|]. split; [apply (lvc_sp o0 c0 [] S0); exact L0|exact Hnc].
  Qed.

  (* the run of the cached packets from an attached object; a close-object flag only once the object is covered *)
  Lemma c_run_live l : forall o c seen, SP o c -> LV seen o -> Forall gen l -> gclose pid cov seen l ->
    let (o', c') := C02Full.run E l (o, c) in
    r_nocache o' = r_nocache o
    /\ ((SP o' c' /\ LV (List.rev (map pid l) ++ seen) o') \/ (r_state o' = Completed /\ ShapeDone content w toi c')).
  Proof.
    induction l as [|p l IH]; intros o c seen HS Lv G Cl.
    - cbn [C02Full.run fold_left]. split; [reflexivity|left; split; assumption].
    - pose proof (Forall_inv G) as Gp. pose proof (Forall_inv_tail G) as Gr.
      unfold C02Full.run. cbn [fold_left fst snd].
      match goal with |- context [fold_left ?g l ?x] => change (fold_left g l x) with (C02Full.run E l x) end.
      pose proof (I_step o c seen p HS Lv Gp (fun Hcl => Cl [] p l eq_refl Hcl)) as H. pose proof (I_nc o c p HS) as NC.
      destruct (or_push E p o c) as [o2 c2]. cbn [fst] in NC.
      destruct H as [[S2 L2]|[H1 H2]].
      + specialize (IH o2 c2 (pid p :: seen) S2 L2 Gr (gclose_tail pid cov I_cov_incl seen p l Cl)).
        destruct (C02Full.run E l (o2, c2)) as [o' c'].
        destruct IH as [N1 IH]. split; [congruence|]. cbn [map List.rev]. rewrite <- app_assoc. exact IH.
      + rewrite C02Full.run_closed by congruence. split; [exact NC|right; split; assumption].
  Qed.

  (* J_attach for the caching object *)
  Lemma c_attach pre fid o c seen : Forall pktc pre -> gclose pid cov [] pre -> PSc pre o -> LVc seen o -> Blank c ->
    exists o' c', or_attach E fid (fi_files inst) (fi_oti inst) o c = (true, o', c')
      /\ r_nocache o' = ff_nocache f
      /\ ((SP o' c' /\ LVc seen o') \/ (r_state o' = Completed /\ ShapeDone content w toi c')).
  Proof.
    intros Fp Gcl Ho Lv Bl. unfold PSc in Ho. subst o. unfold LVc, Ocache in Lv. prj. subst seen.
    destruct (I_attach fid c Bl) as (o0 & c0 & Hat & S0 & L0 & Hnc). destruct Hacc as [A1 A2].
    assert (Hn0 : ncalls c toi = 0%nat) by (unfold ncalls; destruct Bl as [-> _]; reflexivity).
    assert (A1' : e_builder E toi (ncalls c toi) = WStore) by (rewrite Hn0; exact A1).
    assert (A2' : e_open_ok E (toi, ncalls c toi) = true) by (rewrite Hn0; exact A2).
    assert (Hne : ff_tlen f <> 0).
    { intros Z. pose proof Hpart as Hp0. rewrite Z, partition_empty in Hp0. inversion Hp0. lia. }
    pose proof (attach_fresh E fid (fi_files inst) (fi_oti inst) f toi max oti al as_ nal n c Hfind Hfo Hpart A1' A2' Hne) as Fr.
    rewrite Hat in Fr. injection Fr as Eo Ec.
    assert (G : Forall gen pre).
    { eapply Forall_impl; [|exact Fp]. intros p (_ & _ & H2). exact H2. }
    pose proof (attach_cached E fid (fi_files inst) (fi_oti inst) f toi max oti al as_ nal n c Hfind Hfo Hpart A1' A2' Hne
                  SP gen I_state K_push K_step K_cache K_wb0) as AC.
    rewrite <- Eo, <- Ec in AC. rewrite (AC S0 (or_introl Hn) pre (sumlen pre) G); clear AC.
    pose proof (c_run_live pre o0 c0 [] S0 L0 G Gcl) as R.
    destruct (C02Full.run E pre (o0, c0)) as [o' c']. destruct R as [N1 R]. cbn [fst snd].
    exists o', c'. split; [reflexivity|]. split; [congruence|].
    destruct R as [[S1 L1]|R]; [left|right; exact R]. split; [exact S1|]. apply (lvc_sp o' c' _ S1).
    rewrite app_nil_r in L1. exact L1.
  Qed.

  (* the receiver while the object only caches *)
  Definition CPre (ch : list apkt) (sz : N) (r : recv) : Prop :=
    rv_objects r = [(toi, Ocache toi max ch sz)] /\ rv_completed r = [] /\ rv_error r = []
    /\ rv_fdt_current r = [] /\ rv_fdt_receivers r = [].

  Lemma cpre_closed ch sz r b : CPre ch sz r ->
    CPre ch sz (mk_recv (rv_objects r) (rv_completed r) (rv_error r) (rv_fdt_receivers r) (rv_fdt_current r) b).
  Proof. intros H. exact H. Qed.

  Lemma c_push_obj_first r c p :
    rv_objects r = [] -> rv_completed r = [] -> rv_error r = [] -> rv_fdt_current r = [] -> rv_fdt_receivers r = [] ->
    a_toi p = toi -> cacheable p -> 0 < max ->
    exists r', push_obj E cfg p now r c = (POk, r', c) /\ CPre [p] (0 + a_datalen p) r'.
  Proof.
    intros Hobjs Hcomp Herr Hcur Hrcv Ht Cp Hm.
    pose proof (or_push_cache E toi max Htoi [] 0 c p Cp Hm) as Eq. change (Ocache toi max [] 0) with (or_new toi max) in Eq.
    unfold push_obj. cbv zeta. rewrite Ht, Hcomp. cbn [existsb]. cbv iota beta. rewrite Herr. cbn [existsb]. cbv iota beta.
    unfold get_obj. rewrite Hobjs. cbn [find]. rewrite Hcur. cbn [create_attach]. rewrite Eq.
    cbn [rv_objects app]. unfold put_obj. cbn [existsb fst map]. rewrite N.eqb_refl. cbn [orb].
    unfold check_state, get_obj. cbn [set_objects rv_objects find fst]. rewrite N.eqb_refl. cbn [snd].
    cbn [Ocache r_state]. eexists. split; [reflexivity|].
    unfold CPre. cbn [rv_objects rv_completed rv_error rv_fdt_current rv_fdt_receivers].
    split; [reflexivity|]. split; [exact Hcomp|]. split; [exact Herr|]. split; [reflexivity|exact Hrcv].
  Qed.

  Lemma c_push_obj_pre ch sz r c p : CPre ch sz r -> a_toi p = toi -> cacheable p -> sz < max ->
    exists r', push_obj E cfg p now r c = (POk, r', c) /\ CPre (ch ++ [p]) (sz + a_datalen p) r'.
  Proof.
    intros (Hobjs & Hcomp & Herr & Hcur & Hrcv) Ht Cp Hm.
    pose proof (or_push_cache E toi max Htoi ch sz c p Cp Hm) as Eq.
    unfold push_obj. cbv zeta. rewrite Ht, Hcomp. cbn [existsb]. cbv iota beta. rewrite Herr. cbn [existsb]. cbv iota beta.
    unfold get_obj. rewrite Hobjs. cbn [find fst]. rewrite N.eqb_refl. cbn [snd]. rewrite Eq. rewrite Hobjs.
    unfold put_obj. cbn [existsb fst map]. rewrite N.eqb_refl. cbn [orb].
    unfold check_state, get_obj. cbn [set_objects rv_objects find fst]. rewrite N.eqb_refl. cbn [snd].
    cbn [Ocache r_state]. eexists. split; [reflexivity|].
    unfold CPre. cbn [rv_objects rv_completed rv_error rv_fdt_current rv_fdt_receivers].
    split; [reflexivity|]. split; [exact Hcomp|]. split; [exact Herr|]. split; [exact Hcur|exact Hrcv].
  Qed.

  Lemma c_run_pre pkts : forall r c ch sz, CPre ch sz r ->
    Forall (fun p => a_toi p = toi /\ cacheable p) pkts -> cache_fits max sz pkts = true ->
    exists xs r', recv_run E parse_fdt cfg r (map push pkts) c = (xs, r', c) /\ CPre (ch ++ pkts) (sz + sumlen pkts) r'.
  Proof.
    induction pkts as [|p pkts IH]; intros r c ch sz HP F0 Hf.
    - exists [], r. split; [reflexivity|]. cbn [sumlen]. rewrite app_nil_r. replace (sz + 0) with sz by lia. exact HP.
    - destruct (Forall_inv F0) as [Tp Cp]. pose proof (Forall_inv_tail F0) as Fr. cbn [map recv_run].
      cbn [cache_fits] in Hf. apply andb_true_iff in Hf. destruct Hf as [H1 H2]. apply N.ltb_lt in H1.
      rewrite (step_is_push_obj E parse_fdt cfg toi now Htoi r c p Tp).
      assert (HP0 : CPre ch sz (closed_of p r)) by (destruct (a_close_sess p); [apply cpre_closed|]; exact HP).
      destruct (c_push_obj_pre ch sz _ c p HP0 Tp Cp H1) as (r1 & Eq & HP1). rewrite Eq.
      destruct (IH r1 c (ch ++ [p]) (sz + a_datalen p) HP1 Fr H2) as (xs & r2 & Eq2 & HP2). rewrite Eq2.
      exists (POk :: xs), r2. split; [reflexivity|]. cbn [sumlen]. rewrite <- app_assoc in HP2. cbn [app] in HP2.
      replace (sz + (a_datalen p + sumlen pkts)) with (sz + a_datalen p + sumlen pkts) by lia. exact HP2.
  Qed.

  Variables (pf : apkt) (foti : roti) (d : list N).
  Hypothesis Hpf : fdt_pkt_ok pf id foti d.
  Hypothesis Hparse : parse_fdt d = Some inst.
  Hypothesis Hlive : fdt_live cfg inst pf now.

  (* S3: packets WITHOUT EXT_FTI (cached), then the FDT instance (replay in arrival order), then more packets; a
     close-object flag - on a cached packet as well - only once the packets up to it cover the object *)
  Theorem g_fdt_cached_delivers pre post :
    Forall pktc pre -> cache_fits max 0 pre = true ->
    Forall gen post -> Forall (fun p => a_toi p = toi) post ->
    gclose pid cov [] (pre ++ post) ->
    cov (map pid (pre ++ post)) ->
    let '(_, r, c) := recv_run E parse_fdt cfg recv0 (map push (pre ++ pf :: post)) ctx0 in SessD r c.
  Proof.
    intros F1 Hf G2 T2 Cl Cv.
    destruct pre as [|p1 pre].
    { cbn [app] in *.
      exact (g_fdt_first_delivers E parse_fdt cfg content toi now Htoi id inst f Hfind SP LV gen pid cov
               I_state I_writer I_nc I_step I_notcov I_cov_incl I_attach pf foti d Hpf Hparse Hlive post G2 T2 Cl Cv). }
    set (P1 := p1 :: pre) in *.
    assert (F1' : Forall (fun p => a_toi p = toi /\ cacheable p) P1).
    { eapply Forall_impl; [|exact F1]. intros p (H1 & H2 & _). split; assumption. }
    assert (Cl1 : gclose pid cov [] P1).
    { intros a p b Eq Hp. apply (Cl a p (b ++ post)); [|exact Hp]. rewrite Eq, <- app_assoc. reflexivity. }
    assert (Hrun1 : exists xs r2, recv_run E parse_fdt cfg recv0 (map push P1) ctx0 = (xs, r2, ctx0)
                                  /\ CPre P1 (sumlen P1) r2).
    { unfold P1 in *. destruct (Forall_inv F1') as [Tp Cp]. pose proof (Forall_inv_tail F1') as Fr. cbn [map recv_run].
      cbn [cache_fits] in Hf. apply andb_true_iff in Hf. destruct Hf as [H1 H2]. apply N.ltb_lt in H1.
      rewrite (step_is_push_obj E parse_fdt cfg toi now Htoi recv0 ctx0 p1 Tp).
      destruct (c_push_obj_first (closed_of p1 recv0) ctx0 p1) as (r1 & Eq & HP1); try (destruct (a_close_sess p1); reflexivity);
        [exact Tp|exact Cp|exact H1|].
      rewrite Eq. destruct (c_run_pre pre r1 ctx0 [p1] (0 + a_datalen p1) HP1 Fr H2) as (xs & r2 & Eq2 & HP2). rewrite Eq2.
      exists (POk :: xs), r2. split; [reflexivity|]. cbn [sumlen app] in *.
      replace (a_datalen p1 + sumlen pre) with (0 + a_datalen p1 + sumlen pre) by lia. exact HP2. }
    destruct Hrun1 as (xs & r2 & Eq1 & HP2).
    pose proof (recv_run_inv E parse_fdt cfg (map push P1) recv0 ctx0 RInv0) as R2. rewrite Eq1 in R2.
    unfold RIr in R2. cbn [fst snd] in R2.
    rewrite map_app, recv_run_app, Eq1. cbn [map recv_run]. cbn [recv_step].
    pose proof Hpf as (Hz & _). rewrite Hz, N.eqb_refl.
    assert (GP : GPreCore toi LVc (PSc P1) (List.rev (map pid P1)) (closed_of pf r2)).
    { destruct HP2 as (Q1 & Q2 & Q3 & Q4 & Q5). exists (Ocache toi max P1 (sumlen P1)).
      destruct (a_close_sess pf); cbn [rv_objects rv_completed rv_error rv_fdt_current rv_fdt_receivers];
        (split; [exact Q1|]; split; [exact Q2|]; split; [exact Q3|]; split; [exact Q4|]; split; [exact Q5|];
         split; [reflexivity|reflexivity]). }
    assert (R0 : RI (closed_of pf r2) ctx0) by (destruct (a_close_sess pf); exact R2).
    pose proof (g_push_fdt_pre E parse_fdt cfg content toi now id inst f Hfind SP LVc I_state c_attach0 pf foti d Hpf Hparse Hlive
                  (PSc P1) (fun fid o c seen => c_attach P1 fid o c seen F1 Cl1) (List.rev (map pid P1)) _ ctx0 GP (conj eq_refl eq_refl) R0) as H.
    destruct (push_fdt_obj E parse_fdt cfg pf now (closed_of pf r2) ctx0) as [[x r3] c3]. destruct H as [H R3].
    assert (D : let '(_, r', c') := recv_run E parse_fdt cfg r3 (map push post) c3 in SessD r' c').
    { destruct H as [H|H].
      - apply (g_run_recv E parse_fdt cfg content toi now Htoi inst f SP LVc gen pid cov I_state I_writer I_nc c_step c_notcov
                 I_cov_incl c_attach0 post r3 c3 (List.rev (map pid P1)) H R3 G2 T2).
        + intros pre2 p post2 Eq Hp.
          assert (K : cov (map pid ((P1 ++ pre2) ++ [p]) ++ [])).
          { apply (Cl (P1 ++ pre2) p post2); [|exact Hp]. rewrite Eq, <- app_assoc. reflexivity. }
          apply (I_cov_incl _ _ K). intros y Hy. rewrite app_nil_r, <- app_assoc, map_app in Hy.
          apply in_app_or in Hy. apply in_or_app.
          destruct Hy as [Hy|Hy]; [right; apply -> in_rev; exact Hy|left; exact Hy].
        + apply (I_cov_incl _ _ Cv).
          intros y Hy. rewrite map_app in Hy. apply in_app_or in Hy. apply in_or_app.
          destruct Hy as [Hy|Hy]; [right|left]; apply -> in_rev; exact Hy.
      - exact (run_done E parse_fdt cfg content toi now Htoi f post r3 c3 (done_core_sess cfg _ _ _ _ _ H R3) T2). }
    destruct (recv_run E parse_fdt cfg r3 (map push post) c3) as [[ys r4] c4]. exact D.
  Qed.
End CacheIface.

(* ================= D. instances and statements ================= *)
(* ---------- No-Code at the receiver level (G2) ---------- *)
Theorem session_fdt_cached_delivers E parse_fdt cfg oti content toi md5 now pf id foti d inst pre post :
  let L := lenN_ content in
  nocode_ok oti L -> toi <> 0 ->
  fdt_pkt_ok pf id foti d -> parse_fdt d = Some inst -> fdt_live cfg inst pf now ->
  fdt_entry_for (fi_files inst) (fi_oti inst) toi oti L md5 ->
  writer_accepts E toi -> writes_succeed E toi -> md5_good E content md5 ->
  L <= cf_max_cache cfg -> nb_blocks_of oti L <= 4097 ->
  Forall (fun p => a_toi p = toi) (pre ++ post) ->
  Forall (fun p => genuine_pkt oti content p = true) (pre ++ post) ->
  Forall (fun p => a_oti p = None /\ a_cenc p = None) pre ->
  cache_fits (cf_max_cache cfg) 0 pre = true ->
  close_flag_ok oti L (pre ++ post) ->
  recoverable oti L (pre ++ post) = true ->
  let '(_, r, c) := recv_run E parse_fdt cfg recv0 (map (fun p => RvPush p now) (pre ++ pf :: post)) ctx0 in
  session_delivered cfg inst content toi r c.
Proof.
  intros L (Hfec & He & Hb & HL & Hu) Htoi Hpf Hparse Hlive (f & F1 & F2 & F3 & F4 & F5) Hacc Hwr Hmd5 Hmax Hn T G Pre1 Hfit Cl Rec.
  destruct (partition_of oti L) as [[[al as_] nal] n] eqn:Hpart. unfold partition_of in Hpart.
  assert (Hnb : nb_blocks_of oti L = n) by (unfold nb_blocks_of; rewrite Hpart; reflexivity).
  assert (Cov : forall l, recoverable oti L l = true -> C02Full.covered al as_ nal n (map pid_of l)).
  { intros l H. apply recoverable_covered. unfold recoverable, source_ks, partition_of in H. rewrite Hpart in H. exact H. }
  assert (Nc : C02Full.Nice2 E content (toi, 0%nat) md5 (cf_max_cache cfg) n).
  { split; [split; [exact Hwr|exact Hmd5]|]. split; [exact Hmax|]. rewrite <- Hnb. exact Hn. }
  apply Forall_app in T. destruct T as [T1 T2]. apply Forall_app in G. destruct G as [G1 G2].
  pose proof (genuine_pkt_spec _ _ _ _ _ _ _ Hpart G1) as G1'. pose proof (genuine_pkt_spec _ _ _ _ _ _ _ Hpart G2) as G2'.
  assert (P1 : Forall (pktc toi (C02Full.genuine oti content al as_ nal n)) pre).
  { rewrite Forall_forall in *. intros p Hp. destruct (Pre1 p Hp) as (A1 & A2). pose proof (T1 p Hp) as Tp.
    split; [exact Tp|]. split; [|exact (G1' p Hp)].
    split; [exact A1|]. split; [exact A2|]. left. rewrite Tp. exact Htoi. }
  assert (Hp' : block_partitioning (ro_b oti) (ff_tlen f) (ro_e oti) = (al, as_, nal, n)) by (rewrite F4; exact Hpart).
  pose proof (g_fdt_cached_delivers E parse_fdt cfg content toi now Htoi id inst f F1
                (C02Full.Struct oti content (toi, 0%nat) toi md5 (cf_max_cache cfg) al as_ nal n) C02Full.LiveAll
                (C02Full.genuine oti content al as_ nal n) pid_of (C02Full.covered al as_ nal n)
                (nci_state cfg oti content toi md5 al as_ nal n) (nci_writer cfg oti content toi md5 al as_ nal n)
                (nci_nc E cfg oti content toi md5 al as_ nal n He Hb HL Hu)
                (nci_step E cfg oti content toi md5 al as_ nal n Hfec He Hb HL Hu Hpart Nc)
                (nci_notcov cfg oti content toi md5 al as_ nal n He Hb HL Hu Hpart) (covered_incl' al as_ nal n)
                (nci_attach E cfg oti content toi md5 al as_ nal n He Hb HL Hu Hpart Hacc inst f F1 F2 F3 F4 F5)
                (nc_inv_push E oti content toi md5 (cf_max_cache cfg) al as_ nal n He Hb HL Hu)
                (nc_inv_cache oti content toi md5 (cf_max_cache cfg) al as_ nal n)
                (nc_inv_wb0 E oti content toi md5 (cf_max_cache cfg) al as_ nal n He Hb HL Hu)
                (nc_inv_oti oti content toi md5 (cf_max_cache cfg) al as_ nal n)
                (nc_inv_step E oti content toi md5 (cf_max_cache cfg) al as_ nal n Hfec He Hb HL Hu Hpart)
                oti al as_ nal n F3 Hp' (C02Full.n_pos _ _ _ _ _ _ _ Hb He HL Hpart) Hacc
                pf foti d Hpf Hparse Hlive pre post P1 Hfit G2' T2) as D.
  assert (D' : let '(_, r, c) := recv_run E parse_fdt cfg recv0 (map (fun p => RvPush p now) (pre ++ pf :: post)) ctx0 in
               SessDone cfg content toi f r c).
  { apply D.
    - intros a p b Eq Hp. rewrite app_nil_r. apply Cov. exact (Cl a p b Eq Hp).
    - apply Cov. exact Rec. }
  destruct (recv_run E parse_fdt cfg recv0 (map (fun p => RvPush p now) (pre ++ pf :: post)) ctx0) as [[xs r] c].
  eapply sess_done_delivered; eassumption.
Qed.
Print Assumptions session_fdt_cached_delivers.

(* ---------- the oracle schemes (Reed-Solomon FEC 5 / 129, RaptorQ, Raptor) at the receiver level (G4) ---------- *)
Section RSCacheInst.
  Variable E : env.
  Variable parse_fdt : list N -> option fdtinst.
  Variable cfg : rconfig.
  Variable oti : roti.
  Variable content : list N.
  Variable rep : N -> N -> list N.
  Variable toi : N.
  Variable md5 : option (list N).
  Variables al as_ nal n : N.
  Variable now : Z.
  Hypothesis Hfec : fec_oracle (ro_fec oti) = true.
  Hypothesis He : 0 < ro_e oti.
  Hypothesis Hb : 0 < ro_b oti.
  Hypothesis HL : 0 < lenN_ content.
  Hypothesis Hu64 : lenN_ content + ro_e oti < U64.
  Hypothesis Hpart : block_partitioning (ro_b oti) (lenN_ content) (ro_e oti) = (al, as_, nal, n).
  Hypothesis Htoi : toi <> 0.
  Notation max := (cf_max_cache cfg).
  Notation w := (toi, 0%nat).
  Hypothesis Hsound : forall s sh d, s < n -> Callable oti al as_ nal s sh -> NoDup (map fst sh) ->
    Forall (shard_ok oti content rep al as_ nal s) sh ->
    e_fec E toi (ro_fec oti) s (k_of al as_ nal s) (ro_e oti) (bsz oti content al as_ nal s) sh = Some d ->
    Good oti content al as_ nal n s d.
  Hypothesis HM : Mds E oti content rep toi al as_ nal n.
  Hypothesis Hnice : C02RS.Nice2 E oti content w md5 max al as_ nal n.
  Hypothesis Hacc : writer_accepts E toi.
  Variables (id : N) (inst : fdtinst) (f : fdtfile).
  Hypothesis Hfind : find (fun f => ff_toi f =? toi) (fi_files inst) = Some f.
  Hypothesis Hce : ff_cenc f = CNull.
  Hypothesis Hfo : match ff_oti f with Some x => Some x | None => fi_oti inst end = Some oti.
  Hypothesis Htl : ff_tlen f = lenN_ content.
  Hypothesis Hmd5 : ff_md5 f = md5.

  Notation SPr := (C02RS.Struct E oti content rep w toi md5 max al as_ nal n).

  Lemma rs_inv_push o c p : SPr o c -> or_push E p o c = pbstep E p o c.
  Proof.
    intros (St & Dy & _). destruct Dy as [D1 D2 D3 D4 D5 D6].
    apply (C02RS.or_push_static E oti content w toi md5 max al as_ nal He Hb HL Hu64 o c p St). exact D3.
  Qed.
  Lemma rs_inv_cache o c : SPr o c -> r_cache o = [] /\ r_cache_size o = 0.
  Proof. intros (St & _). destruct St. split; assumption. Qed.
  Lemma rs_inv_oti o c : SPr o c -> r_oti o <> None.
  Proof. intros (St & _). destruct St. congruence. Qed.
  Lemma rs_inv_step o c p : SPr o c -> genr oti content rep al as_ nal n p ->
    let (o2, c2) := or_push E p o c in SPr o2 c2 \/ r_state o2 <> Receiving.
  Proof.
    intros S0 [G _].
    pose proof (C02RS.step E oti content rep w toi md5 max al as_ nal n Hfec He Hb HL Hu64 Hpart Hsound o c p _ _ S0 G) as H.
    destruct (or_push E p o c) as [o2 c2]. cbn [C02RS.StepOut] in H.
    destruct H as [(S1 & _)|[(H1 & _)|([H1|H1] & _)]]; [left; exact S1|right; congruence|right; congruence|right; congruence].
  Qed.
  Lemma rs_inv_wb0 o c : SPr o c -> write_blocks E (S (length (r_blocks o))) 0 o c = (ROk o, c).
  Proof.
    intros (St & Dy & Fl). destruct Dy as [D1 D2 D3 D4 D5 D6]. cbn [write_blocks].
    destruct St as [S1 S2 S3 S4 S5 S6 S7 S8 S9 S10 S11 S12 S13 S14]. rewrite S14.
    destruct D1 as (bw & Hbw & _). rewrite Hbw.
    destruct (N.leb_spec (r_off o) 0) as [G|G]; [|reflexivity].
    assert (Z : r_off o = 0) by lia. rewrite Z. change (0 - 0) with 0. change (N.to_nat 0) with 0%nat.
    unfold C02RS.Flushed in Fl. rewrite Fl. cbn [negb].
    destruct (true && (0 <? N.of_nat (length (r_blocks o)))); reflexivity.
  Qed.

  Variables (pf : apkt) (foti : roti) (d : list N).
  Hypothesis Hpf : fdt_pkt_ok pf id foti d.
  Hypothesis Hparse : parse_fdt d = Some inst.
  Hypothesis Hlive : fdt_live cfg inst pf now.

  Lemma rs_cached_core pre post :
    Forall (pktc toi (genr oti content rep al as_ nal n)) pre -> cache_fits max 0 pre = true ->
    Forall (genr oti content rep al as_ nal n) post -> Forall (fun p => a_toi p = toi) post ->
    gclose (rs_pid oti) (C02RS.covered oti al as_ nal n) [] (pre ++ post) ->
    C02RS.covered oti al as_ nal n (map (rs_pid oti) (pre ++ post)) ->
    let '(_, r, c) := recv_run E parse_fdt cfg recv0 (map (fun p => RvPush p now) (pre ++ pf :: post)) ctx0 in
    SessDone cfg content toi f r c.
  Proof.
    intros P1 Hfit G2 T2 Cl Cv.
    assert (Hp' : block_partitioning (ro_b oti) (ff_tlen f) (ro_e oti) = (al, as_, nal, n)) by (rewrite Htl; exact Hpart).
    exact (g_fdt_cached_delivers E parse_fdt cfg content toi now Htoi id inst f Hfind
             SPr C02RS.LiveAll (genr oti content rep al as_ nal n) (rs_pid oti) (C02RS.covered oti al as_ nal n)
             (rsi_state E cfg oti content rep toi md5 al as_ nal n) (rsi_writer E cfg oti content rep toi md5 al as_ nal n)
             (rsi_nc E cfg oti content rep toi md5 al as_ nal n He Hb HL Hu64)
             (rsi_step E cfg oti content rep toi md5 al as_ nal n Hfec He Hb HL Hu64 Hpart Hsound HM Hnice)
             (rsi_notcov E cfg oti content rep toi md5 al as_ nal n He Hb HL Hu64 Hpart HM)
             (rsi_cov_incl oti al as_ nal n)
             (rsi_attach E cfg oti content rep toi md5 al as_ nal n He Hb HL Hu64 Hpart Htoi Hacc inst f Hfind Hce Hfo Htl Hmd5)
             rs_inv_push rs_inv_cache rs_inv_wb0 rs_inv_oti rs_inv_step
             oti al as_ nal n Hfo Hp' (C02Full.n_pos _ _ _ _ _ _ _ Hb He HL Hpart) Hacc
             pf foti d Hpf Hparse Hlive pre post P1 Hfit G2 T2 Cl Cv).
  Qed.
End RSCacheInst.

Theorem rs_session_fdt_cached_delivers E parse_fdt cfg oti content rep toi md5 now pf id foti d inst pre post :
  let L := lenN_ content in
  rs_scheme_ok oti L -> rs_blocks_ok oti L -> toi <> 0 ->
  fdt_pkt_ok pf id foti d -> parse_fdt d = Some inst -> fdt_live cfg inst pf now ->
  fdt_entry_for (fi_files inst) (fi_oti inst) toi oti L md5 ->
  writer_accepts E toi -> writes_succeed E toi -> md5_good E content md5 ->
  rs_oracle_mds E oti content rep toi -> rs_rep_sized oti rep ->
  rs_mem_need oti L <= cf_max_cache cfg -> nb_blocks_of oti L <= 4097 ->
  Forall (fun p => a_toi p = toi) (pre ++ post) ->
  Forall (fun p => rs_genuine_pkt oti content rep p = true) (pre ++ post) ->
  Forall (fun p => a_oti p = None /\ a_cenc p = None) pre ->
  cache_fits (cf_max_cache cfg) 0 pre = true ->
  rs_close_flag_ok oti L (pre ++ post) ->
  rs_recoverable oti L (pre ++ post) = true ->
  let '(_, r, c) := recv_run E parse_fdt cfg recv0 (map (fun p => RvPush p now) (pre ++ pf :: post)) ctx0 in
  session_delivered cfg inst content toi r c.
Proof.
  intros L (Hrsf & He & Hb & HL & Hu) Hrs Htoi Hpf Hparse Hlive (f & F1 & F2 & F3 & F4 & F5) Hacc Hwr Hmd5 Hor Hrz Hmax Hn T G Pre1 Hfit Cl Rec.
  destruct (rs_is_cls oti Hrsf) as [Hcls Hfec].
  destruct (partition_of oti L) as [[[al as_] nal] n] eqn:Hpart.
  pose proof (top_sound E oti content rep toi al as_ nal n Hcls He Hb HL Hpart (rs_oracle_mds_sound _ _ _ _ _ Hor)) as Hsound.
  pose proof (top_mds E oti content rep toi al as_ nal n Hcls Hpart Hor) as HM.
  pose proof Hpart as Hpart'. unfold partition_of in Hpart'.
  assert (Hnb : nb_blocks_of oti L = n) by (unfold nb_blocks_of; rewrite Hpart'; reflexivity).
  assert (Cov : forall l, rs_recoverable oti L l = true -> C02RS.covered oti al as_ nal n (map (rs_pid oti) l)).
  { intros l H. apply (recoverable_covered_rs oti); [exact Hcls|]. unfold rs_recoverable, source_ks in H. rewrite Hpart in H. exact H. }
  assert (Nc : C02RS.Nice2 E oti content (toi, 0%nat) md5 (cf_max_cache cfg) al as_ nal n).
  { split; [split; [exact Hwr|exact Hmd5]|]. split; [rewrite M_mem_need; exact Hmax|]. split; [rewrite <- Hnb; exact Hn|].
    apply (rs_blocks_ok_spec oti L); assumption. }
  assert (Gall : forall l, Forall (fun p => rs_genuine_pkt oti content rep p = true) l -> Forall (genr oti content rep al as_ nal n) l).
  { intros l Gl. pose proof (rs_genuine_pkt_spec oti content rep al as_ nal n l Hpart Gl) as G1. eapply Forall_impl; [|exact G1].
    intros p Hp. split; [exact Hp|exact (rs_genuine_sized oti content rep al as_ nal n p Hrsf Hrz Hp)]. }
  apply Forall_app in T. destruct T as [T1 T2]. apply Forall_app in G. destruct G as [G1 G2].
  pose proof (Gall _ G1) as G1'. pose proof (Gall _ G2) as G2'.
  assert (P1 : Forall (pktc toi (genr oti content rep al as_ nal n)) pre).
  { rewrite Forall_forall in *. intros p Hp. destruct (Pre1 p Hp) as (A1 & A2). pose proof (T1 p Hp) as Tp.
    split; [exact Tp|]. split; [|exact (G1' p Hp)].
    split; [exact A1|]. split; [exact A2|]. left. rewrite Tp. exact Htoi. }
  pose proof (rs_cached_core E parse_fdt cfg oti content rep toi md5 al as_ nal n now Hfec He Hb HL Hu Hpart' Htoi Hsound HM Nc Hacc
                id inst f F1 F2 F3 F4 F5 pf foti d Hpf Hparse Hlive pre post P1 Hfit G2' T2) as D.
  assert (D' : let '(_, r, c) := recv_run E parse_fdt cfg recv0 (map (fun p => RvPush p now) (pre ++ pf :: post)) ctx0 in
               SessDone cfg content toi f r c).
  { apply D.
    - intros a p b Eq Hp. rewrite app_nil_r. apply Cov. exact (Cl a p b Eq Hp).
    - apply Cov. exact Rec. }
  destruct (recv_run E parse_fdt cfg recv0 (map (fun p => RvPush p now) (pre ++ pf :: post)) ctx0) as [[xs r] c].
  eapply sess_done_delivered; eassumption.
Qed.

Theorem fq_session_fdt_cached_delivers E parse_fdt cfg oti content enc toi md5 now pf id foti d inst pre post :
  let L := lenN_ content in
  fq_scheme_ok oti L -> fq_blocks_ok oti L -> toi <> 0 ->
  fdt_pkt_ok pf id foti d -> parse_fdt d = Some inst -> fdt_live cfg inst pf now ->
  fdt_entry_for (fi_files inst) (fi_oti inst) toi oti L md5 ->
  writer_accepts E toi -> writes_succeed E toi -> md5_good E content md5 ->
  fq_oracle_sound E oti content enc toi -> fq_oracle_complete E oti content enc toi ->
  L <= cf_max_cache cfg -> nb_blocks_of oti L <= 4097 ->
  Forall (fun p => a_toi p = toi) (pre ++ post) ->
  Forall (fun p => fq_genuine_pkt oti content enc p = true) (pre ++ post) ->
  Forall (fun p => fq_sized_pkt oti p = true) (pre ++ post) ->
  Forall (fun p => a_oti p = None /\ a_cenc p = None) pre ->
  cache_fits (cf_max_cache cfg) 0 pre = true ->
  fq_close_flag_ok oti L (pre ++ post) ->
  fq_recoverable oti L (pre ++ post) = true ->
  let '(_, r, c) := recv_run E parse_fdt cfg recv0 (map (fun p => RvPush p now) (pre ++ pf :: post)) ctx0 in
  session_delivered cfg inst content toi r c.
Proof.
  intros L (Hf & He & Hb & HL & Hu) Hsch Htoi Hpf Hparse Hlive (f & F1 & F2 & F3 & F4 & F5) Hacc Hwr Hmd5 Hos Hoc Hmax Hn T G Z Pre1 Hfit Cl Rec.
  destruct (fq_is_fq oti Hf) as (Hcls & Hus & Hfec).
  destruct (partition_of oti L) as [[[al as_] nal] n] eqn:Hpart.
  pose proof Hpart as Hpart'. unfold partition_of in Hpart'.
  pose proof (top_sound_fq E oti content enc toi al as_ nal n Hcls Hus He Hb HL Hu Hpart Hos) as Hsound.
  pose proof (top_complete_fq E oti content enc toi al as_ nal n Hcls Hus He Hb HL Hu Hpart Hoc) as HM.
  assert (Hnb : nb_blocks_of oti L = n) by (unfold nb_blocks_of; rewrite Hpart'; reflexivity).
  assert (Cov : forall l, fq_recoverable oti L l = true -> C02RS.covered oti al as_ nal n (map (rs_pid oti) l)).
  { intros l H. apply (recoverable_covered_fq oti); [exact Hcls|]. unfold fq_recoverable, source_ks in H. rewrite Hpart in H. exact H. }
  assert (Nc : C02RS.Nice2 E oti content (toi, 0%nat) md5 (cf_max_cache cfg) al as_ nal n).
  { split; [split; [exact Hwr|exact Hmd5]|]. split; [unfold M; rewrite Hus; exact Hmax|]. split; [rewrite <- Hnb; exact Hn|].
    apply (fq_blocks_ok_spec oti L); assumption. }
  assert (Gall : forall l, Forall (fun p => fq_genuine_pkt oti content enc p = true) l -> Forall (fun p => fq_sized_pkt oti p = true) l ->
                           Forall (genr oti content enc al as_ nal n) l).
  { intros l Gl Zl. pose proof (fq_genuine_pkt_spec oti content enc al as_ nal n l Hpart Gl) as G1.
    pose proof (fq_sized_pkt_spec oti l Zl) as Z1. rewrite Forall_forall in *. intros p Hp. split; [exact (G1 p Hp)|exact (Z1 p Hp)]. }
  apply Forall_app in T. destruct T as [T1 T2]. apply Forall_app in G. destruct G as [G1 G2]. apply Forall_app in Z. destruct Z as [Z1 Z2].
  pose proof (Gall _ G1 Z1) as G1'. pose proof (Gall _ G2 Z2) as G2'.
  assert (P1 : Forall (pktc toi (genr oti content enc al as_ nal n)) pre).
  { rewrite Forall_forall in *. intros p Hp. destruct (Pre1 p Hp) as (A1 & A2). pose proof (T1 p Hp) as Tp.
    split; [exact Tp|]. split; [|exact (G1' p Hp)].
    split; [exact A1|]. split; [exact A2|]. left. rewrite Tp. exact Htoi. }
  pose proof (rs_cached_core E parse_fdt cfg oti content enc toi md5 al as_ nal n now Hfec He Hb HL Hu Hpart' Htoi Hsound HM Nc Hacc
                id inst f F1 F2 F3 F4 F5 pf foti d Hpf Hparse Hlive pre post P1 Hfit G2' T2) as D.
  assert (D' : let '(_, r, c) := recv_run E parse_fdt cfg recv0 (map (fun p => RvPush p now) (pre ++ pf :: post)) ctx0 in
               SessDone cfg content toi f r c).
  { apply D.
    - intros a p b Eq Hp. rewrite app_nil_r. apply Cov. exact (Cl a p b Eq Hp).
    - apply Cov. exact Rec. }
  destruct (recv_run E parse_fdt cfg recv0 (map (fun p => RvPush p now) (pre ++ pf :: post)) ctx0) as [[xs r] c].
  eapply sess_done_delivered; eassumption.
Qed.
Print Assumptions rs_session_fdt_cached_delivers.
Print Assumptions fq_session_fdt_cached_delivers.

(* ---------- the oracle schemes at the object level (G1 for Reed-Solomon / RaptorQ / Raptor) ---------- *)
Section OracleObj.
  Variable E : env.
  Variable oti : roti.
  Variable content : list N.
  Variable rep : N -> N -> list N.
  Variable toi : N.
  Variable md5 : option (list N).
  Variable max : N.
  Variables al as_ nal n : N.
  Hypothesis Hfec : fec_oracle (ro_fec oti) = true.
  Hypothesis He : 0 < ro_e oti.
  Hypothesis Hb : 0 < ro_b oti.
  Hypothesis HL : 0 < lenN_ content.
  Hypothesis Hu64 : lenN_ content + ro_e oti < U64.
  Hypothesis Hpart : block_partitioning (ro_b oti) (lenN_ content) (ro_e oti) = (al, as_, nal, n).
  Hypothesis Hsound : forall s sh d, s < n -> Callable oti al as_ nal s sh -> NoDup (map fst sh) ->
    Forall (shard_ok oti content rep al as_ nal s) sh ->
    e_fec E toi (ro_fec oti) s (k_of al as_ nal s) (ro_e oti) (bsz oti content al as_ nal s) sh = Some d ->
    Good oti content al as_ nal n s d.
  Notation w := (toi, 0%nat).
  Notation StructR := (C02RS.Struct E oti content rep w toi md5 max al as_ nal n).
  Notation genR := (C02RS.genuine oti content rep al as_ nal n).

  Lemma or_inv_state o c : StructR o c -> r_state o = Receiving.
  Proof. intros (St & _). destruct St. assumption. Qed.
  Lemma or_inv_push o c p : StructR o c -> or_push E p o c = pbstep E p o c.
  Proof.
    intros (St & Dy & _). destruct Dy as [D1 D2 D3 D4 D5 D6].
    apply (C02RS.or_push_static E oti content w toi md5 max al as_ nal He Hb HL Hu64 o c p St). exact D3.
  Qed.
  Lemma or_inv_step o c p : StructR o c -> genR p ->
    let (o2, c2) := or_push E p o c in StructR o2 c2 \/ r_state o2 <> Receiving.
  Proof.
    intros S0 G.
    pose proof (C02RS.step E oti content rep w toi md5 max al as_ nal n Hfec He Hb HL Hu64 Hpart Hsound o c p _ _ S0 G) as H.
    destruct (or_push E p o c) as [o2 c2]. cbn [C02RS.StepOut] in H.
    destruct H as [(S1 & _)|[(H1 & _)|([H1|H1] & _)]]; [left; exact S1|right; congruence|right; congruence|right; congruence].
  Qed.
  Lemma or_inv_cache o c : StructR o c -> r_cache o = [] /\ r_cache_size o = 0.
  Proof. intros (St & _). destruct St. split; assumption. Qed.
  Lemma or_inv_wb0 o c : StructR o c -> write_blocks E (S (length (r_blocks o))) 0 o c = (ROk o, c).
  Proof.
    intros (St & Dy & Fl). destruct Dy as [D1 D2 D3 D4 D5 D6]. cbn [write_blocks].
    destruct St as [S1 S2 S3 S4 S5 S6 S7 S8 S9 S10 S11 S12 S13 S14]. rewrite S14.
    destruct D1 as (bw & Hbw & _). rewrite Hbw.
    destruct (N.leb_spec (r_off o) 0) as [G|G]; [|reflexivity].
    assert (Z : r_off o = 0) by lia. rewrite Z. change (0 - 0) with 0. change (N.to_nat 0) with 0%nat.
    unfold C02RS.Flushed in Fl. rewrite Fl. cbn [negb].
    destruct (true && (0 <? N.of_nat (length (r_blocks o)))); reflexivity.
  Qed.

  Variables (fid : N) (files : list fdtfile) (inst : option roti) (f : fdtfile).
  Hypothesis Hfind : find (fun f => ff_toi f =? toi) files = Some f.
  Hypothesis Hce : ff_cenc f = CNull.
  Hypothesis Hfo : match ff_oti f with Some x => Some x | None => inst end = Some oti.
  Hypothesis Htl : ff_tlen f = lenN_ content.
  Hypothesis Hmd5 : ff_md5 f = md5.
  Hypothesis Htoi : toi <> 0.

  Theorem or_receive_cached_eq pre post :
    e_builder E toi 0%nat = WStore -> e_open_ok E w = true ->
    Forall cacheable pre -> cache_fits max 0 pre = true -> Forall genR pre ->
    receive_cached E fid files inst toi max pre post = receive E fid files inst toi max (pre ++ post).
  Proof.
    intros A1 A2 Fc Hf G. unfold receive_cached, receive.
    change (or_new toi max) with (Ocache toi max [] 0) at 1.
    rewrite (run_cache E toi max Htoi pre [] 0 ctx0 Fc Hf). cbn [app].
    destruct (C02RS.attach_struct E oti content rep w toi md5 max al as_ nal n He Hb HL Hu64 Hpart fid files inst f
                eq_refl Hfind Hce Hfo Htl Hmd5 A1 A2) as (o0 & c0 & Hat & S0).
    assert (Hp' : block_partitioning (ro_b oti) (ff_tlen f) (ro_e oti) = (al, as_, nal, n)) by (rewrite Htl; exact Hpart).
    assert (Hne : ff_tlen f <> 0) by (rewrite Htl; lia).
    pose proof (attach_fresh E fid files inst f toi max oti al as_ nal n ctx0 Hfind Hfo Hp' A1 A2 Hne) as Fr.
    rewrite Hat in Fr. injection Fr as Eo Ec.
    pose proof (attach_cached E fid files inst f toi max oti al as_ nal n ctx0 Hfind Hfo Hp' A1 A2 Hne
                  StructR genR or_inv_state or_inv_push or_inv_step or_inv_cache or_inv_wb0) as AC.
    rewrite <- Eo, <- Ec in AC.
    rewrite (AC S0 (or_introl (C02Full.n_pos _ _ _ _ _ _ _ Hb He HL Hpart)) pre (0 + sumlen pre) G).
    rewrite Hat, run_app. destruct (C02Full.run E pre (o0, c0)) as [o1 c1]. reflexivity.
  Qed.
End OracleObj.

(* Reed-Solomon FEC 5 / 129, object level: premises of rs_recoverable_delivers (on pre ++ post) + the cache premises *)
Theorem rs_cached_recoverable_delivers E oti content rep toi max fid files inst md5 pre post :
  let L := lenN_ content in
  rs_scheme_ok oti L -> rs_blocks_ok oti L -> toi <> 0 -> fdt_entry_for files inst toi oti L md5 ->
  writer_accepts E toi -> writes_succeed E toi -> md5_good E content md5 ->
  rs_oracle_mds E oti content rep toi -> rs_rep_sized oti rep ->
  rs_mem_need oti L <= max -> nb_blocks_of oti L <= 4097 ->
  Forall cacheable pre -> cache_fits max 0 pre = true ->
  Forall (fun p => rs_genuine_pkt oti content rep p = true) (pre ++ post) ->
  rs_close_flag_ok oti L (pre ++ post) ->
  rs_recoverable oti L (pre ++ post) = true ->
  let (o, c) := receive_cached E fid files inst toi max pre post in
  r_state o = Completed
  /\ ShapeDone content (toi, 0%nat) toi c
  /\ forall m, complete_exact content (m, calls_of (toi, 0%nat) (c_log c)) = true
                /\ P_C02_object (rs_recoverable oti L (pre ++ post)) content [(m, calls_of (toi, 0%nat) (c_log c))] = true.
Proof.
  intros L Hok Hrs Htoi Hent Hacc Hwr Hmd5 Hor Hrz Hmax Hn Fc Hfit G Cl Rec.
  pose proof Hok as (Hrsf & He & Hb & HL & Hu). pose proof Hent as (f & F1 & F2 & F3 & F4 & F5). pose proof Hacc as (A1 & A2).
  destruct (rs_is_cls oti Hrsf) as [Hcls Hfec].
  destruct (partition_of oti L) as [[[al as_] nal] n] eqn:Hpart.
  pose proof (top_sound E oti content rep toi al as_ nal n Hcls He Hb HL Hpart (rs_oracle_mds_sound _ _ _ _ _ Hor)) as Hsound.
  pose proof Hpart as Hpart'. unfold partition_of in Hpart'.
  pose proof (rs_genuine_pkt_spec oti content rep al as_ nal n pre Hpart (proj1 (proj1 (Forall_app _ _ _) G))) as G1'.
  rewrite (or_receive_cached_eq E oti content rep toi md5 max al as_ nal n Hfec He Hb HL Hu Hpart' Hsound fid files inst f
             F1 F2 F3 F4 F5 Htoi pre post A1 A2 Fc Hfit G1').
  exact (rs_recoverable_delivers E oti content rep toi max fid files inst md5 (pre ++ post) Hok Hrs Hent Hacc Hwr Hmd5 Hor Hrz Hmax Hn G Cl Rec).
Qed.
Print Assumptions rs_cached_recoverable_delivers.

(* ================= X. concrete instances: non-vacuity and refutations ================= *)
(* the 5-byte, 2-block object of C02Full (E = 2, B = 2; ex_pkts = (1,0) (0,1) (1,0) (0,0) (0,1), none with EXT_FTI):
   three packets cached before the FDT entry, the other two after; all five cached (completion during the replay) *)
Example ex_cached_object_computed :
  summary 7 (receive_cached env_ok 1 ex_files None 7 1000 (firstn 3 ex_pkts) (skipn 3 ex_pkts))
  = (Completed, [CallOpen true; CallWrite [1; 2; 3; 4] true; CallWrite [5] true; CallComplete])
  /\ summary 7 (receive_cached env_ok 1 ex_files None 7 1000 ex_pkts [])
     = (Completed, [CallOpen true; CallWrite [1; 2; 3; 4] true; CallWrite [5] true; CallComplete])
  /\ receive_cached env_ok 1 ex_files None 7 1000 (firstn 3 ex_pkts) (skipn 3 ex_pkts)
     = receive env_ok 1 ex_files None 7 1000 (firstn 3 ex_pkts ++ skipn 3 ex_pkts)
  /\ cache_fits 1000 0 ex_pkts = true.
Proof. vm_compute. repeat split. Qed.

Example ex_cached_object_by_theorem :
  let (o, c) := receive_cached env_ok 1 ex_files None 7 1000 (firstn 3 ex_pkts) (skipn 3 ex_pkts) in
  r_state o = Completed /\ ShapeDone ex_content (7, 0%nat) 7 c.
Proof.
  pose proof (nocode_cached_recoverable_delivers env_ok ex_oti ex_content 7 1000 1 ex_files None None
                (firstn 3 ex_pkts) (skipn 3 ex_pkts)) as H. cbv zeta in H.
  assert (P : let (o, c) := receive_cached env_ok 1 ex_files None 7 1000 (firstn 3 ex_pkts) (skipn 3 ex_pkts) in
              r_state o = Completed /\ ShapeDone ex_content (7, 0%nat) 7 c
              /\ forall m, complete_exact ex_content (m, calls_of (7, 0%nat) (c_log c)) = true
                           /\ P_C02_object (recoverable ex_oti (lenN_ ex_content) (firstn 3 ex_pkts ++ skipn 3 ex_pkts)) ex_content
                                           [(m, calls_of (7, 0%nat) (c_log c))] = true).
  { apply H.
    - repeat split; vm_compute; reflexivity.
    - discriminate.
    - exists (mk_ff 7 CNull (Some ex_oti) 5 None None false). repeat split.
    - split; reflexivity.
    - intros i. reflexivity.
    - exact I.
    - vm_compute. discriminate.
    - vm_compute. discriminate.
    - repeat constructor; discriminate.
    - vm_compute. reflexivity.
    - repeat constructor.
    - apply close_flag_ok_noflag. repeat constructor.
    - vm_compute. reflexivity. }
  destruct (receive_cached env_ok 1 ex_files None 7 1000 (firstn 3 ex_pkts) (skipn 3 ex_pkts)) as [o c].
  destruct P as (P1 & P2 & _). split; assumption.
Qed.

(* the empty object: one packet (payload id (0,0), no payload) cached before the FDT entry, or received after it;
   since the D48 repair the attach itself completes it (third line: before the repair (Receiving, [CallOpen true])) *)
Example ex_cached_empty_object :
  summary 7 (receive_cached env_ok 1 ex0_files None 7 1000 [src_pkt 7 0 0 false []] []) = (Completed, [CallOpen true; CallComplete])
  /\ summary 7 (receive_cached env_ok 1 ex0_files None 7 1000 [] [src_pkt 7 0 0 true []]) = (Completed, [CallOpen true; CallComplete])
  /\ summary 7 (receive_cached env_ok 1 ex0_files None 7 1000 [] []) = (Completed, [CallOpen true; CallComplete]).
Proof. vm_compute. repeat split. Qed.

(* the receiver level (toy session of C02Session.v, cf_max_cache = 1000): computed, and by the theorem *)
Example ex_session_cached_computed :
  sess (tx_parse false None) (tx_cfg true false) (firstn 3 ex_pkts ++ tx_fdt None :: skipn 3 ex_pkts)
  = ([POk; POk; POk; POk; POk; POk], [], [7], [], delivered_log)
  /\ sess (tx_parse false None) (tx_cfg true false) (ex_pkts ++ [tx_fdt None])
     = ([POk; POk; POk; POk; POk; POk], [], [7], [], delivered_log).
Proof. vm_compute. split; reflexivity. Qed.

Example ex_session_cached_by_theorem :
  let '(_, r, c) := recv_run env_ok (tx_parse false None) (tx_cfg true false) recv0
                             (map (fun p => RvPush p 100%Z) (firstn 3 ex_pkts ++ tx_fdt None :: skipn 3 ex_pkts)) ctx0 in
  session_delivered (tx_cfg true false) (tx_inst false None) ex_content 7 r c.
Proof.
  apply (session_fdt_cached_delivers env_ok (tx_parse false None) (tx_cfg true false) ex_oti ex_content 7 None 100%Z
           (tx_fdt None) 1 tx_foti tx_doc (tx_inst false None) (firstn 3 ex_pkts) (skipn 3 ex_pkts)).
  - repeat split; vm_compute; reflexivity.
  - discriminate.
  - apply tx_fdt_ok.
  - reflexivity.
  - left. reflexivity.
  - exists (mk_ff 7 CNull (Some ex_oti) 5 None None false). repeat split.
  - split; reflexivity.
  - intros i. reflexivity.
  - exact I.
  - vm_compute. discriminate.
  - vm_compute. discriminate.
  - repeat constructor.
  - repeat constructor.
  - repeat constructor.
  - vm_compute. reflexivity.
  - apply close_flag_ok_noflag. repeat constructor.
  - vm_compute. reflexivity.
Qed.

(* REFUTATION 1 (cache_fits): every other premise holds - genuine, recoverable, no flag, L = 5 <= cf_max_cache = 5 - but the
   five packets before the FDT instance carry 1 + 2 + 1 + 2 = 6 > 5 bytes when the fifth arrives (duplicates count): "Pkt
   cache is full", the object is abandoned and error-listed (what C17 demands), the FDT instance finds nothing to attach:
   NOTHING is delivered although every symbol and the FDT were received; four packets fit and are delivered.
   Afterwards the packets of the TOI are ignored (third run) until a symbol (0,0) arrives: it takes the TOI off the
   error list and starts a new reception from scratch - delivered if a whole cycle follows (fourth run; also when the new
   reception starts before the FDT instance: fifth run, cached again) *)
Example cache_bound_refuted :
  forallb (genuine_pkt ex_oti ex_content) ex_pkts = true /\ recoverable ex_oti 5 ex_pkts = true
  /\ map a_datalen ex_pkts = [1; 2; 1; 2; 2] /\ cache_fits 5 0 ex_pkts = false /\ cache_fits 5 0 (firstn 4 ex_pkts) = true
  /\ sess (tx_parse false None) (mk_rcfg 5 5 true false) (ex_pkts ++ [tx_fdt None]) = ([POk; POk; POk; POk; POk; POk], [], [], [7], [])
  /\ sess (tx_parse false None) (mk_rcfg 5 5 true false) (firstn 4 ex_pkts ++ [tx_fdt None]) = ([POk; POk; POk; POk; POk], [], [7], [], delivered_log)
  /\ sess (tx_parse false None) (mk_rcfg 5 5 true false)
          (ex_pkts ++ [tx_fdt None; src_pkt 7 1 0 false [5]; src_pkt 7 0 1 false [3; 4]])
     = ([POk; POk; POk; POk; POk; POk; POk; POk], [], [], [7], [])
  /\ sess (tx_parse false None) (mk_rcfg 5 5 true false)
          (ex_pkts ++ [tx_fdt None; src_pkt 7 1 0 false [5]; src_pkt 7 0 0 false [1; 2]; src_pkt 7 1 0 false [5]; src_pkt 7 0 1 false [3; 4]])
     = ([POk; POk; POk; POk; POk; POk; POk; POk; POk; POk], [], [7], [], delivered_log)
  /\ sess (tx_parse false None) (mk_rcfg 5 5 true false)
          (ex_pkts ++ [src_pkt 7 0 0 false [1; 2]; src_pkt 7 1 0 false [5]; src_pkt 7 0 1 false [3; 4]; tx_fdt None])
     = ([POk; POk; POk; POk; POk; POk; POk; POk; POk], [], [7], [], delivered_log).
Proof. vm_compute. repeat split. Qed.

(* the object receiver alone: the refused packet leaves it Errored; attach_fdt does not look at the state and still opens a
   writer, which gets nothing (at the receiver level the object has been dropped before the FDT instance arrives) *)
Example cache_bound_refuted_object :
  summary 7 (receive_cached env_ok 1 ex_files None 7 5 ex_pkts []) = (Errored, [CallOpen true]).
Proof. vm_compute. reflexivity. Qed.

(* the close-object flag among the cached packets (replay in arrival order, D43): the complete in-order transfer with the
   B flag on its last packet, no EXT_FTI, entirely before the FDT instance - a clean channel, the FDT merely late - is
   delivered (1st run; also when only the flagged packet comes after the FDT, 2nd run); by the theorem below *)
Example cached_close_flag_in_order_delivered :
  forallb (genuine_pkt ex_oti ex_content) ex_pkts_inorder = true /\ recoverable ex_oti 5 ex_pkts_inorder = true
  /\ cache_fits 1000 0 ex_pkts_inorder = true /\ map a_close_obj ex_pkts_inorder = [false; false; true]
  /\ sess (tx_parse false None) (tx_cfg true false) (ex_pkts_inorder ++ [tx_fdt None])
     = ([POk; POk; POk; POk], [], [7], [], delivered_log)
  /\ sess (tx_parse false None) (tx_cfg true false) (firstn 2 ex_pkts_inorder ++ tx_fdt None :: skipn 2 ex_pkts_inorder)
     = ([POk; POk; POk; POk], [], [7], [], delivered_log).
Proof. vm_compute. repeat split. Qed.

Example cached_close_flag_in_order_by_theorem :
  let '(_, r, c) := recv_run env_ok (tx_parse false None) (tx_cfg true false) recv0
                             (map (fun p => RvPush p 100%Z) (ex_pkts_inorder ++ tx_fdt None :: [])) ctx0 in
  session_delivered (tx_cfg true false) (tx_inst false None) ex_content 7 r c.
Proof.
  apply (session_fdt_cached_delivers env_ok (tx_parse false None) (tx_cfg true false) ex_oti ex_content 7 None 100%Z
           (tx_fdt None) 1 tx_foti tx_doc (tx_inst false None) ex_pkts_inorder []).
  - repeat split; vm_compute; reflexivity.
  - discriminate.
  - apply tx_fdt_ok.
  - reflexivity.
  - left. reflexivity.
  - exists (mk_ff 7 CNull (Some ex_oti) 5 None None false). repeat split.
  - split; reflexivity.
  - intros i. reflexivity.
  - exact I.
  - vm_compute. discriminate.
  - vm_compute. discriminate.
  - rewrite app_nil_r. repeat constructor.
  - rewrite app_nil_r. repeat constructor.
  - repeat constructor.
  - vm_compute. reflexivity.
  - rewrite app_nil_r. exact ex_inorder_flag_ok.
  - vm_compute. reflexivity.
Qed.

(* REFUTATION 2 (close_flag_ok of pre ++ post): a flag that arrives EARLY - on a cached packet after which the object is not
   yet covered - interrupts the object during the replay exactly as it does after the FDT (3rd run; close_flag_early_refuted): the
   flagged packet first (ex_pkts_flag_first), or the in-order transfer cached in reverse: every symbol and the FDT were
   received, the object is interrupted holding one symbol and error-listed, nothing is delivered *)
Example cached_close_flag_early_refuted :
  forallb (genuine_pkt ex_oti ex_content) ex_pkts_flag_first = true /\ recoverable ex_oti 5 ex_pkts_flag_first = true
  /\ cache_fits 1000 0 ex_pkts_flag_first = true /\ map a_close_obj ex_pkts_flag_first = [true; false; false]
  /\ sess (tx_parse false None) (tx_cfg true false) (ex_pkts_flag_first ++ [tx_fdt None])
     = ([POk; POk; POk; POk], [], [], [7], [EvBuilder 7 WStore; EvOpen (7, 0%nat) true; EvInterrupted (7, 0%nat)])
  /\ sess (tx_parse false None) (tx_cfg true false) (List.rev ex_pkts_inorder ++ [tx_fdt None])
     = ([POk; POk; POk; POk], [], [], [7], [EvBuilder 7 WStore; EvOpen (7, 0%nat) true; EvInterrupted (7, 0%nat)])
  /\ sess (tx_parse false None) (tx_cfg true false) (tx_fdt None :: [src_pkt 7 1 0 true [5]])
     = ([POk; POk], [], [], [7], [EvBuilder 7 WStore; EvOpen (7, 0%nat) true; EvInterrupted (7, 0%nat)]).
Proof. vm_compute. repeat split. Qed.

(* Reed-Solomon (XOR toy decoder of C02RS.v): three packets (repair symbols among them) cached, then the FDT, then two *)
Example rs_session_cached_computed :
  sess_env env_xor (txr_parse exr_oti 5) (tx_cfg true false) (firstn 3 exr_pkts ++ tx_fdt None :: skipn 3 exr_pkts)
  = ([POk; POk; POk; POk; POk; POk], [], [7], [], delivered_log)
  /\ sess_env env_xor (txr_parse exr_oti 5) (tx_cfg true false) (exr_pkts ++ [tx_fdt None])
     = ([POk; POk; POk; POk; POk; POk], [], [7], [], delivered_log).
Proof. vm_compute. split; reflexivity. Qed.

Example rs_session_cached_by_theorem :
  let '(_, r, c) := recv_run env_xor (txr_parse exr_oti 5) (tx_cfg true false) recv0
                             (map (fun p => RvPush p 100%Z) (firstn 3 exr_pkts ++ tx_fdt None :: skipn 3 exr_pkts)) ctx0 in
  session_delivered (tx_cfg true false) (txr_inst exr_oti 5) exr_content 7 r c.
Proof.
  apply (rs_session_fdt_cached_delivers env_xor (txr_parse exr_oti 5) (tx_cfg true false) exr_oti exr_content exr_rep 7 None 100%Z
           (tx_fdt None) 1 tx_foti tx_doc (txr_inst exr_oti 5) (firstn 3 exr_pkts) (skipn 3 exr_pkts)).
  - split; [left; reflexivity|]. repeat split; vm_compute; reflexivity.
  - vm_compute. reflexivity.
  - discriminate.
  - apply tx_fdt_ok.
  - reflexivity.
  - left. reflexivity.
  - exists (mk_ff 7 CNull (Some exr_oti) 5 None None false). repeat split.
  - split; reflexivity.
  - intros i. reflexivity.
  - exact I.
  - exact xor_dec_mds.
  - exact exr_rep_sized.
  - vm_compute. discriminate.
  - vm_compute. discriminate.
  - repeat constructor.
  - repeat constructor.
  - repeat constructor.
  - vm_compute. reflexivity.
  - apply rs_close_flag_ok_noflag. repeat constructor.
  - vm_compute. reflexivity.
Qed.

(* ---------- C16: late join when the OTI is only in the FDT (G3), setting of Proofs/C01Session.v ---------- *)
Lemma cache_fits_suffix max l0 l : cache_fits max 0 (l0 ++ l) = true -> cache_fits max 0 l = true.
Proof.
  intros H. apply cache_fits_spec. intros l1 p l2 Eq.
  pose proof (proj1 (cache_fits_spec max (l0 ++ l) 0) H (l0 ++ l1) p l2) as K.
  rewrite Eq, <- app_assoc in K. specialize (K eq_refl). rewrite sumlen_app in K. lia.
Qed.
Lemma cache_fits_skipn max (j : nat) l : cache_fits max 0 l = true -> cache_fits max 0 (skipn j l) = true.
Proof. intros H. rewrite <- (firstn_skipn j l) in H. exact (cache_fits_suffix max _ _ H). Qed.

(* imported here: Model/FdtRecv.v reuses field names of Model/ObjRecv.v (r_cache, r_tlen, ...) *)
From FluteV Require Import Model.BlockEnc Model.SenderCtl Model.Xml Model.FdtInst Model.FdtRecv Spec.C10Spec Proofs.FdtProofs
  Proofs.C01Full Proofs.C01Session.

Section ComposeCache.
  Variable rep : fec -> N -> list N -> N -> N -> list (list N).
  Variable raptor_src : list N -> N -> option (list (list N)).
  Variable cfg : fdt_cfg.
  Variable complete : bool.
  Variable now : Z.
  Variable m : fmeta.
  Variable content : list N.
  Variable E : env.
  Variable rcfg : rconfig.
  Variable nowr : Z.
  Variable id : N.
  Variable sct : option Z.
  Hypothesis HS : sender_ok cfg now m content.
  Hypothesis HD : doc_fits cfg complete now m.
  Hypothesis HR : receiver_ok E rcfg nowr sct cfg now m content.

  Notation toi := (m_toi m).
  Notation oti := (obj_roti cfg m).
  Notation L := (lenN_ content).
  Notation pf := (sess_fdt_pkt cfg complete now m id sct).

  (* any genuine packets of the object WITHOUT EXT_FTI / EXT_CENC / close-object flag that fit the cache, then the FDT
     packet, then one whole transfer *)
  Theorem session_cached_late_join_general window closable debug fti pre : (1 <= window)%nat ->
    Forall (fun p => a_toi p = toi) pre ->
    Forall (fun p => genuine_pkt oti content p = true) pre ->
    Forall (fun p => a_oti p = None /\ a_cenc p = None /\ a_close_obj p = false) pre ->
    cache_fits (cf_max_cache rcfg) 0 pre = true ->
    let '(_, r, cx) := recv_run E fdt_oracle rcfg recv0
                         (map (fun p => RvPush p nowr)
                              (pre ++ pf :: obj_wire rep raptor_src cfg m window closable debug content fti)) ctx0 in
    session_meta_delivered cfg complete now m content rcfg r cx.
  Proof.
    intros Hw Tp Gp Pp Hfit.
    destruct (obj_wire_facts rep raptor_src cfg now m content E rcfg nowr sct HS HR window closable debug fti Hw)
      as (Hnok & T & G & Rec & body & lst & Ew & Fb & Cl).
    cbv zeta in Hnok, T, G, Rec, Ew. set (w := obj_wire rep raptor_src cfg m window closable debug content fti) in *.
    pose proof HS as (_ & _ & _ & _ & _ & _ & _ & _ & _ & Htoi & _).
    pose proof HR as (Hwa & Hws & Hmd5 & Hmax & Hnb & _).
    assert (Fp : Forall (fun q => a_close_obj q = false) pre).
    { rewrite Forall_forall in *. intros q Hq. apply (Pp q Hq). }
    assert (Cf : close_flag_ok oti L (pre ++ w)).
    { rewrite Ew, app_assoc. apply close_flag_ok_last; [apply Forall_app; split; assumption|].
      rewrite <- app_assoc, <- Ew. exact (Rec pre). }
    pose proof (session_fdt_cached_delivers E fdt_oracle rcfg oti content toi (obj_md5 m) nowr pf id (nocode_roti (c_oti cfg))
                  (fdt_doc cfg complete now m) (sess_inst cfg now m) pre w Hnok Htoi
                  (sess_pf_ok cfg complete now m content id sct HS HD)
                  (sess_oracle rep raptor_src cfg complete now m content E rcfg nowr sct HS HR)
                  (sess_live cfg complete now m content E rcfg nowr id sct HR)
                  (sess_entry cfg now m content HS)
                  Hwa Hws Hmd5 Hmax Hnb (proj2 (Forall_app _ _ _) (conj Tp T)) (proj2 (Forall_app _ _ _) (conj Gp G))
                  (Forall_impl _ (fun p H => conj (proj1 H) (proj1 (proj2 H))) Pp) Hfit Cf (Rec pre)) as D.
    destruct (recv_run E fdt_oracle rcfg recv0 (map (fun p => RvPush p nowr) (pre ++ pf :: w)) ctx0) as [[xs r] cx].
    split; [exact D|]. destruct D as (_ & Hex & _).
    destruct (sess_meta rep raptor_src cfg complete now m content E rcfg nowr sct HS HR cx Hex) as [P M].
    split; [exact P|]. split; [exact (sess_oracle rep raptor_src cfg complete now m content E rcfg nowr sct HS HR)|exact M].
  Qed.

  (* C16 corollary: the receiver joins at ANY packet offset j of a carousel transfer WITHOUT in-band FTI (the OTI is only
     in the FDT): what is left of the cycle is cached - it must fit the cache -, then the FDT packet (replay in arrival order), then one
     whole further transfer *)
  Theorem session_cached_late_join window1 debug1 (j : nat) window closable debug fti : (1 <= window1)%nat -> (1 <= window)%nat ->
    cache_fits (cf_max_cache rcfg) 0 (skipn j (obj_wire rep raptor_src cfg m window1 false debug1 content false)) = true ->
    let '(_, r, cx) := recv_run E fdt_oracle rcfg recv0
                         (map (fun p => RvPush p nowr)
                              (skipn j (obj_wire rep raptor_src cfg m window1 false debug1 content false)
                               ++ pf :: obj_wire rep raptor_src cfg m window closable debug content fti)) ctx0 in
    session_meta_delivered cfg complete now m content rcfg r cx.
  Proof.
    intros Hw1 Hw Hfit.
    destruct (obj_wire_facts rep raptor_src cfg now m content E rcfg nowr sct HS HR window1 false debug1 false Hw1)
      as (_ & T & G & _ & body & lst & Ew & Fb & Cl).
    cbv zeta in T, G, Ew. set (w1 := obj_wire rep raptor_src cfg m window1 false debug1 content false) in *.
    assert (Sub : forall P : apkt -> Prop, Forall P w1 -> Forall P (skipn j w1)).
    { intros P F. rewrite <- (firstn_skipn j w1) in F. apply Forall_app in F. apply F. }
    apply session_cached_late_join_general; [exact Hw|apply Sub; exact T|apply Sub; exact G|apply Sub|exact Hfit].
    assert (Fc : Forall (fun q => a_close_obj q = false) w1).
    { rewrite Ew. apply Forall_app. split; [exact Fb|]. constructor; [exact Cl|constructor]. }
    unfold w1, obj_wire in Fc |- *. apply Forall_forall. intros p Hp. rewrite Forall_forall in Fc.
    split; [|split; [|exact (Fc p Hp)]]; unfold wire_pkts in Hp; apply in_map_iff in Hp; destruct Hp as (q0 & <- & _); reflexivity.
  Qed.
End ComposeCache.
Print Assumptions session_cached_late_join_general.
Print Assumptions session_cached_late_join.

(* non-vacuity: the session of C01Session.v (real XML bytes through the oracle) as a carousel WITHOUT EXT_FTI, cycle
   (0,0) (1,0) (0,1): every join offset - by computation and by the theorem (cf_max_cache = 1000) *)
Example exs_cached_late_computed :
  forallb (fun j => match exs_run (skipn j (exs_wire false) ++ exs_pf :: exs_wire false) with
                    | (_, [], [7], [], l) => list_eqb (fun a b => match a, b with
                                                                 | EvWrite _ x _, EvWrite _ y _ => eqb_bytes x y
                                                                 | EvBuilder _ _, EvBuilder _ _ | EvOpen _ _, EvOpen _ _
                                                                 | EvComplete _, EvComplete _ => true
                                                                 | _, _ => false end) l exs_log
                    | _ => false end) [0; 1; 2; 3; 4]%nat = true
  /\ forallb (fun p => match a_oti p with None => true | Some _ => false end) (exs_wire false) = true.
Proof. vm_compute. split; reflexivity. Qed.

Example exs_cached_late_by_theorem j closable fti :
  let '(_, r, cx) := recv_run exs_env fdt_oracle exs_rcfg recv0
                       (map (fun p => RvPush p exs_nowr)
                            (skipn j (obj_wire no_rep no_rsrc exs_cfg exs_m 2 false true ex_content false)
                             ++ sess_fdt_pkt exs_cfg false exs_now exs_m 1 exs_sct
                                :: obj_wire no_rep no_rsrc exs_cfg exs_m 2 closable true ex_content fti)) ctx0 in
  session_meta_delivered exs_cfg false exs_now exs_m ex_content exs_rcfg r cx.
Proof.
  apply (session_cached_late_join no_rep no_rsrc exs_cfg false exs_now exs_m ex_content exs_env exs_rcfg
           exs_nowr 1 exs_sct exs_sender_ok exs_doc_fits exs_receiver_ok' 2 true j 2 closable true fti le_1_2 le_1_2).
  apply cache_fits_skipn. vm_compute. reflexivity.
Qed.
