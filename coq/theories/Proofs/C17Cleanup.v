(* C17, the cleanup clause and the exact abandon rule of the packet cache.
   Part 1: what Receiver::cleanup (RvCleanup now expired expired_fdt) does to a state: exact
           characterisation, releases, ledger monotone, terminal calls of the released writers.
   Part 2: invariants of every reachable state used by the corollaries (keys of the FDT receivers,
           their states, r_max of every object = cf_max_cache).
   Part 3: the abandon rule of ObjectReceiver::cache, exactly.
   Part 4: memory bounded by configuration: what P_C17_bounds gives, and what it does not. *)
From FluteV Require Import Model.ObjRecv Model.Recv Spec.RecvSpec Spec.C17Spec Proofs.RecvProofs Proofs.C17Full.
From FluteV Require Proofs.C09Full.
From Coq Require Import Lia.
Open Scope N_scope.

Arguments N.add : simpl never. Arguments N.mul : simpl never. Arguments N.sub : simpl never.
Arguments N.eqb : simpl never. Arguments N.ltb : simpl never. Arguments N.leb : simpl never.
Arguments N.div : simpl never. Arguments N.modulo : simpl never.

(* ================= Part 1: the cleanup step ================= *)

Definition memN (x : N) (l : list N) : bool := existsb (N.eqb x) l.
Definition has_key (t : N) (l : list (N * objrecv)) : bool := existsb (fun q => fst q =? t) l.

Lemma memN_In x l : memN x l = true <-> In x l.
Proof.
  unfold memN. rewrite existsb_exists. split.
  - intros (y & Hy & E). apply N.eqb_eq in E. subst y. exact Hy.
  - intros H. exists x. split; [exact H|apply N.eqb_refl].
Qed.
Lemma has_key_In t l : has_key t l = true <-> In t (map fst l).
Proof.
  unfold has_key. rewrite existsb_exists. split.
  - intros (q & Hq & E). apply N.eqb_eq in E. subst t. apply in_map. exact Hq.
  - intros H. apply in_map_iff in H. destruct H as (q & E & Hq). exists q. split; [exact Hq|]. apply N.eqb_eq. exact E.
Qed.

(* one iteration of the loop of cleanup_objects *)
Definition cl_step (acc : recv * ctx) (toi : N) : recv * ctx :=
  let (r1, c1) := acc in
  remove_obj toi (mk_recv (rv_objects r1) (rv_completed r1) (filter (fun t => negb (t =? toi)) (rv_error r1))
                          (rv_fdt_receivers r1) (rv_fdt_current r1) (rv_closed r1)) c1.
(* only objects still in the map can time out *)
Definition cl_live (r : recv) (expired : list N) : list N := filter (fun t => has_key t (rv_objects r)) expired.
(* cleanup_fdt *)
Definition fdt_kept (expired_fdt : list N) (q : N * fdtrecv) : bool :=
  match fr_state (snd q) with
  | FComplete => true
  | FReceiving => negb (memN (fst q) expired_fdt)
  | _ => false
  end.
Definition cl_fdt (now : Z) (expired_fdt : list N) (l : list (N * fdtrecv)) : list (N * fdtrecv) :=
  filter (fdt_kept expired_fdt) (map (fun q => (fst q, fr_update_expired (snd q) now)) l).

Lemma recv_step_cleanup E parse_fdt cfg r c now expired expired_fdt :
  recv_step E parse_fdt cfg r (RvCleanup now expired expired_fdt) c =
  let (r1, c1) := fold_left cl_step (cl_live r expired) (r, c) in
  (POk, mk_recv (rv_objects r1) (rv_completed r1) (rv_error r1) (cl_fdt now expired_fdt (rv_fdt_receivers r1))
                (rv_fdt_current r1) (rv_closed r1), c1).
Proof. reflexivity. Qed.

(* ---- lists ---- *)
Lemma filter_filter {A} (f g : A -> bool) l : filter f (filter g l) = filter (fun x => g x && f x) l.
Proof.
  induction l as [|x l IH]; cbn [filter]; [reflexivity|].
  destruct (g x); cbn [filter andb]; [destruct (f x)|]; rewrite IH; reflexivity.
Qed.
Lemma filter_ext_in' {A} (f g : A -> bool) l : (forall x, In x l -> f x = g x) -> filter f l = filter g l.
Proof.
  induction l as [|x l IH]; intros H; cbn [filter]; [reflexivity|].
  rewrite (H x (or_introl eq_refl)), IH; [reflexivity|]. intros y Hy. apply H. right. exact Hy.
Qed.
Lemma filter_all {A} (f : A -> bool) l : (forall x, In x l -> f x = true) -> filter f l = l.
Proof.
  induction l as [|x l IH]; intros H; cbn [filter]; [reflexivity|].
  rewrite (H x (or_introl eq_refl)), IH; [reflexivity|]. intros y Hy. apply H. right. exact Hy.
Qed.
Lemma filter_none {A} (f : A -> bool) l : (forall x, In x l -> f x = false) -> filter f l = [].
Proof.
  induction l as [|x l IH]; intros H; cbn [filter]; [reflexivity|].
  rewrite (H x (or_introl eq_refl)). apply IH. intros y Hy. apply H. right. exact Hy.
Qed.
Lemma sum_filter_le {A} (f : A -> N) g l : sumN' (map f (filter g l)) <= sumN' (map f l).
Proof.
  unfold sumN'. induction l as [|x l IH]; cbn [filter map fold_right]; [lia|].
  destruct (g x); cbn [map fold_right]; lia.
Qed.
Lemma lenN_filter_le {A} (g : A -> bool) l : lenN_ (filter g l) <= lenN_ l.
Proof. unfold lenN_. pose proof (filter_length_le g l). lia. Qed.

(* ---- remove_obj, field by field ---- *)
Lemma del_obj_absent toi (l : list (N * objrecv)) :
  find (fun p => fst p =? toi) l = None -> del_obj toi l = l.
Proof.
  intros H. unfold del_obj. apply filter_all. intros x Hx.
  pose proof (find_none _ _ H x Hx) as K. cbn beta in K. rewrite K. reflexivity.
Qed.

Lemma remove_obj_fields toi r c :
  let r' := fst (remove_obj toi r c) in
  rv_objects r' = del_obj toi (rv_objects r) /\ rv_completed r' = rv_completed r /\ rv_error r' = rv_error r
  /\ rv_fdt_receivers r' = rv_fdt_receivers r /\ rv_fdt_current r' = rv_fdt_current r /\ rv_closed r' = rv_closed r.
Proof.
  unfold remove_obj, get_obj. destruct (find (fun p => fst p =? toi) (rv_objects r)) as [q|] eqn:Ef; cbn [fst].
  - cbn. repeat split.
  - rewrite (del_obj_absent _ _ Ef). repeat split.
Qed.

Lemma cl_fold_fields : forall l r c,
  let r' := fst (fold_left cl_step l (r, c)) in
  rv_objects r' = filter (fun q => negb (memN (fst q) l)) (rv_objects r)
  /\ rv_completed r' = rv_completed r
  /\ rv_error r' = filter (fun t => negb (memN t l)) (rv_error r)
  /\ rv_fdt_receivers r' = rv_fdt_receivers r /\ rv_fdt_current r' = rv_fdt_current r /\ rv_closed r' = rv_closed r.
Proof.
  induction l as [|t l IH]; intros r c; cbn [fold_left].
  - cbn [fst memN existsb negb]. rewrite !filter_all by reflexivity. repeat split.
  - cbv zeta. set (x0 := cl_step (r, c) t). unfold cl_step in x0. subst x0.
    match goal with |- context [remove_obj t ?x c] =>
      pose proof (remove_obj_fields t x c) as (R1 & R2 & R3 & R4 & R5 & R6); destruct (remove_obj t x c) as [r1 c1] end.
    cbn [fst rv_objects rv_completed rv_error rv_fdt_receivers rv_fdt_current rv_closed] in *.
    destruct (IH r1 c1) as (I1 & I2 & I3 & I4 & I5 & I6).
    rewrite I1, I2, I3, I4, I5, I6, R1, R2, R3, R4, R5, R6. unfold del_obj. rewrite !filter_filter.
    split; [|split; [reflexivity|split; [|repeat split]]].
    + apply filter_ext_in'. intros q _. unfold memN. cbn [existsb]. rewrite negb_orb. reflexivity.
    + apply filter_ext_in'. intros x _. unfold memN. cbn [existsb]. rewrite negb_orb. reflexivity.
Qed.

(* ---- the state after a cleanup, exactly ---- *)
Definition cleanup_result (now : Z) (expired expired_fdt : list N) (r : recv) : recv :=
  mk_recv (filter (fun q => negb (memN (fst q) expired)) (rv_objects r))
          (rv_completed r)
          (filter (fun t => negb (memN t expired && has_key t (rv_objects r))) (rv_error r))
          (cl_fdt now expired_fdt (rv_fdt_receivers r))
          (rv_fdt_current r) (rv_closed r).

Lemma memN_cl_live r expired t : memN t (cl_live r expired) = memN t expired && has_key t (rv_objects r).
Proof.
  apply eq_true_iff_eq. rewrite andb_true_iff, !memN_In. unfold cl_live. rewrite filter_In. reflexivity.
Qed.

Theorem cleanup_state E parse_fdt cfg r c now expired expired_fdt :
  snd (fst (recv_step E parse_fdt cfg r (RvCleanup now expired expired_fdt) c)) = cleanup_result now expired expired_fdt r
  /\ fst (fst (recv_step E parse_fdt cfg r (RvCleanup now expired expired_fdt) c)) = POk.
Proof.
  rewrite recv_step_cleanup.
  pose proof (cl_fold_fields (cl_live r expired) r c) as (I1 & I2 & I3 & I4 & I5 & I6).
  destruct (fold_left cl_step (cl_live r expired) (r, c)) as [r1 c1]. cbn [fst snd] in *.
  split; [|reflexivity]. unfold cleanup_result. rewrite I1, I2, I3, I4, I5, I6. f_equal.
  - apply filter_ext_in'. intros q Hq. rewrite memN_cl_live.
    assert (K : has_key (fst q) (rv_objects r) = true) by (apply has_key_In, in_map, Hq).
    rewrite K, andb_true_r. reflexivity.
  - apply filter_ext_in'. intros t _. rewrite memN_cl_live. reflexivity.
Qed.

(* (a) no object named by [expired] remains - there is no exemption: whatever its state, with or
   without FDT, with or without an open writer *)
Theorem cleanup_releases_objects now expired expired_fdt r :
  forall q, In q (rv_objects (cleanup_result now expired expired_fdt r)) -> memN (fst q) expired = false.
Proof.
  intros q Hq. cbn [cleanup_result rv_objects] in Hq. apply filter_In in Hq. destruct Hq as [_ H].
  destruct (memN (fst q) expired); [discriminate|reflexivity].
Qed.
Corollary cleanup_get_obj_none now expired expired_fdt r toi :
  memN toi expired = true -> get_obj (cleanup_result now expired expired_fdt r) toi = None.
Proof.
  intros H. unfold get_obj. destruct (find _ _) as [q|] eqn:Ef; [|reflexivity].
  apply find_some in Ef. destruct Ef as [Hin E]. apply N.eqb_eq in E. subst toi.
  rewrite (cleanup_releases_objects _ _ _ _ q Hin) in H. discriminate.
Qed.

(* (b) FDT receivers: whatever remains under an id named by [expired_fdt] is complete - whatever
   cf_exp_check (fr_check) says; receivers in error or expired are released even when not named *)
Lemma fr_update_expired_state f now :
  fr_state (fr_update_expired f now) = fr_state f
  \/ (fr_state f = FComplete /\ fr_state (fr_update_expired f now) = FExpired).
Proof.
  unfold fr_update_expired. destruct (fr_state f) eqn:Es; try (left; congruence).
  destruct (_ && _); [right; split; reflexivity|left; congruence].
Qed.
Theorem cleanup_releases_fdt now expired expired_fdt r :
  forall q, In q (rv_fdt_receivers (cleanup_result now expired expired_fdt r)) ->
    fr_state (snd q) = FComplete \/ (fr_state (snd q) = FReceiving /\ memN (fst q) expired_fdt = false).
Proof.
  intros q Hq. cbn [cleanup_result rv_fdt_receivers] in Hq. unfold cl_fdt in Hq. apply filter_In in Hq.
  destruct Hq as [_ H]. unfold fdt_kept in H. destruct (fr_state (snd q)); try discriminate; [right|left; reflexivity].
  split; [reflexivity|]. destruct (memN (fst q) expired_fdt); [discriminate|reflexivity].
Qed.
Corollary cleanup_releases_fdt_named now expired expired_fdt r :
  forall q, In q (rv_fdt_receivers (cleanup_result now expired expired_fdt r)) ->
    memN (fst q) expired_fdt = true -> fr_state (snd q) = FComplete.
Proof.
  intros q Hq Hm. destruct (cleanup_releases_fdt _ _ _ _ q Hq) as [H|[_ H]]; [exact H|congruence].
Qed.
(* what remains comes from the state before: same key, same receiver up to the expiry flag *)
Theorem cleanup_fdt_from_before now expired expired_fdt r :
  forall q, In q (rv_fdt_receivers (cleanup_result now expired expired_fdt r)) ->
    exists q0, In q0 (rv_fdt_receivers r) /\ q = (fst q0, fr_update_expired (snd q0) now)
               /\ fr_state (snd q0) = fr_state (snd q).
Proof.
  intros q Hq. cbn [cleanup_result rv_fdt_receivers] in Hq. unfold cl_fdt in Hq. apply filter_In in Hq.
  destruct Hq as [Hin H]. apply in_map_iff in Hin. destruct Hin as (q0 & <- & Hq0).
  exists q0. split; [exact Hq0|split; [reflexivity|]]. cbn [snd fst] in *.
  destruct (fr_update_expired_state (snd q0) now) as [K|[_ K]]; [congruence|].
  unfold fdt_kept in H. cbn [snd] in H. rewrite K in H. discriminate.
Qed.
(* an FDT receiver that is neither named nor in a final state stays, unchanged *)
Theorem cleanup_fdt_unnamed_kept now expired expired_fdt r q :
  In q (rv_fdt_receivers r) -> fr_state (snd q) = FReceiving -> memN (fst q) expired_fdt = false ->
  In q (rv_fdt_receivers (cleanup_result now expired expired_fdt r)).
Proof.
  intros Hq Hs Hm. cbn [cleanup_result rv_fdt_receivers]. unfold cl_fdt. apply filter_In. split.
  - apply in_map_iff. exists q. split; [|exact Hq]. unfold fr_update_expired. rewrite Hs. destruct q; reflexivity.
  - unfold fdt_kept. rewrite Hs, Hm. reflexivity.
Qed.

(* (d) objects that are not named keep their state exactly, in the same order; the lists of
   completed TOIs and of current FDT instances and the close flag are untouched *)
Theorem cleanup_frame now expired expired_fdt r :
  let r' := cleanup_result now expired expired_fdt r in
  rv_objects r' = filter (fun q => negb (memN (fst q) expired)) (rv_objects r)
  /\ (forall q, In q (rv_objects r) -> memN (fst q) expired = false -> In q (rv_objects r'))
  /\ (forall toi, memN toi expired = false -> get_obj r' toi = get_obj r toi)
  /\ rv_completed r' = rv_completed r /\ rv_fdt_current r' = rv_fdt_current r /\ rv_closed r' = rv_closed r
  /\ (forall t, In t (rv_error r') <-> In t (rv_error r) /\ ~ (In t expired /\ In t (map fst (rv_objects r)))).
Proof.
  cbv zeta. split; [reflexivity|]. split; [|split; [|split; [reflexivity|split; [reflexivity|split; [reflexivity|]]]]].
  - intros q Hq Hm. cbn [cleanup_result rv_objects]. apply filter_In. split; [exact Hq|rewrite Hm; reflexivity].
  - intros toi Hm. unfold get_obj. cbn [cleanup_result rv_objects]. f_equal.
    induction (rv_objects r) as [|q l IH]; cbn [filter find]; [reflexivity|].
    destruct (fst q =? toi) eqn:Eq.
    + apply N.eqb_eq in Eq. rewrite Eq, Hm. cbn [negb find]. rewrite Eq, N.eqb_refl. reflexivity.
    + destruct (negb (memN (fst q) expired)); cbn [find]; [|exact IH]. rewrite Eq. exact IH.
  - intros t. cbn [cleanup_result rv_error]. rewrite filter_In, negb_true_iff, andb_false_iff.
    split; intros [H1 H2]; (split; [exact H1|]).
    + intros [A B]. apply memN_In in A. apply has_key_In in B. destruct H2; congruence.
    + destruct (memN t expired) eqn:A; [|left; reflexivity]. right.
      destruct (has_key t (rv_objects r)) eqn:B; [|reflexivity].
      exfalso. apply H2. split; [apply memN_In; exact A|apply has_key_In; exact B].
Qed.

(* (c) the ledger does not grow *)
Lemma fdt_ledger_update f now : fdt_ledger (fr_update_expired f now) = fdt_ledger f.
Proof. unfold fr_update_expired. destruct (fr_state f); try reflexivity. destruct (_ && _); reflexivity. Qed.
Lemma fdt_items_update f now : fdt_items (fr_update_expired f now) = fdt_items f.
Proof. unfold fr_update_expired. destruct (fr_state f); try reflexivity. destruct (_ && _); reflexivity. Qed.

Lemma cl_fdt_sum_le (g : fdtrecv -> N) now expired_fdt l :
  (forall f, g (fr_update_expired f now) = g f) ->
  sumN' (map (fun p => g (snd p)) (cl_fdt now expired_fdt l)) <= sumN' (map (fun p => g (snd p)) l).
Proof.
  intros Hg. unfold cl_fdt. etransitivity; [apply sum_filter_le|]. rewrite map_map. cbn [snd].
  apply N.eq_le_incl. f_equal. apply map_ext. intros q. apply Hg.
Qed.

Theorem cleanup_ledger_le now expired expired_fdt r :
  recv_ledger (cleanup_result now expired expired_fdt r) <= recv_ledger r
  /\ recv_items (cleanup_result now expired expired_fdt r) <= recv_items r
  /\ recv_decoders (cleanup_result now expired expired_fdt r) <= recv_decoders r.
Proof.
  unfold recv_ledger, recv_items, recv_decoders.
  cbn [cleanup_result rv_objects rv_completed rv_error rv_fdt_receivers rv_fdt_current].
  pose proof (sum_filter_le (fun p : N * objrecv => obj_ledger (snd p)) (fun q => negb (memN (fst q) expired)) (rv_objects r)).
  pose proof (sum_filter_le (fun p : N * objrecv => obj_items (snd p)) (fun q => negb (memN (fst q) expired)) (rv_objects r)).
  pose proof (sum_filter_le (fun p : N * objrecv => obj_decoders (snd p)) (fun q => negb (memN (fst q) expired)) (rv_objects r)).
  pose proof (cl_fdt_sum_le fdt_ledger now expired_fdt (rv_fdt_receivers r) (fun f => fdt_ledger_update f now)).
  pose proof (cl_fdt_sum_le fdt_items now expired_fdt (rv_fdt_receivers r) (fun f => fdt_items_update f now)).
  pose proof (cl_fdt_sum_le (fun f => match fr_obj f with Some o => obj_decoders o | None => 0 end) now expired_fdt
                            (rv_fdt_receivers r)) as Hd.
  pose proof (lenN_filter_le (fun t => negb (memN t expired && has_key t (rv_objects r))) (rv_error r)).
  split; [lia|split; [lia|]].
  assert (forall f, match fr_obj (fr_update_expired f now) with Some o => obj_decoders o | None => 0 end
                    = match fr_obj f with Some o => obj_decoders o | None => 0 end) as Hu.
  { intros f. unfold fr_update_expired. destruct (fr_state f); try reflexivity. destruct (_ && _); reflexivity. }
  specialize (Hd Hu). lia.
Qed.

(* what is released, exactly: the ledger after = the ledger before - the released objects - the
   released FDT receivers *)
Lemma sum_filter_split {A} (f : A -> N) g l :
  sumN' (map f l) = sumN' (map f (filter g l)) + sumN' (map f (filter (fun x => negb (g x)) l)).
Proof.
  unfold sumN'. induction l as [|x l IH]; cbn [filter map fold_right]; [reflexivity|].
  destruct (g x); cbn [negb map fold_right]; lia.
Qed.
Theorem cleanup_objects_released now expired expired_fdt r :
  sumN' (map (fun p => obj_ledger (snd p)) (rv_objects r))
  = sumN' (map (fun p => obj_ledger (snd p)) (rv_objects (cleanup_result now expired expired_fdt r)))
    + sumN' (map (fun p => obj_ledger (snd p)) (filter (fun q => memN (fst q) expired) (rv_objects r))).
Proof.
  cbn [cleanup_result rv_objects].
  rewrite (sum_filter_split (fun p : N * objrecv => obj_ledger (snd p)) (fun q => negb (memN (fst q) expired)) (rv_objects r)).
  do 3 f_equal. apply filter_ext_in'. intros q _. apply negb_involutive.
Qed.

(* ---- the writers of the released objects ---- *)
Definition log_ext (c c' : ctx) : Prop := exists l, c_log c' = c_log c ++ l.
Lemma log_ext_refl c : log_ext c c. Proof. exists []. rewrite app_nil_r. reflexivity. Qed.
Lemma log_ext_trans a b c : log_ext a b -> log_ext b c -> log_ext a c.
Proof. intros [l1 H1] [l2 H2]. exists (l1 ++ l2). rewrite H2, H1, app_assoc. reflexivity. Qed.

(* Drop for ObjectReceiver calls nothing but error() of its own writer *)
Lemma or_drop_log o c :
  or_drop o c = c \/ exists w ws, r_writer o = Some (w, ws) /\ or_drop o c = logc c (EvError w).
Proof.
  unfold or_drop, error. destruct (r_writer o) as [[w ws]|]; [|left; reflexivity].
  destruct ws; try (left; reflexivity); right; exists w; eexists; split; reflexivity.
Qed.

Definition released_writer_ev (objs : list (N * objrecv)) (l : list N) (e : wev) : Prop :=
  exists k o w ws, In (k, o) objs /\ memN k l = true /\ r_writer o = Some (w, ws) /\ e = EvError w.

Lemma cl_fold_log : forall l r c,
  exists ext, c_log (snd (fold_left cl_step l (r, c))) = c_log c ++ ext
              /\ Forall (released_writer_ev (rv_objects r) l) ext.
Proof.
  induction l as [|t l IH]; intros r c; cbn [fold_left].
  - exists []. cbn [snd]. rewrite app_nil_r. split; [reflexivity|constructor].
  - set (x0 := cl_step (r, c) t). unfold cl_step in x0. subst x0. unfold remove_obj, get_obj. cbn [rv_objects].
    destruct (find (fun p => fst p =? t) (rv_objects r)) as [q|] eqn:Ef.
    + match goal with |- context [fold_left cl_step l (?x, ?y)] => destruct (IH x y) as (ext & H1 & H2) end.
      cbn [set_objects rv_objects] in H2.
      apply find_some in Ef. destruct Ef as [Hq Eq]. apply N.eqb_eq in Eq.
      assert (Sub : Forall (released_writer_ev (rv_objects r) (t :: l)) ext).
      { rewrite Forall_forall in *. intros e He. destruct (H2 e He) as (k & o & w & ws & A & B & C & D).
        exists k, o, w, ws. unfold del_obj in A. apply filter_In in A. destruct A as [A _].
        split; [exact A|]. split; [|split; assumption]. unfold memN in *. cbn [existsb]. rewrite B. apply orb_true_r. }
      destruct (or_drop_log (snd q) c) as [K|(w & ws & Kw & K)]; rewrite K in H1 |- *.
      * exists ext. split; [exact H1|exact Sub].
      * exists (EvError w :: ext). split; [rewrite H1; cbn [logc c_log]; rewrite <- app_assoc; reflexivity|].
        constructor; [|exact Sub]. exists (fst q), (snd q), w, ws.
        split; [destruct q; exact Hq|]. split; [|split; [exact Kw|reflexivity]].
        unfold memN. cbn [existsb]. rewrite Eq, N.eqb_refl. reflexivity.
    + match goal with |- context [fold_left cl_step l (?x, ?y)] => destruct (IH x y) as (ext & H1 & H2) end.
      cbn [rv_objects] in H2. exists ext. split; [exact H1|].
      rewrite Forall_forall in *. intros e He. destruct (H2 e He) as (k & o & w & ws & A & B & C & D).
      exists k, o, w, ws. split; [exact A|]. split; [|split; assumption]. unfold memN in *. cbn [existsb]. rewrite B. apply orb_true_r.
Qed.

(* the only writer calls a cleanup makes are error() calls on writers of released objects *)
Theorem cleanup_calls_only_released E parse_fdt cfg r c now expired expired_fdt :
  exists ext, c_log (snd (recv_step E parse_fdt cfg r (RvCleanup now expired expired_fdt) c)) = c_log c ++ ext
              /\ Forall (released_writer_ev (rv_objects r) expired) ext.
Proof.
  rewrite recv_step_cleanup. destruct (cl_fold_log (cl_live r expired) r c) as (ext & H1 & H2).
  destruct (fold_left cl_step (cl_live r expired) (r, c)) as [r1 c1]. cbn [snd] in *.
  exists ext. split; [exact H1|]. rewrite Forall_forall in *. intros e He.
  destruct (H2 e He) as (k & o & w & ws & A & B & C & D). exists k, o, w, ws.
  split; [exact A|]. split; [|split; assumption]. rewrite memN_cl_live in B. apply andb_prop in B. apply B.
Qed.

(* every released object whose writer was opened gets its terminal call: in a state satisfying
   the writer invariant of C09 (every reachable state does), after the cleanup the writer of each
   released object has run through open ... error *)
Lemma runw_opened_calls w c acc : C09Full.runw w (c_log c) = Some (PhOpened acc) -> calls_of w (c_log c) <> [].
Proof. unfold C09Full.runw. intros H E. rewrite E in H. cbn in H. discriminate. Qed.

Theorem cleanup_terminates_writers E parse_fdt cfg r c now expired expired_fdt :
  C09Full.RInv (rv_objects r) c ->
  let c' := snd (recv_step E parse_fdt cfg r (RvCleanup now expired expired_fdt) c) in
  forall k o w, In (k, o) (rv_objects r) -> memN k expired = true -> r_writer o = Some (w, WOpened) ->
    C09Full.runw w (c_log c') = Some PhDone.
Proof.
  intros R c' k o w Hin Hm Hw.
  pose proof (C09Full.recv_step_inv E parse_fdt cfg r (RvCleanup now expired expired_fdt) c R) as R'.
  unfold C09Full.RI3 in R'. fold c' in R'.
  destruct (cleanup_state E parse_fdt cfg r c now expired expired_fdt) as [St _]. rewrite St in R'.
  destruct (cleanup_calls_only_released E parse_fdt cfg r c now expired expired_fdt) as (ext & Hl & _). fold c' in Hl.
  pose proof R as (_ & H & _ & _). destruct (H _ _ Hin) as (Tk & _ & W). rewrite Hw in W. cbn in W.
  destruct W as (W1 & _ & ph & Rn & K). destruct ph; try contradiction.
  pose proof R' as (_ & H' & _ & C'). destruct (C' w) as [[Cl|Cl]|(k2 & o2 & Hin2 & Hw2)].
  - exfalso. apply (runw_opened_calls w c acc Rn). rewrite Hl, C09Full.calls_of_app in Cl. apply app_eq_nil in Cl. apply Cl.
  - exact Cl.
  - exfalso. destruct (H' _ _ Hin2) as (Tk2 & _ & W2). rewrite Hw2 in W2. cbn in W2. destruct W2 as (W21 & _).
    pose proof (cleanup_releases_objects now expired expired_fdt r (k2, o2) Hin2) as Hn. cbn [fst] in Hn.
    assert (k2 = k) by congruence. subst k2. congruence.
Qed.

(* (e) when every object and every unfinished FDT instance is named *)
Theorem cleanup_all now expired expired_fdt r :
  (forall q, In q (rv_objects r) -> memN (fst q) expired = true) ->
  (forall q, In q (rv_fdt_receivers r) -> fr_state (snd q) = FReceiving -> memN (fst q) expired_fdt = true) ->
  let r' := cleanup_result now expired expired_fdt r in
  rv_objects r' = []
  /\ (forall q, In q (rv_fdt_receivers r') -> fr_state (snd q) = FComplete)
  /\ recv_ledger r' = sumN' (map (fun p => fdt_ledger (snd p)) (rv_fdt_receivers r')) + sumN' (map fdt_ledger (rv_fdt_current r)).
Proof.
  intros Ho Hf. cbv zeta.
  assert (Eo : rv_objects (cleanup_result now expired expired_fdt r) = []).
  { cbn [cleanup_result rv_objects]. apply filter_none. intros q Hq. rewrite (Ho q Hq). reflexivity. }
  split; [exact Eo|]. split.
  - intros q Hq. destruct (cleanup_releases_fdt _ _ _ _ q Hq) as [H|[Hs Hm]]; [exact H|exfalso].
    destruct (cleanup_fdt_from_before _ _ _ _ q Hq) as (q0 & Hq0 & Eq & Es).
    assert (fst q0 = fst q) by (rewrite Eq; reflexivity).
    rewrite <- H in Hm. rewrite (Hf q0 Hq0) in Hm; [discriminate|congruence].
  - unfold recv_ledger. rewrite Eo. cbn [map cleanup_result rv_fdt_current]. unfold sumN' at 1. cbn [fold_right]. lia.
Qed.

(* ================= Part 2: invariants of every reachable state ================= *)
(* Any predicate on objects that ObjectReceiver::push, attach_fdt preserve and a new object has
   holds of every object of every reachable state; the FDT receivers are filed under their own
   instance id and are Receiving or Expired (a complete one has become current, a failed one is
   forgotten); at most 10 instances are current.  No premise on the inputs. *)
Definition fdt_same (r r' : recv) : Prop :=
  rv_fdt_receivers r' = rv_fdt_receivers r /\ rv_fdt_current r' = rv_fdt_current r.
Lemma fdt_same_refl r : fdt_same r r. Proof. split; reflexivity. Qed.
Lemma fdt_same_trans a b c : fdt_same a b -> fdt_same b c -> fdt_same a c.
Proof. intros [A1 A2] [B1 B2]. split; congruence. Qed.

Definition fkey_ok (q : N * fdtrecv) : Prop :=
  fr_id (snd q) = fst q /\ (fr_state (snd q) = FReceiving \/ fr_state (snd q) = FExpired).
Definition FI (r : recv) : Prop :=
  Forall fkey_ok (rv_fdt_receivers r) /\ (length (rv_fdt_current r) <= 10)%nat.

Section Reach.
  Variable E : env.
  Variable parse_fdt : list N -> option fdtinst.
  Variable cfg : rconfig.
  Variable P : objrecv -> Prop.
  Hypothesis P_push : forall E' p o c, P o -> P (fst (or_push E' p o c)).
  Hypothesis P_attach : forall id files ioti o c, P o -> P (snd (fst (or_attach E id files ioti o c))).
  Hypothesis P_new : forall toi, P (or_new toi (cf_max_cache cfg)).

  Definition Pq (q : N * objrecv) : Prop := P (snd q).
  Definition OI (r : recv) : Prop := Forall Pq (rv_objects r).

  Lemma get_obj_P r toi o : OI r -> get_obj r toi = Some o -> P o.
  Proof.
    intros F. unfold get_obj. destruct (find _ (rv_objects r)) as [q|] eqn:Ef; [|discriminate].
    intros H; inversion H; subst o. apply find_some in Ef. unfold OI in F. rewrite Forall_forall in F. apply (F q). apply Ef.
  Qed.
  Lemma put_obj_P toi o l : Forall Pq l -> P o -> Forall Pq (put_obj toi o l).
  Proof.
    intros F Po. unfold put_obj. destruct (existsb _ l).
    - rewrite Forall_forall in *. intros x Hx. apply in_map_iff in Hx. destruct Hx as (y & <- & Hy).
      destruct (fst y =? toi); [exact Po|apply F; exact Hy].
    - apply Forall_app. split; [exact F|constructor; [exact Po|constructor]].
  Qed.

  Lemma remove_obj_oi toi r c : OI r -> OI (fst (remove_obj toi r c)) /\ fdt_same r (fst (remove_obj toi r c)).
  Proof.
    intros F. destruct (remove_obj_fields toi r c) as (R1 & _ & _ & R4 & R5 & _).
    split; [|split; assumption]. unfold OI. rewrite R1. apply Forall_filter. exact F.
  Qed.

  Lemma gc_error_oi : forall fuel r c, OI r ->
    OI (fst (gc_error cfg fuel r c)) /\ fdt_same r (fst (gc_error cfg fuel r c)).
  Proof.
    induction fuel as [|f IH]; intros r c F; cbn [gc_error fst]; [split; [exact F|apply fdt_same_refl]|].
    destruct (cf_max_err cfg <? N.of_nat (length (rv_error r))); [|split; [exact F|apply fdt_same_refl]].
    destruct (rv_error r) as [|toi rest]; [split; [exact F|apply fdt_same_refl]|].
    match goal with |- context [remove_obj toi ?x c] =>
      destruct (remove_obj_oi toi x c F) as [R1 R2]; destruct (remove_obj toi x c) as [r2 c2] end.
    cbn [fst] in *. destruct (IH r2 c2 R1) as [I1 I2]. split; [exact I1|].
    eapply fdt_same_trans; [|exact I2]. exact R2.
  Qed.

  Lemma check_state_oi toi r c : OI r ->
    OI (fst (check_state cfg toi r c)) /\ fdt_same r (fst (check_state cfg toi r c)).
  Proof.
    intros F. unfold check_state.
    destruct (get_obj r toi) as [o|]; [|split; [exact F|apply fdt_same_refl]].
    destruct (r_state o).
    - split; [exact F|apply fdt_same_refl].
    - match goal with |- context [remove_obj toi ?x c] => exact (remove_obj_oi toi x c F) end.
    - match goal with |- context [gc_error cfg ?n ?x c] =>
        destruct (gc_error_oi n x c F) as [G1 G2]; destruct (gc_error cfg n x c) as [r2 c2] end.
      cbn [fst] in *. destruct (remove_obj_oi toi r2 c2 G1) as [R1 R2]. split; [exact R1|].
      eapply fdt_same_trans; [|exact R2]. exact G2.
    - match goal with |- context [gc_error cfg ?n ?x c] =>
        destruct (gc_error_oi n x c F) as [G1 G2]; destruct (gc_error cfg n x c) as [r2 c2] end.
      cbn [fst] in *. destruct (remove_obj_oi toi r2 c2 G1) as [R1 R2]. split; [exact R1|].
      eapply fdt_same_trans; [|exact R2]. exact G2.
  Qed.

  Lemma check_all_oi : forall tois r c, OI r ->
    OI (fst (check_all cfg tois r c)) /\ fdt_same r (fst (check_all cfg tois r c)).
  Proof.
    induction tois as [|t rest IH]; intros r c F; cbn [check_all fst]; [split; [exact F|apply fdt_same_refl]|].
    destruct (check_state_oi t r c F) as [C1 C2]. destruct (check_state cfg t r c) as [r1 c1]. cbn [fst] in *.
    destruct (IH r1 c1 C1) as [I1 I2]. split; [exact I1|]. eapply fdt_same_trans; eassumption.
  Qed.

  Lemma attach_all_oi id i : forall tois r c att, OI r ->
    OI (fst (fst (attach_all E id i tois r c att))) /\ fdt_same r (fst (fst (attach_all E id i tois r c att))).
  Proof.
    induction tois as [|toi rest IH]; intros r c att F; cbn [attach_all fst]; [split; [exact F|apply fdt_same_refl]|].
    destruct (get_obj r toi) as [o|] eqn:Eg; [|apply IH; exact F].
    pose proof (P_attach id (fi_files i) (fi_oti i) o c (get_obj_P _ _ _ F Eg)) as Po.
    destruct (or_attach E id (fi_files i) (fi_oti i) o c) as [[ok o1] c1]. cbn [fst snd] in Po.
    match goal with |- context [attach_all E id i rest ?x c1 ?a] => destruct (IH x c1 a) as [I1 I2] end.
    { unfold OI. cbn [set_objects rv_objects]. apply put_obj_P; assumption. }
    split; [exact I1|]. eapply fdt_same_trans; [|exact I2]. split; reflexivity.
  Qed.

  Lemma create_attach_oi now : forall cur o c, P o ->
    length (fst (fst (create_attach E cur now o c))) = length cur /\ P (snd (fst (create_attach E cur now o c))).
  Proof.
    induction cur as [|f rest IH]; intros o c Po; cbn [create_attach fst snd]; [auto|].
    set (f1 := fr_update_expired f now).
    assert (Dflt : forall o c, P o ->
      length (fst (fst (let '(rest', o2, c2) := create_attach E rest now o c in (f1 :: rest', o2, c2)))) = length (f :: rest)
      /\ P (snd (fst (let '(rest', o2, c2) := create_attach E rest now o c in (f1 :: rest', o2, c2))))).
    { intros o' c' Po'. destruct (IH o' c' Po') as (I1 & I3).
      destruct (create_attach E rest now o' c') as [[rest' o2] c2]. cbn [fst snd length] in *. split; [lia|exact I3]. }
    destruct (fr_state f1); try (apply Dflt; exact Po).
    destruct (fr_inst f1) as [i|]; [|apply Dflt; exact Po].
    pose proof (P_attach (fr_id f1) (fi_files i) (fi_oti i) o c Po) as Po1.
    destruct (or_attach E (fr_id f1) (fi_files i) (fi_oti i) o c) as [[ok o1] c1]. cbn [fst snd] in Po1.
    destruct ok; [|apply Dflt; exact Po1]. cbn [fst snd length]. split; [reflexivity|exact Po1].
  Qed.

  (* what a step keeps of the FDT side when it is a step of an object *)
  Definition fdt_len_same (r r' : recv) : Prop :=
    rv_fdt_receivers r' = rv_fdt_receivers r /\ length (rv_fdt_current r') = length (rv_fdt_current r).
  Lemma fdt_len_same_refl r : fdt_len_same r r. Proof. split; reflexivity. Qed.

  Lemma push_obj_tail3_oi p r3 o c3 : OI r3 -> P o ->
    OI (snd (fst (push_obj_tail3 E cfg p r3 o c3))) /\ fdt_same r3 (snd (fst (push_obj_tail3 E cfg p r3 o c3))).
  Proof.
    intros F Po. unfold push_obj_tail3. cbv zeta.
    pose proof (P_push E p o c3 Po) as Po2. destruct (or_push E p o c3) as [o2 c4]. cbn [fst] in Po2.
    match goal with |- context [check_state cfg ?t ?x c4] =>
      destruct (check_state_oi t x c4) as [C1 C2]; [|destruct (check_state cfg t x c4) as [r5 c5]] end.
    { unfold OI. cbn [set_objects rv_objects]. apply put_obj_P; assumption. }
    cbn [fst snd] in *. split; [exact C1|]. eapply fdt_same_trans; [|exact C2]. split; reflexivity.
  Qed.

  Lemma push_obj_tail2_oi p now r2 c : OI r2 ->
    OI (snd (fst (push_obj_tail2 E cfg p now r2 c))) /\ fdt_len_same r2 (snd (fst (push_obj_tail2 E cfg p now r2 c))).
  Proof.
    intros F. unfold push_obj_tail2. cbv zeta.
    destruct (get_obj r2 (a_toi p)) as [o|] eqn:Eg.
    - destruct (push_obj_tail3_oi p r2 o c F (get_obj_P _ _ _ F Eg)) as [A [B1 B2]].
      split; [exact A|]. split; [exact B1|rewrite B2; reflexivity].
    - destruct (create_attach_oi now (rv_fdt_current r2) (or_new (a_toi p) (cf_max_cache cfg)) c (P_new _)) as (K1 & K3).
      destruct (create_attach E (rv_fdt_current r2) now (or_new (a_toi p) (cf_max_cache cfg)) c) as [[cur o1] c1].
      cbn [fst snd] in *.
      match goal with |- context [push_obj_tail3 E cfg p ?x o1 c1] => destruct (push_obj_tail3_oi p x o1 c1) as [A [B1 B2]] end.
      { unfold OI. cbn [rv_objects]. apply Forall_app. split; [exact F|constructor; [exact K3|constructor]]. }
      { exact K3. }
      split; [exact A|]. cbn [rv_fdt_receivers rv_fdt_current] in B1, B2. split; [exact B1|rewrite B2; exact K1].
  Qed.

  Lemma push_obj_oi p now r c : OI r ->
    OI (snd (fst (push_obj E cfg p now r c))) /\ fdt_len_same r (snd (fst (push_obj E cfg p now r c))).
  Proof.
    intros F. rewrite push_obj_eq. cbv zeta.
    assert (T1 : forall r1, OI r1 ->
      OI (snd (fst (push_obj_tail1 E cfg p now r1 c))) /\ fdt_len_same r1 (snd (fst (push_obj_tail1 E cfg p now r1 c)))).
    { intros r1 F1. unfold push_obj_tail1. cbv zeta.
      destruct (existsb (N.eqb (a_toi p)) (rv_error r1)); [|apply push_obj_tail2_oi; exact F1].
      destruct (is_first_symbol p) as [[|]|]; try (split; [exact F1|apply fdt_len_same_refl]).
      match goal with |- context [push_obj_tail2 E cfg p now ?x c] => destruct (push_obj_tail2_oi p now x c F1) as [A B] end.
      split; [exact A|exact B]. }
    destruct (existsb (N.eqb (a_toi p)) (rv_completed r)); [|apply T1; exact F].
    destruct (cf_once cfg); [split; [exact F|apply fdt_len_same_refl]|].
    destruct (is_first_symbol p) as [[|]|]; try (split; [exact F|apply fdt_len_same_refl]).
    match goal with |- context [push_obj_tail1 E cfg p now ?x c] => destruct (T1 x F) as [A B] end.
    split; [exact A|exact B].
  Qed.

  (* ---- the FDT plane ---- *)
  Lemma apply_fdt_log_id : forall log f, fr_id (apply_fdt_log parse_fdt log f) = fr_id f.
  Proof.
    induction log as [|e log IH]; intros f; cbn [apply_fdt_log]; [reflexivity|].
    destruct e; try apply IH; try (rewrite IH; reflexivity).
    rewrite IH. destruct (parse_fdt (fr_data f)); reflexivity.
  Qed.
  Lemma fr_push_id p now f : fr_id (fst (fr_push E parse_fdt p now f)) = fr_id f.
  Proof.
    unfold fr_push. cbv zeta. cbn [fr_obj]. destruct (fr_obj f) as [o|]; [|reflexivity].
    destruct (or_push (E_fdt E) p o ctx0) as [o1 c1].
    destruct (r_state o1); cbn [fst fr_id]; rewrite apply_fdt_log_id; reflexivity.
  Qed.
  Lemma fr_update_expired_id f now : fr_id (fr_update_expired f now) = fr_id f.
  Proof. unfold fr_update_expired. destruct (fr_state f); try reflexivity. destruct (_ && _); reflexivity. Qed.

  Lemma store_fi id f l : Forall fkey_ok l -> fkey_ok (id, f) ->
    Forall fkey_ok (if existsb (fun q : N * fdtrecv => fst q =? id) l
                    then map (fun q => if fst q =? id then (id, f) else q) l
                    else l ++ [(id, f)]).
  Proof.
    intros Fr Ff. destruct (existsb _ _).
    - rewrite Forall_forall in *. intros x Hx. apply in_map_iff in Hx. destruct Hx as (y & <- & Hy).
      destruct (fst y =? id); [exact Ff|apply Fr; exact Hy].
    - apply Forall_app. split; [exact Fr|constructor; [exact Ff|constructor]].
  Qed.

  Lemma push_fdt_obj_oi p now r c : OI r -> FI r ->
    OI (snd (fst (push_fdt_obj E parse_fdt cfg p now r c))) /\ FI (snd (fst (push_fdt_obj E parse_fdt cfg p now r c))).
  Proof.
    intros F [Fk Fl]. unfold push_fdt_obj.
    destruct (a_fdt_id p) as [id|]; [|destruct (_ || _); split; [exact F|split; assumption|exact F|split; assumption]].
    destruct (cf_once cfg && _); [split; [exact F|split; assumption]|]. cbv zeta.
    set (f0 := match find (fun q => fst q =? id) (rv_fdt_receivers r) with Some q => snd q | None => fr_new cfg id end).
    assert (I0 : fr_id f0 = id).
    { unfold f0. destruct (find _ (rv_fdt_receivers r)) as [q|] eqn:Ef; [|reflexivity].
      apply find_some in Ef. destruct Ef as [Hq Eq]. apply N.eqb_eq in Eq.
      rewrite Forall_forall in Fk. destruct (Fk q Hq) as [K _]. congruence. }
    destruct (fr_state f0); try (split; [exact F|split; assumption]).
    pose proof (fr_push_id p now f0) as I1. destruct (fr_push E parse_fdt p now f0) as [f1 pan]. cbn [fst] in I1.
    set (f2 := match fr_state f1 with FComplete => fr_update_expired f1 now | _ => f1 end).
    assert (I2 : fr_id f2 = id).
    { unfold f2. destruct (fr_state f1); try congruence. rewrite fr_update_expired_id. congruence. }
    destruct (fr_state f2) eqn:Es2; cbn [fst snd].
    - split; [exact F|]. split; [|exact Fl]. cbn [rv_fdt_receivers]. apply store_fi; [exact Fk|].
      split; [exact I2|left; exact Es2].
    - (* complete: becomes current *)
      destruct (fr_inst f2) as [i|].
      + match goal with |- context [attach_all E id i ?t ?x ?cc ?a] =>
          destruct (attach_all_oi id i t x cc a) as [A1 A2]; [exact F|]; destruct (attach_all E id i t x cc a) as [[r2 c2] att] end.
        cbn [fst] in A1, A2.
        destruct (check_all_oi att r2 c2 A1) as [C1 C2]. destruct (check_all cfg att r2 c2) as [r3 c3]. cbn [fst snd] in *.
        destruct (fdt_same_trans _ _ _ A2 C2) as [S1 S2]. cbn [rv_fdt_current rv_fdt_receivers] in S1, S2.
        split; [exact C1|]. unfold FI. cbn [rv_fdt_current rv_fdt_receivers]. rewrite S1.
        split; [apply Forall_filter; exact Fk|apply firstn_le_length].
      + cbn [fst snd]. split; [exact F|]. unfold FI. cbn [rv_fdt_current rv_fdt_receivers].
        split; [apply Forall_filter; exact Fk|apply firstn_le_length].
    - split; [exact F|]. split; [|exact Fl]. cbn [rv_fdt_receivers]. apply Forall_filter; exact Fk.
    - split; [exact F|]. split; [|exact Fl]. cbn [rv_fdt_receivers]. apply store_fi; [exact Fk|].
      split; [exact I2|right; exact Es2].
  Qed.

  Lemma cl_fdt_fi now expired_fdt l : Forall fkey_ok l ->
    Forall (fun q => fkey_ok q /\ fr_state (snd q) = FReceiving /\ memN (fst q) expired_fdt = false) (cl_fdt now expired_fdt l).
  Proof.
    intros Fk. rewrite Forall_forall in *. intros q Hq. unfold cl_fdt in Hq. apply filter_In in Hq.
    destruct Hq as [Hin Hk]. apply in_map_iff in Hin. destruct Hin as (q0 & <- & Hq0).
    destruct (Fk q0 Hq0) as [K1 K2]. cbn [fst snd] in *.
    assert (Es : fr_state (fr_update_expired (snd q0) now) = fr_state (snd q0)).
    { destruct (fr_update_expired_state (snd q0) now) as [H|[H _]]; [exact H|]. destruct K2; congruence. }
    unfold fdt_kept in Hk. unfold fkey_ok. cbn [fst snd] in Hk |- *. rewrite Es in Hk |- *. rewrite fr_update_expired_id.
    destruct K2 as [K2|K2]; rewrite K2 in Hk |- *; [|discriminate].
    split; [split; [exact K1|left; reflexivity]|]. split; [reflexivity|].
    destruct (memN (fst q0) expired_fdt); [discriminate|reflexivity].
  Qed.

  Definition Inv (r : recv) : Prop := OI r /\ FI r.

  Lemma recv_step_Inv r e c : Inv r -> Inv (snd (fst (recv_step E parse_fdt cfg r e c))).
  Proof.
    intros [F Fi]. destruct e as [p now| |now expired expired_fdt|].
    - cbn [recv_step].
      set (r0 := if a_close_sess p
                 then mk_recv (rv_objects r) (rv_completed r) (rv_error r) (rv_fdt_receivers r) (rv_fdt_current r) true
                 else r).
      assert (F0 : OI r0) by (unfold r0; destruct (a_close_sess p); exact F).
      assert (Fi0 : FI r0) by (unfold r0; destruct (a_close_sess p); exact Fi).
      destruct (a_toi p =? 0); [apply push_fdt_obj_oi; assumption|].
      destruct (push_obj_oi p now r0 c F0) as [A [B1 B2]]. split; [exact A|].
      destruct Fi0 as [K1 K2]. split; [rewrite B1; exact K1|rewrite B2; exact K2].
    - split; assumption.
    - destruct (cleanup_state E parse_fdt cfg r c now expired expired_fdt) as [St _]. rewrite St.
      split; [unfold OI; cbn [cleanup_result rv_objects]; apply Forall_filter; exact F|].
      destruct Fi as [K1 K2]. split; [|exact K2]. cbn [cleanup_result rv_fdt_receivers].
      pose proof (cl_fdt_fi now expired_fdt _ K1) as K. rewrite Forall_forall in *. intros q Hq. apply (K q Hq).
    - cbn [recv_step fst snd]. split; [constructor|exact Fi].
  Qed.

  Lemma recv_run_Inv : forall evs r c, Inv r -> Inv (snd (fst (recv_run E parse_fdt cfg r evs c))).
  Proof.
    induction evs as [|e rest IH]; intros r c R; cbn [recv_run]; [exact R|].
    pose proof (recv_step_Inv r e c R) as R1.
    destruct (recv_step E parse_fdt cfg r e c) as [[x r1] c1]. cbn [fst snd] in R1.
    pose proof (IH r1 c1 R1) as R2.
    destruct (recv_run E parse_fdt cfg r1 rest c1) as [[xs r2] c2]. exact R2.
  Qed.

  Lemma Inv_recv0 : Inv recv0.
  Proof. split; [constructor|split; [constructor|cbn; lia]]. Qed.
End Reach.

(* ================= Part 3: the abandon rule of the packet cache, exactly ================= *)
From FluteV Require Proofs.RecvTotalProofs.

Ltac prj := cbn [r_state r_toi r_oti r_cache r_cache_size r_max r_blocks r_off r_tlen r_cenc r_md5 r_md5chk
                 r_al r_as r_nal r_writer r_bw r_fdt_id r_nb_alloc r_alloc_size r_clen r_nocache].

(* ---- r_max is never changed ---- *)
Section Max.
  Variable E : env.

  Lemma or_push_max p o c : r_max (fst (or_push E p o c)) = r_max o.
  Proof.
    rewrite RecvTotalProofs.or_push_unfold. destruct (r_state o); try reflexivity.
    unfold RecvTotalProofs.or_push_tail.
    set (o1 := RecvTotalProofs.or_push_pre p o).
    assert (M1 : r_max o1 = r_max o).
    { unfold o1, RecvTotalProofs.or_push_pre. destruct (r_oti o); destruct (a_oti p) as [[ot l]|]; reflexivity. }
    pose proof (ckc_init_partition o1) as [M2 _]. set (o2 := init_partition o1) in *.
    pose proof (ckc_init_writer E o2 c) as [M3 _]. destruct (init_writer E o2 c) as [o3 c3]. cbn [fst] in M3.
    destruct (r_state o3); cbn [fst]; try congruence.
    pose proof (ckc_push_from_cache E o3 c3) as [M4 _]. destruct (push_from_cache E o3 c3) as [o4 c4]. cbn [fst] in M4.
    destruct (r_state o4); cbn [fst]; try congruence.
    destruct (r_oti o4).
    - pose proof (ckc_push_to_block E p o4 c4) as [M5 _].
      destruct (push_to_block E p o4 c4) as [[o5|o5] c5]; cbn [fst res_obj] in *; [congruence|].
      pose proof (ckc_error o5 false c5) as [M6 _]. congruence.
    - destruct (r_max o4 <=? r_cache_size o4).
      + pose proof (ckc_error o4 false c4) as [M6 _]. congruence.
      + cbn [fst]. prj. congruence.
  Qed.

  Lemma or_attach_max id files ioti o c : r_max (snd (fst (or_attach E id files ioti o c))) = r_max o.
  Proof.
    pose proof (or_attach_cache_bounded E 0 id files ioti o c) as _.
    unfold or_attach. destruct (r_fdt_id o); [reflexivity|].
    destruct (find _ files) as [f|]; [|reflexivity].
    assert (G0 : forall o1, r_max o1 = r_max o ->
      r_max (snd (fst (let o2 := init_partition o1 in
                       let (o3a, c3a) := init_writer E o2 c in
                       let (o3, c3) := d48_step o3a c3a in
                       let (o4, c4) := push_from_cache E o3 c3 in
                       let '(o5, c5) := match write_blocks E (S (length (r_blocks o4))) 0 o4 c4 with
                                        | (ROk x, cx) => (x, cx)
                                        | (RErr x, cx) => error x false cx
                                        end in
                       let (o6, c6) := push_from_cache E o5 c5 in
                       (true, o6, c6)))) = r_max o).
    2: { destruct (r_oti o); [|destruct (match ff_oti f with Some x => Some x | None => ioti end)];
         cbv zeta beta iota; apply G0; reflexivity. }
    intros o1 M1. cbv zeta.
    pose proof (ckc_init_partition o1) as [M2 _]. set (o2 := init_partition o1) in *.
    pose proof (ckc_init_writer E o2 c) as [M3a _]. destruct (init_writer E o2 c) as [o3a c3a]. cbn [fst] in M3a.
    pose proof (ckc_d48_step o3a c3a) as [M3 _]. destruct (d48_step o3a c3a) as [o3 c3]. cbn [fst] in M3.
    pose proof (ckc_push_from_cache E o3 c3) as [M4 _]. destruct (push_from_cache E o3 c3) as [o4 c4]. cbn [fst] in M4.
    pose proof (ckc_write_blocks E (S (length (r_blocks o4))) 0 o4 c4) as [M5 _].
    destruct (write_blocks E (S (length (r_blocks o4))) 0 o4 c4) as [[o5|o5] c5]; cbn [fst res_obj] in M5.
    - pose proof (ckc_push_from_cache E o5 c5) as [M6 _]. destruct (push_from_cache E o5 c5) as [o6 c6]. cbn [fst snd] in *.
      congruence.
    - pose proof (ckc_error o5 false c5) as [M6 _]. destruct (error o5 false c5) as [o6 c6]. cbn [fst] in M6.
      pose proof (ckc_push_from_cache E o6 c6) as [M7 _]. destruct (push_from_cache E o6 c6) as [o7 c7]. cbn [fst snd] in *.
      congruence.
  Qed.
End Max.

(* ---- one push on an object whose OTI is not known, by a packet that does not carry it ---- *)
Definition cache_put (p : apkt) (o : objrecv) : objrecv :=
  mk_or (r_state o) (r_toi o) (r_oti o) (r_cache o ++ [p]) (r_cache_size o + a_datalen p) (r_max o) (r_blocks o)
        (r_off o) (r_tlen o) (r_cenc o) (r_md5 o) (r_md5chk o) (r_al o) (r_as o) (r_nal o)
        (r_writer o) (r_bw o) (r_fdt_id o) (r_nb_alloc o) (r_alloc_size o) (r_clen o) (r_nocache o).

Section Abandon.
  Variable E : env.

  (* the rule: refused - and the object abandoned - iff the counter has ALREADY reached the limit;
     the payload of the packet is not looked at (a datagram with an empty symbol counts with its
     whole length a_datalen like any other) *)
  Theorem or_push_nooti p o c :
    r_state o = Receiving -> r_oti o = None -> a_oti p = None ->
    or_push E p o c =
    if r_max o <=? r_cache_size o then error (RecvTotalProofs.or_push_pre p o) false c
    else (cache_put p (RecvTotalProofs.or_push_pre p o), c).
  Proof.
    intros Hs Ho Hp. rewrite RecvTotalProofs.or_push_unfold, Hs. unfold RecvTotalProofs.or_push_tail.
    set (o1 := RecvTotalProofs.or_push_pre p o).
    assert (H1 : r_oti o1 = None /\ r_state o1 = Receiving /\ r_max o1 = r_max o /\ r_cache_size o1 = r_cache_size o).
    { unfold o1, RecvTotalProofs.or_push_pre. rewrite Ho, Hp. prj. auto. }
    destruct H1 as (Ho1 & Hs1 & Hm1 & Hz1).
    assert (E2 : init_partition o1 = o1).
    { unfold init_partition. rewrite Ho1. destruct (0 <? nb_block o1); reflexivity. }
    assert (E3 : init_writer E o1 c = (o1, c)).
    { unfold init_writer. rewrite Ho1. destruct (r_writer o1); [reflexivity|].
      destruct (r_fdt_id o1); [|reflexivity]. destruct (r_cenc o1); [|reflexivity]. destruct (r_tlen o1); reflexivity. }
    assert (E4 : push_from_cache E o1 c = (o1, c)).
    { unfold push_from_cache, cache_replay_blocked. rewrite Ho1. reflexivity. }
    unfold cache_put. rewrite <- Hm1, <- Hz1. rewrite E2, E3. cbv beta iota. rewrite E4. cbv beta iota.
    revert Hs1 Ho1. destruct (r_state o1); intros Hs1 Ho1; try discriminate Hs1.
    destruct (r_oti o1); [discriminate Ho1|]. reflexivity.
  Qed.

  Lemma or_push_pre_fields p o : r_oti o = None -> a_oti p = None ->
    let o1 := RecvTotalProofs.or_push_pre p o in
    r_state o1 = r_state o /\ r_oti o1 = None /\ r_cache o1 = r_cache o /\ r_cache_size o1 = r_cache_size o
    /\ r_max o1 = r_max o /\ r_toi o1 = r_toi o /\ r_writer o1 = r_writer o /\ r_blocks o1 = r_blocks o.
  Proof. intros Ho Hp. unfold RecvTotalProofs.or_push_pre. rewrite Ho, Hp. prj. repeat split. Qed.

  Lemma error_fields o i c :
    let o' := fst (error o i c) in
    r_state o' = (if i then Interrupted else Errored) /\ r_cache o' = [] /\ r_cache_size o' = 0 /\ r_blocks o' = []
    /\ r_max o' = r_max o /\ r_toi o' = r_toi o.
  Proof. unfold error. destruct (r_writer o) as [[w ws]|]; cbn [fst]; cbn; repeat split. Qed.

  (* ---- a run of pushes ---- *)
  Fixpoint push_all (ps : list apkt) (o : objrecv) (c : ctx) : objrecv * ctx :=
    match ps with
    | [] => (o, c)
    | p :: rest => let (o1, c1) := or_push E p o c in push_all rest o1 c1
    end.

  Lemma push_all_not_receiving : forall ps o c, r_state o <> Receiving -> push_all ps o c = (o, c).
  Proof.
    induction ps as [|p rest IH]; intros o c H; cbn [push_all]; [reflexivity|].
    assert (K : or_push E p o c = (o, c)) by (unfold or_push; destruct (r_state o); [contradiction|reflexivity ..]).
    rewrite K. apply IH. exact H.
  Qed.

  Lemma push_all_app : forall a b o c, push_all (a ++ b) o c = push_all b (fst (push_all a o c)) (snd (push_all a o c)).
  Proof.
    induction a as [|p a IH]; intros b o c; cbn [app push_all fst snd]; [reflexivity|].
    destruct (or_push E p o c) as [o1 c1]. apply IH.
  Qed.
End Abandon.

(* index (from 0) of the packet that finds the counter at or above the limit *)
Fixpoint abandon_at (mx sz : N) (ps : list apkt) : option nat :=
  match ps with
  | [] => None
  | p :: rest => if mx <=? sz then Some O
                 else match abandon_at mx (sz + a_datalen p) rest with Some j => Some (S j) | None => None end
  end.
Definition bytes_of (ps : list apkt) : N := sumN' (map a_datalen ps).

Lemma bytes_of_cons p ps : bytes_of (p :: ps) = a_datalen p + bytes_of ps.
Proof. reflexivity. Qed.
Lemma bytes_of_app a b : bytes_of (a ++ b) = bytes_of a + bytes_of b.
Proof. unfold bytes_of. rewrite map_app. apply sumN'_app. Qed.

(* it is the FIRST packet before which the cached bytes reach the limit, and no earlier one *)
Lemma abandon_at_some : forall ps mx sz j,
  abandon_at mx sz ps = Some j <->
  (j < length ps)%nat /\ mx <= sz + bytes_of (firstn j ps)
  /\ forall i, (i < j)%nat -> sz + bytes_of (firstn i ps) < mx.
Proof.
  induction ps as [|p rest IH]; intros mx sz j; cbn [abandon_at length].
  - split; [discriminate|]. intros (H & _). lia.
  - destruct (N.leb_spec mx sz) as [Hfull|Hroom].
    + split.
      * intros H; inversion H; subst j. split; [lia|]. split; [cbn [firstn]; unfold bytes_of; cbn; lia|]. intros i Hi; lia.
      * intros (_ & _ & H3). destruct j as [|j]; [reflexivity|]. specialize (H3 O ltac:(lia)). cbn in H3. unfold bytes_of in H3. cbn in H3. lia.
    + destruct (abandon_at mx (sz + a_datalen p) rest) as [j'|] eqn:Ea.
      * apply IH in Ea. destruct Ea as (A1 & A2 & A3). split.
        -- intros H; inversion H; subst j. split; [lia|]. cbn [firstn]. rewrite bytes_of_cons. split; [lia|].
           intros i Hi. destruct i as [|i]; [cbn [firstn]; unfold bytes_of; cbn; lia|].
           cbn [firstn]. rewrite bytes_of_cons. specialize (A3 i ltac:(lia)). lia.
        -- intros (B1 & B2 & B3). destruct j as [|j]; [cbn [firstn] in B2; unfold bytes_of in B2; cbn in B2; lia|].
           do 2 f_equal. cbn [firstn] in B2. rewrite bytes_of_cons in B2.
           destruct (Nat.lt_trichotomy j j') as [L|[L|L]]; [|exact (eq_sym L)|].
           ++ specialize (A3 j L). lia.
           ++ specialize (B3 (S j') ltac:(lia)). cbn [firstn] in B3. rewrite bytes_of_cons in B3. lia.
      * split; [discriminate|]. intros (B1 & B2 & B3). exfalso.
        destruct j as [|j]; [cbn [firstn] in B2; unfold bytes_of in B2; cbn in B2; lia|].
        assert (K : abandon_at mx (sz + a_datalen p) rest = Some j).
        { apply IH. split; [lia|]. cbn [firstn] in B2. rewrite bytes_of_cons in B2. split; [lia|].
          intros i Hi. specialize (B3 (S i) ltac:(lia)). cbn [firstn] in B3. rewrite bytes_of_cons in B3. lia. }
        congruence.
Qed.

Lemma abandon_at_none : forall ps mx sz,
  abandon_at mx sz ps = None <-> forall i, (i < length ps)%nat -> sz + bytes_of (firstn i ps) < mx.
Proof.
  induction ps as [|p rest IH]; intros mx sz; cbn [abandon_at length].
  - split; [intros _ i Hi; lia|reflexivity].
  - destruct (N.leb_spec mx sz) as [Hfull|Hroom].
    + split; [discriminate|]. intros H. specialize (H O ltac:(lia)). cbn in H. unfold bytes_of in H. cbn in H. lia.
    + destruct (abandon_at mx (sz + a_datalen p) rest) as [j'|] eqn:Ea.
      * split; [discriminate|]. intros H. exfalso.
        assert (K : abandon_at mx (sz + a_datalen p) rest = None).
        { apply IH. intros i Hi. specialize (H (S i) ltac:(lia)). cbn [firstn] in H. rewrite bytes_of_cons in H. lia. }
        congruence.
      * split; [|reflexivity]. intros _ i Hi. destruct i as [|i]; [cbn; unfold bytes_of; cbn; lia|].
        cbn [firstn]. rewrite bytes_of_cons. pose proof (proj1 (IH mx (sz + a_datalen p)) Ea i ltac:(lia)). lia.
Qed.

Section Abandon2.
  Variable E : env.

  (* the abandon rule over a whole run of packets that do not carry the OTI *)
  Theorem cache_abandon_rule : forall ps o c,
    r_state o = Receiving -> r_oti o = None -> Forall (fun p => a_oti p = None) ps ->
    let o' := fst (push_all E ps o c) in
    match abandon_at (r_max o) (r_cache_size o) ps with
    | None => r_state o' = Receiving /\ r_oti o' = None /\ r_cache o' = r_cache o ++ ps
              /\ r_cache_size o' = r_cache_size o + bytes_of ps /\ r_max o' = r_max o
    | Some j => r_state o' = Errored /\ r_cache o' = [] /\ r_cache_size o' = 0 /\ r_blocks o' = [] /\ r_max o' = r_max o
    end.
  Proof.
    induction ps as [|p rest IH]; intros o c Hs Ho Hp; cbn [push_all abandon_at fst].
    - cbv zeta. rewrite app_nil_r. unfold bytes_of. cbn. repeat split; try assumption. lia.
    - inversion Hp as [|? ? Hp1 Hp2]; subst. rewrite (or_push_nooti E p o c Hs Ho Hp1).
      destruct (or_push_pre_fields p o Ho Hp1) as (F1 & F2 & F3 & F4 & F5 & F6 & F7 & F8).
      destruct (r_max o <=? r_cache_size o).
      + destruct (error_fields (RecvTotalProofs.or_push_pre p o) false c) as (G1 & G2 & G3 & G4 & G5 & _).
        destruct (error (RecvTotalProofs.or_push_pre p o) false c) as [o1 c1]. cbn [fst] in *.
        rewrite push_all_not_receiving by (rewrite G1; discriminate). cbn [fst].
        repeat split; try assumption. congruence.
      + set (o1 := cache_put p (RecvTotalProofs.or_push_pre p o)).
        assert (K : r_state o1 = Receiving /\ r_oti o1 = None /\ r_cache o1 = r_cache o ++ [p]
                    /\ r_cache_size o1 = r_cache_size o + a_datalen p /\ r_max o1 = r_max o).
        { unfold o1, cache_put. prj. rewrite F1, F2, F3, F4, F5. auto. }
        destruct K as (K1 & K2 & K3 & K4 & K5).
        specialize (IH o1 c K1 K2 Hp2). cbv zeta in IH. rewrite K4, K5 in IH.
        destruct (abandon_at (r_max o) (r_cache_size o + a_datalen p) rest) as [j|].
        * destruct IH as (I1 & I2 & I3 & I4 & I5). repeat split; assumption.
        * destruct IH as (I1 & I2 & I3 & I4 & I5). rewrite K3, <- app_assoc in I3.
          rewrite bytes_of_cons. repeat split; try assumption. rewrite I4. lia.
  Qed.

  (* while the object is still receiving, the bytes cached exceed the limit by less than the
     last datagram cached (so by at most the largest datagram) ... *)
  Corollary cache_exceeds_by_less_than_last_datagram ps p o c :
    r_state o = Receiving -> r_oti o = None -> Forall (fun p => a_oti p = None) (ps ++ [p]) ->
    r_cache_size o < r_max o \/ ps <> [] ->
    let o' := fst (push_all E (ps ++ [p]) o c) in
    r_state o' = Receiving -> r_cache_size o' < r_max o + a_datalen p.
  Proof.
    intros Hs Ho Hp Hstart o' Hs'. pose proof (cache_abandon_rule (ps ++ [p]) o c Hs Ho Hp) as R. cbv zeta in R. fold o' in R.
    destruct (abandon_at (r_max o) (r_cache_size o) (ps ++ [p])) as [j|] eqn:Ea.
    - destruct R as (R1 & _). congruence.
    - destruct R as (_ & _ & _ & R4 & _). rewrite R4, bytes_of_app. unfold bytes_of at 2. cbn.
      pose proof (proj1 (abandon_at_none _ _ _) Ea (length ps)) as K. rewrite app_length in K. cbn [length] in K.
      specialize (K ltac:(lia)). rewrite firstn_app, Nat.sub_diag, firstn_all in K. cbn [firstn] in K. rewrite app_nil_r in K. lia.
  Qed.

  (* ... and the NUMBER of cached packets is bounded only if every datagram has a positive length:
     with a_datalen >= m for all of them, at most r_max / m (rounded up) + ... precisely: *)
  Lemma bytes_of_ge m ps : Forall (fun p => m <= a_datalen p) ps -> lenN_ ps * m <= bytes_of ps.
  Proof.
    unfold lenN_, bytes_of, sumN'. induction 1 as [|p ps Hp _ IH]; cbn [length map fold_right]; [lia|].
    rewrite Nat2N.inj_succ. lia.
  Qed.

  Corollary cache_packet_count_bounded m ps o c :
    r_state o = Receiving -> r_oti o = None -> r_cache o = [] -> r_cache_size o = 0 ->
    Forall (fun p => a_oti p = None) ps -> Forall (fun p => m <= a_datalen p) ps -> 0 < m ->
    let o' := fst (push_all E ps o c) in
    lenN_ (r_cache o') * m < r_max o + m.
  Proof.
    intros Hs Ho Hc Hz Hp Hm Hpos o'. pose proof (cache_abandon_rule ps o c Hs Ho Hp) as R. cbv zeta in R. fold o' in R.
    destruct (abandon_at (r_max o) (r_cache_size o) ps) as [j|] eqn:Ea.
    - destruct R as (_ & R2 & _). rewrite R2. cbn. lia.
    - destruct R as (_ & _ & R3 & _). rewrite R3, Hc. cbn [app].
      destruct (List.rev ps) as [|p rps] eqn:Er.
      + assert (ps = []) by (rewrite <- (rev_involutive ps), Er; reflexivity). subst ps. cbn. lia.
      + assert (Eps : ps = List.rev rps ++ [p]) by (rewrite <- (rev_involutive ps), Er; reflexivity).
        set (ps' := List.rev rps) in *. subst ps.
        pose proof (proj1 (abandon_at_none _ _ _) Ea (length ps')) as K. rewrite app_length in K. cbn [length] in K.
        specialize (K ltac:(lia)). rewrite firstn_app, Nat.sub_diag, firstn_all in K. cbn [firstn] in K. rewrite app_nil_r in K.
        apply Forall_app in Hm. destruct Hm as [Hm1 _]. pose proof (bytes_of_ge m ps' Hm1) as B.
        unfold lenN_ in *. rewrite app_length. cbn [length]. rewrite Hz in K. lia.
  Qed.

  (* the premise is needed: the model does not know that a datagram is at least as long as its
     header; datagrams of length 0 are cached without end *)
  Lemma abandon_at_zero_len p mx : a_datalen p = 0 -> 0 < mx -> forall n, abandon_at mx 0 (repeat p n) = None.
  Proof.
    intros Hz Hmx. induction n as [|n IH]; cbn [repeat abandon_at]; [reflexivity|].
    destruct (N.leb_spec mx 0) as [H|_]; [lia|]. rewrite Hz. replace (0 + 0) with 0 by lia. rewrite IH. reflexivity.
  Qed.
  Theorem cache_packet_count_unbounded_if_zero_length p toi mx c n :
    a_oti p = None -> a_datalen p = 0 -> 0 < mx ->
    r_state (fst (push_all E (repeat p n) (or_new toi mx) c)) = Receiving
    /\ r_cache (fst (push_all E (repeat p n) (or_new toi mx) c)) = repeat p n.
  Proof.
    intros Hp Hz Hmx.
    pose proof (cache_abandon_rule (repeat p n) (or_new toi mx) c eq_refl eq_refl) as R. cbv zeta in R.
    cbn [or_new r_max r_cache_size r_cache] in R. rewrite (abandon_at_zero_len p mx Hz Hmx n) in R.
    destruct R as (R1 & _ & R3 & _); [apply Forall_forall; intros x Hx; apply repeat_spec in Hx; subst x; exact Hp|].
    split; [exact R1|exact R3].
  Qed.
End Abandon2.

(* ---- receiver level: the abandoned object leaves the map and is counted in rv_error, which is
   then trimmed to cf_max_err by forgetting the smallest TOIs first (BTreeSet::pop_first) ---- *)
Section AbandonRecv.
  Variable E : env.
  Variable cfg : rconfig.

  Lemma gc_error_list : forall fuel r c, (length (rv_error r) <= fuel)%nat ->
    rv_error (fst (gc_error cfg fuel r c)) = skipn (length (rv_error r) - N.to_nat (cf_max_err cfg)) (rv_error r).
  Proof.
    induction fuel as [|f IH]; intros r c H; cbn [gc_error fst].
    - destruct (rv_error r); [reflexivity|cbn in H; lia].
    - destruct (N.ltb_spec (cf_max_err cfg) (N.of_nat (length (rv_error r)))) as [Hlt|Hge]; cbn [fst].
      + destruct (rv_error r) as [|toi rest] eqn:Er; [cbn in Hlt; lia|].
        match goal with |- context [remove_obj toi ?x c] =>
          pose proof (remove_obj_fields toi x c) as (_ & _ & R3 & _); destruct (remove_obj toi x c) as [r2 c2] end.
        cbn [fst rv_error] in R3. rewrite IH by (rewrite R3; cbn [length] in H; lia). rewrite R3.
        cbn [length] in *. replace (S (length rest) - N.to_nat (cf_max_err cfg))%nat
          with (S (length rest - N.to_nat (cf_max_err cfg))) by lia. reflexivity.
      + replace (length (rv_error r) - N.to_nat (cf_max_err cfg))%nat with O by lia. reflexivity.
  Qed.

  Lemma find_del_obj toi (l : list (N * objrecv)) : find (fun p => fst p =? toi) (del_obj toi l) = None.
  Proof.
    unfold del_obj. induction l as [|q l IH]; cbn [filter find]; [reflexivity|].
    destruct (fst q =? toi) eqn:Eq; cbn [negb find]; [exact IH|]. rewrite Eq. exact IH.
  Qed.

  Lemma get_put_obj r toi o o2 : get_obj r toi = Some o ->
    get_obj (set_objects r (put_obj toi o2 (rv_objects r))) toi = Some o2.
  Proof.
    unfold get_obj, put_obj. cbn [set_objects rv_objects]. intros H.
    destruct (find (fun p => fst p =? toi) (rv_objects r)) as [q|] eqn:Ef; [|discriminate]. clear H.
    assert (Ex : existsb (fun p : N * objrecv => fst p =? toi) (rv_objects r) = true).
    { apply existsb_exists. exists q. apply find_some in Ef. exact Ef. }
    rewrite Ex. clear Ex. induction (rv_objects r) as [|x l IH]; cbn [find map] in *; [discriminate|].
    destruct (fst x =? toi) eqn:Ex; cbn [fst]; [rewrite N.eqb_refl; reflexivity|]. rewrite Ex. apply IH. exact Ef.
  Qed.

  Theorem push_obj_abandons p now r c o :
    existsb (N.eqb (a_toi p)) (rv_completed r) = false -> existsb (N.eqb (a_toi p)) (rv_error r) = false ->
    get_obj r (a_toi p) = Some o -> r_state o = Receiving -> r_oti o = None -> a_oti p = None ->
    r_max o <= r_cache_size o ->
    let r' := snd (fst (push_obj E cfg p now r c)) in
    let l := insert_sorted (a_toi p) (rv_error r) in
    get_obj r' (a_toi p) = None
    /\ rv_error r' = skipn (length l - N.to_nat (cf_max_err cfg)) l
    /\ (length (rv_error r') <= N.to_nat (cf_max_err cfg))%nat.
  Proof.
    intros Hc He Hg Hs Ho Hp Hfull. cbv zeta. rewrite push_obj_eq. cbv zeta. rewrite Hc.
    unfold push_obj_tail1. cbv zeta. rewrite He. unfold push_obj_tail2. cbv zeta. rewrite Hg.
    unfold push_obj_tail3. cbv zeta. rewrite (or_push_nooti E p o c Hs Ho Hp).
    apply N.leb_le in Hfull. rewrite Hfull.
    destruct (error_fields (RecvTotalProofs.or_push_pre p o) false c) as (G1 & _).
    destruct (error (RecvTotalProofs.or_push_pre p o) false c) as [o2 c4]. cbn [fst] in G1.
    unfold check_state. rewrite (get_put_obj r (a_toi p) o o2 Hg), G1.
    match goal with |- context [gc_error cfg ?n ?x c4] =>
      pose proof (gc_error_list n x c4) as L; pose proof (gc_error_bound cfg n x c4) as B; destruct (gc_error cfg n x c4) as [r2 c2] end.
    cbn [fst rv_error] in L, B.
    pose proof (remove_obj_fields (a_toi p) r2 c2) as (R1 & _ & R3 & _). destruct (remove_obj (a_toi p) r2 c2) as [r5 c5].
    cbn [fst snd] in *. split; [|split].
    - unfold get_obj. rewrite R1, find_del_obj. reflexivity.
    - rewrite R3. apply L. lia.
    - rewrite R3. apply B. lia.
  Qed.
End AbandonRecv.

(* ================= Part 4: memory bounded by configuration ================= *)
(* what the receiver itself accounts for an object: the bytes of the cached datagrams and the
   declared lengths of the allocated blocks (r_alloc_size = sum of the block lengths k * E) *)
Definition obj_accounted (o : objrecv) : N := cache_bytes o + r_alloc_size o.
Definition recv_accounted (r : recv) : N := sumN' (map (fun q => obj_accounted (snd q)) (rv_objects r)).
Definition per_object_bound (cfg : rconfig) (maxpkt maxblk : N) : N := 2 * cf_max_cache cfg + maxpkt + 2 * maxblk.

Definition max_is_cfg (cfg : rconfig) (o : objrecv) : Prop := r_max o = cf_max_cache cfg.

Lemma bounds_accounted cfg maxpkt maxblk r :
  P_C17_bounds cfg maxpkt maxblk r = true -> Forall (fun q => max_is_cfg cfg (snd q)) (rv_objects r) ->
  recv_accounted r <= lenN_ (rv_objects r) * per_object_bound cfg maxpkt maxblk.
Proof.
  unfold P_C17_bounds. intros H F. apply andb_prop in H. destruct H as [H _]. apply andb_prop in H. destruct H as [H _].
  rewrite forallb_forall in H. unfold recv_accounted, lenN_, sumN'.
  induction (rv_objects r) as [|q l IH]; cbn [map fold_right length]; [lia|].
  inversion F as [|? ? Fq Fl]; subst.
  assert (Hq : P_C17_object maxpkt maxblk (snd q) = true) by (apply H; left; reflexivity).
  unfold P_C17_object in Hq. apply andb_prop in Hq. destruct Hq as [Q1 Q2]. apply N.leb_le in Q1, Q2.
  unfold max_is_cfg in Fq. rewrite Fq in Q1, Q2.
  assert (IH' := IH (fun x Hx => H x (or_intror Hx)) Fl).
  unfold obj_accounted, per_object_bound in *. rewrite Nat2N.inj_succ. lia.
Qed.

(* every reachable state, any history: r_max of every object is the configured cache size; FDT
   receivers are filed under their id and are Receiving or Expired; at most 10 current instances *)
Theorem reachable_invariants E parse_fdt cfg evs :
  let '(_, r, _) := recv_run E parse_fdt cfg recv0 evs ctx0 in
  Forall (fun q => max_is_cfg cfg (snd q)) (rv_objects r) /\ FI r.
Proof.
  pose proof (recv_run_Inv E parse_fdt cfg (max_is_cfg cfg)) as R.
  specialize (R (fun E' p o c H => eq_trans (or_push_max E' p o c) H)).
  specialize (R (fun id files ioti o c H => eq_trans (or_attach_max E id files ioti o c) H)).
  specialize (R (fun toi => eq_refl) evs recv0 ctx0 (Inv_recv0 (max_is_cfg cfg))).
  destruct (recv_run E parse_fdt cfg recv0 evs ctx0) as [[xs r] c]. exact R.
Qed.

(* G3, what is proved: in every reachable state (bounded inputs) the bytes the receiver accounts
   are bounded by the NUMBER OF OBJECTS IN FLIGHT times a constant of the configuration; the
   failed list and the current FDT instances by configuration alone.  The number of objects (and
   of FDT receivers) is not bounded by configuration: it is bounded by the traffic (distinct
   TOIs / instance ids seen) and released by the time-outs (cleanup_all_reachable). *)
Theorem memory_bounded_partial E parse_fdt cfg evs maxpkt maxblk :
  C17_inputs_bounded parse_fdt evs maxpkt maxblk ->
  let '(_, r, _) := recv_run E parse_fdt cfg recv0 evs ctx0 in
  recv_accounted r <= lenN_ (rv_objects r) * per_object_bound cfg maxpkt maxblk
  /\ lenN_ (rv_error r) <= cf_max_err cfg
  /\ lenN_ (rv_fdt_current r) <= 10.
Proof.
  intros Hb. pose proof (C17_bounds_proved E parse_fdt cfg evs maxpkt maxblk Hb) as B.
  pose proof (reachable_invariants E parse_fdt cfg evs) as R.
  destruct (recv_run E parse_fdt cfg recv0 evs ctx0) as [[xs r] c]. destruct R as [R _].
  split; [apply bounds_accounted; assumption|].
  unfold P_C17_bounds in B. apply andb_prop in B. destruct B as [B B3]. apply andb_prop in B. destruct B as [_ B2].
  apply N.leb_le in B2, B3. split; assumption.
Qed.

(* D47.  Before the repair of D47 the full reading - the bytes HELD (recv_ledger: cached datagrams + the symbols held
   by the block decoders + FDT data) bounded the same way - was FALSE of the model: a block decoder kept every symbol
   as received, whatever its length (63 datagrams of 1424 bytes for E = 1: 88200 bytes held, 64 accounted).
   BlockDecoder::push now discards a symbol longer than the encoding symbol length E.  What is true now, for the
   objects in flight (rv_objects), under C17_inputs_bounded and the hypothesis fec_out_ok on the decoder ORACLE of
   the model (a decoder returns at most k * E bytes): *)
Definition blocks_held (o : objrecv) : N := sumN' (map shard_bytes (r_blocks o)).
Lemma obj_ledger_split o : obj_ledger o = cache_bytes o + blocks_held o.
Proof. reflexivity. Qed.
Definition obj_held_mult (o : objrecv) : N :=
  match r_oti o with Some oti => held_mult (ro_fec oti) | None => 0 end.
(* the largest of the per-scheme multiples (RaptorQ: one symbol per 24-bit ESI, and the decoded block) *)
Definition held_mult_max : N := 16777217.
Lemma held_mult_le f : held_mult f <= held_mult_max.
Proof. destruct f; cbn; unfold held_mult_max; lia. Qed.
Definition per_object_held_bound (cfg : rconfig) (maxpkt maxblk : N) : N :=
  cf_max_cache cfg + maxpkt + 4097 * (held_mult_max * maxblk).

Lemma sum_le_const {A} (f : A -> N) c l : (forall x, In x l -> f x <= c) -> sumN' (map f l) <= lenN_ l * c.
Proof.
  unfold sumN', lenN_. induction l as [|x l IH]; intros H; cbn [map fold_right length]; [lia|].
  rewrite Nat2N.inj_succ. pose proof (H x (or_introl eq_refl)). specialize (IH (fun y Hy => H y (or_intror Hy))). lia.
Qed.

(* (1) per block decoder: ACCOUNTED (bd_size, what r_alloc_size sums) <= NOMINAL block size k * E <= maxblk, and
   HELD <= (max_syms + k) * E: at most max_syms stored symbols of at most E bytes - No-Code k, Reed-Solomon k + parity
   (<= 256), RaptorQ / Raptor one per ESI of the payload id (2^24 / 2^16: every new ESI is kept until the decoder
   answers) - and a decoded block of at most k * E bytes; a deallocated decoder holds nothing; an object has at
   most 4097 block decoders; an object that is Receiving accounts exactly the bd_size of its blocks *)
Theorem held_bytes_bounded_by_accounted E parse_fdt cfg evs maxpkt maxblk :
  C17_inputs_bounded parse_fdt evs maxpkt maxblk -> fec_out_ok E ->
  let '(_, r, _) := recv_run E parse_fdt cfg recv0 evs ctx0 in
  forall q, In q (rv_objects r) ->
    let o := snd q in
    (r_state o = Receiving -> r_alloc_size o = sumN' (map bd_size (r_blocks o)))
    /\ match r_oti o with
       | None => r_blocks o = []
       | Some oti =>
         (length (r_blocks o) <= 4097)%nat
         /\ forall b, In b (r_blocks o) ->
              bd_size b <= bd_k b * ro_e oti /\ bd_k b * ro_e oti <= maxblk
              /\ shard_bytes b <= (max_syms oti (bd_k b) + bd_k b) * ro_e oti
              /\ (bd_alloc b = false -> shard_bytes b = 0)
              /\ shard_bytes b <= held_mult (ro_fec oti) * maxblk
       end.
Proof.
  intros Hb Hfec. pose proof (C17_held_proved E parse_fdt cfg evs maxpkt maxblk Hb Hfec) as H.
  pose proof (C17_acct_proved E parse_fdt cfg evs maxpkt maxblk Hb) as A.
  destruct (recv_run E parse_fdt cfg recv0 evs ctx0) as [[xs r] c].
  intros q Hq. rewrite Forall_forall in H, A. specialize (H q Hq). specialize (A q Hq). cbv zeta.
  split; [exact A|]. unfold HB in H. destruct (r_oti (snd q)) as [oti|]; [|exact H].
  destruct H as [F L]. split; [exact L|]. intros b Hin. rewrite Forall_forall in F. specialize (F b Hin).
  destruct (held_b_bytes maxblk oti b F) as [B1 B2].
  split; [exact (hb_size _ _ _ F)|]. split; [exact (hb_nom _ _ _ F)|]. split; [exact B1|]. split; [exact B2|].
  exact (held_b_cfg maxblk oti b F).
Qed.

(* (2) per object: the block decoders hold at most 4097 * (multiple of the scheme) * maxblk bytes *)
Theorem blocks_held_bounded E parse_fdt cfg evs maxpkt maxblk :
  C17_inputs_bounded parse_fdt evs maxpkt maxblk -> fec_out_ok E ->
  let '(_, r, _) := recv_run E parse_fdt cfg recv0 evs ctx0 in
  forall q, In q (rv_objects r) -> blocks_held (snd q) <= 4097 * (obj_held_mult (snd q) * maxblk).
Proof.
  intros Hb Hfec. pose proof (held_bytes_bounded_by_accounted E parse_fdt cfg evs maxpkt maxblk Hb Hfec) as H.
  destruct (recv_run E parse_fdt cfg recv0 evs ctx0) as [[xs r] c].
  intros q Hq. specialize (H q Hq). cbv zeta in H. destruct H as [_ H]. unfold blocks_held, obj_held_mult.
  destruct (r_oti (snd q)) as [oti|]; [|rewrite H; cbn; lia].
  destruct H as [L F].
  pose proof (sum_le_const shard_bytes (held_mult (ro_fec oti) * maxblk) (r_blocks (snd q))
                (fun b Hin => proj2 (proj2 (proj2 (proj2 (F b Hin)))))) as S.
  unfold lenN_ in S. nia.
Qed.

(* (3) G3, memory bounded by configuration, THE OBJECT PART: the bytes HELD for the objects in flight (cached
   datagrams + what their block decoders hold) are at most (objects in flight) * (cache + maxpkt + 4097 * 16777217 *
   maxblk) - a constant of the configuration and of the bounds on the inputs.  The number of objects in flight is
   not bounded by configuration (it follows the traffic and is released by the time-outs), nor is the FDT part of
   recv_ledger (FDT receivers follow the traffic too and have their own limit of 1 MiB each) *)
Theorem memory_bounded_by_configuration E parse_fdt cfg evs maxpkt maxblk :
  C17_inputs_bounded parse_fdt evs maxpkt maxblk -> fec_out_ok E ->
  let '(_, r, _) := recv_run E parse_fdt cfg recv0 evs ctx0 in
  sumN' (map (fun q => obj_ledger (snd q)) (rv_objects r)) <= lenN_ (rv_objects r) * per_object_held_bound cfg maxpkt maxblk
  /\ lenN_ (rv_error r) <= cf_max_err cfg
  /\ lenN_ (rv_fdt_current r) <= 10.
Proof.
  intros Hb Hfec. pose proof (C17_bounds_proved E parse_fdt cfg evs maxpkt maxblk Hb) as B.
  pose proof (reachable_invariants E parse_fdt cfg evs) as R.
  pose proof (blocks_held_bounded E parse_fdt cfg evs maxpkt maxblk Hb Hfec) as H.
  destruct (recv_run E parse_fdt cfg recv0 evs ctx0) as [[xs r] c]. destruct R as [R _].
  unfold P_C17_bounds in B. apply andb_prop in B. destruct B as [B B3]. apply andb_prop in B. destruct B as [B1 B2].
  apply N.leb_le in B2, B3. split; [|split; assumption].
  apply sum_le_const. intros q Hq. rewrite obj_ledger_split.
  rewrite forallb_forall in B1. specialize (B1 q Hq). unfold P_C17_object in B1. apply andb_prop in B1.
  destruct B1 as [C1 _]. apply N.leb_le in C1.
  rewrite Forall_forall in R. specialize (R q Hq). unfold max_is_cfg in R. rewrite R in C1.
  specialize (H q Hq).
  assert (M : obj_held_mult (snd q) <= held_mult_max).
  { unfold obj_held_mult. destruct (r_oti (snd q)); [apply held_mult_le|unfold held_mult_max; lia]. }
  unfold per_object_held_bound. nia.
Qed.

(* the scenario that refuted the full reading before D47 - a No-Code object announced with E = 1, B = 64, transfer
   length 64 (one block of 64 bytes, within maxblk = 64) whose 63 first symbols arrive in datagrams of 1424 bytes
   carrying 1400-byte "symbols": every one of them is now discarded *)
Definition c17_long_symbol_pkt (i : nat) : apkt :=
  mk_apkt 5 false false None
          (match i with O => Some (mk_roti FNoCode 1 64 0 None, 64) | _ => None end)
          None None 0 [0; 0; 0; N.of_nat i] (repeat 7 1400) 1424.
Definition c17_long_symbol_evs : list rev := map (fun i => RvPush (c17_long_symbol_pkt i) 0%Z) (seq 0 63).
Definition c17_long_symbol_final : recv :=
  snd (fst (recv_run c17_ex_env c17_ex_nofdt (c17_ex_cfg 64) recv0 c17_long_symbol_evs ctx0)).

Lemma c17_long_symbol_inputs_bounded : C17_inputs_bounded c17_ex_nofdt c17_long_symbol_evs 1500 64.
Proof. exists 0. split; [vm_compute; reflexivity|intros d i H; discriminate H]. Qed.
Lemma c17_ex_env_fec_out_ok : fec_out_ok c17_ex_env.
Proof. intros toi f sbn k e size sh d H. discriminate H. Qed.

(* what is still NOT bounded by the configuration of the receiver: the full ledger, by its FDT part.  The packets of
   the FDT (TOI 0) are not constrained by C17_inputs_bounded, and an FDT receiver obeys its own limit (1 MiB), not
   cf_max_cache: one half-received FDT instance announced with E = 1400, 20 symbols, of which 15 have arrived *)
Definition ledger_bounded (cfg : rconfig) (maxpkt maxblk : N) (r : recv) : Prop :=
  recv_ledger r <= (lenN_ (rv_objects r) + lenN_ (rv_fdt_receivers r) + 10) * per_object_bound cfg maxpkt maxblk.
Definition memory_bounded_full : Prop :=
  forall E parse_fdt cfg evs maxpkt maxblk,
    C17_inputs_bounded parse_fdt evs maxpkt maxblk -> fec_out_ok E ->
    ledger_bounded cfg maxpkt maxblk (snd (fst (recv_run E parse_fdt cfg recv0 evs ctx0))).
Definition c17_big_fdt_pkt (i : nat) : apkt :=
  mk_apkt 0 false false (Some 1) (Some (mk_roti FNoCode 1400 64 0 None, 28000)) None None 0
          [0; 0; 0; N.of_nat i] (repeat 7 1400) 1424.
Definition c17_big_fdt_evs : list rev := map (fun i => RvPush (c17_big_fdt_pkt i) 0%Z) (seq 0 15).
Lemma c17_big_fdt_inputs_bounded : C17_inputs_bounded c17_ex_nofdt c17_big_fdt_evs 1500 64.
Proof. exists 0. split; [vm_compute; reflexivity|intros d i H; discriminate H]. Qed.
Lemma c17_big_fdt_core :
  ((lenN_ (rv_objects (snd (fst (recv_run c17_ex_env c17_ex_nofdt (c17_ex_cfg 64) recv0 c17_big_fdt_evs ctx0))))
    + lenN_ (rv_fdt_receivers (snd (fst (recv_run c17_ex_env c17_ex_nofdt (c17_ex_cfg 64) recv0 c17_big_fdt_evs ctx0)))) + 10)
   * per_object_bound (c17_ex_cfg 64) 1500 64
   <? recv_ledger (snd (fst (recv_run c17_ex_env c17_ex_nofdt (c17_ex_cfg 64) recv0 c17_big_fdt_evs ctx0)))) = true.
Proof. vm_compute. reflexivity. Qed.
Theorem memory_bounded_full_refuted : ~ memory_bounded_full.
Proof.
  intros H.
  pose proof (H c17_ex_env c17_ex_nofdt (c17_ex_cfg 64) c17_big_fdt_evs 1500 64 c17_big_fdt_inputs_bounded c17_ex_env_fec_out_ok) as K.
  unfold ledger_bounded in K. pose proof c17_big_fdt_core as L. apply N.ltb_lt in L. lia.
Qed.

(* the number of FDT receivers follows the traffic: n half-received instances with distinct ids *)
Definition c17_many_fdt (n : nat) : list rev :=
  map (fun i => RvPush (mk_apkt 0 false false (Some (N.of_nat (S i))) (Some (mk_roti FNoCode 4 64 0 None, 8)) None None 0
                                [0;0;0;0] [60;70;80;90] 36) 0%Z) (seq 0 n).

(* the number of objects in flight is bounded by traffic only: n distinct TOIs, n objects *)
Definition c17_many_tois (n : nat) : list rev :=
  map (fun i => RvPush (mk_apkt (N.of_nat (S i)) false false None None None None 0 [0;0;0;0] [1;2;3;4] 28) 0%Z) (seq 0 n).

(* ---- history-level statements for Properties/C17.v ---- *)
Theorem cleanup_terminal_calls_history E parse_fdt cfg evs :
  let '(_, r, c) := recv_run E parse_fdt cfg recv0 evs ctx0 in
  forall now expired expired_fdt k o w,
    In (k, o) (rv_objects r) -> memN k expired = true -> r_writer o = Some (w, WOpened) ->
    C09Full.runw w (c_log (snd (recv_step E parse_fdt cfg r (RvCleanup now expired expired_fdt) c))) = Some PhDone.
Proof.
  pose proof (C09Full.recv_run_inv E parse_fdt cfg evs recv0 ctx0 C09Full.RInv0) as R.
  destruct (recv_run E parse_fdt cfg recv0 evs ctx0) as [[xs r] c]. unfold C09Full.RIr in R. cbn [fst snd] in R.
  intros now expired expired_fdt k o w. apply (cleanup_terminates_writers E parse_fdt cfg r c now expired expired_fdt R).
Qed.

Theorem cleanup_all_reachable E parse_fdt cfg evs :
  let '(_, r, c) := recv_run E parse_fdt cfg recv0 evs ctx0 in
  forall now expired expired_fdt,
    (forall q, In q (rv_objects r) -> memN (fst q) expired = true) ->
    (forall q, In q (rv_fdt_receivers r) -> fr_state (snd q) = FReceiving -> memN (fst q) expired_fdt = true) ->
    let r' := snd (fst (recv_step E parse_fdt cfg r (RvCleanup now expired expired_fdt) c)) in
    rv_objects r' = [] /\ rv_fdt_receivers r' = []
    /\ rv_fdt_current r' = rv_fdt_current r /\ (length (rv_fdt_current r) <= 10)%nat
    /\ recv_ledger r' = sumN' (map fdt_ledger (rv_fdt_current r)).
Proof.
  pose proof (reachable_invariants E parse_fdt cfg evs) as R.
  destruct (recv_run E parse_fdt cfg recv0 evs ctx0) as [[xs r] c]. destruct R as [_ [Fk Fl]].
  intros now expired expired_fdt Ho Hf. cbv zeta.
  destruct (cleanup_state E parse_fdt cfg r c now expired expired_fdt) as [St _]. rewrite St.
  assert (Ef : rv_fdt_receivers (cleanup_result now expired expired_fdt r) = []).
  { destruct (rv_fdt_receivers (cleanup_result now expired expired_fdt r)) as [|q l] eqn:El; [reflexivity|exfalso].
    assert (Hq : In q (rv_fdt_receivers (cleanup_result now expired expired_fdt r))) by (rewrite El; left; reflexivity).
    destruct (cleanup_all now expired expired_fdt r Ho Hf) as (_ & A2 & _).
    pose proof (A2 q Hq) as Sq.
    destruct (cleanup_fdt_from_before _ _ _ _ q Hq) as (q0 & Hq0 & _ & Es).
    rewrite Forall_forall in Fk. destruct (Fk q0 Hq0) as [_ [K|K]]; congruence. }
  destruct (cleanup_all now expired expired_fdt r Ho Hf) as (A1 & A2 & A3). cbv zeta in A3.
  split; [exact A1|]. split; [exact Ef|]. split; [reflexivity|]. split; [exact Fl|].
  rewrite A3, Ef. cbn [map]. unfold sumN' at 1. cbn [fold_right]. lia.
Qed.

(* ================= concrete inputs for the examples of Properties/C17.v ================= *)
Definition c17c_oti : roti := mk_roti FNoCode 4 64 0 None.
(* the FDT oracle: one file, TOI 5, 8 bytes, No-Code E = 4 *)
Definition c17c_parse : list N -> option fdtinst :=
  fun _ => Some (mk_fi [mk_ff 5 CNull (Some c17c_oti) 8 None None false] None (Some 1000%Z)).
(* FDT instance 1, complete in one packet *)
Definition c17c_fdt_pkt : apkt := mk_apkt 0 false false (Some 1) (Some (c17c_oti, 4)) None None 0 [0;0;0;0] [60;70;80;90] 36.
(* first half of an FDT instance that never completes *)
Definition c17c_half_fdt_pkt (id : N) : apkt :=
  mk_apkt 0 false false (Some id) (Some (c17c_oti, 8)) None None 0 [0;0;0;0] [60;70;80;90] 36.
Definition c17c_obj_pkt (toi esi : N) : apkt := mk_apkt toi false false None None None None 0 [0;0;0;esi] [1;2;3;4] 36.
(* TOI 5 is announced by the FDT (writer opened, one of two symbols received); TOI 6 is not
   (two datagrams cached); FDT instances 2 and 3 are half received *)
Definition c17c_evs : list rev :=
  [RvPush c17c_fdt_pkt 0%Z; RvPush (c17c_obj_pkt 5 0) 0%Z; RvPush (c17c_obj_pkt 6 0) 0%Z; RvPush (c17c_obj_pkt 6 1) 0%Z;
   RvPush (c17c_half_fdt_pkt 2) 0%Z; RvPush (c17c_half_fdt_pkt 3) 0%Z].
Definition c17c_cfg (check : bool) : rconfig := mk_rcfg 5 64 false check.
Definition c17c_run (check : bool) := recv_run c17_ex_env c17c_parse (c17c_cfg check) recv0 c17c_evs ctx0.
Definition c17c_after (check : bool) (expired expired_fdt : list N) :=
  recv_step c17_ex_env c17c_parse (c17c_cfg check) (snd (fst (c17c_run check))) (RvCleanup 0%Z expired expired_fdt) (snd (c17c_run check)).
(* a datagram of 40 bytes whose encoding symbol is empty *)
Definition c17c_empty_symbol_pkt : apkt := mk_apkt 5 false false None None None None 0 [0;0;0;1] [] 40.
(* a "datagram" of length 0: impossible on the wire, possible in the model *)
Definition c17c_zero_len_pkt : apkt := mk_apkt 5 false false None None None None 0 [0;0;0;1] [] 0.

(* combined forms quoted by Properties/C17.v *)
Lemma cleanup_releases_objects_both now expired expired_fdt r :
  (forall q, In q (rv_objects (cleanup_result now expired expired_fdt r)) -> memN (fst q) expired = false)
  /\ (forall toi, memN toi expired = true -> get_obj (cleanup_result now expired expired_fdt r) toi = None).
Proof. split; [apply cleanup_releases_objects|apply cleanup_get_obj_none]. Qed.
Lemma cleanup_releases_fdt_both now expired expired_fdt r q :
  In q (rv_fdt_receivers (cleanup_result now expired expired_fdt r)) ->
  (fr_state (snd q) = FComplete \/ (fr_state (snd q) = FReceiving /\ memN (fst q) expired_fdt = false))
  /\ exists q0, In q0 (rv_fdt_receivers r) /\ q = (fst q0, fr_update_expired (snd q0) now) /\ fr_state (snd q0) = fr_state (snd q).
Proof. intros H. split; [apply (cleanup_releases_fdt now expired expired_fdt r)|apply (cleanup_fdt_from_before now expired expired_fdt r)]; exact H. Qed.
